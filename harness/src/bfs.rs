//! E2: explicit-state exploration of operation histories on the *real* object.
//!
//! A `Sut` bundles the real ohsl value with its boring reference model. `step` applies one public
//! operation to both and compares through every observer. The explorer is a level-synchronous,
//! deterministic, parallel breadth-first search: states are deduplicated on their complete canonical
//! key (the full content of the object - merged states are identical objects and so have identical
//! futures), every transition is an execution of the implementation, and the first violation found is
//! a shortest one. A stateright adapter runs the same `Sut` under stateright's BFS checker as an
//! independent cross-check of the state counts.
use crate::core::*;
use rayon::prelude::*;
use serde_json::{json, Value};
use std::collections::{BTreeMap, HashSet};
use std::fmt::Debug;
use std::time::Instant;

pub type Key = Vec<i128>;

pub trait Sut: Clone {
    type Act: Clone + Debug + Send + Sync;
    /// complete canonical content of the state (both halves agree whenever no violation was reported)
    fn key(&self) -> Key;
    /// enabled operations, deterministic order, simplest first
    fn actions(&self) -> Vec<Self::Act>;
    /// apply to implementation and model, compare; Err = violation description. `hits` receives vacuity classes.
    fn step(&mut self, a: &Self::Act, hits: &mut Vec<&'static str>) -> Result<(), String>;
    /// Called on the (cloned) state right before every `step`: run the read-only queries of the real object so that
    /// anything they might remember (caches, scratch buffers, lazily built structures) exists when the mutation arrives.
    /// "query; mutate; query" on ONE object is what exposes a missed invalidation - a clone or a fresh twin would not.
    fn warm(&self) {}
    /// consistency of a state on its own (used for the initial states)
    fn check(&self) -> Result<(), String> {
        Ok(())
    }
    /// classes a state belongs to (vacuity counters over unique states)
    fn classes(&self, _hits: &mut Vec<&'static str>) {}
    fn show(&self) -> String {
        format!("{:?}", self.key())
    }
}

/// A state object is only ever touched by one worker at a time (each frontier entry is expanded by exactly one rayon
/// task, successors are moved, never shared). The wrapper lets the explorer handle objects that are not `Send`/`Sync`
/// themselves - e.g. after a change that adds a `RefCell`/`Cell` cache to an ohsl type - instead of failing to build.
pub struct Own<T>(pub T);
unsafe impl<T> Send for Own<T> {}
unsafe impl<T> Sync for Own<T> {}

/// whether the read-only `warm` queries are issued before each step (default) - a query between two writes can HEAL hidden state (a lazily
/// invalidated flag re-validated by the query), so the clone-free exploration is also run without them (round 16)
pub static WARM: std::sync::atomic::AtomicBool = std::sync::atomic::AtomicBool::new(true);
fn warm_on() -> bool {
    WARM.load(std::sync::atomic::Ordering::SeqCst)
}

pub struct BfsOpts {
    pub max_depth: usize,
    pub state_cap: u64,
}

struct Node {
    parent: u32,
    act: u32,
}

pub fn fingerprint(k: &Key) -> u128 {
    use std::hash::{BuildHasher, Hash, Hasher};
    // std's RandomState is randomly keyed; fixed keys are needed for reproducible counts: use two fixed-key hashers
    let mut h1 = std::collections::hash_map::DefaultHasher::new();
    0x9e3779b97f4a7c15u64.hash(&mut h1);
    k.hash(&mut h1);
    let mut h2 = std::collections::hash_map::DefaultHasher::new();
    0xc2b2ae3d27d4eb4fu64.hash(&mut h2);
    k.len().hash(&mut h2);
    for v in k.iter().rev() {
        v.hash(&mut h2);
    }
    let _ = std::collections::hash_map::RandomState::new().build_hasher();
    ((h1.finish() as u128) << 64) | h2.finish() as u128
}

pub fn replay_path<S: Sut>(init: &S, path: &[u64]) -> (Vec<String>, Result<S, String>) {
    let mut s = init.clone();
    let mut names = vec![];
    for &ai in path {
        let acts = s.actions();
        if ai as usize >= acts.len() {
            return (names, Err(format!("replay diverged: action index {} not enabled ({} actions)", ai, acts.len())));
        }
        let a = acts[ai as usize].clone();
        names.push(format!("{:?}", a));
        let mut hits = vec![];
        // clone-free: the whole path runs on one object
        if warm_on() {
                let _ = catch(|| s.warm());
            }
        let res = catch(|| s.step(&a, &mut hits));
        match res {
            Ok(Ok(())) => {}
            Ok(Err(e)) => return (names, Err(e)),
            Err(p) => return (names, Err(format!("unexpected panic: {}", p))),
        }
    }
    (names, Ok(s))
}

pub fn explore<S: Sut>(ctx: &Ctx, name: &str, inits: Vec<S>, opts: BfsOpts) {
    if let Some(rp) = &ctx.replay {
        if rp.space != name {
            return;
        }
        let init_i = rp.extra["init"].as_u64().unwrap_or(0) as usize;
        let path: Vec<u64> = rp.extra["path"].as_array().map(|a| a.iter().map(|v| v.as_u64().unwrap()).collect()).unwrap_or_default();
        let mut acc = Acc::new(name);
        acc.begin_case();
        if init_i >= inits.len() {
            ctx.machinery_error(format!("replay init index {} out of range", init_i));
            return;
        }
        let (names, res) = replay_path(&inits[init_i], &path);
        eprintln!("REPLAY space={} init={} path={:?}", name, init_i, names);
        match res {
            Ok(s) => eprintln!("REPLAY-OK final state {}", s.show()),
            Err(e) => {
                eprintln!("REPLAY-VIOLATION {}", e);
                acc.fail_extra(0, format!("init#{} {}", init_i, names.join(" ; ")), e, rp.extra.clone());
            }
        }
        ctx.absorb(name, "E2-bfs", 1, 1, false, acc, vec![json!(names)], 0.0);
        return;
    }
    let t0 = Instant::now();
    // 128-bit fingerprints of the complete canonical keys (two independently keyed SipHash-1-3 passes); the chance of
    // a collision among 1e8 states is below 1e-22, far below any other source of doubt, and it keeps memory bounded
    let mut seen: HashSet<u128> = HashSet::new();
    let mut nodes: Vec<Node> = vec![];
    let mut frontier: Vec<Own<(S, u32)>> = vec![];
    let mut viols: Vec<Viol> = vec![];
    let mut viol_total = 0u64;
    let mut hits: BTreeMap<&'static str, u64> = BTreeMap::new();
    let mut transitions = 0u64;
    let mut nontrivial_states = 0u64;
    let mut samples: Vec<Value> = vec![];
    let path_of = |nodes: &Vec<Node>, mut id: u32| -> (usize, Vec<u64>) {
        let mut p = vec![];
        loop {
            let n = &nodes[id as usize];
            if n.parent == u32::MAX {
                p.reverse();
                return (n.act as usize, p);
            }
            p.push(n.act as u64);
            id = n.parent;
        }
    };
    for (i, s) in inits.iter().enumerate() {
        let chk = match catch(|| s.check()) {
            Ok(r) => r,
            Err(p) => Err(format!("unexpected panic: {}", p)),
        };
        if let Err(e) = chk {
            viol_total += 1;
            viols.push(Viol { space: name.to_string(), idx: 0, key: format!("init#{}", i), detail: e, extra: json!({"init": i, "path": []}) });
            continue;
        }
        if seen.insert(fingerprint(&s.key())) {
            nodes.push(Node { parent: u32::MAX, act: i as u32 });
            frontier.push(Own((s.clone(), (nodes.len() - 1) as u32)));
            let mut h = vec![];
            s.classes(&mut h);
            for c in h {
                *hits.entry(c).or_insert(0) += 1;
            }
        }
    }
    let mut depth = 0usize;
    let mut cap = false;
    let mut last_level_dropped = 0u64;
    let mut level_sizes = vec![frontier.len() as u64];
    while !frontier.is_empty() && depth < opts.max_depth {
        let mut next: Vec<Own<(S, u32)>> = vec![];
        for chunk in frontier.chunks(8192) {
            if ctx.over_budget() || seen.len() as u64 > opts.state_cap {
                cap = true;
                break;
            }
            // expand in parallel; results keep frontier order
            let expanded: Vec<Own<Vec<(u32, u32, Result<(S, Key), String>, Vec<&'static str>)>>> = chunk
                .par_iter()
                .map(|own| {
                    let (s, id) = &own.0;
                    let acts = s.actions();
                    let mut out = Vec::with_capacity(acts.len());
                    for (ai, a) in acts.iter().enumerate() {
                        let mut n = s.clone();
                        let mut h: Vec<&'static str> = vec![];
                        if warm_on() {
                let _ = catch(|| n.warm());
            }
                        let res = catch(|| n.step(a, &mut h));
                        let r = match res {
                            Ok(Ok(())) => {
                                let k = n.key();
                                Ok((n, k))
                            }
                            Ok(Err(e)) => Err(e),
                            Err(p) => Err(format!("unexpected panic: {}", p)),
                        };
                        out.push((*id, ai as u32, r, h));
                    }
                    Own(out)
                })
                .collect();
            for per_state in expanded {
                for (pid, ai, r, h) in per_state.0 {
                    transitions += 1;
                    for c in h {
                        *hits.entry(c).or_insert(0) += 1;
                    }
                    match r {
                        Ok((n, k)) => {
                            if seen.insert(fingerprint(&k)) {
                                nodes.push(Node { parent: pid, act: ai });
                                let nid = (nodes.len() - 1) as u32;
                                let mut h2 = vec![];
                                n.classes(&mut h2);
                                if !h2.is_empty() {
                                    nontrivial_states += 1;
                                }
                                for c in h2 {
                                    *hits.entry(c).or_insert(0) += 1;
                                }
                                // states of the last level are never expanded: keep a few for the samples only
                                if depth + 1 < opts.max_depth || next.len() < 64 {
                                    next.push(Own((n, nid)));
                                } else {
                                    last_level_dropped += 1;
                                }
                            }
                        }
                        Err(e) => {
                            viol_total += 1;
                            if viols.len() < 12 {
                                let (init_i, mut p) = path_of(&nodes, pid);
                                p.push(ai as u64);
                                let (names, _) = replay_path(&inits[init_i], &p);
                                viols.push(Viol {
                                    space: name.to_string(),
                                    idx: transitions,
                                    key: format!("init#{} {}", init_i, names.join(" ; ")),
                                    detail: e,
                                    extra: json!({"init": init_i, "path": p}),
                                });
                            }
                        }
                    }
                }
            }
        }
        if cap {
            break;
        }
        depth += 1;
        level_sizes.push(next.len() as u64 + last_level_dropped);
        if depth == opts.max_depth || next.is_empty() {
            // sample: the last newly discovered state and its history
            if let Some(Own((s, id))) = next.last().or(frontier.last()) {
                let (init_i, p) = path_of(&nodes, *id);
                let (names, _) = replay_path(&inits[init_i], &p);
                samples.push(json!({"init": init_i, "history": names, "state": s.show()}));
            }
            if let Some(Own((s, id))) = next.get(next.len() / 2) {
                let (init_i, p) = path_of(&nodes, *id);
                let (names, _) = replay_path(&inits[init_i], &p);
                samples.push(json!({"init": init_i, "history": names, "state": s.show()}));
            }
        }
        frontier = next;
    }
    let mut s = SpaceSummary::new(name, "E2-bfs");
    s.len = seen.len() as u64;
    s.completed = seen.len() as u64;
    s.cap_hit = cap;
    s.evals = transitions;
    s.nontrivial = nontrivial_states;
    s.states = seen.len() as u64;
    s.transitions = transitions;
    s.depth = depth as u64;
    for (k, v) in hits {
        s.hits.insert(k.to_string(), v);
    }
    s.samples = samples;
    s.viol_total = viol_total;
    s.wall_s = t0.elapsed().as_secs_f64();
    s.notes.push(format!("level sizes (new unique states per depth): {:?}", level_sizes));
    if cap {
        s.notes.push(format!("cap hit: levels 0..{} fully expanded, level {} partially", depth, depth + 1));
    }
    ctx.push_space(s, viols);
}

/// Replay-mode exploration: the same breadth-first search over operation histories, but no state object is ever
/// cloned. Every successor is produced by replaying its complete history (with the read-only `warm` queries before each
/// step) on ONE object started from the initial state. Whatever a clone would normalise away - spare capacity of a
/// buffer, a cache, a lazily built index, a stale tail - therefore survives along the path, exactly as it would in a
/// user's program. States are still deduplicated on the observable key (so the search stays finite); the price is
/// O(depth) work per transition, hence the smaller depth bounds.
pub fn explore_replayed<S: Sut>(ctx: &Ctx, name: &str, inits: Vec<S>, opts: BfsOpts) {
    if let Some(rp) = &ctx.replay {
        if rp.space != name {
            return;
        }
        // the replay of a recorded path is by construction clone-free as well
        return explore(ctx, name, inits, opts);
    }
    let t0 = Instant::now();
    let mut seen: HashSet<u128> = HashSet::new();
    let mut nodes: Vec<Node> = vec![];
    let mut frontier: Vec<u32> = vec![];
    let mut viols: Vec<Viol> = vec![];
    let mut viol_total = 0u64;
    let mut hits: BTreeMap<&'static str, u64> = BTreeMap::new();
    let mut transitions = 0u64;
    let mut samples: Vec<Value> = vec![];
    let path_of = |nodes: &Vec<Node>, mut id: u32| -> (usize, Vec<u64>) {
        let mut p = vec![];
        loop {
            let n = &nodes[id as usize];
            if n.parent == u32::MAX {
                p.reverse();
                return (n.act as usize, p);
            }
            p.push(n.act as u64);
            id = n.parent;
        }
    };
    // rebuild the object reached by `path` from init, on one object; None if the path no longer applies
    fn rebuild<S: Sut>(init: &S, path: &[u64]) -> Option<S> {
        let mut s = init.clone();
        for &ai in path {
            let acts = s.actions();
            let a = acts.get(ai as usize)?.clone();
            if warm_on() {
                let _ = catch(|| s.warm());
            }
            let mut h = vec![];
            match catch(|| s.step(&a, &mut h)) {
                Ok(Ok(())) => {}
                _ => return None,
            }
        }
        Some(s)
    }
    for (i, s) in inits.iter().enumerate() {
        if seen.insert(fingerprint(&s.key())) {
            nodes.push(Node { parent: u32::MAX, act: i as u32 });
            frontier.push((nodes.len() - 1) as u32);
        }
    }
    let mut depth = 0usize;
    let mut cap = false;
    let mut level_sizes = vec![frontier.len() as u64];
    while !frontier.is_empty() && depth < opts.max_depth {
        let mut next: Vec<u32> = vec![];
        for chunk in frontier.chunks(1024) {
            if ctx.over_budget() || seen.len() as u64 > opts.state_cap {
                cap = true;
                break;
            }
            let nodes_ref = &nodes;
            let inits_ref: Vec<Own<&S>> = inits.iter().map(Own).collect();
            let expanded: Vec<Own<Vec<(u32, u32, Result<Key, String>, Vec<&'static str>)>>> = chunk
                .par_iter()
                .map(|id| {
                    let (init_i, path) = path_of(nodes_ref, *id);
                    let init: &S = inits_ref[init_i].0;
                    let mut out = vec![];
                    let base = match rebuild(init, &path) {
                        Some(b) => b,
                        None => {
                            out.push((*id, 0, Err("replay of an already explored history failed (nondeterministic implementation?)".to_string()), vec![]));
                            return Own(out);
                        }
                    };
                    let nacts = base.actions().len();
                    drop(base);
                    for ai in 0..nacts {
                        let mut s = match rebuild(init, &path) {
                            Some(b) => b,
                            None => continue,
                        };
                        let acts = s.actions();
                        let a = acts[ai].clone();
                        if warm_on() {
                let _ = catch(|| s.warm());
            }
                        let mut h: Vec<&'static str> = vec![];
                        let r = match catch(|| s.step(&a, &mut h)) {
                            Ok(Ok(())) => Ok(s.key()),
                            Ok(Err(e)) => Err(e),
                            Err(p) => Err(format!("unexpected panic: {}", p)),
                        };
                        out.push((*id, ai as u32, r, h));
                    }
                    Own(out)
                })
                .collect();
            for per_state in expanded {
                for (pid, ai, r, h) in per_state.0 {
                    transitions += 1;
                    for c in h {
                        *hits.entry(c).or_insert(0) += 1;
                    }
                    match r {
                        Ok(k) => {
                            if seen.insert(fingerprint(&k)) {
                                nodes.push(Node { parent: pid, act: ai });
                                next.push((nodes.len() - 1) as u32);
                            }
                        }
                        Err(e) => {
                            viol_total += 1;
                            if viols.len() < 12 {
                                let (init_i, mut p) = path_of(&nodes, pid);
                                p.push(ai as u64);
                                let (names, _) = replay_path(&inits[init_i], &p);
                                viols.push(Viol { space: name.to_string(), idx: transitions, key: format!("init#{} {}", init_i, names.join(" ; ")), detail: e, extra: json!({"init": init_i, "path": p}) });
                            }
                        }
                    }
                }
            }
        }
        if cap {
            break;
        }
        depth += 1;
        level_sizes.push(next.len() as u64);
        if let Some(id) = next.last() {
            if depth == opts.max_depth || samples.is_empty() {
                let (init_i, p) = path_of(&nodes, *id);
                let (names, st) = replay_path(&inits[init_i], &p);
                samples.push(json!({"init": init_i, "history": names, "state": st.map(|s| s.show()).unwrap_or_default()}));
            }
        }
        frontier = next;
    }
    let mut s = SpaceSummary::new(name, "E2-bfs-replayed");
    s.len = seen.len() as u64;
    s.completed = seen.len() as u64;
    s.cap_hit = cap;
    s.evals = transitions;
    s.nontrivial = seen.len() as u64;
    s.states = seen.len() as u64;
    s.transitions = transitions;
    s.depth = depth as u64;
    for (k, v) in hits {
        s.hits.insert(k.to_string(), v);
    }
    s.samples = samples;
    s.viol_total = viol_total;
    s.wall_s = t0.elapsed().as_secs_f64();
    s.notes.push(format!("clone-free: every transition replays its whole history on one object; level sizes {:?}", level_sizes));
    ctx.push_space(s, viols);
}

// ---------------------------------------------------------------------------------------------------
// stateright adapter (cross-check of the unique-state count with an independent checker)

use stateright::{Checker, Model, Property};
use std::hash::{Hash, Hasher};

#[derive(Clone)]
pub struct SrState<S: Sut> {
    pub s: S,
    pub bad: Option<String>,
}
unsafe impl<S: Sut> Send for SrState<S> {}
unsafe impl<S: Sut> Sync for SrState<S> {}
unsafe impl<S: Sut> Send for SrModel<S> {}
unsafe impl<S: Sut> Sync for SrModel<S> {}
impl<S: Sut> Hash for SrState<S> {
    fn hash<H: Hasher>(&self, h: &mut H) {
        self.s.key().hash(h);
        self.bad.is_some().hash(h);
    }
}
impl<S: Sut> PartialEq for SrState<S> {
    fn eq(&self, o: &Self) -> bool {
        self.s.key() == o.s.key() && self.bad.is_some() == o.bad.is_some()
    }
}
impl<S: Sut> Eq for SrState<S> {}
impl<S: Sut> Debug for SrState<S> {
    fn fmt(&self, f: &mut std::fmt::Formatter<'_>) -> std::fmt::Result {
        write!(f, "{} bad={:?}", self.s.show(), self.bad)
    }
}
#[derive(Clone)]
pub struct SrModel<S: Sut> {
    pub inits: Vec<S>,
}
#[derive(Clone, Debug, PartialEq)]
pub struct SrAct(pub usize, pub String);

impl<S: Sut + 'static> Model for SrModel<S> {
    type State = SrState<S>;
    type Action = SrAct;
    fn init_states(&self) -> Vec<Self::State> {
        self.inits.iter().map(|s| SrState { s: s.clone(), bad: catch(|| s.check()).unwrap_or_else(|p| Err(p)).err() }).collect()
    }
    fn actions(&self, st: &Self::State, out: &mut Vec<Self::Action>) {
        if st.bad.is_some() {
            return;
        }
        for (i, a) in st.s.actions().iter().enumerate() {
            out.push(SrAct(i, format!("{:?}", a)));
        }
    }
    fn next_state(&self, st: &Self::State, a: Self::Action) -> Option<Self::State> {
        let acts = st.s.actions();
        let act = acts[a.0].clone();
        let mut n = st.s.clone();
        let mut h = vec![];
        if warm_on() {
                let _ = catch(|| n.warm());
            }
        let res = catch(|| n.step(&act, &mut h));
        match res {
            Ok(Ok(())) => Some(SrState { s: n, bad: None }),
            Ok(Err(e)) => Some(SrState { s: st.s.clone(), bad: Some(format!("{:?}: {}", act, e)) }),
            Err(p) => Some(SrState { s: st.s.clone(), bad: Some(format!("{:?}: unexpected panic: {}", act, p)) }),
        }
    }
    fn properties(&self) -> Vec<Property<Self>> {
        vec![Property::always("implementation agrees with reference model", |_, s: &SrState<S>| s.bad.is_none())]
    }
}

/// Run the same Sut under stateright's BFS (single thread => deterministic visiting order) and compare
/// the unique-state count with the one of our own explorer. A mismatch is a machinery error.
pub fn crosscheck_stateright<S: Sut + 'static>(ctx: &Ctx, name: &str, inits: Vec<S>, max_depth: usize) {
    if ctx.replay.is_some() {
        return;
    }
    let ours = {
        let spaces = ctx.spaces.lock().unwrap();
        spaces.iter().find(|s| s.name == name).map(|s| (s.states, s.viol_total, s.cap_hit, s.depth))
    };
    let (our_states, our_viol, cap, depth_done) = match ours {
        Some(x) => x,
        None => return,
    };
    if cap || our_viol > 0 || depth_done as usize > max_depth {
        return; // nothing to compare against a partial exploration / frontier exhausted earlier
    }
    let t0 = Instant::now();
    // stateright counts depth from 1 for the initial states
    let checker = SrModel { inits }.checker().threads(1).target_max_depth(max_depth + 1).spawn_bfs().join();
    let uniq = checker.unique_state_count() as u64;
    let disc = checker.discoveries();
    let mut spaces = ctx.spaces.lock().unwrap();
    let sp = spaces.iter_mut().find(|s| s.name == name).unwrap();
    sp.notes.push(format!(
        "stateright 0.31 BFS cross-check: unique states {} (ours {}), generated {}, max depth {}, discoveries {}, {:.2}s",
        uniq,
        our_states,
        checker.state_count(),
        checker.max_depth(),
        disc.len(),
        t0.elapsed().as_secs_f64()
    ));
    drop(spaces);
    if uniq != our_states || !disc.is_empty() {
        ctx.machinery_error(format!("{}: stateright cross-check disagrees: unique {} vs ours {}, discoveries {}", name, uniq, our_states, disc.len()));
    }
}
