//! Exact rationals over i128 with checked arithmetic, implementing ohsl's numeric traits so that
//! every generic ohsl container can be instantiated with an exact field.
//!
//! * Overflow panics with a message containing `RAT_OVERFLOW`  -> machinery error, never a verdict.
//! * Division by zero panics with `RAT_DIV_ZERO`: "the algorithm divided by an exact zero" is loud.
use core::cmp::Ordering;
use core::ops::*;
use ohsl::traits::{Number, One, Signed, Zero};

#[derive(Clone, Copy, PartialEq, Eq, Hash)]
pub struct Rat {
    pub n: i128,
    pub d: i128,
}

fn gcd(mut a: i128, mut b: i128) -> i128 {
    a = a.abs();
    b = b.abs();
    while b != 0 {
        let t = a % b;
        a = b;
        b = t;
    }
    a
}

#[inline]
fn cm(a: i128, b: i128) -> i128 {
    match a.checked_mul(b) {
        Some(v) => v,
        None => panic!("RAT_OVERFLOW mul"),
    }
}
#[inline]
fn ca(a: i128, b: i128) -> i128 {
    match a.checked_add(b) {
        Some(v) => v,
        None => panic!("RAT_OVERFLOW add"),
    }
}

impl Rat {
    #[inline]
    pub fn new(n: i128, d: i128) -> Rat {
        if d == 0 {
            panic!("RAT_DIV_ZERO");
        }
        if d == 1 {
            return Rat { n, d };
        }
        let g = gcd(n, d);
        let (mut n, mut d) = (n / g, d / g);
        if d < 0 {
            n = -n;
            d = -d;
        }
        Rat { n, d }
    }
    #[inline]
    pub const fn int(n: i64) -> Rat {
        Rat { n: n as i128, d: 1 }
    }
    #[inline]
    pub fn frac(n: i64, d: i64) -> Rat {
        Rat::new(n as i128, d as i128)
    }
    pub fn to_f64(&self) -> f64 {
        self.n as f64 / self.d as f64
    }
    pub fn is_zero(&self) -> bool {
        self.n == 0
    }
    /// Exact conversion of a finite f64 whose value fits (used for dyadic test data only).
    pub fn from_f64_exact(x: f64) -> Option<Rat> {
        if !x.is_finite() {
            return None;
        }
        if x == 0.0 {
            return Some(Rat::int(0));
        }
        let bits = x.to_bits();
        let sign: i128 = if bits >> 63 == 1 { -1 } else { 1 };
        let exp = ((bits >> 52) & 0x7ff) as i64;
        let frac = (bits & ((1u64 << 52) - 1)) as i128;
        let (mant, e) = if exp == 0 { (frac, -1074i64) } else { (frac | (1i128 << 52), exp - 1075) };
        // strip trailing zeros of the mantissa
        let tz = mant.trailing_zeros() as i64;
        let mant = mant >> tz;
        let e = e + tz;
        if e >= 0 {
            if e > 60 {
                return None;
            }
            Some(Rat { n: sign * (mant << e), d: 1 })
        } else {
            if -e > 100 {
                return None;
            }
            Some(Rat::new(sign * mant, 1i128 << (-e)))
        }
    }
}

impl Default for Rat {
    fn default() -> Rat {
        Rat::int(0)
    }
}
impl Add for Rat {
    type Output = Rat;
    #[inline]
    fn add(self, o: Rat) -> Rat {
        if self.d == 1 && o.d == 1 {
            return Rat { n: ca(self.n, o.n), d: 1 };
        }
        Rat::new(ca(cm(self.n, o.d), cm(o.n, self.d)), cm(self.d, o.d))
    }
}
impl Sub for Rat {
    type Output = Rat;
    #[inline]
    fn sub(self, o: Rat) -> Rat {
        self + (-o)
    }
}
impl Mul for Rat {
    type Output = Rat;
    #[inline]
    fn mul(self, o: Rat) -> Rat {
        if self.d == 1 && o.d == 1 {
            return Rat { n: cm(self.n, o.n), d: 1 };
        }
        Rat::new(cm(self.n, o.n), cm(self.d, o.d))
    }
}
impl Div for Rat {
    type Output = Rat;
    #[inline]
    fn div(self, o: Rat) -> Rat {
        if o.n == 0 {
            panic!("RAT_DIV_ZERO");
        }
        Rat::new(cm(self.n, o.d), cm(self.d, o.n))
    }
}
impl Neg for Rat {
    type Output = Rat;
    #[inline]
    fn neg(self) -> Rat {
        Rat { n: -self.n, d: self.d }
    }
}
impl AddAssign for Rat {
    fn add_assign(&mut self, o: Rat) {
        *self = *self + o;
    }
}
impl SubAssign for Rat {
    fn sub_assign(&mut self, o: Rat) {
        *self = *self - o;
    }
}
impl MulAssign for Rat {
    fn mul_assign(&mut self, o: Rat) {
        *self = *self * o;
    }
}
impl DivAssign for Rat {
    fn div_assign(&mut self, o: Rat) {
        *self = *self / o;
    }
}
impl PartialOrd for Rat {
    fn partial_cmp(&self, o: &Rat) -> Option<Ordering> {
        Some(self.cmp(o))
    }
}
impl Ord for Rat {
    fn cmp(&self, o: &Rat) -> Ordering {
        cm(self.n, o.d).cmp(&cm(o.n, self.d))
    }
}
impl Zero for Rat {
    fn zero() -> Rat {
        Rat::int(0)
    }
}
impl One for Rat {
    fn one() -> Rat {
        Rat::int(1)
    }
}
impl Number for Rat {}
impl Signed for Rat {
    fn abs(&self) -> Rat {
        Rat { n: self.n.abs(), d: self.d }
    }
}
impl std::fmt::Display for Rat {
    fn fmt(&self, f: &mut std::fmt::Formatter<'_>) -> std::fmt::Result {
        if self.d == 1 {
            write!(f, "{}", self.n)
        } else {
            write!(f, "{}/{}", self.n, self.d)
        }
    }
}
impl std::fmt::Debug for Rat {
    fn fmt(&self, f: &mut std::fmt::Formatter<'_>) -> std::fmt::Result {
        std::fmt::Display::fmt(self, f)
    }
}

/// Shorthand used all over the harness.
#[inline]
pub fn r(v: i64) -> Rat {
    Rat::int(v)
}
#[inline]
pub fn rq(n: i64, d: i64) -> Rat {
    Rat::frac(n, d)
}
