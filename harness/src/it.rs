//! Iterative sparse solvers: solver table, system families, independent dense helpers (C08, C09).
use ohsl::{Sparse, Vector};

#[derive(Clone, Copy, PartialEq, Debug)]
pub enum Solver {
    Cg,
    Bicg1,
    Bicg2,
    Bicgstab,
    Qmr,
}
pub const SOLVERS: [Solver; 5] = [Solver::Cg, Solver::Bicg1, Solver::Bicg2, Solver::Bicgstab, Solver::Qmr];

pub fn run(s: Solver, a: &Sparse<f64>, b: &Vector<f64>, x: &mut Vector<f64>, max_iter: usize, tol: f64) -> Result<usize, f64> {
    match s {
        Solver::Cg => a.solve_cg(b, x, max_iter, tol),
        Solver::Bicg1 => a.solve_bicg(b, x, max_iter, tol, 1),
        Solver::Bicg2 => a.solve_bicg(b, x, max_iter, tol, 2),
        Solver::Bicgstab => a.solve_bicgstab(b, x, max_iter, tol),
        Solver::Qmr => a.solve_qmr(b, x, max_iter, tol),
    }
}

pub type D = Vec<Vec<f64>>;

pub fn sparse_of(d: &D, order: usize) -> Sparse<f64> {
    let n = d.len();
    let mut t: Vec<(usize, usize, f64)> = vec![];
    for i in 0..n {
        for j in 0..d[i].len() {
            if d[i][j] != 0.0 {
                t.push((i, j, d[i][j]));
            }
        }
    }
    // order 6: some structurally zero positions are stored explicitly as 0.0 / -0.0 (an assembled stencil with vanishing couplings)
    if order == 6 {
        for i in 0..n {
            for j in 0..d[i].len() {
                if d[i][j] == 0.0 && (i + 2 * j) % 3 == 0 {
                    t.push((i, j, if (i + j) % 2 == 0 { 0.0 } else { -0.0 }));
                }
            }
        }
        t.sort_by_key(|e| (e.0, e.1)); // row-major list: from_triplets has to reorder it
        return Sparse::from_triplets(n, n, &mut t);
    }
    // orders 3..5 reach the same matrix through editing operations instead of a single from_triplets call
    if order >= 3 && order <= 5 {
        let mut none: Vec<(usize, usize, f64)> = vec![];
        match order {
            3 => {
                // inserted entry by entry, last first
                let mut s = Sparse::from_triplets(n, n, &mut none);
                for &(i, j, v) in t.iter().rev() {
                    s.insert(i, j, v);
                }
                return s;
            }
            4 => {
                // transposed twice
                let s = Sparse::from_triplets(n, n, &mut t);
                return s.transpose().transpose();
            }
            _ => {
                // built at half scale with one wrong entry, then overwritten and scaled by 2 (power of two: exact)
                let mut h: Vec<(usize, usize, f64)> = t.iter().map(|&(i, j, v)| (i, j, v * 0.5)).collect();
                let first = h.first().cloned();
                if let Some((i, j, _)) = first {
                    h[0] = (i, j, 123.0);
                }
                let mut s = Sparse::from_triplets(n, n, &mut h);
                if let Some((i, j, v)) = first {
                    s.insert(i, j, v);
                }
                s.scale(&2.0);
                return s;
            }
        }
    }
    match order {
        1 => t.reverse(),
        2 => {
            let ev: Vec<_> = t.iter().cloned().step_by(2).collect();
            let od: Vec<_> = t.iter().cloned().skip(1).step_by(2).collect();
            t = od;
            t.extend(ev);
        }
        _ => {}
    }
    Sparse::from_triplets(n, n, &mut t)
}

#[inline]
fn two_sum(a: f64, b: f64) -> (f64, f64) {
    let s = a + b;
    let bb = s - a;
    (s, (a - (s - bb)) + (b - bb))
}
/// b - A x accumulated in double-double, returned rounded
pub fn residual(d: &D, x: &[f64], b: &[f64]) -> Vec<f64> {
    let n = d.len();
    let mut r = vec![0.0; n];
    for i in 0..n {
        let mut hi = b[i];
        let mut lo = 0.0;
        for j in 0..n {
            if d[i][j] == 0.0 {
                continue;
            }
            let p = -d[i][j] * x[j];
            let e = f64::mul_add(-d[i][j], x[j], -p);
            let (s, e2) = two_sum(hi, p);
            hi = s;
            lo += e + e2;
        }
        r[i] = hi + lo;
    }
    r
}
pub fn norm2(v: &[f64]) -> f64 {
    let m = v.iter().fold(0.0f64, |a, x| a.max(x.abs()));
    if m == 0.0 || !m.is_finite() {
        return m;
    }
    m * v.iter().map(|x| (x / m) * (x / m)).sum::<f64>().sqrt()
}
pub fn norm_inf(v: &[f64]) -> f64 {
    v.iter().fold(0.0f64, |a, x| a.max(x.abs()))
}
pub fn norm_inf_mat(d: &D) -> f64 {
    d.iter().map(|r| r.iter().map(|x| x.abs()).sum::<f64>()).fold(0.0, f64::max)
}
pub fn matvec(d: &D, x: &[f64]) -> Vec<f64> {
    d.iter().map(|r| r.iter().zip(x.iter()).map(|(a, b)| a * b).sum()).collect()
}

/// independent dense LU with partial pivoting (reference solution and inverse norm); None if singular to working precision
pub fn lu_solve(d: &D, rhs: &[Vec<f64>]) -> Option<Vec<Vec<f64>>> {
    let n = d.len();
    let mut a = d.clone();
    let mut bs: Vec<Vec<f64>> = rhs.to_vec();
    for k in 0..n {
        let mut p = k;
        for i in k + 1..n {
            if a[i][k].abs() > a[p][k].abs() {
                p = i;
            }
        }
        if a[p][k] == 0.0 {
            return None;
        }
        a.swap(p, k);
        for b in bs.iter_mut() {
            b.swap(p, k);
        }
        for i in k + 1..n {
            let f = a[i][k] / a[k][k];
            if f != 0.0 {
                for j in k..n {
                    let t = a[k][j];
                    a[i][j] -= f * t;
                }
                for b in bs.iter_mut() {
                    let t = b[k];
                    b[i] -= f * t;
                }
            }
        }
    }
    for b in bs.iter_mut() {
        for i in (0..n).rev() {
            let mut s = b[i];
            for j in i + 1..n {
                s -= a[i][j] * b[j];
            }
            b[i] = s / a[i][i];
        }
    }
    Some(bs)
}
pub fn cond_inf(d: &D) -> f64 {
    let n = d.len();
    let id: Vec<Vec<f64>> = (0..n).map(|i| (0..n).map(|j| if i == j { 1.0 } else { 0.0 }).collect()).collect();
    match lu_solve(d, &id) {
        None => f64::INFINITY,
        Some(cols) => {
            // cols[j] = A^-1 e_j  => inverse[i][j] = cols[j][i]
            let mut ninv = 0.0f64;
            for i in 0..n {
                ninv = ninv.max((0..n).map(|j| cols[j][i].abs()).sum());
            }
            ninv * norm_inf_mat(d)
        }
    }
}

#[derive(Clone, Copy, PartialEq, Debug)]
pub enum Family {
    Laplacian,
    ArrowSpd,
    SymIndefDominant,
    NonsymDominant,
    ConvDiff,
    ScatterDominant,
}
pub const FAMILIES: [Family; 6] = [Family::Laplacian, Family::ArrowSpd, Family::SymIndefDominant, Family::NonsymDominant, Family::ConvDiff, Family::ScatterDominant];

impl Family {
    pub fn spd(self) -> bool {
        matches!(self, Family::Laplacian | Family::ArrowSpd)
    }
    pub fn nonsymmetric(self) -> bool {
        matches!(self, Family::NonsymDominant | Family::ConvDiff | Family::ScatterDominant)
    }
    /// strictly diagonally dominant (the BiCG/BiCGSTAB/QMR half of C09 is stated for these)
    pub fn strictly_dominant(self) -> bool {
        !matches!(self, Family::Laplacian)
    }
}

pub fn family(f: Family, n: usize) -> D {
    let mut d = vec![vec![0.0f64; n]; n];
    match f {
        Family::Laplacian => {
            for i in 0..n {
                d[i][i] = 2.0;
                if i + 1 < n {
                    d[i][i + 1] = -1.0;
                    d[i + 1][i] = -1.0;
                }
            }
        }
        Family::ArrowSpd => {
            for i in 0..n {
                d[i][i] = (n + 2 + i % 3) as f64;
                if i > 0 {
                    d[0][i] = 1.0;
                    d[i][0] = 1.0;
                }
            }
        }
        Family::SymIndefDominant => {
            for i in 0..n {
                if i + 1 < n {
                    let v = if i % 2 == 0 { 1.0 } else { -0.5 };
                    d[i][i + 1] = v;
                    d[i + 1][i] = v;
                }
                if i + 5 < n {
                    d[i][i + 5] = 0.25;
                    d[i + 5][i] = 0.25;
                }
            }
            for i in 0..n {
                let s: f64 = (0..n).filter(|&j| j != i).map(|j| d[i][j].abs()).sum();
                d[i][i] = (s + 1.5) * if i % 3 == 1 { -1.0 } else { 1.0 };
            }
        }
        Family::NonsymDominant => {
            for i in 0..n {
                if i + 1 < n {
                    d[i][i + 1] = 1.0;
                    d[i + 1][i] = -0.5;
                }
                if i + 3 < n {
                    d[i][i + 3] = -0.75;
                }
                if i >= 2 {
                    d[i][i - 2] = 0.5;
                }
            }
            for i in 0..n {
                let s: f64 = (0..n).filter(|&j| j != i).map(|j| d[i][j].abs()).sum();
                d[i][i] = (s + 2.0) * if i % 4 == 2 { -1.0 } else { 1.0 };
            }
        }
        Family::ConvDiff => {
            let c = 1.5;
            for i in 0..n {
                d[i][i] = 2.0 + c + 0.25;
                if i + 1 < n {
                    d[i][i + 1] = -1.0;
                    d[i + 1][i] = -1.0 - c;
                }
            }
        }
        Family::ScatterDominant => {
            for i in 0..n {
                for j in 0..n {
                    if i != j && (i * 7 + j * 3) % 5 == 0 && (i as isize - j as isize).abs() <= 9 {
                        d[i][j] = (if (i + j) % 2 == 0 { 1.0 } else { -1.0 }) * (1.0 + ((i + 2 * j) % 3) as f64) / 2.0;
                    }
                }
            }
            for i in 0..n {
                let s: f64 = (0..n).filter(|&j| j != i).map(|j| d[i][j].abs()).sum();
                d[i][i] = (s + 1.0) * if i % 5 == 3 { -1.0 } else { 1.0 };
            }
        }
    }
    d
}

pub fn xstar(n: usize) -> Vec<f64> {
    (0..n).map(|i| ((i % 7) as f64 - 3.0) * 0.5 + if i % 2 == 0 { 1.0 } else { -0.25 }).collect()
}
