//! Boring reference semantics: dense matrices as Vec<Vec<T>>, exact determinant, products.
use crate::rat::*;
use ohsl::{Matrix, Vector};

pub type M = Vec<Vec<Rat>>;

pub fn zeros(r: usize, c: usize) -> M {
    vec![vec![r_(0); c]; r]
}
#[inline]
fn r_(v: i64) -> Rat {
    Rat::int(v)
}

/// Build the ohsl matrix holding exactly the model's content (buffer of exactly rows*cols entries).
pub fn to_matrix(m: &M, cols: usize) -> Matrix<Rat> {
    let rows = m.len();
    let mut a = Matrix::new(rows, cols, r_(0));
    for i in 0..rows {
        for j in 0..cols {
            a[(i, j)] = m[i][j];
        }
    }
    a
}
pub fn from_matrix(a: &Matrix<Rat>) -> M {
    let mut m = zeros(a.rows(), a.cols());
    for i in 0..a.rows() {
        for j in 0..a.cols() {
            m[i][j] = a[(i, j)];
        }
    }
    m
}
pub fn to_vector(v: &[Rat]) -> Vector<Rat> {
    Vector::create(v.to_vec())
}

pub fn matmul(a: &M, ac: usize, b: &M, bc: usize) -> M {
    let r = a.len();
    let mut p = zeros(r, bc);
    for i in 0..r {
        for j in 0..bc {
            let mut s = r_(0);
            for k in 0..ac {
                s = s + a[i][k] * b[k][j];
            }
            p[i][j] = s;
        }
    }
    p
}
pub fn matvec(a: &M, x: &[Rat]) -> Vec<Rat> {
    a.iter().map(|row| row.iter().zip(x.iter()).fold(r_(0), |s, (p, q)| s + *p * *q)).collect()
}
pub fn transpose(a: &M, ac: usize) -> M {
    let mut t = zeros(ac, a.len());
    for i in 0..a.len() {
        for j in 0..ac {
            t[j][i] = a[i][j];
        }
    }
    t
}

/// Determinant by cofactor expansion along the first row (n <= 5) - the definition, not an algorithm
/// shared with the code under test - and by exact fraction-free (Bareiss) elimination above.
pub fn det(a: &M) -> Rat {
    let n = a.len();
    match n {
        0 => r_(1),
        1 => a[0][0],
        2 => a[0][0] * a[1][1] - a[0][1] * a[1][0],
        3 => {
            a[0][0] * (a[1][1] * a[2][2] - a[1][2] * a[2][1]) - a[0][1] * (a[1][0] * a[2][2] - a[1][2] * a[2][0])
                + a[0][2] * (a[1][0] * a[2][1] - a[1][1] * a[2][0])
        }
        4 | 5 => {
            let mut s = r_(0);
            for j in 0..n {
                if a[0][j].is_zero() {
                    continue;
                }
                let minor: M = (1..n).map(|i| (0..n).filter(|&c| c != j).map(|c| a[i][c]).collect()).collect();
                let t = a[0][j] * det(&minor);
                if j % 2 == 0 {
                    s = s + t;
                } else {
                    s = s - t;
                }
            }
            s
        }
        _ => bareiss(a),
    }
}

pub fn bareiss(a: &M) -> Rat {
    let n = a.len();
    let mut m = a.clone();
    let mut sign = r_(1);
    let mut prev = r_(1);
    for k in 0..n {
        if m[k][k].is_zero() {
            let mut sw = None;
            for i in k + 1..n {
                if !m[i][k].is_zero() {
                    sw = Some(i);
                    break;
                }
            }
            match sw {
                None => return r_(0),
                Some(i) => {
                    m.swap(k, i);
                    sign = -sign;
                }
            }
        }
        for i in k + 1..n {
            for j in k + 1..n {
                m[i][j] = (m[i][j] * m[k][k] - m[i][k] * m[k][j]) / prev;
            }
        }
        prev = m[k][k];
    }
    if n == 0 {
        r_(1)
    } else {
        sign * m[n - 1][n - 1]
    }
}

pub fn identity(n: usize) -> M {
    let mut m = zeros(n, n);
    for i in 0..n {
        m[i][i] = r_(1);
    }
    m
}

pub fn show(m: &M) -> String {
    let rows: Vec<String> = m.iter().map(|r| r.iter().map(|x| format!("{}", x)).collect::<Vec<_>>().join(",")).collect();
    format!("[{}]", rows.join(";"))
}
pub fn showv(v: &[Rat]) -> String {
    format!("({})", v.iter().map(|x| format!("{}", x)).collect::<Vec<_>>().join(","))
}

/// f64 helpers -------------------------------------------------------------------------------------
pub type F = Vec<Vec<f64>>;
pub fn to_mat64(m: &F) -> Matrix<f64> {
    let rows = m.len();
    let cols = if rows > 0 { m[0].len() } else { 0 };
    let mut a = Matrix::new(rows, cols, 0.0);
    for i in 0..rows {
        for j in 0..cols {
            a[(i, j)] = m[i][j];
        }
    }
    a
}
pub fn norm_inf_mat(m: &F) -> f64 {
    m.iter().map(|r| r.iter().map(|x| x.abs()).sum::<f64>()).fold(0.0, f64::max)
}
pub fn norm_inf_vec(v: &[f64]) -> f64 {
    v.iter().map(|x| x.abs()).fold(0.0, f64::max)
}
/// normwise backward error  ||b - A x||_inf / (||A||_inf ||x||_inf + ||b||_inf)
pub fn backward_error(a: &F, x: &[f64], b: &[f64]) -> f64 {
    if x.iter().any(|v| !v.is_finite()) {
        return f64::INFINITY;
    }
    let n = a.len();
    let mut rmax = 0.0f64;
    for i in 0..n {
        // residual accumulated in extended (double-double style) precision via fma
        let mut s = b[i];
        let mut c = 0.0f64;
        for j in 0..n {
            let p = a[i][j] * x[j];
            let e = f64::mul_add(a[i][j], x[j], -p);
            let t = s - p;
            // two-sum error of s - p
            let bb = t - s;
            let err = (s - (t - bb)) + (-p - bb);
            s = t;
            c += err - e;
        }
        rmax = rmax.max((s + c).abs());
    }
    let den = norm_inf_mat(a) * norm_inf_vec(x) + norm_inf_vec(b);
    if den == 0.0 {
        if rmax == 0.0 {
            0.0
        } else {
            f64::INFINITY
        }
    } else {
        rmax / den
    }
}

/// lattice helpers ---------------------------------------------------------------------------------
/// n x n matrix whose entries are the base-|letters| digits of idx (row-major, least significant first)
pub fn mat_from_idx(mut idx: u64, n: usize, letters: &[Rat]) -> M {
    let l = letters.len() as u64;
    let mut m = zeros(n, n);
    for i in 0..n {
        for j in 0..n {
            m[i][j] = letters[(idx % l) as usize];
            idx /= l;
        }
    }
    m
}
pub fn vec_from_idx(mut idx: u64, n: usize, letters: &[Rat]) -> Vec<Rat> {
    let l = letters.len() as u64;
    let mut v = vec![r_(0); n];
    for i in 0..n {
        v[i] = letters[(idx % l) as usize];
        idx /= l;
    }
    v
}
pub fn to_f(m: &M) -> F {
    m.iter().map(|r| r.iter().map(|x| x.to_f64()).collect()).collect()
}
/// number of row exchanges textbook partial pivoting (largest magnitude, first on ties) performs, exactly
pub fn exchanges(a: &M) -> usize {
    let n = a.len();
    let mut m = a.clone();
    let mut ex = 0;
    for k in 0..n {
        let mut p = k;
        for i in k + 1..n {
            if ohsl::Signed::abs(&m[i][k]) > ohsl::Signed::abs(&m[p][k]) {
                p = i;
            }
        }
        if m[p][k].is_zero() {
            continue;
        }
        if p != k {
            m.swap(p, k);
            ex += 1;
        }
        for i in k + 1..n {
            let f = m[i][k] / m[k][k];
            for j in k..n {
                let t = m[k][j];
                m[i][j] = m[i][j] - f * t;
            }
        }
    }
    ex
}

/// Gaussian rationals for the complex lattices (independent of ohsl's Complex)
#[derive(Clone, Copy, PartialEq, Debug)]
pub struct CQ {
    pub re: Rat,
    pub im: Rat,
}
impl CQ {
    pub fn new(re: Rat, im: Rat) -> CQ {
        CQ { re, im }
    }
    pub fn zero() -> CQ {
        CQ { re: r_(0), im: r_(0) }
    }
    pub fn is_zero(&self) -> bool {
        self.re.is_zero() && self.im.is_zero()
    }
    pub fn add(self, o: CQ) -> CQ {
        CQ { re: self.re + o.re, im: self.im + o.im }
    }
    pub fn sub(self, o: CQ) -> CQ {
        CQ { re: self.re - o.re, im: self.im - o.im }
    }
    pub fn mul(self, o: CQ) -> CQ {
        CQ { re: self.re * o.re - self.im * o.im, im: self.re * o.im + self.im * o.re }
    }
    pub fn div(self, o: CQ) -> CQ {
        let d = o.re * o.re + o.im * o.im;
        CQ { re: (self.re * o.re + self.im * o.im) / d, im: (self.im * o.re - self.re * o.im) / d }
    }
    pub fn neg(self) -> CQ {
        CQ { re: -self.re, im: -self.im }
    }
}
pub fn det_cq(a: &Vec<Vec<CQ>>) -> CQ {
    let n = a.len();
    match n {
        0 => CQ::new(r_(1), r_(0)),
        1 => a[0][0],
        2 => a[0][0].mul(a[1][1]).sub(a[0][1].mul(a[1][0])),
        _ => {
            let mut s = CQ::zero();
            for j in 0..n {
                if a[0][j].is_zero() {
                    continue;
                }
                let minor: Vec<Vec<CQ>> = (1..n).map(|i| (0..n).filter(|&c| c != j).map(|c| a[i][c]).collect()).collect();
                let t = a[0][j].mul(det_cq(&minor));
                s = if j % 2 == 0 { s.add(t) } else { s.sub(t) };
            }
            s
        }
    }
}
