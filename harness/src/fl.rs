//! Floating-point helpers: ulp distance, double-double arithmetic (error-free transformations).
pub fn ulps(a: f64, b: f64) -> u64 {
    if a == b {
        return 0;
    }
    if !a.is_finite() || !b.is_finite() {
        return u64::MAX;
    }
    let to_ord = |x: f64| -> i64 {
        let b = x.to_bits() as i64;
        if b < 0 {
            i64::MIN - b
        } else {
            b
        }
    };
    (to_ord(a) as i128 - to_ord(b) as i128).unsigned_abs() as u64
}
pub fn rel(a: f64, b: f64) -> f64 {
    if a == b {
        return 0.0;
    }
    let d = (a - b).abs();
    let s = a.abs().max(b.abs());
    if !d.is_finite() || s == 0.0 {
        return f64::INFINITY;
    }
    d / s
}

/// double-double number hi + lo
#[derive(Clone, Copy, Debug)]
pub struct DD {
    pub hi: f64,
    pub lo: f64,
}
#[inline]
fn two_sum(a: f64, b: f64) -> (f64, f64) {
    let s = a + b;
    let bb = s - a;
    let e = (a - (s - bb)) + (b - bb);
    (s, e)
}
#[inline]
fn two_prod(a: f64, b: f64) -> (f64, f64) {
    let p = a * b;
    let e = f64::mul_add(a, b, -p);
    (p, e)
}
impl DD {
    pub fn from(x: f64) -> DD {
        DD { hi: x, lo: 0.0 }
    }
    pub fn add(self, o: DD) -> DD {
        let (s, e) = two_sum(self.hi, o.hi);
        let e = e + self.lo + o.lo;
        let (hi, lo) = two_sum(s, e);
        DD { hi, lo }
    }
    pub fn neg(self) -> DD {
        DD { hi: -self.hi, lo: -self.lo }
    }
    pub fn sub(self, o: DD) -> DD {
        self.add(o.neg())
    }
    pub fn mul(self, o: DD) -> DD {
        let (p, e) = two_prod(self.hi, o.hi);
        let e = e + self.hi * o.lo + self.lo * o.hi;
        let (hi, lo) = two_sum(p, e);
        DD { hi, lo }
    }
    pub fn div(self, o: DD) -> DD {
        let q1 = self.hi / o.hi;
        let r = self.sub(o.mul(DD::from(q1)));
        let q2 = r.hi / o.hi;
        let r2 = r.sub(o.mul(DD::from(q2)));
        let q3 = r2.hi / o.hi;
        let (hi, lo) = two_sum(q1, q2);
        DD { hi, lo }.add(DD::from(q3))
    }
    pub fn to_f64(self) -> f64 {
        self.hi + self.lo
    }
    pub fn abs(self) -> f64 {
        self.to_f64().abs()
    }
}
