//! Common machinery: tiers, accumulators, the E1 lattice runner, panic capture, result file.
use rayon::prelude::*;
use serde_json::{json, Map, Value};
use std::collections::BTreeMap;
use std::panic::{catch_unwind, AssertUnwindSafe};
use std::path::PathBuf;
use std::sync::atomic::{AtomicBool, AtomicU64, Ordering};
use std::sync::Mutex;
use std::time::Instant;

#[derive(Clone, Copy, PartialEq, Eq, Debug)]
pub enum Tier {
    Quick,
    Thorough,
}

pub static RAT_OVERFLOWS: AtomicU64 = AtomicU64::new(0);

/// watchdog slots: per worker thread the case it is executing (idx+1, 0 = idle) and when it started (ms since start)
const NSLOTS: usize = 256;
pub static SLOT_IDX: [AtomicU64; NSLOTS] = [const { AtomicU64::new(0) }; NSLOTS];
pub static SLOT_T0: [AtomicU64; NSLOTS] = [const { AtomicU64::new(0) }; NSLOTS];
/// a single call into ohsl that does not return within this many seconds is reported as a violation (spin)
pub const HANG_LIMIT_S: u64 = 20;

/// Run `f`, capturing a panic as its message.
pub fn catch<T>(f: impl FnOnce() -> T) -> Result<T, String> {
    match catch_unwind(AssertUnwindSafe(f)) {
        Ok(v) => Ok(v),
        Err(e) => {
            let msg = if let Some(s) = e.downcast_ref::<&str>() {
                s.to_string()
            } else if let Some(s) = e.downcast_ref::<String>() {
                s.clone()
            } else {
                "<non-string panic payload>".to_string()
            };
            if msg.contains("RAT_OVERFLOW") {
                RAT_OVERFLOWS.fetch_add(1, Ordering::Relaxed);
            }
            Err(msg)
        }
    }
}
pub fn worker_index() -> usize {
    rayon::current_thread_index().unwrap_or(0)
}
pub fn is_overflow(msg: &str) -> bool {
    msg.contains("RAT_OVERFLOW")
}

#[derive(Clone, Debug)]
pub struct Viol {
    pub space: String,
    pub idx: u64,
    /// stable description of the failing input / history (used to match known findings)
    pub key: String,
    pub detail: String,
    /// engine-specific replay payload (action path, schedule, script); Null for lattice cases
    pub extra: Value,
}

/// Per-chunk accumulator (merged in index order).
#[derive(Default)]
pub struct Acc {
    pub evals: u64,
    pub nontrivial: u64,
    pub hits: BTreeMap<&'static str, u64>,
    pub worst: BTreeMap<&'static str, (f64, String)>,
    pub viol: Vec<Viol>,
    pub viol_total: u64,
    pub machinery: Vec<String>,
    case_nontrivial: bool,
    space: String,
}

const KEEP_VIOL: usize = 12;

impl Acc {
    pub fn new(space: &str) -> Acc {
        Acc { space: space.to_string(), ..Default::default() }
    }
    #[inline]
    pub fn begin_case(&mut self) {
        self.evals += 1;
        self.case_nontrivial = false;
    }
    #[inline]
    pub fn hit(&mut self, class: &'static str) {
        *self.hits.entry(class).or_insert(0) += 1;
    }
    /// mark the current case non-trivial (counted once per case) and count its class
    #[inline]
    pub fn nontriv(&mut self, class: &'static str) {
        self.hit(class);
        if !self.case_nontrivial {
            self.case_nontrivial = true;
            self.nontrivial += 1;
        }
    }
    #[inline]
    pub fn worst(&mut self, name: &'static str, v: f64, at: impl FnOnce() -> String) {
        let v = if v.is_nan() { f64::INFINITY } else { v };
        match self.worst.get_mut(name) {
            Some(e) => {
                if v > e.0 {
                    *e = (v, at());
                }
            }
            None => {
                self.worst.insert(name, (v, at()));
            }
        }
    }
    pub fn fail(&mut self, idx: u64, key: String, detail: String) {
        self.fail_extra(idx, key, detail, Value::Null);
    }
    pub fn fail_extra(&mut self, idx: u64, key: String, detail: String, extra: Value) {
        self.viol_total += 1;
        // triage aid: MC_DUMP_VIOL=<file> appends every violation (not only the first KEEP_VIOL per block)
        if let Ok(path) = std::env::var("MC_DUMP_VIOL") {
            use std::io::Write;
            if let Ok(mut f) = std::fs::OpenOptions::new().create(true).append(true).open(path) {
                let _ = writeln!(f, "{}\t{}\t{}", self.space, key, detail);
            }
        }
        if self.viol.len() < KEEP_VIOL {
            self.viol.push(Viol { space: self.space.clone(), idx, key, detail, extra });
        }
    }
    pub fn machinery(&mut self, msg: String) {
        if self.machinery.len() < 5 {
            self.machinery.push(msg);
        }
    }
    /// take over only the numeric margins of a scratch accumulator
    pub fn merge_worst(&mut self, o: Acc) {
        for (k, v) in o.worst {
            match self.worst.get_mut(k) {
                Some(e) => {
                    if v.0 > e.0 {
                        *e = v;
                    }
                }
                None => {
                    self.worst.insert(k, v);
                }
            }
        }
    }
    pub fn merge(&mut self, o: Acc) {
        self.evals += o.evals;
        self.nontrivial += o.nontrivial;
        for (k, v) in o.hits {
            *self.hits.entry(k).or_insert(0) += v;
        }
        for (k, v) in o.worst {
            match self.worst.get_mut(k) {
                Some(e) => {
                    if v.0 > e.0 {
                        *e = v;
                    }
                }
                None => {
                    self.worst.insert(k, v);
                }
            }
        }
        self.viol_total += o.viol_total;
        for v in o.viol {
            self.viol.push(v);
        }
        self.viol.sort_by_key(|v| v.idx);
        self.viol.truncate(KEEP_VIOL);
        for m in o.machinery {
            self.machinery(m);
        }
    }
}

#[derive(Clone, Debug)]
pub struct Replay {
    pub space: String,
    pub idx: u64,
    pub extra: Value,
}

pub struct SpaceSummary {
    pub name: String,
    pub len: u64,
    pub completed: u64,
    pub cap_hit: bool,
    pub evals: u64,
    pub nontrivial: u64,
    pub hits: BTreeMap<String, u64>,
    pub worst: BTreeMap<String, (f64, String)>,
    pub samples: Vec<Value>,
    pub viol_total: u64,
    /// for explicit-state spaces
    pub states: u64,
    pub transitions: u64,
    pub depth: u64,
    pub engine: String,
    pub wall_s: f64,
    pub notes: Vec<String>,
}

impl SpaceSummary {
    pub fn new(name: &str, engine: &str) -> SpaceSummary {
        SpaceSummary {
            name: name.to_string(),
            len: 0,
            completed: 0,
            cap_hit: false,
            evals: 0,
            nontrivial: 0,
            hits: BTreeMap::new(),
            worst: BTreeMap::new(),
            samples: vec![],
            viol_total: 0,
            states: 0,
            transitions: 0,
            depth: 0,
            engine: engine.to_string(),
            wall_s: 0.0,
            notes: vec![],
        }
    }
}

pub struct Ctx {
    pub prop: String,
    pub tier: Tier,
    pub replay: Option<Replay>,
    pub out: Option<PathBuf>,
    pub start: Instant,
    /// wall-clock budget (seconds) after which remaining lattice blocks are skipped and reported as capped
    pub budget_s: f64,
    pub spaces: Mutex<Vec<SpaceSummary>>,
    pub viols: Mutex<Vec<Viol>>,
    pub machinery: Mutex<Vec<String>>,
    pub thresholds: Mutex<BTreeMap<String, f64>>,
    pub assumptions: Mutex<Vec<String>>,
    pub level: Mutex<String>,
    pub rule: Mutex<String>,
    pub required_hits: Mutex<Vec<String>>,
    pub known_finding_spaces: Mutex<Vec<String>>,
}

pub static SILENT: AtomicBool = AtomicBool::new(true);

impl Ctx {
    pub fn from_args(prop: &str) -> Ctx {
        let args: Vec<String> = std::env::args().collect();
        let mut tier = Tier::Quick;
        let mut replay = None;
        let mut out = None;
        let mut budget = None;
        let mut i = 1;
        while i < args.len() {
            match args[i].as_str() {
                "quick" => tier = Tier::Quick,
                "thorough" => tier = Tier::Thorough,
                "--out" => {
                    i += 1;
                    out = Some(PathBuf::from(&args[i]));
                }
                "--budget" => {
                    i += 1;
                    budget = Some(args[i].parse::<f64>().expect("budget"));
                }
                "--replay" => {
                    i += 1;
                    let txt = std::fs::read_to_string(&args[i]).expect("cannot read replay file");
                    let v: Value = serde_json::from_str(&txt).expect("replay file is not JSON");
                    if let Some(t) = v.get("tier").and_then(|t| t.as_str()) {
                        if t == "thorough" {
                            tier = Tier::Thorough;
                        }
                    }
                    replay = Some(Replay {
                        space: v["space"].as_str().expect("replay.space").to_string(),
                        idx: v["idx"].as_u64().unwrap_or(0),
                        extra: v.get("extra").cloned().unwrap_or(Value::Null),
                    });
                }
                other => panic!("unknown argument {}", other),
            }
            i += 1;
        }
        // silence panic output: every call into ohsl is wrapped in catch_unwind and the message is kept
        std::panic::set_hook(Box::new(|info| {
            if !SILENT.load(Ordering::Relaxed) {
                eprintln!("{}", info);
            }
        }));
        let budget_s = budget.unwrap_or(match tier {
            Tier::Quick => 45.0,
            Tier::Thorough => 1500.0,
        });
        Ctx {
            prop: prop.to_string(),
            tier,
            replay,
            out,
            start: Instant::now(),
            budget_s,
            spaces: Mutex::new(vec![]),
            viols: Mutex::new(vec![]),
            machinery: Mutex::new(vec![]),
            thresholds: Mutex::new(BTreeMap::new()),
            assumptions: Mutex::new(vec![]),
            level: Mutex::new("exploration".to_string()),
            rule: Mutex::new(String::new()),
            required_hits: Mutex::new(vec![]),
            known_finding_spaces: Mutex::new(vec![]),
        }
    }
    pub fn quick(&self) -> bool {
        self.tier == Tier::Quick
    }
    pub fn thorough(&self) -> bool {
        self.tier == Tier::Thorough
    }
    pub fn pick<T>(&self, q: T, t: T) -> T {
        if self.quick() {
            q
        } else {
            t
        }
    }
    pub fn level(&self, l: &str) {
        *self.level.lock().unwrap() = l.to_string();
    }
    pub fn rule(&self, r: &str) {
        *self.rule.lock().unwrap() = r.to_string();
    }
    pub fn assume(&self, a: &str) {
        self.assumptions.lock().unwrap().push(a.to_string());
    }
    pub fn threshold(&self, name: &str, v: f64) {
        self.thresholds.lock().unwrap().insert(name.to_string(), v);
    }
    /// classes that must be hit at least once over the whole run (vacuity guard)
    pub fn require(&self, classes: &[&str]) {
        let mut r = self.required_hits.lock().unwrap();
        for c in classes {
            r.push(c.to_string());
        }
    }
    pub fn known_finding_space(&self, name: &str) {
        self.known_finding_spaces.lock().unwrap().push(name.to_string());
    }
    /// A small space of listed inputs on which the property is KNOWN to fail (genuine, not repaired; one line each in
    /// known_findings.txt, matched by `key`). Each case returns Ok(()) if the property holds on it (then the finding line is
    /// stale and the driver says so) or Err(description). Re-checked on every run, in both tiers.
    pub fn known_cases(&self, space: &str, cases: Vec<(String, Box<dyn Fn() -> Result<(), String> + Sync + Send>)>) {
        self.known_finding_space(space);
        self.listed_cases(space, cases);
    }
    /// a handful of hand-listed inputs that must hold (regression inputs of repaired defects)
    pub fn listed_cases(&self, space: &str, cases: Vec<(String, Box<dyn Fn() -> Result<(), String> + Sync + Send>)>) {
        let n = cases.len() as u64;
        self.lattice(
            space,
            n,
            |i| cases[i as usize].0.clone(),
            |i, acc| {
                acc.nontriv("listed input");
                let (key, f) = &cases[i as usize];
                match catch(|| f()) {
                    Ok(Ok(())) => {}
                    Ok(Err(e)) => acc.fail(i, key.clone(), e),
                    Err(p) => acc.fail(i, key.clone(), format!("panicked: {}", p)),
                }
            },
        );
    }
    pub fn machinery_error(&self, m: String) {
        self.machinery.lock().unwrap().push(m);
    }
    pub fn elapsed(&self) -> f64 {
        self.start.elapsed().as_secs_f64()
    }
    pub fn over_budget(&self) -> bool {
        self.elapsed() > self.budget_s
    }
    /// is this space the replay target (or are we not replaying at all)?
    pub fn wants(&self, space: &str) -> bool {
        match &self.replay {
            None => true,
            Some(r) => r.space == space,
        }
    }

    /// E1: run `check(idx, acc)` for every idx in 0..len (in parallel, blocks in index order).
    pub fn lattice<D, C>(&self, name: &str, len: u64, describe: D, check: C)
    where
        D: Fn(u64) -> String + Sync,
        C: Fn(u64, &mut Acc) + Sync,
    {
        if let Some(r) = &self.replay {
            if r.space != name {
                return;
            }
            let mut acc = Acc::new(name);
            if r.idx >= len {
                self.machinery_error(format!("replay index {} outside space {} (len {})", r.idx, name, len));
                return;
            }
            acc.begin_case();
            check(r.idx, &mut acc);
            eprintln!("REPLAY space={} idx={} case={}", name, r.idx, describe(r.idx));
            for v in &acc.viol {
                eprintln!("REPLAY-VIOLATION {} :: {}", v.key, v.detail);
            }
            if acc.viol.is_empty() {
                eprintln!("REPLAY-OK (property holds on this case)");
            }
            self.absorb(name, "E1-lattice", len, 1, false, acc, vec![json!(describe(r.idx))], 0.0);
            return;
        }
        let t0 = Instant::now();
        let block: u64 = 1 << 18;
        let mut total = Acc::new(name);
        let mut done: u64 = 0;
        let mut cap = false;
        for k in 0..NSLOTS {
            SLOT_IDX[k].store(0, Ordering::Relaxed);
        }
        let finished = AtomicBool::new(false);
        std::thread::scope(|scope| {
        // watchdog: a case that does not return is a violation of "bounded work", not something to wait for
        scope.spawn(|| {
            let mut tick = 0u64;
            while !finished.load(Ordering::Relaxed) {
                std::thread::sleep(std::time::Duration::from_millis(1));
                tick += 1;
                if tick % 250 != 0 {
                    continue;
                }
                let now = self.start.elapsed().as_millis() as u64;
                for k in 0..NSLOTS {
                    let i = SLOT_IDX[k].load(Ordering::Relaxed);
                    if i == 0 {
                        continue;
                    }
                    let started = SLOT_T0[k].load(Ordering::Relaxed);
                    if SLOT_IDX[k].load(Ordering::Relaxed) == i && now > started + HANG_LIMIT_S * 1000 {
                        let idx = i - 1;
                        let mut acc = Acc::new(name);
                        acc.evals = 1;
                        acc.fail(idx, describe(idx), format!("the call did not return within {} s (unbounded loop?)", HANG_LIMIT_S));
                        eprintln!("[{}] HANG in space {} case {}", self.prop, name, describe(idx));
                        self.absorb(name, "E1-lattice", len, 0, true, acc, vec![json!(describe(idx))], t0.elapsed().as_secs_f64());
                        let code = self.finish_inner(true);
                        std::process::exit(if code == 0 { 1 } else { code });
                    }
                }
            }
        });
        while done < len {
            if self.over_budget() {
                cap = true;
                break;
            }
            let hi = (done + block).min(len);
            let chunk: u64 = ((hi - done) / 64).max(1);
            let nchunks = (hi - done + chunk - 1) / chunk;
            let accs: Vec<Acc> = (0..nchunks)
                .into_par_iter()
                .map(|c| {
                    let mut acc = Acc::new(name);
                    let lo = done + c * chunk;
                    let h = (lo + chunk).min(hi);
                    let slot = rayon::current_thread_index().unwrap_or(NSLOTS - 1).min(NSLOTS - 1);
                    for idx in lo..h {
                        acc.begin_case();
                        SLOT_T0[slot].store(self.start.elapsed().as_millis() as u64, Ordering::Relaxed);
                        SLOT_IDX[slot].store(idx + 1, Ordering::Relaxed);
                        check(idx, &mut acc);
                    }
                    SLOT_IDX[slot].store(0, Ordering::Relaxed);
                    acc
                })
                .collect();
            for a in accs {
                total.merge(a);
            }
            done = hi;
        }
        finished.store(true, Ordering::Relaxed);
        });
        let mut samples = vec![];
        if len > 0 {
            let mut pick = vec![0, len / 2, len - 1];
            pick.dedup();
            for i in pick {
                samples.push(json!({"idx": i, "case": describe(i)}));
            }
        }
        self.absorb(name, "E1-lattice", len, done, cap, total, samples, t0.elapsed().as_secs_f64());
    }

    pub fn absorb(&self, name: &str, engine: &str, len: u64, completed: u64, cap: bool, acc: Acc, samples: Vec<Value>, wall: f64) {
        let mut s = SpaceSummary::new(name, engine);
        s.len = len;
        s.completed = completed;
        s.cap_hit = cap;
        s.evals = acc.evals;
        s.nontrivial = acc.nontrivial;
        for (k, v) in &acc.hits {
            s.hits.insert(k.to_string(), *v);
        }
        for (k, v) in &acc.worst {
            s.worst.insert(k.to_string(), v.clone());
        }
        s.samples = samples;
        s.viol_total = acc.viol_total;
        s.wall_s = wall;
        eprintln!(
            "[{}] space {:<34} {:>11}/{:<11} cases nontrivial={:<10} viol={} {}{:.2}s",
            self.prop,
            name,
            completed,
            len,
            acc.nontrivial,
            acc.viol_total,
            if cap { "CAP-HIT " } else { "" },
            wall
        );
        for m in acc.machinery {
            self.machinery_error(m);
        }
        self.viols.lock().unwrap().extend(acc.viol);
        self.spaces.lock().unwrap().push(s);
    }

    pub fn push_space(&self, s: SpaceSummary, viols: Vec<Viol>) {
        eprintln!(
            "[{}] space {:<34} engine={} states={} transitions={} depth={} viol={} {:.2}s",
            self.prop, s.name, s.engine, s.states, s.transitions, s.depth, s.viol_total, s.wall_s
        );
        self.viols.lock().unwrap().extend(viols);
        self.spaces.lock().unwrap().push(s);
    }

    /// Write the result file and return the process exit code (0 ok, 1 violations, 3 machinery error).
    pub fn finish(&self) -> i32 {
        self.finish_inner(false)
    }
    pub fn finish_inner(&self, aborted: bool) -> i32 {
        let spaces = self.spaces.lock().unwrap();
        let viols = self.viols.lock().unwrap();
        let mut machinery = self.machinery.lock().unwrap().clone();
        let thresholds = self.thresholds.lock().unwrap();
        // spaces that only hold the listed known findings do not make a run "unclean" for the vacuity / overflow policy
        let kf = self.known_finding_spaces.lock().unwrap().clone();
        let total_viol_pre: u64 = spaces.iter().filter(|s| !kf.contains(&s.name)).map(|s| s.viol_total).sum();
        if RAT_OVERFLOWS.load(Ordering::Relaxed) > 0 && total_viol_pre == 0 {
            // with genuine violations on record an overflow is a symptom of the broken code (garbage growth), not a reason
            // to withhold the verdict; without any it means the alphabet is too large for i128
            machinery.push(format!("{} exact-rational overflow(s): alphabet too large for i128", RAT_OVERFLOWS.load(Ordering::Relaxed)));
        }
        let mut evals = 0u64;
        let mut nontriv = 0u64;
        let mut states = 0u64;
        let mut transitions = 0u64;
        let mut hits: BTreeMap<String, u64> = BTreeMap::new();
        let mut worst: BTreeMap<String, (f64, String)> = BTreeMap::new();
        let mut samples: Vec<Value> = vec![];
        let mut space_json: Vec<Value> = vec![];
        let mut any_cap = false;
        for s in spaces.iter() {
            evals += s.evals;
            nontriv += s.nontrivial;
            states += s.states;
            transitions += s.transitions;
            any_cap |= s.cap_hit;
            for (k, v) in &s.hits {
                *hits.entry(k.clone()).or_insert(0) += v;
            }
            for (k, v) in &s.worst {
                match worst.get_mut(k) {
                    Some(e) => {
                        if v.0 > e.0 {
                            *e = v.clone();
                        }
                    }
                    None => {
                        worst.insert(k.clone(), v.clone());
                    }
                }
            }
            for smp in s.samples.iter().take(3) {
                samples.push(json!({"space": s.name, "sample": smp}));
            }
            space_json.push(json!({
                "space": s.name, "engine": s.engine, "size": s.len, "completed": s.completed, "cap_hit": s.cap_hit,
                "evaluations": s.evals, "nontrivial": s.nontrivial, "states": s.states, "transitions": s.transitions,
                "max_depth": s.depth, "violations": s.viol_total, "wall_s": (s.wall_s * 1000.0).round() / 1000.0,
                "classes": s.hits, "notes": s.notes,
            }));
        }
        // vacuity is judged on clean runs only: violations cut explorations short (violating states are not expanded)
        if self.replay.is_none() && !aborted && total_viol_pre == 0 {
            for req in self.required_hits.lock().unwrap().iter() {
                if hits.get(req).copied().unwrap_or(0) == 0 {
                    machinery.push(format!("vacuity: required class '{}' was never exercised", req));
                }
            }
            if nontriv < 2 {
                machinery.push("vacuity: fewer than two non-trivial cases".to_string());
            }
        }
        let mut worst_json = Map::new();
        for (k, v) in worst.iter() {
            let thr = thresholds.get(k).copied();
            worst_json.insert(
                k.clone(),
                json!({"worst_observed": if v.0.is_finite() { json!(v.0) } else { json!(format!("{}", v.0)) }, "threshold": thr, "at": v.1}),
            );
        }
        let mut coverage = Map::new();
        coverage.insert("evaluations".into(), json!(evals));
        coverage.insert("distinct_nontrivial".into(), json!(nontriv));
        coverage.insert("rule".into(), json!(self.rule.lock().unwrap().clone()));
        if samples.len() > 24 {
            samples.truncate(24);
        }
        coverage.insert("samples".into(), Value::Array(samples));
        if states > 0 {
            coverage.insert("states".into(), json!(states));
            coverage.insert("transitions".into(), json!(transitions));
            // every explored transition is a step of the real implementation (no separate model of the code)
            coverage.insert("traces_validated_against_impl".into(), json!(transitions));
        }
        coverage.insert("exhaustive".into(), json!(!any_cap));
        coverage.insert("cap_hit".into(), json!(any_cap));
        coverage.insert("classes".into(), json!(hits));
        coverage.insert("numeric_margins".into(), Value::Object(worst_json));
        coverage.insert("spaces".into(), Value::Array(space_json));
        let vj: Vec<Value> = viols
            .iter()
            .map(|v| json!({"space": v.space, "idx": v.idx, "key": v.key, "detail": v.detail, "extra": v.extra}))
            .collect();
        let total_viol: u64 = spaces.iter().map(|s| s.viol_total).sum();
        let result = json!({
            "property_id": self.prop,
            "tier": if self.quick() { "quick" } else { "thorough" },
            "level": self.level.lock().unwrap().clone(),
            "coverage": Value::Object(coverage),
            "assumptions": self.assumptions.lock().unwrap().clone(),
            "wall_s": (self.elapsed() * 1000.0).round() / 1000.0,
            "violations_total": total_viol,
            "violations": vj,
            "machinery_errors": machinery,
            "replay": self.replay.is_some(),
        });
        let txt = serde_json::to_string_pretty(&result).unwrap();
        match &self.out {
            Some(p) => std::fs::write(p, txt).expect("cannot write result file"),
            None => eprintln!("{}", txt),
        }
        if !machinery.is_empty() {
            for m in machinery.iter() {
                eprintln!("MACHINERY-ERROR {}", m);
            }
            return 3;
        }
        if total_viol > 0 {
            1
        } else {
            0
        }
    }
}

/// Run one oracle under panic capture; a panic that the oracle did not anticipate is a violation.
pub fn judge(acc: &mut Acc, idx: u64, key: impl FnOnce() -> String, f: impl FnOnce() -> Result<(), String>) {
    match catch(f) {
        Ok(Ok(())) => {}
        Ok(Err(e)) => acc.fail(idx, key(), e),
        Err(p) => {
            if is_overflow(&p) {
                acc.machinery(format!("rational overflow in case {}", key()));
            } else {
                acc.fail(idx, key(), format!("unexpected panic: {}", p))
            }
        }
    }
}
#[macro_export]
macro_rules! ensure {
    ($c:expr, $($arg:tt)*) => { if !($c) { return Err(format!($($arg)*)); } };
}

/// Decode `idx` into mixed-radix digits (least significant first).
#[inline]
pub fn digits(mut idx: u64, radices: &[u64], out: &mut [usize]) {
    for (k, r) in radices.iter().enumerate() {
        out[k] = (idx % r) as usize;
        idx /= r;
    }
}
#[inline]
pub fn digits_uniform(mut idx: u64, radix: u64, out: &mut [usize]) {
    for k in 0..out.len() {
        out[k] = (idx % radix) as usize;
        idx /= radix;
    }
}
pub fn pow(b: u64, e: u32) -> u64 {
    b.checked_pow(e).expect("space too large")
}

/// All permutations of 0..n in lexicographic order.
pub fn permutations(n: usize) -> Vec<Vec<usize>> {
    let mut out = vec![];
    let mut p: Vec<usize> = (0..n).collect();
    loop {
        out.push(p.clone());
        // next permutation
        if n < 2 {
            break;
        }
        let mut i = n - 1;
        while i > 0 && p[i - 1] >= p[i] {
            i -= 1;
        }
        if i == 0 {
            break;
        }
        let mut j = n - 1;
        while p[j] <= p[i - 1] {
            j -= 1;
        }
        p.swap(i - 1, j);
        p[i..].reverse();
    }
    out
}

/// All multisets of size k over 0..m (non-decreasing index vectors).
pub fn multisets(m: usize, k: usize) -> Vec<Vec<usize>> {
    fn rec(m: usize, k: usize, start: usize, cur: &mut Vec<usize>, out: &mut Vec<Vec<usize>>) {
        if cur.len() == k {
            out.push(cur.clone());
            return;
        }
        for i in start..m {
            cur.push(i);
            rec(m, k, i, cur, out);
            cur.pop();
        }
    }
    let mut out = vec![];
    rec(m, k, 0, &mut vec![], &mut out);
    out
}

/// All ways to deviate from a base word in at most `d` positions: returns (positions, replacement letters)
/// `alts[p]` = number of alternative letters at position p.
pub fn deviations(npos: usize, nalt: usize, d: usize) -> Vec<Vec<(usize, usize)>> {
    fn rec(npos: usize, nalt: usize, d: usize, start: usize, cur: &mut Vec<(usize, usize)>, out: &mut Vec<Vec<(usize, usize)>>) {
        out.push(cur.clone());
        if cur.len() == d {
            return;
        }
        for p in start..npos {
            for a in 0..nalt {
                cur.push((p, a));
                rec(npos, nalt, d, p + 1, cur, out);
                cur.pop();
            }
        }
    }
    let mut out = vec![];
    rec(npos, nalt, d, 0, &mut vec![], &mut out);
    out
}

pub fn fmt_vec<T: std::fmt::Debug>(v: &[T]) -> String {
    format!("{:?}", v)
}
