//! ohsl-mc: bounded exhaustive exploration (model checking) of the ohsl public API.
pub mod rat;
pub mod core;
pub mod bfs;
pub mod model;
pub mod fl;
pub mod sp;
pub mod it;
pub use crate::core::*;
pub use crate::rat::*;
