//! Sparse matrices: reference model (BTreeMap) and the oracles shared by C06 (views / CSC form) and C07 (products).
use crate::bfs::*;
use crate::core::*;
use crate::model::{self, M};
use crate::rat::*;
use crate::ensure;
use ohsl::{Sparse, Vector};
use std::collections::BTreeMap;

pub type SM = BTreeMap<(usize, usize), Rat>;

pub fn clone_sparse(s: &Sparse<Rat>) -> Sparse<Rat> {
    // through the public constructor, not a struct literal: a change that adds a private field must still compile against the harness
    // (round 15). Only states that passed the well-formedness check are cloned; hidden state is the business of the clone-free exploration
    let c = Sparse::from_vecs(s.rows, s.cols, s.val.clone(), s.row_index.clone(), s.col_start.clone());
    debug_assert!(c.nonzero == s.nonzero);
    c
}
pub fn dense_of(rows: usize, cols: usize, m: &SM) -> M {
    let mut d = model::zeros(rows, cols);
    for (&(i, j), v) in m.iter() {
        d[i][j] = *v;
    }
    d
}
pub fn show_sm(rows: usize, cols: usize, m: &SM) -> String {
    format!("{}x{} {{{}}}", rows, cols, m.iter().map(|(k, v)| format!("({},{})={}", k.0, k.1, v)).collect::<Vec<_>>().join(" "))
}
pub fn show_csc(s: &Sparse<Rat>) -> String {
    format!("rows={} cols={} nonzero={} val={:?} row_index={:?} col_start={:?}", s.rows, s.cols, s.nonzero, s.val, s.row_index, s.col_start)
}

/// C06: all views describe the model matrix; compressed-column structure well-formed.
pub fn views_check(s: &Sparse<Rat>, rows: usize, cols: usize, m: &SM) -> Result<(), String> {
    let nnz = m.len();
    ensure!(s.rows == rows && s.cols == cols, "shape {}x{} expected {}x{}", s.rows, s.cols, rows, cols);
    ensure!(s.nonzero == nnz, "nonzero = {} expected {} [{}]", s.nonzero, nnz, show_csc(s));
    ensure!(s.val.len() == nnz && s.row_index.len() == nnz, "val/row_index lengths {}/{} expected {} [{}]", s.val.len(), s.row_index.len(), nnz, show_csc(s));
    ensure!(s.col_start.len() == cols + 1, "col_start has {} entries expected {} [{}]", s.col_start.len(), cols + 1, show_csc(s));
    ensure!(s.col_start[0] == 0, "col_start[0] = {} [{}]", s.col_start[0], show_csc(s));
    for j in 0..cols {
        ensure!(s.col_start[j] <= s.col_start[j + 1], "col_start decreases at column {} [{}]", j, show_csc(s));
    }
    ensure!(s.col_start[cols] == nnz, "col_start[cols] = {} expected {} [{}]", s.col_start[cols], nnz, show_csc(s));
    for k in 0..nnz {
        ensure!(s.row_index[k] < rows, "row_index[{}] = {} out of range [{}]", k, s.row_index[k], show_csc(s));
    }
    // the raw arrays hold the model's entries
    let mut seen = SM::new();
    for j in 0..cols {
        for k in s.col_start[j]..s.col_start[j + 1] {
            ensure!(seen.insert((s.row_index[k], j), s.val[k]).is_none(), "duplicate entry ({},{}) in the compressed form [{}]", s.row_index[k], j, show_csc(s));
        }
    }
    ensure!(seen == *m, "compressed form holds {} expected {}", show_sm(rows, cols, &seen), show_sm(rows, cols, m));
    // lookup
    for i in 0..rows {
        for j in 0..cols {
            let g = s.get(i, j);
            let e = m.get(&(i, j)).copied();
            ensure!(g == e, "get({},{}) = {:?} expected {:?} [{}]", i, j, g, e, show_csc(s));
        }
    }
    // triplets: the same set, column ordered
    let t = s.to_triplets();
    ensure!(t.len() == nnz, "to_triplets has {} entries expected {}", t.len(), nnz);
    let mut ts = SM::new();
    for w in 0..t.len() {
        ensure!(ts.insert((t[w].0, t[w].1), t[w].2).is_none(), "to_triplets repeats an entry");
        if w > 0 {
            ensure!(t[w - 1].1 <= t[w].1, "to_triplets not ordered by column: {:?}", t);
        }
    }
    ensure!(ts == *m, "to_triplets = {:?} expected {}", t, show_sm(rows, cols, m));
    // dense
    let d = s.to_dense();
    ensure!(d == model::to_matrix(&dense_of(rows, cols, m), cols), "to_dense differs: {} expected {}", model::show(&model::from_matrix(&d)), model::show(&dense_of(rows, cols, m)));
    // column-index expansion
    let ci = s.col_index();
    ensure!(ci.size() == nnz, "col_index has {} entries expected {}", ci.size(), nnz);
    for k in 0..nnz {
        ensure!(ci[k] == t[k].1, "col_index[{}] = {} but entry {} lies in column {}", k, ci[k], k, t[k].1);
    }
    // and back: the column starts recomputed from the expansion are the stored ones
    let back = s.col_start_from_index(&ci);
    ensure!(back == s.col_start, "col_start_from_index(col_index()) = {:?} but col_start = {:?}", back, s.col_start);
    Ok(())
}

/// C07: products against the dense definition, adjoint identity, scaling.
pub fn products_check(s: &Sparse<Rat>, rows: usize, cols: usize, m: &SM, all_units: bool) -> Result<(), String> {
    let d = dense_of(rows, cols, m);
    let dt = model::transpose(&d, cols);
    let mut xs: Vec<Vec<Rat>> = vec![vec![r(1); cols], (0..cols).map(|k| if k % 2 == 0 { r(1) } else { r(-1) }).collect(), (0..cols).map(|k| Rat { n: 1i128 << k, d: 1 }).collect(), (0..cols).map(|k| rq(2 * k as i64 - 3, 3)).collect()];
    let mut ys: Vec<Vec<Rat>> = vec![vec![r(1); rows], (0..rows).map(|k| if k % 2 == 0 { r(-2) } else { r(3) }).collect(), (0..rows).map(|k| Rat { n: 1i128 << k, d: 1 }).collect()];
    if all_units {
        for j in 0..cols {
            let mut e = vec![r(0); cols];
            e[j] = r(1);
            xs.push(e);
        }
        for i in 0..rows {
            let mut e = vec![r(0); rows];
            e[i] = r(1);
            ys.push(e);
        }
    }
    let st = s.transpose();
    ensure!(st.rows == cols && st.cols == rows, "transpose has shape {}x{}", st.rows, st.cols);
    for x in xs.iter() {
        let xv = Vector::create(x.clone());
        let y = s.multiply(&xv);
        let e = model::matvec(&d, x);
        ensure!(y.vec == e, "multiply(x) = {} expected {} (x = {}) [{}]", model::showv(&y.vec), model::showv(&e), model::showv(x), show_csc(s));
        ensure!(xv.vec == *x, "multiply modified its argument");
    }
    for y in ys.iter() {
        let yv = Vector::create(y.clone());
        let z = s.transpose_multiply(&yv);
        let e = model::matvec(&dt, y);
        ensure!(z.vec == e, "transpose_multiply(y) = {} expected {} (y = {}) [{}]", model::showv(&z.vec), model::showv(&e), model::showv(y), show_csc(s));
        let z2 = st.multiply(&yv);
        ensure!(z2.vec == e, "transpose().multiply(y) = {} expected {} (y = {}) [{}]", model::showv(&z2.vec), model::showv(&e), model::showv(y), show_csc(&st));
        // adjoint identity <y, A x> = <A^T y, x>
        for x in xs.iter().take(4) {
            let xv = Vector::create(x.clone());
            let lhs = yv.dot(&s.multiply(&xv));
            let rhs = s.transpose_multiply(&yv).dot(&xv);
            ensure!(lhs == rhs, "<y,Ax> = {} but <A^T y,x> = {}", lhs, rhs);
        }
    }
    // scaling scales every product (also by 0, 1 and -1) and every view of the scaled matrix
    for k in [rq(-3, 2), r(0), r(1), r(-1)] {
        let mut sc = clone_sparse(s);
        sc.scale(&k);
        for x in xs.iter().take(4) {
            let y = sc.multiply(&Vector::create(x.clone()));
            let e: Vec<Rat> = model::matvec(&d, x).iter().map(|v| *v * k).collect();
            ensure!(y.vec == e, "multiply after scale({}) = {} expected {}", k, model::showv(&y.vec), model::showv(&e));
        }
        for y in ys.iter().take(3) {
            let z = sc.transpose_multiply(&Vector::create(y.clone()));
            let e: Vec<Rat> = model::matvec(&dt, y).iter().map(|v| *v * k).collect();
            ensure!(z.vec == e, "transpose_multiply after scale({}) = {} expected {}", k, model::showv(&z.vec), model::showv(&e));
        }
        let scaled: SM = m.iter().map(|(key, v)| (*key, *v * k)).collect();
        views_check(&sc, rows, cols, &scaled).map_err(|e| format!("after scale({}): {}", k, e))?;
    }
    Ok(())
}

/// Histories of insert / overwrite / scale / transpose on a real Sparse<Rat>.
#[derive(Clone, Copy, PartialEq)]
pub enum Mode {
    Views,
    Products,
}
pub struct SpState {
    pub s: Sparse<Rat>,
    pub rows: usize,
    pub cols: usize,
    pub m: SM,
    pub mode: Mode,
}
impl Clone for SpState {
    fn clone(&self) -> Self {
        SpState { s: clone_sparse(&self.s), rows: self.rows, cols: self.cols, m: self.m.clone(), mode: self.mode }
    }
}
#[derive(Clone, Debug)]
pub enum SpAct {
    Insert(usize, usize, i64),
    Scale(i64),
    Transpose,
}
impl Sut for SpState {
    type Act = SpAct;
    fn key(&self) -> Key {
        // the complete public state of the real object (storage order included)
        let mut k = vec![self.s.rows as i128, self.s.cols as i128, self.s.nonzero as i128];
        for v in &self.s.val {
            k.push(v.n);
            k.push(v.d);
        }
        k.push(-1);
        for v in &self.s.row_index {
            k.push(*v as i128);
        }
        k.push(-1);
        for v in &self.s.col_start {
            k.push(*v as i128);
        }
        k
    }
    fn actions(&self) -> Vec<SpAct> {
        let mut a = vec![];
        for i in 0..self.rows {
            for j in 0..self.cols {
                a.push(SpAct::Insert(i, j, 1));
                a.push(SpAct::Insert(i, j, 2));
                // an occupied position overwritten with zero
                if self.m.get(&(i, j)).map_or(false, |v| !v.is_zero()) {
                    a.push(SpAct::Insert(i, j, 0));
                }
            }
        }
        if self.m.values().all(|v| v.n.abs() < 4) {
            a.push(SpAct::Scale(2));
        }
        if self.m.values().any(|v| !v.is_zero()) {
            a.push(SpAct::Scale(0));
        }
        a.push(SpAct::Transpose);
        a
    }
    fn step(&mut self, a: &SpAct, hits: &mut Vec<&'static str>) -> Result<(), String> {
        match a.clone() {
            SpAct::Insert(i, j, v) => {
                if self.m.contains_key(&(i, j)) {
                    hits.push("overwrite of an existing entry");
                } else {
                    hits.push("fresh insert");
                    if self.m.keys().any(|k| k.1 == j && k.0 > i) {
                        hits.push("insert above an existing entry of the same column");
                    }
                }
                self.s.insert(i, j, r(v));
                self.m.insert((i, j), r(v));
            }
            SpAct::Scale(k) => {
                self.s.scale(&r(k));
                for v in self.m.values_mut() {
                    *v = *v * r(k);
                }
            }
            SpAct::Transpose => {
                self.s = self.s.transpose();
                let old = std::mem::take(&mut self.m);
                for ((i, j), v) in old {
                    self.m.insert((j, i), v);
                }
                std::mem::swap(&mut self.rows, &mut self.cols);
                hits.push("transpose in a history");
            }
        }
        self.check()
    }
    fn warm(&self) {
        let _ = catch(|| self.s.to_triplets());
        let _ = catch(|| self.s.to_dense());
        let _ = catch(|| self.s.col_index());
        let _ = catch(|| self.s.transpose());
        let _ = catch(|| self.s.multiply(&Vector::create(vec![r(1); self.cols])));
        let _ = catch(|| self.s.transpose_multiply(&Vector::create(vec![r(1); self.rows])));
        if self.rows > 0 && self.cols > 0 {
            let _ = catch(|| self.s.get(self.rows - 1, self.cols - 1));
        }
    }
    fn check(&self) -> Result<(), String> {
        match self.mode {
            Mode::Views => views_check(&self.s, self.rows, self.cols, &self.m),
            Mode::Products => products_check(&self.s, self.rows, self.cols, &self.m, true),
        }
    }
    fn classes(&self, hits: &mut Vec<&'static str>) {
        if (0..self.cols).any(|j| !self.m.keys().any(|k| k.1 == j)) {
            hits.push("state with an empty column");
        }
        if (0..self.rows).any(|i| !self.m.keys().any(|k| k.0 == i)) {
            hits.push("state with an empty row");
        }
        // rows not sorted inside some column (storage order differs from the canonical one)
        for j in 0..self.s.cols {
            let (a, b) = (self.s.col_start[j], self.s.col_start[j + 1]);
            if (a + 1..b).any(|k| self.s.row_index[k - 1] > self.s.row_index[k]) {
                hits.push("state with unsorted rows inside a column");
                break;
            }
        }
    }
    fn show(&self) -> String {
        format!("{} [{}]", show_sm(self.rows, self.cols, &self.m), show_csc(&self.s))
    }
}
pub fn empty_state(rows: usize, cols: usize, mode: Mode) -> SpState {
    let mut t: Vec<(usize, usize, Rat)> = vec![];
    SpState { s: Sparse::from_triplets(rows, cols, &mut t), rows, cols, m: SM::new(), mode }
}

pub fn pattern_cells(rows: usize, cols: usize, mask: u64) -> Vec<(usize, usize)> {
    let mut v = vec![];
    for i in 0..rows {
        for j in 0..cols {
            if (mask >> (i * cols + j)) & 1 == 1 {
                v.push((i, j));
            }
        }
    }
    v
}
/// distinct, mixed-sign, partly fractional values (a dropped, shifted or transposed index cannot cancel)
pub fn cell_value(i: usize, j: usize, cols: usize) -> Rat {
    let k = (i * cols + j) as i64;
    if k % 3 == 2 {
        rq(-(2 * k + 3), 2)
    } else {
        r(k + 1)
    }
}
/// a state built by from_triplets from a row-descending triplet list: rows are stored in non-ascending order inside the columns
pub fn unsorted_state(rows: usize, cols: usize, mode: Mode) -> SpState {
    let mut m = SM::new();
    let mut t: Vec<(usize, usize, Rat)> = vec![];
    for i in (0..rows).rev() {
        for j in 0..cols {
            if (i + j) % 2 == 0 || i + 1 == rows {
                t.push((i, j, r(1)));
                m.insert((i, j), r(1));
            }
        }
    }
    SpState { s: Sparse::from_triplets(rows, cols, &mut t), rows, cols, m, mode }
}
/// the same kind of state handed over as raw compressed-column arrays (from_vecs accepts any row order inside a column, whatever
/// from_triplets does with its input): a later insert / overwrite must cope with it
pub fn unsorted_vecs_state(rows: usize, cols: usize, mode: Mode) -> SpState {
    let mut m = SM::new();
    let (mut val, mut ri, mut cs) = (vec![], vec![], vec![0usize; cols + 1]);
    for j in 0..cols {
        for i in (0..rows).rev() {
            if (i + 2 * j) % 3 != 1 {
                let v = r((i * cols + j) as i64 + 2);
                val.push(v);
                ri.push(i);
                m.insert((i, j), v);
                cs[j + 1] += 1;
            }
        }
    }
    for j in 0..cols {
        cs[j + 1] += cs[j];
    }
    SpState { s: Sparse::from_vecs(rows, cols, val, ri, cs), rows, cols, m, mode }
}
pub fn run_bfs(ctx: &Ctx, name: &str, shapes: &[(usize, usize)], mode: Mode, depth: usize, cap: u64, cross: bool) {
    let mut inits: Vec<SpState> = shapes.iter().map(|&(r, c)| empty_state(r, c, mode)).collect();
    // start from non-initial states too: storage orders that inserts alone never produce
    inits.push(unsorted_state(3, 2, mode));
    inits.push(unsorted_state(2, 3, mode));
    inits.push(unsorted_vecs_state(3, 3, mode));
    explore(ctx, name, inits.clone(), BfsOpts { max_depth: depth, state_cap: cap });
    if cross {
        crosscheck_stateright(ctx, name, inits.clone(), depth);
    }
    explore_replayed(ctx, &format!("clone-free {}", name), inits, BfsOpts { max_depth: depth.saturating_sub(1).max(3), state_cap: 2_000_000 });
}

// --- element types other than the exact rationals: f64 and Complex<f64> on exactly representable data -------------------
use crate::model::CQ;
use ohsl::Cmplx;

pub trait Elt: Copy + ohsl::Number + std::fmt::Debug + PartialEq {
    const NAME: &'static str;
    const COMPLEX: bool;
    fn of(z: CQ) -> Self;
    fn same(&self, z: CQ) -> bool;
}
fn representable(x: Rat) -> bool {
    Rat::from_f64_exact(x.to_f64()) == Some(x)
}
impl Elt for f64 {
    const NAME: &'static str = "f64";
    const COMPLEX: bool = false;
    fn of(z: CQ) -> f64 {
        assert!(representable(z.re) && z.im.is_zero(), "harness: value not representable in f64");
        z.re.to_f64()
    }
    fn same(&self, z: CQ) -> bool {
        *self == z.re.to_f64() && z.im.is_zero()
    }
}
impl Elt for Cmplx {
    const NAME: &'static str = "Complex<f64>";
    const COMPLEX: bool = true;
    fn of(z: CQ) -> Cmplx {
        assert!(representable(z.re) && representable(z.im), "harness: value not representable in Complex<f64>");
        Cmplx::new(z.re.to_f64(), z.im.to_f64())
    }
    fn same(&self, z: CQ) -> bool {
        self.real == z.re.to_f64() && self.imag == z.im.to_f64()
    }
}
pub type CM = BTreeMap<(usize, usize), CQ>;
fn show_cm(m: &CM) -> String {
    m.iter().map(|(k, v)| format!("({},{})={}{:+}i", k.0, k.1, v.re.to_f64(), v.im.to_f64())).collect::<Vec<_>>().join(" ")
}
pub fn typed_views<T: Elt>(s: &Sparse<T>, rows: usize, cols: usize, m: &CM) -> Result<(), String> {
    let nnz = m.len();
    let csc = || format!("rows={} cols={} nonzero={} val={:?} row_index={:?} col_start={:?}", s.rows, s.cols, s.nonzero, s.val, s.row_index, s.col_start);
    ensure!(s.rows == rows && s.cols == cols && s.nonzero == nnz && s.val.len() == nnz && s.row_index.len() == nnz && s.col_start.len() == cols + 1, "shape / counts [{}] expected {}x{} with {} entries", csc(), rows, cols, nnz);
    ensure!(s.col_start[0] == 0 && s.col_start[cols] == nnz && (0..cols).all(|j| s.col_start[j] <= s.col_start[j + 1]), "col_start ill-formed [{}]", csc());
    let mut seen = 0;
    for j in 0..cols {
        for k in s.col_start[j]..s.col_start[j + 1] {
            ensure!(s.row_index[k] < rows, "row index out of range [{}]", csc());
            match m.get(&(s.row_index[k], j)) {
                Some(z) if s.val[k].same(*z) => seen += 1,
                other => return Err(format!("stored entry ({},{}) = {:?} expected {:?} [{}] model {}", s.row_index[k], j, s.val[k], other, csc(), show_cm(m))),
            }
        }
    }
    ensure!(seen == nnz, "compressed form holds {} of the {} model entries [{}]", seen, nnz, csc());
    let d = s.to_dense();
    ensure!(d.rows() == rows && d.cols() == cols, "to_dense shape");
    for i in 0..rows {
        for j in 0..cols {
            let e = m.get(&(i, j)).copied();
            let g = s.get(i, j);
            ensure!(match (g, e) { (None, None) => true, (Some(a), Some(b)) => a.same(b), _ => false }, "get({},{}) = {:?} expected {:?} [{}]", i, j, g, e, csc());
            ensure!(d[(i, j)].same(e.unwrap_or(CQ::zero())), "to_dense({},{}) = {:?} expected {:?}", i, j, d[(i, j)], e);
        }
    }
    let t = s.to_triplets();
    ensure!(t.len() == nnz, "to_triplets has {} entries expected {}", t.len(), nnz);
    let ci = s.col_index();
    ensure!(ci.size() == nnz, "col_index size");
    for w in 0..nnz {
        ensure!(m.get(&(t[w].0, t[w].1)).map(|z| t[w].2.same(*z)).unwrap_or(false), "to_triplets entry {:?} not in the model {}", t[w], show_cm(m));
        ensure!(ci[w] == t[w].1 && (w == 0 || t[w - 1].1 <= t[w].1), "col_index / triplet column order at {}", w);
    }
    Ok(())
}
/// One sparsity pattern of a rows x cols Sparse<T>, values from `letters` by position, every operation against exact Gaussian-rational arithmetic.
/// `letters` x `factors` must have exactly representable products (asserted by `Elt::of`).
pub fn typed_sparse_case<T: Elt>(rows: usize, cols: usize, cells: &[(usize, usize)], shift: usize, letters: &[CQ], factors: &[CQ], xs: &[CQ]) -> Result<(), String> {
    let l = letters.len();
    let value = |i: usize, j: usize| letters[(i * cols + j + shift) % l];
    let mut m = CM::new();
    for &(i, j) in cells {
        m.insert((i, j), value(i, j));
    }
    let build = |rev: bool| -> Sparse<T> {
        let mut t: Vec<(usize, usize, T)> = cells.iter().map(|&(i, j)| (i, j, T::of(value(i, j)))).collect();
        if rev {
            t.reverse();
        }
        Sparse::from_triplets(rows, cols, &mut t)
    };
    let s = build(false);
    typed_views(&s, rows, cols, &m).map_err(|e| format!("{} from_triplets: {}", T::NAME, e))?;
    typed_views(&build(true), rows, cols, &m).map_err(|e| format!("{} from_triplets (reversed list): {}", T::NAME, e))?;
    // transposition
    let mt: CM = m.iter().map(|(k, v)| ((k.1, k.0), *v)).collect();
    typed_views(&s.transpose(), cols, rows, &mt).map_err(|e| format!("{} transpose: {}", T::NAME, e))?;
    // scaling: every stored value times the factor, exactly
    for f in factors {
        let mut sc = build(true);
        sc.scale(&T::of(*f));
        let ms: CM = m.iter().map(|(k, v)| (*k, v.mul(*f))).collect();
        typed_views(&sc, rows, cols, &ms).map_err(|e| format!("{} scale({:?}): {}", T::NAME, T::of(*f), e))?;
        // overwrite after scaling, then a fresh insert
        if let Some(&(i, j)) = cells.first() {
            let mut m2 = ms.clone();
            sc.insert(i, j, T::of(letters[0]));
            m2.insert((i, j), letters[0]);
            typed_views(&sc, rows, cols, &m2).map_err(|e| format!("{} scale then overwrite: {}", T::NAME, e))?;
        }
    }
    let mut si = build(false);
    let mut mi = m.clone();
    'outer: for i in 0..rows {
        for j in 0..cols {
            if !mi.contains_key(&(i, j)) {
                si.insert(i, j, T::of(letters[l - 1]));
                mi.insert((i, j), letters[l - 1]);
                typed_views(&si, rows, cols, &mi).map_err(|e| format!("{} fresh insert ({},{}): {}", T::NAME, i, j, e))?;
                break 'outer;
            }
        }
    }
    // products with vectors over xs (callers pass letters/xs whose dot products are exact)
    if !xs.is_empty() {
        for rot in 0..xs.len() {
            let x: Vec<CQ> = (0..cols).map(|k| xs[(k + rot) % xs.len()]).collect();
            let y: Vec<CQ> = (0..rows).map(|k| xs[(2 * k + rot) % xs.len()]).collect();
            let xv: Vector<T> = Vector::create(x.iter().map(|z| T::of(*z)).collect());
            let yv: Vector<T> = Vector::create(y.iter().map(|z| T::of(*z)).collect());
            let ax = s.multiply(&xv);
            let aty = s.transpose_multiply(&yv);
            ensure!(ax.size() == rows && aty.size() == cols, "{} product sizes", T::NAME);
            for i in 0..rows {
                let e = (0..cols).fold(CQ::zero(), |a, j| a.add(m.get(&(i, j)).map(|v| v.mul(x[j])).unwrap_or(CQ::zero())));
                ensure!(ax[i].same(e), "{} multiply: row {} = {:?} expected {:?} (x = {:?}) model {}", T::NAME, i, ax[i], T::of(e), xv.vec, show_cm(&m));
            }
            for j in 0..cols {
                let e = (0..rows).fold(CQ::zero(), |a, i| a.add(m.get(&(i, j)).map(|v| v.mul(y[i])).unwrap_or(CQ::zero())));
                ensure!(aty[j].same(e), "{} transpose_multiply: column {} = {:?} expected {:?} (y = {:?}) model {}", T::NAME, j, aty[j], T::of(e), yv.vec, show_cm(&m));
            }
        }
    }
    Ok(())
}
pub fn cqi(re: i64, im: i64) -> CQ {
    CQ::new(r(re), r(im))
}
/// 2^k as an exact rational (k may be negative)
pub fn p2(k: i32) -> Rat {
    if k >= 0 {
        Rat { n: 1i128 << k, d: 1 }
    } else {
        Rat { n: 1, d: 1i128 << (-k) }
    }
}
/// Registers the typed lattices: every sparsity pattern of the given shapes for f64 and Complex<f64>.
pub fn typed_spaces(ctx: &Ctx, shapes: &[(usize, usize)], with_products: bool) {
    // mixed-magnitude letters: component-wise exactness of a product needs each part computed from its own two partial products
    let wide_c: Vec<CQ> = vec![CQ::new(r(1), p2(40)), CQ::new(p2(40), r(-1)), cqi(3, 4), cqi(0, -2), CQ::new(p2(-1), -p2(-2)), CQ::new(p2(-20), p2(20)), cqi(-5, 0)];
    let fac_c: Vec<CQ> = vec![cqi(1, 0), cqi(-1, 0), cqi(0, 1), cqi(2, 0), cqi(1, 1), cqi(-3, 4), cqi(0, 0), cqi(0, -2)];
    // parts 2^56 apart (their sum is not representable) with factors on the axes, where each part of the product is a single partial product
    let huge_c: Vec<CQ> = vec![CQ::new(r(1), p2(56)), CQ::new(-p2(56), r(3)), CQ::new(p2(-30), p2(30)), cqi(2, -7), CQ::new(r(-1), -p2(55))];
    let axis_c: Vec<CQ> = vec![cqi(1, 0), cqi(-1, 0), cqi(0, 1), cqi(0, -2), cqi(2, 0), cqi(0, 0)];
    let wide_r: Vec<CQ> = vec![CQ::new(p2(40) + r(1), r(0)), cqi(-3, 0), CQ::new(p2(-20), r(0)), cqi(7, 0), CQ::new(-p2(-1), r(0))];
    let fac_r: Vec<CQ> = vec![cqi(1, 0), cqi(-1, 0), cqi(3, 0), CQ::new(p2(-3), r(0)), cqi(0, 0)];
    // tame letters for products (all partial sums exact)
    let tame_c: Vec<CQ> = vec![cqi(1, 1), cqi(0, -2), cqi(3, 0), cqi(-1, 2), cqi(0, 1)];
    let tame_r: Vec<CQ> = vec![cqi(1, 0), cqi(-2, 0), cqi(3, 0), CQ::new(p2(-1), r(0))];
    for &(rows, cols) in shapes {
        let len = 1u64 << (rows * cols);
        let (wc, fc, wr, fr, tc, tr, hc, ac) = (wide_c.clone(), fac_c.clone(), wide_r.clone(), fac_r.clone(), tame_c.clone(), tame_r.clone(), huge_c.clone(), axis_c.clone());
        ctx.lattice(
            &format!("Sparse<f64> and Sparse<Complex<f64>> {}x{}: every sparsity pattern x 2 value shifts, exactly representable data of mixed magnitude: views, transpose, scale by {} factors, overwrite, insert{}", rows, cols, fac_c.len(), if with_products { ", products" } else { "" }),
            len * 2,
            |i| format!("{}x{} cells={:?} shift={}", rows, cols, pattern_cells(rows, cols, i / 2), i % 2),
            |i, acc| {
                let cells = pattern_cells(rows, cols, i / 2);
                let shift = (i % 2) as usize * 3;
                if !cells.is_empty() {
                    acc.nontriv("typed sparse case (f64, Complex<f64>)");
                }
                let key = || format!("{}x{} cells={:?} shift={}", rows, cols, cells, shift);
                judge(acc, i, key, || {
                    typed_sparse_case::<Cmplx>(rows, cols, &cells, shift, &wc, &fc, &[])?;
                    typed_sparse_case::<Cmplx>(rows, cols, &cells, shift, &hc, &ac, &[])?;
                    typed_sparse_case::<f64>(rows, cols, &cells, shift, &wr, &fr, &[])?;
                    if with_products {
                        typed_sparse_case::<Cmplx>(rows, cols, &cells, shift, &tc, &fc[..6], &tc)?;
                        typed_sparse_case::<f64>(rows, cols, &cells, shift, &tr, &fr[..4], &tr)?;
                    }
                    Ok(())
                });
            },
        );
    }
}
