//! C05 - a tridiagonal matrix of any size equals its dense twin; solve is exact or refuses.
use mc::bfs::*;
use mc::model::{self, M};
use mc::*;
use ohsl::{Cmplx, Tridiagonal, Vector};

fn dense(sub: &[Rat], main: &[Rat], sup: &[Rat]) -> M {
    let n = main.len();
    let mut d = model::zeros(n, n);
    for i in 0..n {
        d[i][i] = main[i];
        if i + 1 < n {
            d[i + 1][i] = sub[i];
            d[i][i + 1] = sup[i];
        }
    }
    d
}
/// does exact Thomas elimination (no pivoting) meet a zero pivot?
fn zero_pivot_step(sub: &[Rat], main: &[Rat], sup: &[Rat]) -> Option<usize> {
    let n = main.len();
    let mut beta = main[0];
    if beta.is_zero() {
        return Some(0);
    }
    for j in 1..n {
        beta = main[j] - sub[j - 1] * sup[j - 1] / beta;
        if beta.is_zero() {
            return Some(j);
        }
    }
    None
}
fn mk(sub: &[Rat], main: &[Rat], sup: &[Rat]) -> Tridiagonal<Rat> {
    Tridiagonal::with_vecs(sub.to_vec(), main.to_vec(), sup.to_vec())
}

fn check_exact(sub: &[Rat], main: &[Rat], sup: &[Rat], acc: &mut Acc) -> Result<(), String> {
    let t = mk(sub, main, sup);
    check_object(&t, sub, main, sup, acc)
}
/// all observers of one (possibly history-carrying) object against the dense twin of the model
fn check_object(t: &Tridiagonal<Rat>, sub: &[Rat], main: &[Rat], sup: &[Rat], acc: &mut Acc) -> Result<(), String> {
    let n = main.len();
    let d = dense(sub, main, sup);
    ensure!(t.size() == n, "size() = {}", t.size());
    ensure!(t.subdiagonal().vec == sub && t.maindiagonal().vec == main && t.superdiagonal().vec == sup, "diagonal accessors");
    // element access
    for i in 0..n {
        for j in 0..n {
            if i == j || i == j + 1 || i + 1 == j {
                ensure!(t[(i, j)] == d[i][j], "index ({},{}) = {} expected {}", i, j, t[(i, j)], d[i][j]);
            }
        }
    }
    // conversion and transpose
    let c = t.convert();
    ensure!(c == model::to_matrix(&d, n), "convert() = {} expected {}", model::show(&model::from_matrix(&c)), model::show(&d));
    let tt = t.transpose();
    ensure!(tt.convert() == model::to_matrix(&model::transpose(&d, n), n), "transpose() differs from the dense transpose");
    let mut tip = t.clone();
    tip.transpose_in_place();
    ensure!(tip.convert() == tt.convert(), "transpose_in_place differs from transpose");
    // determinant
    let det = model::det(&d);
    let got = t.det();
    ensure!(got == det, "det() = {} but the exact determinant is {}", got, det);
    // products
    let mut xs: Vec<Vec<Rat>> = vec![(0..n).map(|k| Rat { n: 7i128.pow(k as u32) * if k % 2 == 0 { 1 } else { -1 }, d: 1 }).collect()];
    if n <= 3 {
        for j in 0..n {
            let mut e = vec![r(0); n];
            e[j] = r(1);
            xs.push(e);
        }
    }
    for x in xs.iter() {
        let y = t * &model::to_vector(x);
        let e = model::matvec(&d, x);
        ensure!(y.vec == e, "&T*&x = {} expected {} (x = {})", model::showv(&y.vec), model::showv(&e), model::showv(x));
    }
    let y = t.clone() * model::to_vector(&xs[0]);
    ensure!(y.vec == model::matvec(&d, &xs[0]), "owned T*x differs");
    // solve: exact or refuses with the zero-pivot message
    let zp = zero_pivot_step(sub, main, sup);
    let rhs: Vec<Vec<Rat>> = vec![(0..n).map(|i| if i % 2 == 0 { r(1 + i as i64) } else { r(-2 * i as i64) }).collect(), (0..n).map(|i| if i + 1 == n { r(1) } else { r(0) }).collect()];
    for b in rhs.iter() {
        let res = catch(|| t.solve(&model::to_vector(b)));
        match (zp, res) {
            (None, Ok(x)) => {
                acc.hit("exact tridiagonal solves");
                ensure!(x.size() == n, "solve: wrong length");
                let tx = model::matvec(&d, &x.vec);
                ensure!(&tx == b, "solve: T*x = {} but r = {} (x = {})", model::showv(&tx), model::showv(b), model::showv(&x.vec));
            }
            (None, Err(p)) => return Err(format!("solve panicked although elimination meets no zero pivot: {}", p)),
            (Some(k), Ok(x)) => return Err(format!("solve returned {} although elimination meets a zero pivot at step {}", model::showv(&x.vec), k)),
            (Some(k), Err(p)) => {
                acc.hit("zero-pivot refusals");
                if is_overflow(&p) {
                    return Err(p);
                }
                let ok = p.contains("zero pivot") || p.contains("zero on leading diagonal");
                ensure!(ok, "solve refused at zero pivot step {} with an unrelated panic: {}", k, p);
            }
        }
    }
    // the matrix is untouched
    ensure!(t.convert() == model::to_matrix(&d, n), "matrix modified by &self methods");
    Ok(())
}

fn classify(sub: &[Rat], main: &[Rat], sup: &[Rat], acc: &mut Acc) {
    let n = main.len();
    if n == 1 {
        acc.nontriv("n=1");
    }
    if n == 2 {
        acc.nontriv("n=2");
    }
    match zero_pivot_step(sub, main, sup) {
        Some(0) => acc.nontriv("zero leading pivot"),
        Some(_) => acc.nontriv("zero pivot at a later step"),
        None => {}
    }
    if sub.iter().any(|v| v.is_zero()) || sup.iter().any(|v| v.is_zero()) {
        acc.nontriv("zero sub/super-diagonal entry");
    }
}

fn split(v: &[Rat], n: usize) -> (Vec<Rat>, Vec<Rat>, Vec<Rat>) {
    (v[..n - 1].to_vec(), v[n - 1..2 * n - 1].to_vec(), v[2 * n - 1..].to_vec())
}

fn exhaustive(ctx: &Ctx, n: usize, letters: Vec<Rat>) {
    let k = 3 * n - 2;
    let len = pow(letters.len() as u64, k as u32);
    ctx.lattice(
        &format!("exact n={} all {} diagonal entries over {:?}", n, k, letters),
        len,
        |idx| model::showv(&model::vec_from_idx(idx, k, &letters)),
        |idx, acc| {
            let v = model::vec_from_idx(idx, k, &letters);
            let (sub, main, sup) = split(&v, n);
            classify(&sub, &main, &sup, acc);
            let mut local = Acc::new("t");
            let res = catch(|| check_exact(&sub, &main, &sup, &mut local));
            for (k, v) in local.hits {
                *acc.hits.entry(k).or_insert(0) += v;
            }
            let key = || format!("n={} sub={} main={} sup={}", n, model::showv(&sub), model::showv(&main), model::showv(&sup));
            match res {
                Ok(Ok(())) => {}
                Ok(Err(e)) => acc.fail(idx, key(), e),
                Err(p) => acc.fail(idx, key(), format!("unexpected panic: {}", p)),
            }
        },
    );
}

fn toeplitz(ctx: &Ctx, nmin: usize, nmax: usize) {
    let letters = vec![r(0), r(1), r(-1), r(2), r(3)];
    // (n, sub letter, main letter, sup letter, zero-pivot step or n = none)
    let mut cases = vec![];
    for n in nmin..=nmax {
        for idx in 0..125u64 {
            for k in 0..=n {
                cases.push((n, idx, k));
            }
        }
    }
    ctx.lattice(
        &format!("exact Toeplitz n={}..{} over 5 letters, with the pivot of every step k forced to zero", nmin, nmax),
        cases.len() as u64,
        |i| format!("{:?}", cases[i as usize]),
        |i, acc| {
            let (n, idx, k) = cases[i as usize];
            let l = model::vec_from_idx(idx, 3, &letters);
            let sub = vec![l[0]; n - 1];
            let mut main = vec![l[1]; n];
            let sup = vec![l[2]; n - 1];
            if k < n {
                // choose main[k] so that the k-th pivot is exactly zero (if the earlier pivots exist)
                let mut beta = main[0];
                let mut ok = !beta.is_zero() || k == 0;
                for j in 1..k {
                    if beta.is_zero() {
                        ok = false;
                        break;
                    }
                    beta = main[j] - sub[j - 1] * sup[j - 1] / beta;
                }
                if k == 0 {
                    main[0] = r(0);
                } else if ok && !beta.is_zero() {
                    main[k] = sub[k - 1] * sup[k - 1] / beta;
                }
            }
            classify(&sub, &main, &sup, acc);
            acc.nontriv("order >= 6");
            let mut local = Acc::new("t");
            let res = catch(|| check_exact(&sub, &main, &sup, &mut local));
            for (k, v) in local.hits {
                *acc.hits.entry(k).or_insert(0) += v;
            }
            let key = || format!("n={} sub={} main={} sup={}", n, model::showv(&sub), model::showv(&main), model::showv(&sup));
            match res {
                Ok(Ok(())) => {}
                Ok(Err(e)) => acc.fail(i, key(), e),
                Err(p) => acc.fail(i, key(), format!("unexpected panic: {}", p)),
            }
        },
    );
}

fn arithmetic_case(n: usize) -> Result<(), String> {
    let sa: Vec<Rat> = (0..n - 1).map(|k| r(1 + k as i64)).collect();
    let ma: Vec<Rat> = (0..n).map(|k| r(10 + k as i64)).collect();
    let ua: Vec<Rat> = (0..n - 1).map(|k| r(-20 - k as i64)).collect();
    let sb: Vec<Rat> = (0..n - 1).map(|k| rq(1 + 2 * k as i64, 2)).collect();
    let mb: Vec<Rat> = (0..n).map(|k| rq(-3 - k as i64, 4)).collect();
    let ub: Vec<Rat> = (0..n - 1).map(|k| rq(5 + k as i64, 3)).collect();
    let a = mk(&sa, &ma, &ua);
    let b = mk(&sb, &mb, &ub);
    let s = rq(-3, 2);
    let cmp = |x: &Tridiagonal<Rat>, f: &dyn Fn(Rat, Rat) -> Rat, what: &str| -> Result<(), String> {
        ensure!(x.size() == n, "{}: size", what);
        for k in 0..n {
            ensure!(x.maindiagonal()[k] == f(ma[k], mb[k]), "{}: main[{}]", what, k);
        }
        for k in 0..n - 1 {
            ensure!(x.subdiagonal()[k] == f(sa[k], sb[k]), "{}: sub[{}]", what, k);
            ensure!(x.superdiagonal()[k] == f(ua[k], ub[k]), "{}: sup[{}]", what, k);
        }
        ensure!(x.subdiagonal().size() == n - 1 && x.superdiagonal().size() == n - 1 && x.maindiagonal().size() == n, "{}: diagonal lengths", what);
        Ok(())
    };
    cmp(&(-a.clone()), &|x, _| -x, "-A")?;
    cmp(&(a.clone() + b.clone()), &|x, y| x + y, "A + B")?;
    cmp(&(a.clone() - b.clone()), &|x, y| x - y, "A - B")?;
    cmp(&(a.clone() * s), &|x, _| x * s, "A * s")?;
    cmp(&(a.clone() / s), &|x, _| x / s, "A / s")?;
    let mut t = a.clone();
    t += s;
    cmp(&t, &|x, _| x + s, "A += c")?;
    let mut t = a.clone();
    t -= s;
    cmp(&t, &|x, _| x - s, "A -= c")?;
    let mut t = a.clone();
    t *= s;
    cmp(&t, &|x, _| x * s, "A *= s")?;
    let mut t = a.clone();
    t /= s;
    cmp(&t, &|x, _| x / s, "A /= s")?;
    cmp(&a, &|x, _| x, "A untouched")?;
    // constructors
    let w = Tridiagonal::<Rat>::with_elements(r(1), r(2), r(3), n);
    ensure!(w.convert() == model::to_matrix(&dense(&vec![r(1); n - 1], &vec![r(2); n], &vec![r(3); n - 1]), n), "with_elements");
    let z = Tridiagonal::<Rat>::new(n);
    ensure!(z.convert() == model::to_matrix(&model::zeros(n, n), n), "new(n) is not the zero matrix");
    let wv = Tridiagonal::with_vectors(Vector::create(sa.clone()), Vector::create(ma.clone()), Vector::create(ua.clone()));
    ensure!(wv.convert() == a.convert(), "with_vectors != with_vecs");
    let mut rz = a.clone();
    rz.resize(n + 1);
    ensure!(rz.size() == n + 1 && rz.convert() == model::to_matrix(&model::zeros(n + 1, n + 1), n + 1), "resize");
    // index_mut writes exactly one entry
    for i in 0..n {
        for j in 0..n {
            if i == j || i == j + 1 || i + 1 == j {
                let mut t = a.clone();
                t[(i, j)] = r(99);
                let mut d = dense(&sa, &ma, &ua);
                d[i][j] = r(99);
                ensure!(t.convert() == model::to_matrix(&d, n), "index_mut ({},{})", i, j);
            }
        }
    }
    // f64 left multiplication
    let af = Tridiagonal::with_vecs((0..n - 1).map(|k| k as f64 + 1.0).collect(), (0..n).map(|k| -(k as f64) - 2.0).collect(), (0..n - 1).map(|k| 0.5 * k as f64).collect());
    let l = 2.0 * af.clone();
    let rr = af.clone() * 2.0;
    ensure!(l.convert() == rr.convert(), "f64 * T != T * f64");
    Ok(())
}

// --- floats ------------------------------------------------------------------------------------------
const BE_THRESHOLD: f64 = 1e-13;
fn f64_space(ctx: &Ctx, nmax: usize) {
    // strictly diagonally dominant families: main = +-(|sub|+|sup|+1 .. ), off-diagonals over a signed alphabet
    let offs = [1.0f64, -1.0, 0.5, -3.0, 1e-3, 0.0];
    let scales = [1.0f64, 2f64.powi(-60), 1e18];
    let mut cases = vec![];
    for n in 1..=nmax {
        for a in 0..offs.len() {
            for b in 0..offs.len() {
                for sgn in 0..9 {
                    cases.push((n, a, b, sgn));
                }
            }
        }
    }
    ctx.lattice(
        &format!("f64 strictly diagonally dominant Toeplitz-like families n=1..{}", nmax),
        cases.len() as u64,
        |i| format!("{:?}", cases[i as usize]),
        |i, acc| {
            let (n, a, b, sgn9) = cases[i as usize];
            let (sgn, scale) = (sgn9 % 3, scales[sgn9 / 3]);
            let sub: Vec<f64> = (0..n.saturating_sub(1)).map(|k| offs[a] * (1.0 + (k % 3) as f64)).collect();
            let sup: Vec<f64> = (0..n.saturating_sub(1)).map(|k| offs[b] * (1.0 + ((k + 1) % 2) as f64)).collect();
            let main: Vec<f64> = (0..n)
                .map(|k| {
                    let s = if k > 0 { sub[k - 1].abs() } else { 0.0 } + if k + 1 < n { sup[k].abs() } else { 0.0 } + 1.0 + (k % 2) as f64;
                    match sgn {
                        0 => s,
                        1 => -s,
                        _ => {
                            if k % 2 == 0 {
                                s
                            } else {
                                -s
                            }
                        }
                    }
                })
                .collect();
            // uniform scaling keeps diagonal dominance and conditioning
            let sub: Vec<f64> = sub.iter().map(|v| v * scale).collect();
            let sup: Vec<f64> = sup.iter().map(|v| v * scale).collect();
            let main: Vec<f64> = main.iter().map(|v| v * scale).collect();
            if scale != 1.0 {
                acc.nontriv("uniformly scaled system");
            }
            if sgn > 0 {
                acc.nontriv("negative diagonal entries");
            }
            if n <= 2 {
                acc.nontriv("n<=2 float");
            }
            let key = || format!("f64 n={} sub={:?} main={:?} sup={:?}", n, sub, main, sup);
            let res = catch(|| -> Result<f64, String> {
                let t = Tridiagonal::with_vecs(sub.clone(), main.clone(), sup.clone());
                let mut df = vec![vec![0.0; n]; n];
                for k in 0..n {
                    df[k][k] = main[k];
                    if k + 1 < n {
                        df[k + 1][k] = sub[k];
                        df[k][k + 1] = sup[k];
                    }
                }
                let mut worst = 0.0f64;
                for rhs in [vec![1.0; n], (0..n).map(|k| (k as f64) - 1.5).collect::<Vec<f64>>()] {
                    let x = t.solve(&Vector::create(rhs.clone()));
                    let e = model::backward_error(&df, &x.vec, &rhs);
                    worst = worst.max(e);
                    ensure!(e <= BE_THRESHOLD, "backward error {:e}; x = {:?}", e, x.vec);
                }
                Ok(worst)
            });
            match res {
                Ok(Ok(w)) => acc.worst("backward_error_tridiagonal_solve", w, key),
                Ok(Err(e)) => acc.fail(i, key(), e),
                Err(p) => acc.fail(i, key(), format!("unexpected panic: {}", p)),
            }
        },
    );
}

fn complex_space(ctx: &Ctx) {
    let letters = [Cmplx::new(0., 0.), Cmplx::new(1., 0.), Cmplx::new(0., 1.), Cmplx::new(-1., 1.), Cmplx::new(0., -2.), Cmplx::new(3., 0.)];
    let lq = [model::CQ::new(r(0), r(0)), model::CQ::new(r(1), r(0)), model::CQ::new(r(0), r(1)), model::CQ::new(r(-1), r(1)), model::CQ::new(r(0), r(-2)), model::CQ::new(r(3), r(0))];
    let nl = letters.len() as u64;
    for n in 1..=3usize {
        let k = 3 * n - 2;
        ctx.lattice(
            &format!("Complex<f64> n={} all diagonal entries over {{0,1,i,-1+i,-2i,3}}: det, conj, product, solve against exact Gaussian-rational elimination", n),
            pow(nl, k as u32),
            |idx| format!("{}", idx),
            |idx, acc| {
                let mut d = vec![0usize; k];
                digits_uniform(idx, nl, &mut d);
                let sub: Vec<Cmplx> = d[..n - 1].iter().map(|&i| letters[i]).collect();
                let main: Vec<Cmplx> = d[n - 1..2 * n - 1].iter().map(|&i| letters[i]).collect();
                let sup: Vec<Cmplx> = d[2 * n - 1..].iter().map(|&i| letters[i]).collect();
                if d.iter().any(|&i| i >= 2) {
                    acc.nontriv("genuinely complex entries");
                }
                let key = || format!("complex n={} sub={:?} main={:?} sup={:?}", n, sub, main, sup);
                let res = catch(|| -> Result<(), String> {
                    let t = Tridiagonal::with_vecs(sub.clone(), main.clone(), sup.clone());
                    // exact twin
                    let mut aq = vec![vec![model::CQ::zero(); n]; n];
                    for i in 0..n {
                        aq[i][i] = lq[d[n - 1 + i]];
                        if i + 1 < n {
                            aq[i + 1][i] = lq[d[i]];
                            aq[i][i + 1] = lq[d[2 * n - 1 + i]];
                        }
                    }
                    let dq = model::det_cq(&aq);
                    let got = t.det();
                    ensure!((got.real - dq.re.to_f64()).hypot(got.imag - dq.im.to_f64()) <= 1e-12, "complex det {:?} vs exact ({}, {})", got, dq.re, dq.im);
                    let cj = t.conj();
                    for i in 0..n {
                        ensure!(cj[(i, i)] == main[i].conj(), "conj main");
                    }
                    for i in 0..n.saturating_sub(1) {
                        ensure!(cj[(i + 1, i)] == sub[i].conj() && cj[(i, i + 1)] == sup[i].conj(), "conj off-diagonals");
                    }
                    let x: Vec<Cmplx> = (0..n).map(|i| Cmplx::new(1.0 + i as f64, -1.0)).collect();
                    let y = &t * &Vector::create(x.clone());
                    for i in 0..n {
                        let mut s = main[i] * x[i];
                        if i > 0 {
                            s += sub[i - 1] * x[i - 1];
                        }
                        if i + 1 < n {
                            s += sup[i] * x[i + 1];
                        }
                        ensure!((y[i] - s).abs() <= 1e-13, "complex product row {}", i);
                    }
                    // solve: exact Thomas elimination over the Gaussian rationals; judged when no pivot vanishes
                    let bq: Vec<model::CQ> = (0..n).map(|i| model::CQ::new(r(1 + i as i64), r(if i % 2 == 0 { -2 } else { 1 }))).collect();
                    let mut beta = vec![model::CQ::zero(); n];
                    let mut g = vec![model::CQ::zero(); n];
                    let mut singular = false;
                    for j in 0..n {
                        let (b_j, rhs) = if j == 0 {
                            (aq[0][0], bq[0])
                        } else {
                            let m = aq[j][j - 1].div(beta[j - 1]);
                            (aq[j][j].sub(m.mul(aq[j - 1][j])), bq[j].sub(m.mul(g[j - 1])))
                        };
                        if b_j.is_zero() {
                            singular = true;
                            break;
                        }
                        beta[j] = b_j;
                        g[j] = rhs;
                    }
                    if !singular {
                        let mut xq = vec![model::CQ::zero(); n];
                        for j in (0..n).rev() {
                            let mut t2 = g[j];
                            if j + 1 < n {
                                t2 = t2.sub(aq[j][j + 1].mul(xq[j + 1]));
                            }
                            xq[j] = t2.div(beta[j]);
                        }
                        let bv: Vector<Cmplx> = Vector::create(bq.iter().map(|z| Cmplx::new(z.re.to_f64(), z.im.to_f64())).collect());
                        let got = t.solve(&bv);
                        ensure!(got.size() == n, "complex solve: wrong length");
                        let scale = xq.iter().map(|z| z.re.to_f64().hypot(z.im.to_f64())).fold(1.0, f64::max);
                        for i in 0..n {
                            let e = (got[i].real - xq[i].re.to_f64()).hypot(got[i].imag - xq[i].im.to_f64());
                            ensure!(e <= 1e-11 * scale, "complex solve: x[{}] = {:?} but the exact solution has ({}, {})", i, got[i], xq[i].re, xq[i].im);
                        }
                        acc.hit("complex tridiagonal solves");
                        if main.iter().any(|z| z.real == 0.0 && z.imag != 0.0) {
                            acc.nontriv("complex solve with a purely imaginary diagonal entry");
                        }
                    }
                    Ok(())
                });
                match res {
                    Ok(Ok(())) => {}
                    Ok(Err(e)) => acc.fail(idx, key(), e),
                    Err(p) => acc.fail(idx, key(), format!("unexpected panic: {}", p)),
                }
            },
        );
    }
}

// --- E2 histories --------------------------------------------------------------------------------------
#[derive(Clone)]
struct St {
    t: Tridiagonal<Rat>,
    sub: Vec<Rat>,
    main: Vec<Rat>,
    sup: Vec<Rat>,
}
#[derive(Clone, Debug)]
enum Act {
    Set(usize, usize, i64),
    TransposeIP,
    AddC(i64),
    SubC(i64),
    MulS(i64),
    DivS(i64),
    Neg,
    AddOther,
    SubOther,
    Resize(usize),
}
impl Sut for St {
    type Act = Act;
    fn key(&self) -> Key {
        let mut k = vec![self.main.len() as i128];
        for v in self.sub.iter().chain(self.main.iter()).chain(self.sup.iter()) {
            k.push(v.n);
            k.push(v.d);
        }
        k
    }
    fn actions(&self) -> Vec<Act> {
        let n = self.main.len();
        let mut a = vec![];
        let small = self.sub.iter().chain(self.main.iter()).chain(self.sup.iter()).all(|v| v.n.abs() < 30 && v.d < 30);
        for i in 0..n {
            for j in 0..n {
                if i == j || i == j + 1 || i + 1 == j {
                    a.push(Act::Set(i, j, 0));
                    a.push(Act::Set(i, j, 2));
                }
            }
        }
        a.push(Act::TransposeIP);
        a.push(Act::Neg);
        if small {
            a.push(Act::AddC(1));
            a.push(Act::SubC(1));
            a.push(Act::MulS(2));
            a.push(Act::DivS(2));
            a.push(Act::AddOther);
            a.push(Act::SubOther);
        }
        for k in 1..=3 {
            if k != n {
                a.push(Act::Resize(k));
            }
        }
        a
    }
    fn step(&mut self, a: &Act, hits: &mut Vec<&'static str>) -> Result<(), String> {
        let n = self.main.len();
        let other = |n: usize| (vec![r(1); n - 1], (0..n).map(|k| r(k as i64 - 1)).collect::<Vec<Rat>>(), vec![r(-2); n - 1]);
        match a.clone() {
            Act::Set(i, j, v) => {
                self.t[(i, j)] = r(v);
                if i == j {
                    self.main[i] = r(v);
                } else if i == j + 1 {
                    self.sub[j] = r(v);
                } else {
                    self.sup[i] = r(v);
                }
            }
            Act::TransposeIP => {
                self.t.transpose_in_place();
                std::mem::swap(&mut self.sub, &mut self.sup);
            }
            Act::AddC(c) => {
                self.t += r(c);
                for v in self.sub.iter_mut().chain(self.main.iter_mut()).chain(self.sup.iter_mut()) {
                    *v = *v + r(c);
                }
            }
            Act::SubC(c) => {
                self.t -= r(c);
                for v in self.sub.iter_mut().chain(self.main.iter_mut()).chain(self.sup.iter_mut()) {
                    *v = *v - r(c);
                }
            }
            Act::MulS(c) => {
                self.t *= r(c);
                for v in self.sub.iter_mut().chain(self.main.iter_mut()).chain(self.sup.iter_mut()) {
                    *v = *v * r(c);
                }
            }
            Act::DivS(c) => {
                self.t /= r(c);
                for v in self.sub.iter_mut().chain(self.main.iter_mut()).chain(self.sup.iter_mut()) {
                    *v = *v / r(c);
                }
            }
            Act::Neg => {
                self.t = -self.t.clone();
                for v in self.sub.iter_mut().chain(self.main.iter_mut()).chain(self.sup.iter_mut()) {
                    *v = -*v;
                }
            }
            Act::AddOther => {
                let (s, m, u) = other(n);
                self.t = self.t.clone() + mk(&s, &m, &u);
                for k in 0..n {
                    self.main[k] = self.main[k] + m[k];
                }
                for k in 0..n - 1 {
                    self.sub[k] = self.sub[k] + s[k];
                    self.sup[k] = self.sup[k] + u[k];
                }
            }
            Act::SubOther => {
                let (s, m, u) = other(n);
                self.t = self.t.clone() - mk(&s, &m, &u);
                for k in 0..n {
                    self.main[k] = self.main[k] - m[k];
                }
                for k in 0..n - 1 {
                    self.sub[k] = self.sub[k] - s[k];
                    self.sup[k] = self.sup[k] - u[k];
                }
            }
            Act::Resize(k) => {
                self.t.resize(k);
                self.sub = vec![r(0); k - 1];
                self.main = vec![r(0); k];
                self.sup = vec![r(0); k - 1];
                if k == 1 {
                    hits.push("resized to n=1");
                }
            }
        }
        self.check()
    }
    fn warm(&self) {
        let n = self.main.len();
        let rhs: Vec<Rat> = (0..n).map(|k| r(1 + k as i64)).collect();
        let _ = catch(|| self.t.solve(&model::to_vector(&rhs)));
        let _ = catch(|| self.t.det());
        let _ = catch(|| &self.t * &model::to_vector(&rhs));
        let _ = catch(|| self.t.convert());
        let _ = catch(|| self.t.transpose());
    }
    fn check(&self) -> Result<(), String> {
        let mut acc = Acc::new("t");
        // the object that went through the history, not a fresh twin: anything it carries along (caches, stale fields) is observed
        check_object(&self.t, &self.sub, &self.main, &self.sup, &mut acc)?;
        check_exact(&self.sub, &self.main, &self.sup, &mut acc)?;
        // the real object holds exactly the model's diagonals
        ensure!(self.t.subdiagonal().vec == self.sub && self.t.maindiagonal().vec == self.main && self.t.superdiagonal().vec == self.sup, "object diagonals differ from the model: {:?}", self.t);
        let d = dense(&self.sub, &self.main, &self.sup);
        ensure!(self.t.convert() == model::to_matrix(&d, self.main.len()), "convert differs");
        ensure!(self.t.det() == model::det(&d), "det differs");
        Ok(())
    }
    fn classes(&self, hits: &mut Vec<&'static str>) {
        if self.main.len() == 1 {
            hits.push("n=1 state");
        }
        if zero_pivot_step(&self.sub, &self.main, &self.sup).is_some() {
            hits.push("zero-pivot state");
        }
    }
    fn show(&self) -> String {
        format!("sub={} main={} sup={}", model::showv(&self.sub), model::showv(&self.main), model::showv(&self.sup))
    }
}

/// Tridiagonal<Complex<f64>> with rows and right-hand side scaled by powers of two up to 2^+-480: T = diag(rho) T0 (T0 over
/// small Gaussian integers), r = tau diag(rho) T0 x*. Pivots scale with their row, so the zero-pivot pattern is that of T0
/// (decided in exact Gaussian rationals): solution tau x* exactly known, or a zero-pivot panic
fn complex_scaled_space(ctx: &Ctx, n: usize, nl: usize) {
    let letters = [Cmplx::new(0., 0.), Cmplx::new(1., 0.), Cmplx::new(0., 1.), Cmplx::new(-1., 1.), Cmplx::new(0., -2.)];
    let lq = [model::CQ::new(r(0), r(0)), model::CQ::new(r(1), r(0)), model::CQ::new(r(0), r(1)), model::CQ::new(r(-1), r(1)), model::CQ::new(r(0), r(-2))];
    let rhos = [2f64.powi(-480), 2f64.powi(-340), 1.0, 2f64.powi(342), 2f64.powi(480)];
    let taus = [2f64.powi(-400), 1.0, 2f64.powi(400)];
    let k = 3 * n - 2;
    let per = pow(rhos.len() as u64, n as u32) * taus.len() as u64;
    let xstar: Vec<Cmplx> = [Cmplx::new(1.0, 0.0), Cmplx::new(0.0, 1.0), Cmplx::new(-2.0, 1.0)][..n].to_vec();
    let xq = [model::CQ::new(r(1), r(0)), model::CQ::new(r(0), r(1)), model::CQ::new(r(-2), r(1))];
    ctx.lattice(
        &format!("Complex<f64> n={} over {} letters x row scales {{2^-480,2^-340,1,2^342,2^480}}^{} x solution scales {{2^-400,1,2^400}}: solve or zero-pivot panic", n, nl, n),
        pow(nl as u64, k as u32) * per,
        |idx| format!("diagonals#{} scales#{}", idx / per, idx % per),
        |idx, acc| {
            let mut d = vec![0usize; k];
            digits_uniform(idx / per, nl as u64, &mut d);
            let mut rd = vec![0usize; n];
            digits_uniform((idx % per) / taus.len() as u64, rhos.len() as u64, &mut rd);
            let tau = taus[(idx % taus.len() as u64) as usize];
            let (sq, mq, pq): (Vec<model::CQ>, Vec<model::CQ>, Vec<model::CQ>) = (d[..n - 1].iter().map(|&i| lq[i]).collect(), d[n - 1..2 * n - 1].iter().map(|&i| lq[i]).collect(), d[2 * n - 1..].iter().map(|&i| lq[i]).collect());
            // exact Thomas elimination: where does a zero pivot arise?
            let mut zero_pivot = mq[0].is_zero();
            if !zero_pivot {
                let mut beta = mq[0];
                for j in 1..n {
                    let gamma = pq[j - 1].div(beta);
                    beta = mq[j].sub(sq[j - 1].mul(gamma));
                    if beta.is_zero() {
                        zero_pivot = true;
                        break;
                    }
                }
            }
            let sc = |z: Cmplx, s: f64| Cmplx::new(z.real * s, z.imag * s);
            // row i of T holds sub[i-1], main[i], sup[i]
            let sub: Vec<Cmplx> = (0..n - 1).map(|i| sc(letters[d[i]], rhos[rd[i + 1]])).collect();
            let main: Vec<Cmplx> = (0..n).map(|i| sc(letters[d[n - 1 + i]], rhos[rd[i]])).collect();
            let sup: Vec<Cmplx> = (0..n - 1).map(|i| sc(letters[d[2 * n - 1 + i]], rhos[rd[i]])).collect();
            let mut rhs = vec![];
            for i in 0..n {
                let mut s = mq[i].mul(xq[i]);
                if i > 0 {
                    s = s.add(sq[i - 1].mul(xq[i - 1]));
                }
                if i + 1 < n {
                    s = s.add(pq[i].mul(xq[i + 1]));
                }
                rhs.push(Cmplx::new(s.re.to_f64() * rhos[rd[i]] * tau, s.im.to_f64() * rhos[rd[i]] * tau));
            }
            let key = || format!("complex scaled n={} sub={:?} main={:?} sup={:?} tau={:e}", n, sub, main, sup, tau);
            if rd.iter().any(|&q| q != 2) || tau != 1.0 {
                acc.nontriv("tridiagonal system with a scale beyond 2^+-340");
            }
            let t = Tridiagonal::with_vecs(sub.clone(), main.clone(), sup.clone());
            let got = catch(|| t.solve(&Vector::create(rhs.clone())));
            match (zero_pivot, got) {
                (true, Err(msg)) => {
                    acc.nontriv("zero pivot refused");
                    if !msg.to_lowercase().contains("zero") {
                        acc.fail(idx, key(), format!("zero pivot, but the panic message is {:?}", msg));
                    }
                }
                (true, Ok(x)) => acc.fail(idx, key(), format!("a zero pivot arises but solve returned {:?}", x.vec)),
                (false, Err(msg)) => acc.fail(idx, key(), format!("no zero pivot arises but solve panicked: {}", msg)),
                (false, Ok(x)) => {
                    let mut err = 0.0f64;
                    let mut finite = true;
                    for j in 0..n {
                        let (re, im) = (x[j].real / tau, x[j].imag / tau);
                        finite &= re.is_finite() && im.is_finite();
                        err = err.max((re - xstar[j].real).abs()).max((im - xstar[j].imag).abs());
                    }
                    if !finite || !(err <= 1e-10) {
                        acc.fail(idx, key(), format!("x / tau = {:?} but the solution is {:?}", x.vec.iter().map(|z| (z.real / tau, z.imag / tau)).collect::<Vec<_>>(), xstar));
                    }
                }
            }
        },
    );
}

/// diagonal systems: x_i must be the correctly rounded quotient r_i / main_i, bit for bit (the elimination has nothing to do:
/// beta_j = main_j - 0 * gamma_j, the back substitution subtracts 0 * x_(j+1)) - also for subnormal pivots and for quotients such
/// as 49 / 49 that a reciprocal-and-multiply does not reproduce
fn diagonal_bitwise_space(ctx: &Ctx) {
    let ml = [49.0f64, 3.0, -7.0, 0.1, 3e-310, 5e-324, 1e300, -147.0, 2f64.powi(-1030)];
    let rl = [49.0f64, 1.0, -147.0, 3e-310, 0.7, 2f64.powi(-1030) * 3.0];
    let nm = ml.len() as u64;
    let nr = rl.len() as u64;
    for n in 1..=3usize {
        let per = pow(nm, n as u32);
        ctx.lattice(
            &format!("Tridiagonal<f64> diagonal systems n={}: main over {{49,3,-7,0.1,3e-310,5e-324,1e300,-147,2^-1030}}, r over {{49,1,-147,3e-310,0.7,3*2^-1030}}, off-diagonals +0.0: x = r / main bit for bit", n),
            per * pow(nr, n as u32),
            |idx| format!("{}", idx),
            |idx, acc| {
                let mut md = vec![0usize; n];
                let mut rd = vec![0usize; n];
                digits_uniform(idx % per, nm, &mut md);
                digits_uniform(idx / per, nr, &mut rd);
                let main: Vec<f64> = md.iter().map(|&k| ml[k]).collect();
                let r: Vec<f64> = rd.iter().map(|&k| rl[k]).collect();
                if main.iter().any(|v| v.abs() < 1e-308) {
                    acc.nontriv("subnormal pivot");
                } else {
                    acc.nontriv("diagonal system");
                }
                judge(acc, idx, || format!("diagonal main={:?} r={:?}", main, r), || {
                    if (0..n).any(|i| !(r[i] / main[i]).is_finite()) {
                        return Ok(()); // a solution component is not representable (0 * inf in the neighbouring rows is then legitimate)
                    }
                    let t = Tridiagonal::<f64>::with_vecs(vec![0.0; n - 1], main.clone(), vec![0.0; n - 1]);
                    let x = t.solve(&Vector::create(r.clone()));
                    for i in 0..n {
                        let want = r[i] / main[i];
                        ensure!(x[i].to_bits() == want.to_bits() || (want.is_nan() && x[i].is_nan()), "x[{}] = {:e} but r / main = {:e} / {:e} = {:e}", i, x[i], r[i], main[i], want);
                    }
                    Ok(())
                });
            },
        );
    }
}

fn main() {
    let ctx = Ctx::from_args("C05");
    ctx.level("model_checking");
    ctx.rule("E1: every tridiagonal matrix with all 3n-2 entries over {0,1,-1,2,3} for n=1..4 and over {0,1,-1} for n=5 (thorough: 4 letters n=5, 3 letters n=6); Toeplitz matrices n=6..12 over 5 letters with the pivot of every elimination step k forced to exactly zero; index/convert/transpose/det/&T*&x against the dense twin over exact rationals; solve must return x with T*x=r exactly iff exact pivot-free elimination meets no zero pivot and otherwise panic with the zero-pivot message; arithmetic operators/constructors for n=1..8; f64 diagonally dominant families (backward error), Complex<f64> lattice. E2: BFS over histories of index writes / transpose / scalar and matrix arithmetic / resize on real Tridiagonal<Rat> objects of order 1..3. Non-trivial: n=1, n=2, zero leading pivot, zero pivot at a later step, zero off-diagonal entries, order>=6.");
    ctx.assume("orders above 6 only through Toeplitz families; f64 claim checked on strictly diagonally dominant systems only, as the property states");
    ctx.threshold("backward_error_tridiagonal_solve", BE_THRESHOLD);
    ctx.require(&["n=1", "n=2", "zero leading pivot", "zero pivot at a later step", "zero sub/super-diagonal entry", "order >= 6", "exact tridiagonal solves", "zero-pivot refusals", "n=1 state", "zero-pivot state", "complex solve with a purely imaginary diagonal entry"]);
    let z5 = vec![r(0), r(1), r(-1), r(2), r(3)];
    for n in 1..=3 {
        exhaustive(&ctx, n, z5.clone());
    }
    exhaustive(&ctx, 4, if ctx.quick() { vec![r(0), r(1), r(-1), r(2)] } else { z5.clone() });
    exhaustive(&ctx, 5, vec![r(0), r(1), r(-1)]);
    toeplitz(&ctx, 6, 12);
    ctx.lattice(
        "arithmetic operators, constructors, index_mut for n=1..8",
        8,
        |i| format!("n={}", i + 1),
        |i, acc| {
            let n = i as usize + 1;
            if n <= 2 {
                acc.nontriv("n<=2 arithmetic");
            }
            judge(acc, i, || format!("n={}", n), || arithmetic_case(n));
        },
    );
    f64_space(&ctx, ctx.pick(12, 40));
    complex_space(&ctx);
    diagonal_bitwise_space(&ctx);
    complex_scaled_space(&ctx, 1, 5);
    complex_scaled_space(&ctx, 2, 5);
    complex_scaled_space(&ctx, 3, ctx.pick(3, 4));
    if ctx.thorough() {
        exhaustive(&ctx, 5, vec![r(0), r(1), r(-1), r(2)]);
        exhaustive(&ctx, 6, vec![r(0), r(1), r(-1)]);
    }
    let depth = ctx.pick(4, 6);
    let mut inits = vec![];
    for n in [3usize, 2, 1] {
        let sub = vec![r(1); n - 1];
        let main = vec![r(2); n];
        let sup = vec![r(-1); n - 1];
        inits.push(St { t: mk(&sub, &main, &sup), sub, main, sup });
    }
    // start objects that come from `new( n )` (all zero) with the main diagonal written through the index operator: whatever `new` and the
    // index operator keep as bookkeeping ("off-diagonals known to be zero") is in place before the first off-diagonal write (round 16)
    for n in [3usize, 2] {
        let mut t = Tridiagonal::<Rat>::new(n);
        for i in 0..n {
            t[(i, i)] = r(2);
        }
        inits.push(St { t, sub: vec![r(0); n - 1], main: vec![r(2); n], sup: vec![r(0); n - 1] });
    }
    explore(&ctx, "tridiagonal histories n<=3", inits.clone(), BfsOpts { max_depth: depth, state_cap: ctx.pick(1_000_000, 20_000_000) });
    if ctx.quick() {
        crosscheck_stateright(&ctx, "tridiagonal histories n<=3", inits.clone(), depth);
    }
    explore_replayed(&ctx, "clone-free histories on one Tridiagonal<Rat>", inits.clone(), BfsOpts { max_depth: ctx.pick(4, 5), state_cap: 2_000_000 });
    // the same without the read-only queries between the steps: a solve() between two writes re-validates lazily kept bookkeeping
    // (a "known diagonal" flag, a pending slot) and hides a write that forgot to invalidate it (round 16)
    mc::bfs::WARM.store(false, std::sync::atomic::Ordering::SeqCst);
    explore_replayed(&ctx, "clone-free histories on one Tridiagonal<Rat>, no queries between the steps", inits, BfsOpts { max_depth: ctx.pick(4, 5), state_cap: 2_000_000 });
    mc::bfs::WARM.store(true, std::sync::atomic::Ordering::SeqCst);
    // (1) Tridiagonal<Complex<f64>>::solve with a pivot beyond |z| ~ 1e154 / below 1e-162 (unscaled complex division, see C01):
    // repaired by 8d587e4, demanded now. Known findings: (2) the three-term determinant recurrence forms sub * sup first, which over- / underflows for entries 2^+-600 although the
    // determinant (and the dense twin's value) is representable.
    {
        ctx.listed_cases(
            "listed inputs: Tridiagonal<Complex<f64>> with entries of extreme magnitude (bug-hunt inputs, repaired by 8d587e4)",
            vec![
                ("extreme-complex tridiagonal (2e160) x = (2e160)".to_string(), Box::new(|| {
                    let t = Tridiagonal::with_vecs(vec![], vec![Cmplx::new(2e160, 0.0)], vec![]);
                    let x = t.solve(&Vector::create(vec![Cmplx::new(2e160, 0.0)]));
                    ensure!((x[0].real - 1.0).abs() <= 1e-12 && x[0].imag == 0.0, "x = {:?} but the solution is 1", x.vec);
                    Ok(())
                })),
                ("extreme-complex tridiagonal (2^-600) x = (2^-600)".to_string(), Box::new(|| {
                    let p = 2f64.powi(-600);
                    let t = Tridiagonal::with_vecs(vec![], vec![Cmplx::new(p, 0.0)], vec![]);
                    let x = t.solve(&Vector::create(vec![Cmplx::new(p, 0.0)]));
                    ensure!(x[0].real == 1.0 && x[0].imag == 0.0, "x = {:?} but the solution is 1", x.vec);
                    Ok(())
                })),
                ("extreme-complex tridiagonal 2^-600 [[2,1],[1,2]] x = 2^-600 (3,3)".to_string(), Box::new(|| {
                    let p = 2f64.powi(-600);
                    let z = |v: f64| Cmplx::new(v * p, 0.0);
                    let t = Tridiagonal::with_vecs(vec![z(1.0)], vec![z(2.0), z(2.0)], vec![z(1.0)]);
                    let x = t.solve(&Vector::create(vec![z(3.0), z(3.0)]));
                    ensure!((x[0].real - 1.0).abs() <= 1e-14 && (x[1].real - 1.0).abs() <= 1e-14 && x[0].imag == 0.0 && x[1].imag == 0.0, "x = {:?} but the solution is (1, 1)", x.vec);
                    Ok(())
                })),
                ("extreme-complex tridiagonal (-2^1023 i) x = (2^1022)".to_string(), Box::new(|| {
                    // a pivot in the top binade: the power of two that scales it to order one is 2^-1023, itself subnormal
                    let t = Tridiagonal::with_vecs(vec![], vec![Cmplx::new(0.0, -(2f64.powi(1023)))], vec![]);
                    let x = t.solve(&Vector::create(vec![Cmplx::new(2f64.powi(1022), 0.0)]));
                    ensure!(x[0].real == 0.0 && x[0].imag == 0.5, "x = {:?} but the solution is 0.5 i", x.vec);
                    Ok(())
                })),
                ("extreme-complex tridiagonal 2^1021 [[2,1],[1,3+i]] x = 2^1021 (3, 4+i)".to_string(), Box::new(|| {
                    let p = 2f64.powi(1021);
                    let z = |re: f64, im: f64| Cmplx::new(re * p, im * p);
                    let t = Tridiagonal::with_vecs(vec![z(1.0, 0.0)], vec![z(2.0, 0.0), z(3.0, 1.0)], vec![z(1.0, 0.0)]);
                    let x = t.solve(&Vector::create(vec![z(3.0, 0.0), z(4.0, 1.0)]));
                    let e = (x[0].real - 1.0).abs() + x[0].imag.abs() + (x[1].real - 1.0).abs() + x[1].imag.abs();
                    ensure!(e <= 1e-14, "x = {:?} but the solution is (1, 1)", x.vec);
                    Ok(())
                })),
                ("extreme-complex tridiagonal (1e120 i) x = (1e200 i)".to_string(), Box::new(|| {
                    let t = Tridiagonal::with_vecs(vec![], vec![Cmplx::new(0.0, 1e120)], vec![]);
                    let x = t.solve(&Vector::create(vec![Cmplx::new(0.0, 1e200)]));
                    ensure!((x[0].real / 1e80 - 1.0).abs() <= 1e-14 && x[0].imag == 0.0, "x = {:?} but the solution is 1e80", x.vec);
                    Ok(())
                })),
            ],
        );
        // fifth bug hunt: exactly singular INTEGER systems whose zero pivot is missed by one rounding (the pivot is formed through the
        // rounded quotient sup / beta): no refusal, a "solution" of size 1e14. Genuine and listed: a relative pivot test needs a
        // notion of rounding level that the generic element type does not offer
        ctx.known_cases(
            "listed inputs: exactly singular integer systems whose zero pivot is missed by one rounding",
            vec![
                ("singular-integer tridiagonal [[11,15],[11,15]] x = (1,2)".to_string(), Box::new(|| {
                    let t = Tridiagonal::<f64>::with_vecs(vec![11.0], vec![11.0, 15.0], vec![15.0]);
                    match catch(|| t.solve(&Vector::create(vec![1.0, 2.0]))) {
                        Err(p) if p.contains("zero pivot") => Ok(()),
                        Err(p) => Err(format!("panicked with {:?} instead of a zero-pivot message", p)),
                        Ok(x) => Err(format!("a singular system (det() = {}) was not refused: x = {:?}", t.det(), x.vec)),
                    }
                })),
                ("singular-integer tridiagonal [[3,7],[27,63]] x = (1,2)".to_string(), Box::new(|| {
                    let t = Tridiagonal::<f64>::with_vecs(vec![27.0], vec![3.0, 63.0], vec![7.0]);
                    match catch(|| t.solve(&Vector::create(vec![1.0, 2.0]))) {
                        Err(p) if p.contains("zero pivot") => Ok(()),
                        Err(p) => Err(format!("panicked with {:?} instead of a zero-pivot message", p)),
                        Ok(x) => Err(format!("a singular system was not refused: x = {:?}", x.vec)),
                    }
                })),
                ("singular-integer tridiagonal complex [[1+3i,1],[1+3i,1]] x = (1,2)".to_string(), Box::new(|| {
                    let (z, one) = (Cmplx::new(1.0, 3.0), Cmplx::new(1.0, 0.0));
                    let t = Tridiagonal::<Cmplx>::with_vecs(vec![z], vec![z, one], vec![one]);
                    match catch(|| t.solve(&Vector::create(vec![one, Cmplx::new(2.0, 0.0)]))) {
                        Err(p) if p.contains("zero pivot") => Ok(()),
                        Err(p) => Err(format!("panicked with {:?} instead of a zero-pivot message", p)),
                        Ok(x) => Err(format!("a singular system was not refused: x = {:?}", x.vec)),
                    }
                })),
            ],
        );
        ctx.known_cases(
            "listed inputs: Tridiagonal<f64> with entries of extreme magnitude",
            vec![
                ("extreme-f64 tridiagonal det sub=[1,2^-600] main=[2^600,2^-600,1] sup=[1,2^-600]".to_string(), Box::new(|| {
                    let p = 2f64.powi(600);
                    let t = Tridiagonal::with_vecs(vec![1.0, 1.0 / p], vec![p, 1.0 / p, 1.0], vec![1.0, 1.0 / p]);
                    let d = t.det();
                    let dense = t.convert().determinant();
                    ensure!(d == -1.0 / p, "det() = {:e} but the determinant is -2^-600 (the dense twin gives {:e})", d, dense);
                    Ok(())
                })),
                ("extreme-f64 tridiagonal solve sub=[1e200] main=[1,2e200] sup=[0] r=[1e200,0]".to_string(), Box::new(|| {
                    // row dominant, entries of each row within a factor 3, solution (1e200, -5e199): sub * x0 = 1e400 is formed before the division
                    let t = Tridiagonal::<f64>::with_vecs(vec![1e200], vec![1.0, 2e200], vec![0.0]);
                    let x = t.solve(&Vector::create(vec![1e200, 0.0]));
                    let (x0, x1): (f64, f64) = (x[0], x[1]);
                    ensure!((x0 / 1e200 - 1.0).abs() <= 1e-12 && (x1 / -5e199 - 1.0).abs() <= 1e-12, "x = {:?} but the solution is (1e200, -5e199)", x.vec);
                    Ok(())
                })),
                ("extreme-f64 tridiagonal solve main=[1e200,1] sup=[1e-150] r=[2e150,1e300]".to_string(), Box::new(|| {
                    // strictly row dominant, upper triangular: x = (1e-50, 1e300)
                    let t = Tridiagonal::<f64>::with_vecs(vec![0.0], vec![1e200, 1.0], vec![1e-150]);
                    let x = t.solve(&Vector::create(vec![2e150, 1e300]));
                    let x0: f64 = x[0];
                    ensure!((x0 / 1e-50 - 1.0).abs() <= 1e-12 && x[1] == 1e300, "x = {:?} but the solution is (1e-50, 1e300)", x.vec);
                    Ok(())
                })),
            ],
        );
    }
    std::process::exit(ctx.finish());
}
