//! C04 - a banded matrix behaves exactly like the dense matrix with the same band.
use mc::bfs::*;
use mc::model::{self, M};
use mc::*;
use ohsl::{Banded, Cmplx, Vector};

#[derive(Clone, Copy, Debug)]
struct Cfg {
    n: usize,
    m1: usize,
    m2: usize,
}
fn slots(c: Cfg) -> Vec<(usize, usize)> {
    let mut v = vec![];
    for i in 0..c.n {
        for j in 0..c.n {
            if j <= i + c.m2 && i <= j + c.m1 {
                v.push((i, j));
            }
        }
    }
    v
}
fn build(c: Cfg, sl: &[(usize, usize)], vals: &[Rat], pad: Rat) -> Banded<Rat> {
    let mut b = Banded::new(c.n, c.m1, c.m2, pad);
    for (k, &(i, j)) in sl.iter().enumerate() {
        b[(i, j)] = vals[k];
    }
    b
}
fn dense(c: Cfg, sl: &[(usize, usize)], vals: &[Rat]) -> M {
    let mut d = model::zeros(c.n, c.n);
    for (k, &(i, j)) in sl.iter().enumerate() {
        d[i][j] = vals[k];
    }
    d
}
fn all_cfgs(nmin: usize, nmax: usize, mmax: usize) -> Vec<Cfg> {
    let mut v = vec![];
    for n in nmin..=nmax {
        for m1 in 0..n.min(mmax + 1) {
            for m2 in 0..n.min(mmax + 1) {
                v.push(Cfg { n, m1, m2 });
            }
        }
    }
    v
}

fn rhs_list(n: usize) -> Vec<Vec<Rat>> {
    vec![(0..n).map(|i| if i % 2 == 0 { r(1 + i as i64) } else { r(-2 * i as i64) }).collect(), (0..n).map(|i| if i + 1 == n { r(1) } else { r(0) }).collect()]
}

fn check_exact(c: Cfg, sl: &[(usize, usize)], vals: &[Rat], acc: &mut Acc) -> Result<(), String> {
    let n = c.n;
    let d = dense(c, sl, vals);
    let det = model::det(&d);
    let xs: Vec<Vec<Rat>> = {
        let mut v = vec![(0..n).map(|k| Rat { n: 7i128.pow(k as u32) * if k % 2 == 0 { 1 } else { -1 }, d: 1 }).collect::<Vec<Rat>>()];
        if n <= 4 {
            for j in 0..n {
                let mut e = vec![r(0); n];
                e[j] = r(1);
                v.push(e);
            }
        }
        v
    };
    let rhs = rhs_list(n);
    let mut first: Option<(Rat, Vec<Vec<Rat>>)> = None;
    for pad in [r(0), r(7)] {
        let b = build(c, sl, vals, pad);
        ensure!(b.size() == n && b.size_below() == c.m1 && b.size_above() == c.m2, "size accessors");
        for (k, &(i, j)) in sl.iter().enumerate() {
            ensure!(b[(i, j)] == vals[k], "index ({},{}) = {} expected {}", i, j, b[(i, j)], vals[k]);
        }
        for x in xs.iter() {
            let xv = model::to_vector(x);
            let y = &b * &xv;
            let e = model::matvec(&d, x);
            ensure!(y.vec == e, "pad {}: &B*&x = {} expected {} (x = {})", pad, model::showv(&y.vec), model::showv(&e), model::showv(x));
        }
        let y = b.clone() * model::to_vector(&xs[0]);
        ensure!(y.vec == model::matvec(&d, &xs[0]), "pad {}: owned B*x differs", pad);
        let got = b.det();
        ensure!(got == det, "pad {}: det() = {} but the exact determinant is {}", pad, got, det);
        let mut sols = vec![];
        if !det.is_zero() {
            for bb in rhs.iter() {
                acc.hit("exact banded solves");
                let x = b.solve(&model::to_vector(bb));
                ensure!(x.size() == n, "solve: wrong length");
                let bx = model::matvec(&d, &x.vec);
                ensure!(&bx == bb, "pad {}: solve: B*x = {} but b = {} (x = {})", pad, model::showv(&bx), model::showv(bb), model::showv(&x.vec));
                sols.push(x.vec.clone());
            }
        }
        // the operand is untouched by det/solve/mul
        for (k, &(i, j)) in sl.iter().enumerate() {
            ensure!(b[(i, j)] == vals[k], "det/solve/mul modified entry ({},{})", i, j);
        }
        match &first {
            None => first = Some((got, sols)),
            Some((g0, s0)) => {
                ensure!(*g0 == got && *s0 == sols, "results depend on the padding value");
            }
        }
    }
    Ok(())
}

fn classify(c: Cfg, d: &M, acc: &mut Acc) {
    let n = c.n;
    if n >= 2 && c.m1 >= 1 && d[0][0].is_zero() && !d[1][0].is_zero() {
        acc.nontriv("zero diagonal over non-zero sub-diagonal");
    }
    if (0..n).any(|i| d[i][i] < r(0)) {
        acc.nontriv("negative diagonal entry");
    }
    if n >= 2 && c.m1 >= 1 && d[0][0] > r(0) && d[1][0] < r(0) && ohsl::Signed::abs(&d[1][0]) > d[0][0] {
        acc.nontriv("negative sub-diagonal larger in magnitude than positive pivot");
    }
    if c.m1 != c.m2 {
        acc.hit("asymmetric bandwidths");
    }
    if model::exchanges(d) > 0 {
        acc.nontriv("row exchange needed");
    }
}

fn alphabet_for(nslots: usize, cap: u64) -> Vec<Vec<Rat>> {
    let a5 = vec![r(0), r(1), r(-1), r(2), r(-3)];
    let a3 = vec![r(0), r(1), r(-1)];
    let a2a = vec![r(0), r(-1)];
    let a2b = vec![r(1), r(-2)];
    let fits = |l: u64| (l as f64).powi(nslots as i32) <= cap as f64;
    if fits(5) {
        vec![a5]
    } else if fits(3) {
        vec![a3]
    } else if fits(2) {
        vec![a2a, a2b]
    } else {
        vec![]
    }
}

fn exhaustive_spaces(ctx: &Ctx, nmax: usize, cap: u64) -> Vec<Cfg> {
    let mut leftover = vec![];
    for c in all_cfgs(1, nmax, 10) {
        let sl = slots(c);
        let alphas = alphabet_for(sl.len(), cap);
        if alphas.is_empty() {
            leftover.push(c);
            continue;
        }
        for letters in alphas {
            let l = letters.len() as u64;
            let len = pow(l, sl.len() as u32);
            ctx.lattice(
                &format!("exact n={} m1={} m2={} all {} in-band entries over {:?}", c.n, c.m1, c.m2, sl.len(), letters),
                len,
                |idx| model::showv(&model::vec_from_idx(idx, sl.len(), &letters)),
                |idx, acc| {
                    let vals = model::vec_from_idx(idx, sl.len(), &letters);
                    let d = dense(c, &sl, &vals);
                    classify(c, &d, acc);
                    if model::det(&d).is_zero() {
                        acc.nontriv("singular band");
                    }
                    let mut local = Acc::new("t");
                    let res = catch(|| check_exact(c, &sl, &vals, &mut local));
                    for (k, v) in local.hits {
                        for _ in 0..v {
                            acc.hit(k);
                        }
                    }
                    let key = || format!("n={} m1={} m2={} band={}", c.n, c.m1, c.m2, model::show(&d));
                    match res {
                        Ok(Ok(())) => {}
                        Ok(Err(e)) => acc.fail(idx, key(), e),
                        Err(p) => acc.fail(idx, key(), format!("unexpected panic: {}", p)),
                    }
                },
            );
        }
    }
    leftover
}

/// base band: diagonally dominant with NEGATIVE diagonal; deviations replace <= d entries by each of the letters
fn deviation_space(ctx: &Ctx, cfgs: &[Cfg], d: usize, tag: &str) {
    let dev_letters = vec![r(0), r(-1), r(5), r(2)];
    for &c in cfgs {
        let sl = slots(c);
        let devs = deviations(sl.len(), dev_letters.len(), d);
        let base: Vec<Rat> = sl.iter().map(|&(i, j)| if i == j { r(-4 - c.m1 as i64 - c.m2 as i64) } else { r(1) }).collect();
        ctx.lattice(
            &format!("exact n={} m1={} m2={} <= {} deviations from a negative-diagonal dominant band {}", c.n, c.m1, c.m2, d, tag),
            devs.len() as u64,
            |idx| format!("{:?}", devs[idx as usize]),
            |idx, acc| {
                let mut vals = base.clone();
                for &(p, a) in &devs[idx as usize] {
                    vals[p] = dev_letters[a];
                }
                let dm = dense(c, &sl, &vals);
                classify(c, &dm, acc);
                if c.n >= 6 {
                    acc.nontriv("order >= 6");
                }
                if model::det(&dm).is_zero() {
                    acc.nontriv("singular band");
                }
                let mut local = Acc::new("t");
                let res = catch(|| check_exact(c, &sl, &vals, &mut local));
                let key = || format!("n={} m1={} m2={} band={}", c.n, c.m1, c.m2, model::show(&dm));
                match res {
                    Ok(Ok(())) => {}
                    Ok(Err(e)) => acc.fail(idx, key(), e),
                    Err(p) => acc.fail(idx, key(), format!("unexpected panic: {}", p)),
                }
            },
        );
    }
}

fn toeplitz_space(ctx: &Ctx, ns: &[usize], mmax: usize) {
    let letters = vec![r(0), r(1), r(-1), r(2), r(-3)];
    for &n in ns {
        for c in all_cfgs(n, n, mmax) {
            let nd = c.m1 + c.m2 + 1;
            let sl = slots(c);
            ctx.lattice(
                &format!("exact Toeplitz n={} m1={} m2={} every diagonal constant over 5 letters", c.n, c.m1, c.m2),
                pow(5, nd as u32),
                |idx| model::showv(&model::vec_from_idx(idx, nd, &letters)),
                |idx, acc| {
                    let dl = model::vec_from_idx(idx, nd, &letters);
                    let vals: Vec<Rat> = sl.iter().map(|&(i, j)| dl[c.m1 + j - i]).collect();
                    let dm = dense(c, &sl, &vals);
                    classify(c, &dm, acc);
                    acc.nontriv("order >= 6");
                    if model::det(&dm).is_zero() {
                        acc.nontriv("singular band");
                    }
                    let mut local = Acc::new("t");
                    let res = catch(|| check_exact(c, &sl, &vals, &mut local));
                    let key = || format!("n={} m1={} m2={} toeplitz diagonals={}", c.n, c.m1, c.m2, model::showv(&dl));
                    match res {
                        Ok(Ok(())) => {}
                        Ok(Err(e)) => acc.fail(idx, key(), e),
                        Err(p) => acc.fail(idx, key(), format!("unexpected panic: {}", p)),
                    }
                },
            );
        }
    }
}

/// every bandwidth pair 0 <= m1, m2 < n for n = 6..10 (the property's full range) with two generic fillings: wide bands
/// (m1 + m2 >= n) included, which the exhaustive and Toeplitz spaces only reach for n <= 5
fn all_bandwidths_space(ctx: &Ctx, nmin: usize, nmax: usize) {
    let mut cases = vec![];
    for n in nmin..=nmax {
        for m1 in 0..n {
            for m2 in 0..n {
                for fill in 0..2usize {
                    cases.push((Cfg { n, m1, m2 }, fill));
                }
            }
        }
    }
    ctx.lattice(
        &format!("exact n={}..{}: EVERY bandwidth pair 0 <= m1, m2 < n x 2 generic fillings", nmin, nmax),
        cases.len() as u64,
        |idx| format!("n={} m1={} m2={} filling#{}", cases[idx as usize].0.n, cases[idx as usize].0.m1, cases[idx as usize].0.m2, cases[idx as usize].1),
        |idx, acc| {
            let (c, fill) = cases[idx as usize];
            let sl = slots(c);
            let vals: Vec<Rat> = sl
                .iter()
                .map(|&(i, j)| {
                    if i == j {
                        r(if fill == 0 { -(c.n as i64) - 3 - (i % 2) as i64 } else { [5, -7, 6][i % 3] })
                    } else if fill == 0 {
                        r(((i * 3 + j * 5) % 5) as i64 - 2)
                    } else {
                        r(if (i + 2 * j) % 4 == 0 { 0 } else { ((i + j) % 3) as i64 - 1 })
                    }
                })
                .collect();
            let dm = dense(c, &sl, &vals);
            classify(c, &dm, acc);
            acc.nontriv("order >= 6");
            if c.m1 + c.m2 >= c.n {
                acc.nontriv("wide band (m1 + m2 >= n)");
            }
            let mut local = Acc::new("t");
            let res = catch(|| check_exact(c, &sl, &vals, &mut local));
            let key = || format!("n={} m1={} m2={} filling#{} band={}", c.n, c.m1, c.m2, fill, model::show(&dm));
            match res {
                Ok(Ok(())) => {}
                Ok(Err(e)) => acc.fail(idx, key(), e),
                Err(p) => acc.fail(idx, key(), format!("unexpected panic: {}", p)),
            }
        },
    );
}

/// Pivot words: for bandwidths with m1 >= 3 (and a few with m1 = 2) every choice, per column k, of the row k + o_k (o_k <= m1) that
/// holds the entry of largest modulus - the other band entries are small and generic. The partial pivoting of decompose() then
/// exchanges far rows, near rows and none in every order, so fill-in from an earlier exchange meets a later, shorter one (a row
/// exchange that swaps only the columns the pivot row had BEFORE the fill-in loses an entry: det 18.75 instead of 24).
fn pivot_word_space(ctx: &Ctx, cfgs: &[Cfg]) {
    for &c in cfgs {
        let radix: Vec<u64> = (0..c.n).map(|k| (c.m1.min(c.n - 1 - k) + 1) as u64).collect();
        let words: u64 = radix.iter().product();
        ctx.lattice(
            &format!("exact n={} m1={} m2={}: every pivot word (per column the row offset 0..=m1 of the dominant entry) x 2 small fillings", c.n, c.m1, c.m2),
            words * 2,
            |idx| format!("word#{} filling#{}", idx / 2, idx % 2),
            |idx, acc| {
                let mut w = idx / 2;
                let fill = idx % 2;
                let offs: Vec<usize> = radix.iter().map(|&rx| { let o = (w % rx) as usize; w /= rx; o }).collect();
                let sl = slots(c);
                let vals: Vec<Rat> = sl
                    .iter()
                    .map(|&(i, j)| {
                        if i >= j && i - j == offs[j] {
                            r((20 + 3 * j as i64) * if (i + j) % 2 == 0 { 1 } else { -1 })
                        } else if fill == 0 {
                            r(((i * 3 + j * 5) % 5) as i64 - 2)
                        } else {
                            r([1, -2, 3, 2, -1][(2 * i + j) % 5])
                        }
                    })
                    .collect();
                let dm = dense(c, &sl, &vals);
                classify(c, &dm, acc);
                acc.nontriv("pivot word (m1 >= 2)");
                let mut local = Acc::new("t");
                let res = catch(|| check_exact(c, &sl, &vals, &mut local));
                let key = || format!("pivot word n={} m1={} m2={} offsets={:?} filling#{} band={}", c.n, c.m1, c.m2, offs, fill, model::show(&dm));
                match res {
                    Ok(Ok(())) => {}
                    Ok(Err(e)) => acc.fail(idx, key(), e),
                    Err(p) => acc.fail(idx, key(), format!("unexpected panic: {}", p)),
                }
            },
        );
    }
}

// --- arithmetic operators ---------------------------------------------------------------------------
fn arithmetic_case(c: Cfg) -> Result<(), String> {
    let sl = slots(c);
    let va: Vec<Rat> = (0..sl.len()).map(|k| r(1 + k as i64)).collect();
    let vb: Vec<Rat> = (0..sl.len()).map(|k| rq(-(3 * k as i64 + 2), 2)).collect();
    let a = build(c, &sl, &va, r(0));
    let b = build(c, &sl, &vb, r(0));
    let s = rq(-3, 2);
    let two = r(2);
    let cmp = |x: &Banded<Rat>, f: &dyn Fn(usize) -> Rat, what: &str| -> Result<(), String> {
        ensure!(x.size() == c.n && x.size_below() == c.m1 && x.size_above() == c.m2, "{}: shape changed", what);
        for (k, &(i, j)) in sl.iter().enumerate() {
            ensure!(x[(i, j)] == f(k), "{}: entry ({},{}) = {} expected {}", what, i, j, x[(i, j)], f(k));
        }
        Ok(())
    };
    cmp(&(-&a), &|k| -va[k], "-&A")?;
    cmp(&(-a.clone()), &|k| -va[k], "-A")?;
    cmp(&(&a + &b), &|k| va[k] + vb[k], "&A + &B")?;
    cmp(&(a.clone() + b.clone()), &|k| va[k] + vb[k], "A + B")?;
    cmp(&(&a - &b), &|k| va[k] - vb[k], "&A - &B")?;
    cmp(&(a.clone() - b.clone()), &|k| va[k] - vb[k], "A - B")?;
    cmp(&(&a * s), &|k| va[k] * s, "&A * s")?;
    cmp(&(a.clone() * s), &|k| va[k] * s, "A * s")?;
    cmp(&(&a / s), &|k| va[k] / s, "&A / s")?;
    cmp(&(a.clone() / s), &|k| va[k] / s, "A / s")?;
    cmp(&a, &|k| va[k], "A untouched by borrowed operators")?;
    cmp(&b, &|k| vb[k], "B untouched by borrowed operators")?;
    let mut t = a.clone();
    t += &b;
    cmp(&t, &|k| va[k] + vb[k], "A += &B")?;
    let mut t = a.clone();
    t += b.clone();
    cmp(&t, &|k| va[k] + vb[k], "A += B")?;
    let mut t = a.clone();
    t -= &b;
    cmp(&t, &|k| va[k] - vb[k], "A -= &B")?;
    let mut t = a.clone();
    t -= b.clone();
    cmp(&t, &|k| va[k] - vb[k], "A -= B")?;
    let mut t = a.clone();
    t *= s;
    cmp(&t, &|k| va[k] * s, "A *= s")?;
    let mut t = a.clone();
    t /= s;
    cmp(&t, &|k| va[k] / s, "A /= s")?;
    let mut t = a.clone();
    t += two;
    cmp(&t, &|k| va[k] + two, "A += c")?;
    let mut t = a.clone();
    t -= two;
    cmp(&t, &|k| va[k] - two, "A -= c")?;
    let mut t = a.clone();
    t.fill(s);
    cmp(&t, &|_| s, "fill")?;
    for band in -(c.m1 as isize)..=(c.m2 as isize) {
        let mut t = a.clone();
        t.fill_band(band, s);
        cmp(&t, &|k| if sl[k].1 as isize - sl[k].0 as isize == band { s } else { va[k] }, &format!("fill_band({})", band))?;
    }
    ensure!(a.clone() == a, "clone != original");
    Ok(())
}

// --- floating point ----------------------------------------------------------------------------------
const BE_THRESHOLD: f64 = 1e-12;
const TINY: f64 = 1e-20;

fn f64_letters() -> Vec<(f64, Rat)> {
    vec![(0.0, r(0)), (1.0, r(1)), (-1.0, r(-1)), (2.0, r(2)), (TINY, r(0)), (-TINY, r(0)), (-3.0, r(-3))]
}
fn check_f64(c: Cfg, sl: &[(usize, usize)], vals: &[f64], acc: &mut Acc) -> Result<(), String> {
    let n = c.n;
    let mut df = vec![vec![0.0f64; n]; n];
    for (k, &(i, j)) in sl.iter().enumerate() {
        df[i][j] = vals[k];
    }
    let rhs: Vec<Vec<f64>> = vec![(0..n).map(|i| if i % 2 == 0 { 1.0 + i as f64 } else { -2.0 }).collect(), vec![1.0; n]];
    let mut first: Option<Vec<Vec<u64>>> = None;
    for pad in [0.0, 7.0, f64::NAN] {
        let mut b = Banded::new(n, c.m1, c.m2, pad);
        for (k, &(i, j)) in sl.iter().enumerate() {
            b[(i, j)] = vals[k];
        }
        let mut bits = vec![];
        let d = b.det();
        ensure!(d.is_finite(), "pad {}: det = {}", pad, d);
        bits.push(vec![d.to_bits()]);
        for bb in rhs.iter() {
            acc.hit("f64 banded solves");
            let x = b.solve(&Vector::create(bb.clone()));
            let e = model::backward_error(&df, &x.vec, bb);
            acc.worst("backward_error_banded_solve", e, || format!("n={} m1={} m2={} band={:?} b={:?}", n, c.m1, c.m2, df, bb));
            ensure!(e <= BE_THRESHOLD, "pad {}: banded solve backward error {:e}; x = {:?}", pad, e, x.vec);
            bits.push(x.vec.iter().map(|v| v.to_bits()).collect());
            let y = &b * &x;
            ensure!(y.vec.iter().all(|v| v.is_finite()), "pad {}: product contains non-finite values", pad);
            bits.push(y.vec.iter().map(|v| v.to_bits()).collect());
        }
        match &first {
            None => first = Some(bits),
            Some(f) => ensure!(*f == bits, "pad {}: results are not bit-identical to those with padding 0", pad),
        }
    }
    Ok(())
}
fn f64_spaces(ctx: &Ctx, nmax: usize, cap: u64) {
    let letters = f64_letters();
    for c in all_cfgs(1, nmax, 10) {
        let sl = slots(c);
        // largest prefix of the alphabet that fits under the cap (always keeps 0, +-1, 2 and both tiny letters when >= 6)
        let mut l = letters.len();
        while l > 2 && (l as f64).powi(sl.len() as i32) > cap as f64 {
            l -= 1;
        }
        if (l as f64).powi(sl.len() as i32) > cap as f64 {
            continue;
        }
        let lt: Vec<(f64, Rat)> = if l >= 6 { letters[..l].to_vec() } else if l >= 4 { vec![letters[0], letters[1], letters[2], letters[4]][..4.min(l)].to_vec() } else { vec![letters[2], letters[4], letters[1]][..l].to_vec() };
        let lu = lt.len() as u64;
        ctx.lattice(
            &format!("f64 n={} m1={} m2={} in-band entries over {:?}", c.n, c.m1, c.m2, lt.iter().map(|x| x.0).collect::<Vec<f64>>()),
            pow(lu, sl.len() as u32),
            |idx| {
                let mut d = vec![0usize; sl.len()];
                digits_uniform(idx, lu, &mut d);
                format!("{:?}", d.iter().map(|&k| lt[k].0).collect::<Vec<f64>>())
            },
            |idx, acc| {
                let mut d = vec![0usize; sl.len()];
                digits_uniform(idx, lu, &mut d);
                let twin: Vec<Rat> = d.iter().map(|&k| lt[k].1).collect();
                let dm = dense(c, &sl, &twin);
                if model::det(&dm).is_zero() {
                    acc.hit("numerically singular (tiny -> 0 twin singular; skipped)");
                    return;
                }
                let vals: Vec<f64> = d.iter().map(|&k| lt[k].0).collect();
                if vals.iter().any(|v| v.abs() == TINY) {
                    acc.nontriv("has 1e-20 entries");
                }
                if c.n >= 2 && c.m1 >= 1 {
                    let a00 = vals[sl.iter().position(|&p| p == (0, 0)).unwrap()];
                    let a10 = vals[sl.iter().position(|&p| p == (1, 0)).unwrap()];
                    if a00.abs() <= TINY && a10 < 0.0 {
                        acc.nontriv("tiny/zero pivot above a negative sub-diagonal entry");
                    }
                }
                let mut local = Acc::new("t");
                let res = catch(|| check_f64(c, &sl, &vals, &mut local));
                acc.merge_worst(local);
                let key = || format!("f64 n={} m1={} m2={} band={:?}", c.n, c.m1, c.m2, vals);
                match res {
                    Ok(Ok(())) => {}
                    Ok(Err(e)) => acc.fail(idx, key(), e),
                    Err(p) => acc.fail(idx, key(), format!("unexpected panic: {}", p)),
                }
            },
        );
    }
}

/// bands of mixed magnitude (2^20 and 2^-20 next to +-1 and 0) for every n = 3 configuration; the exact integer determinant and
/// adjugate of the scaled dense twin decide which members are nonsingular to working precision (condition number <= 2^44)
fn mixed_f64_space(ctx: &Ctx) {
    let big = (1u64 << 20) as f64;
    let lf = [0.0, 1.0, -1.0, big, 1.0 / big];
    let li: [i128; 5] = [0, 1 << 20, -(1 << 20), 1 << 40, 1];
    for c in all_cfgs(3, 3, 2) {
        let sl = slots(c);
        ctx.lattice(
            &format!("f64 n=3 m1={} m2={} mixed-magnitude bands: all in-band entries over {{0,1,-1,2^20,2^-20}}", c.m1, c.m2),
            pow(5, sl.len() as u32),
            |idx| format!("{}", idx),
            |idx, acc| {
                let mut d = vec![0usize; sl.len()];
                digits_uniform(idx, 5, &mut d);
                let mut e = [[0i128; 3]; 3];
                for (k, &(i, j)) in sl.iter().enumerate() {
                    e[i][j] = li[d[k]];
                }
                let det = e[0][0] * (e[1][1] * e[2][2] - e[1][2] * e[2][1]) - e[0][1] * (e[1][0] * e[2][2] - e[1][2] * e[2][0]) + e[0][2] * (e[1][0] * e[2][1] - e[1][1] * e[2][0]);
                if det == 0 {
                    return;
                }
                let mut nadj = 0.0f64;
                for i in 0..3 {
                    let mut row = 0.0;
                    for j in 0..3 {
                        let rs: Vec<usize> = (0..3).filter(|&r0| r0 != j).collect();
                        let cs: Vec<usize> = (0..3).filter(|&c0| c0 != i).collect();
                        row += ((e[rs[0]][cs[0]] * e[rs[1]][cs[1]] - e[rs[0]][cs[1]] * e[rs[1]][cs[0]]) as f64).abs();
                    }
                    nadj = nadj.max(row);
                }
                let na = (0..3).map(|i| (0..3).map(|j| (e[i][j] as f64).abs()).sum::<f64>()).fold(0.0, f64::max);
                if na * nadj / (det as f64).abs() > (1u64 << 44) as f64 {
                    acc.hit("condition number beyond 2^44 (singular to working precision; skipped)");
                    return;
                }
                let vals: Vec<f64> = d.iter().map(|&k| lf[k]).collect();
                if d.iter().any(|&k| k == 3) && d.iter().any(|&k| k == 4) {
                    acc.nontriv("band with entries 2^40 apart");
                } else {
                    acc.nontriv("mixed-magnitude band");
                }
                let mut local = Acc::new("t");
                let res = catch(|| check_f64(c, &sl, &vals, &mut local));
                acc.merge_worst(local);
                let key = || format!("f64 mixed n=3 m1={} m2={} band={:?}", c.m1, c.m2, vals);
                match res {
                    Ok(Ok(())) => {}
                    Ok(Err(e)) => acc.fail(idx, key(), e),
                    Err(p) => acc.fail(idx, key(), format!("unexpected panic: {}", p)),
                }
            },
        );
    }
}

/// uniformly scaled integer bands: conditioning is scale invariant, every pivot candidate can be far below 1e-16
fn scaled_f64_space(ctx: &Ctx, nmax: usize) {
    let scales = [2f64.powi(-60), 1e-18, 2f64.powi(40)];
    let letters = [0.0, 1.0, -1.0, 2.0];
    let lr = [r(0), r(1), r(-1), r(2)];
    for c in all_cfgs(1, nmax, 10) {
        let sl = slots(c);
        if sl.len() > 8 {
            continue;
        }
        let len = pow(4, sl.len() as u32);
        ctx.lattice(
            &format!("f64 n={} m1={} m2={} integer bands over {{0,1,-1,2}} uniformly scaled by {{2^-60,1e-18,2^40}}", c.n, c.m1, c.m2),
            len * 3,
            |idx| format!("{}", idx),
            |idx, acc| {
                let mut d = vec![0usize; sl.len()];
                digits_uniform(idx / 3, 4, &mut d);
                let twin: Vec<Rat> = d.iter().map(|&k| lr[k]).collect();
                if model::det(&dense(c, &sl, &twin)).is_zero() {
                    return;
                }
                let sc = scales[(idx % 3) as usize];
                let vals: Vec<f64> = d.iter().map(|&k| letters[k] * sc).collect();
                acc.nontriv("uniformly scaled band");
                let mut local = Acc::new("t");
                let res = catch(|| check_f64(c, &sl, &vals, &mut local));
                acc.merge_worst(local);
                let key = || format!("f64 scaled n={} m1={} m2={} band={:?}", c.n, c.m1, c.m2, vals);
                match res {
                    Ok(Ok(())) => {}
                    Ok(Err(e)) => acc.fail(idx, key(), e),
                    Err(p) => acc.fail(idx, key(), format!("unexpected panic: {}", p)),
                }
            },
        );
    }
}

fn complex_space(ctx: &Ctx, nmax: usize, cap: u64) {
    let letters: Vec<(Cmplx, model::CQ)> = vec![
        (Cmplx::new(0., 0.), model::CQ::new(r(0), r(0))),
        (Cmplx::new(1., 0.), model::CQ::new(r(1), r(0))),
        (Cmplx::new(0., 1.), model::CQ::new(r(0), r(1))),
        (Cmplx::new(-1., 0.), model::CQ::new(r(-1), r(0))),
        (Cmplx::new(TINY, 0.), model::CQ::new(r(0), r(0))),
        (Cmplx::new(0., -2.), model::CQ::new(r(0), r(-2))),
    ];
    for c in all_cfgs(1, nmax, 10) {
        let sl = slots(c);
        let mut l = letters.len();
        while l > 3 && (l as f64).powi(sl.len() as i32) > cap as f64 {
            l -= 1;
        }
        if (l as f64).powi(sl.len() as i32) > cap as f64 {
            continue;
        }
        let lu = l as u64;
        let n = c.n;
        ctx.lattice(
            &format!("Complex<f64> n={} m1={} m2={} in-band entries over {} letters", c.n, c.m1, c.m2, l),
            pow(lu, sl.len() as u32),
            |idx| {
                let mut d = vec![0usize; sl.len()];
                digits_uniform(idx, lu, &mut d);
                format!("{:?}", d.iter().map(|&k| letters[k].0).collect::<Vec<Cmplx>>())
            },
            |idx, acc| {
                let mut d = vec![0usize; sl.len()];
                digits_uniform(idx, lu, &mut d);
                let mut aq = vec![vec![model::CQ::zero(); n]; n];
                let mut af = vec![vec![Cmplx::new(0., 0.); n]; n];
                for (k, &(i, j)) in sl.iter().enumerate() {
                    aq[i][j] = letters[d[k]].1;
                    af[i][j] = letters[d[k]].0;
                }
                if model::det_cq(&aq).is_zero() {
                    acc.hit("numerically singular (skipped)");
                    return;
                }
                if af.iter().flatten().any(|z| z.imag != 0.0) {
                    acc.nontriv("genuinely complex band");
                }
                let key = || format!("complex n={} m1={} m2={} band={:?}", c.n, c.m1, c.m2, af);
                let res = catch(|| -> Result<f64, String> {
                    let mut worst = 0.0f64;
                    let mut first: Option<Vec<(u64, u64)>> = None;
                    for pad in [Cmplx::new(0., 0.), Cmplx::new(7., -3.)] {
                        let mut b = Banded::new(n, c.m1, c.m2, pad);
                        for &(i, j) in sl.iter() {
                            b[(i, j)] = af[i][j];
                        }
                        let rhs: Vec<Cmplx> = (0..n).map(|i| Cmplx::new(1.0, i as f64 - 1.0)).collect();
                        let x = b.solve(&Vector::create(rhs.clone()));
                        let an = af.iter().map(|r| r.iter().map(|z| z.abs()).sum::<f64>()).fold(0.0, f64::max);
                        let xn = x.vec.iter().map(|z| z.abs()).fold(0.0, f64::max);
                        let bn = rhs.iter().map(|z| z.abs()).fold(0.0, f64::max);
                        let mut rmax = 0.0f64;
                        for i in 0..n {
                            let mut s = rhs[i];
                            for j in 0..n {
                                s -= af[i][j] * x[j];
                            }
                            rmax = rmax.max(s.abs());
                        }
                        let e = if xn.is_finite() && rmax.is_finite() { rmax / (an * xn + bn) } else { f64::INFINITY };
                        worst = worst.max(e);
                        ensure!(e <= BE_THRESHOLD, "complex banded solve backward error {:e}; x = {:?}", e, x.vec);
                        let bits: Vec<(u64, u64)> = x.vec.iter().map(|z| (z.real.to_bits(), z.imag.to_bits())).collect();
                        match &first {
                            None => first = Some(bits),
                            Some(f) => ensure!(*f == bits, "complex solve depends on the padding value"),
                        }
                        let dd = b.det();
                        let dq = model::det_cq(&aq);
                        let de = (dd.real - dq.re.to_f64()).hypot(dd.imag - dq.im.to_f64());
                        ensure!(de <= 1e-9, "complex det {:?} vs exact ({}, {})", dd, dq.re, dq.im);
                    }
                    Ok(worst)
                });
                match res {
                    Ok(Ok(w)) => acc.worst("backward_error_complex_banded_solve", w, key),
                    Ok(Err(e)) => acc.fail(idx, key(), e),
                    Err(p) => acc.fail(idx, key(), format!("unexpected panic: {}", p)),
                }
            },
        );
    }
}

/// Banded<Complex<f64>> with rows and right-hand side scaled by powers of two up to 2^+-480: A = diag(rho) A0 (A0 over small
/// Gaussian integers inside the band), b = tau diag(rho) A0 x*: solution tau x* and determinant prod(rho) det(A0) are known exactly
fn complex_scaled_space(ctx: &Ctx, cfgs: &[(Cfg, usize)]) {
    let all: Vec<(Cmplx, model::CQ)> = vec![
        (Cmplx::new(0., 0.), model::CQ::new(r(0), r(0))),
        (Cmplx::new(1., 0.), model::CQ::new(r(1), r(0))),
        (Cmplx::new(0., 1.), model::CQ::new(r(0), r(1))),
        (Cmplx::new(-1., 0.), model::CQ::new(r(-1), r(0))),
        (Cmplx::new(0., -2.), model::CQ::new(r(0), r(-2))),
    ];
    let rhos = [2f64.powi(-480), 2f64.powi(-340), 1.0, 2f64.powi(342), 2f64.powi(480)];
    let taus = [2f64.powi(-400), 1.0, 2f64.powi(400)];
    for &(c, nl) in cfgs {
        let letters: Vec<(Cmplx, model::CQ)> = all[..nl].to_vec();
        let sl = slots(c);
        let n = c.n;
        let lu = nl as u64;
        let per = pow(rhos.len() as u64, n as u32) * taus.len() as u64;
        let xstar: Vec<Cmplx> = [Cmplx::new(1.0, 0.0), Cmplx::new(0.0, 1.0), Cmplx::new(-2.0, 1.0)][..n].to_vec();
        ctx.lattice(
            &format!("Complex<f64> n={} m1={} m2={} over {} letters x row scales {{2^-480,2^-340,1,2^342,2^480}}^{} x solution scales {{2^-400,1,2^400}}", c.n, c.m1, c.m2, nl, n),
            pow(lu, sl.len() as u32) * per,
            |idx| format!("band#{} scales#{}", idx / per, idx % per),
            |idx, acc| {
                let mut d = vec![0usize; sl.len()];
                digits_uniform(idx / per, lu, &mut d);
                let mut rd = vec![0usize; n];
                digits_uniform((idx % per) / taus.len() as u64, rhos.len() as u64, &mut rd);
                let tau = taus[(idx % taus.len() as u64) as usize];
                let mut aq = vec![vec![model::CQ::zero(); n]; n];
                let mut a0 = vec![vec![Cmplx::new(0., 0.); n]; n];
                for (k, &(i, j)) in sl.iter().enumerate() {
                    aq[i][j] = letters[d[k]].1;
                    a0[i][j] = letters[d[k]].0;
                }
                let dq = model::det_cq(&aq);
                let scale_all: f64 = rd.iter().map(|&k| rhos[k]).product::<f64>();
                let key = || format!("complex scaled n={} m1={} m2={} band0={:?} row scales={:?} tau={:e}", c.n, c.m1, c.m2, a0, rd.iter().map(|&k| rhos[k]).collect::<Vec<f64>>(), tau);
                if rd.iter().any(|&k| k != 2) || tau != 1.0 {
                    acc.nontriv("banded system with a scale beyond 2^+-340");
                }
                let res = catch(|| -> Result<(), String> {
                    let mut b = Banded::new(n, c.m1, c.m2, Cmplx::new(3.0, -1.0));
                    for &(i, j) in sl.iter() {
                        b[(i, j)] = Cmplx::new(a0[i][j].real * rhos[rd[i]], a0[i][j].imag * rhos[rd[i]]);
                    }
                    // the partial products of the determinant must stay in range for the demand to be fair: n <= 3 scales of
                    // at most 2^480 each can reach 2^1440, so only judge the determinant when every partial product is representable
                    let mut partial_ok = scale_all.is_finite() && scale_all != 0.0;
                    for i in 0..n {
                        for j in 0..n {
                            let p = rhos[rd[i]] * rhos[rd[j]];
                            if i != j && (!p.is_finite() || p == 0.0 || p > 2f64.powi(1000) || p < 2f64.powi(-1000)) {
                                partial_ok = false;
                            }
                        }
                    }
                    if partial_ok && scale_all < 2f64.powi(1000) && scale_all > 2f64.powi(-1000) {
                        let dd = b.det();
                        let mut re = dd.real;
                        let mut im = dd.imag;
                        for &k in rd.iter() {
                            re /= rhos[k];
                            im /= rhos[k];
                        }
                        let de = (re - dq.re.to_f64()).hypot(im - dq.im.to_f64());
                        ensure!(de <= 1e-10, "det / prod(rho) = ({:e}, {:e}) but det(A0) = ({}, {})", re, im, dq.re, dq.im);
                    }
                    if dq.is_zero() {
                        return Ok(());
                    }
                    let mut rhs = vec![];
                    for i in 0..n {
                        let (mut re, mut im) = (0.0, 0.0);
                        for j in 0..n {
                            re += a0[i][j].real * xstar[j].real - a0[i][j].imag * xstar[j].imag;
                            im += a0[i][j].real * xstar[j].imag + a0[i][j].imag * xstar[j].real;
                        }
                        rhs.push(Cmplx::new(re * rhos[rd[i]] * tau, im * rhos[rd[i]] * tau));
                    }
                    let x = b.solve(&Vector::create(rhs));
                    let mut err = 0.0f64;
                    for j in 0..n {
                        let (re, im) = (x[j].real / tau, x[j].imag / tau);
                        ensure!(re.is_finite() && im.is_finite(), "x = {:?} is not finite (solution {:?} * {:e})", x.vec, xstar, tau);
                        err = err.max((re - xstar[j].real).abs()).max((im - xstar[j].imag).abs());
                    }
                    ensure!(err <= 1e-10, "x / tau = {:?} but the solution is {:?} (error {:e})", x.vec.iter().map(|z| (z.real / tau, z.imag / tau)).collect::<Vec<_>>(), xstar, err);
                    Ok(())
                });
                match res {
                    Ok(Ok(())) => {}
                    Ok(Err(e)) => acc.fail(idx, key(), e),
                    Err(p) => acc.fail(idx, key(), format!("unexpected panic: {}", p)),
                }
            },
        );
    }
}

/// scalar operations on Banded<f64> with data on which x / s and x * (1 / s) differ: every in-band entry of b / s, b /= s, b * s, b *= s is
/// the correctly rounded x op s (what the dense matrix with the same band gives), bit for bit
fn f64_scalar_space(ctx: &Ctx) {
    let sl = [49.0f64, 5.0, 7.0, 10.0, 3.0, 1.0, -0.3];
    let sd = [3.0f64, 7.0, 49.0, 10.0, 0.1, -1.5];
    let cfgs = [Cfg { n: 3, m1: 1, m2: 1 }, Cfg { n: 4, m1: 2, m2: 0 }, Cfg { n: 4, m1: 0, m2: 1 }, Cfg { n: 2, m1: 1, m2: 1 }];
    for c in cfgs {
        let sl2 = slots(c);
        let shifts = sl.len() as u64;
        ctx.lattice(
            &format!("Banded<f64> n={} m1={} m2={}: scalar division / multiplication bit for bit, 7 rotations of {{49,5,7,10,3,1,-0.3}} x 6 scalars", c.n, c.m1, c.m2),
            shifts * sd.len() as u64,
            |idx| format!("rotation {} scalar {}", idx / 6, sd[(idx % 6) as usize]),
            |idx, acc| {
                let rot = (idx / 6) as usize;
                let s = sd[(idx % 6) as usize];
                acc.nontriv("banded f64 scalar operation");
                judge(acc, idx, || format!("banded f64 n={} m1={} m2={} rotation {} scalar {}", c.n, c.m1, c.m2, rot, s), || {
                    let mut b = Banded::new(c.n, c.m1, c.m2, 0.0f64);
                    let mut vals = vec![];
                    for (k, &(i, j)) in sl2.iter().enumerate() {
                        let v = sl[(k + rot) % sl.len()];
                        b[(i, j)] = v;
                        vals.push(v);
                    }
                    let d1 = &b / s;
                    let d2 = b.clone() / s;
                    let mut d3 = b.clone();
                    d3 /= s;
                    let m1 = &b * s;
                    let mut m3 = b.clone();
                    m3 *= s;
                    for (k, &(i, j)) in sl2.iter().enumerate() {
                        let (wq, wp) = (vals[k] / s, vals[k] * s);
                        ensure!(d1[(i, j)].to_bits() == wq.to_bits(), "(&b / {})[({},{})] = {:e} but {} / {} = {:e}", s, i, j, d1[(i, j)], vals[k], s, wq);
                        ensure!(d2[(i, j)].to_bits() == wq.to_bits(), "(b / {})[({},{})] = {:e} expected {:e}", s, i, j, d2[(i, j)], wq);
                        ensure!(d3[(i, j)].to_bits() == wq.to_bits(), "(b /= {})[({},{})] = {:e} expected {:e}", s, i, j, d3[(i, j)], wq);
                        ensure!(m1[(i, j)].to_bits() == wp.to_bits() && m3[(i, j)].to_bits() == wp.to_bits(), "b * {} at ({},{})", s, i, j);
                    }
                    Ok(())
                });
            },
        );
    }
}

// --- E2 histories -------------------------------------------------------------------------------------
#[derive(Clone)]
struct St {
    c: Cfg,
    b: Banded<Rat>,
    vals: Vec<Rat>,
}
#[derive(Clone, Debug)]
enum Act {
    Reband(usize, usize),
    Set(usize, i64),
    FillBand(isize, i64),
    Fill(i64),
    AddC(i64),
    SubC(i64),
    MulS(i64),
    DivS(i64),
    Neg,
    AddSelf,
    SubOther,
}
impl St {
    fn sl(&self) -> Vec<(usize, usize)> {
        slots(self.c)
    }
}
impl Sut for St {
    type Act = Act;
    fn key(&self) -> Key {
        let mut k = vec![self.c.n as i128, self.c.m1 as i128, self.c.m2 as i128];
        let cm = self.b.compact();
        for i in 0..cm.rows() {
            for j in 0..cm.cols() {
                k.push(cm[(i, j)].n);
                k.push(cm[(i, j)].d);
            }
        }
        k
    }
    fn actions(&self) -> Vec<Act> {
        let mut a = vec![];
        let small = self.vals.iter().all(|v| v.n.abs() < 40 && v.d < 40);
        for k in 0..self.vals.len() {
            a.push(Act::Set(k, 1));
            a.push(Act::Set(k, -2));
        }
        for band in -(self.c.m1 as isize)..=(self.c.m2 as isize) {
            a.push(Act::FillBand(band, 3));
        }
        a.push(Act::Fill(0));
        a.push(Act::Neg);
        // resize( n, m1', m2' ) to the same order and the same total width with the split moved by one: the statement does not say where
        // the entries go (they keep their compact column), so the model is re-read through the index operator afterwards; what it does say
        // is that determinant, product and solve of the matrix that is THERE agree with its dense twin (round 16: factors kept across it)
        if self.c.m1 >= 1 && self.c.m2 + 1 < self.c.n {
            a.push(Act::Reband(self.c.m1 - 1, self.c.m2 + 1));
        }
        if self.c.m2 >= 1 && self.c.m1 + 1 < self.c.n {
            a.push(Act::Reband(self.c.m1 + 1, self.c.m2 - 1));
        }
        if small {
            a.push(Act::AddC(1));
            a.push(Act::SubC(2));
            a.push(Act::MulS(2));
            a.push(Act::DivS(2));
            a.push(Act::AddSelf);
            a.push(Act::SubOther);
        }
        a
    }
    fn step(&mut self, a: &Act, hits: &mut Vec<&'static str>) -> Result<(), String> {
        let sl = self.sl();
        match a.clone() {
            Act::Reband(m1, m2) => {
                self.b.resize(self.c.n, m1, m2);
                self.c = Cfg { n: self.c.n, m1, m2 };
                self.vals = slots(self.c).iter().map(|&(i, j)| self.b[(i, j)]).collect();
                hits.push("band split moved by resize");
            }
            Act::Set(k, v) => {
                let (i, j) = sl[k];
                self.b[(i, j)] = r(v);
                self.vals[k] = r(v);
            }
            Act::FillBand(band, v) => {
                self.b.fill_band(band, r(v));
                for (k, &(i, j)) in sl.iter().enumerate() {
                    if j as isize - i as isize == band {
                        self.vals[k] = r(v);
                    }
                }
            }
            Act::Fill(v) => {
                self.b.fill(r(v));
                for x in self.vals.iter_mut() {
                    *x = r(v);
                }
            }
            Act::AddC(c) => {
                self.b += r(c);
                for x in self.vals.iter_mut() {
                    *x = *x + r(c);
                }
                hits.push("padding made non-zero by += c");
            }
            Act::SubC(c) => {
                self.b -= r(c);
                for x in self.vals.iter_mut() {
                    *x = *x - r(c);
                }
                hits.push("padding made non-zero by -= c");
            }
            Act::MulS(s) => {
                self.b *= r(s);
                for x in self.vals.iter_mut() {
                    *x = *x * r(s);
                }
            }
            Act::DivS(s) => {
                self.b /= r(s);
                for x in self.vals.iter_mut() {
                    *x = *x / r(s);
                }
            }
            Act::Neg => {
                self.b = -&self.b;
                for x in self.vals.iter_mut() {
                    *x = -*x;
                }
            }
            Act::AddSelf => {
                self.b = &self.b + &self.b;
                for x in self.vals.iter_mut() {
                    *x = *x + *x;
                }
            }
            Act::SubOther => {
                let o: Vec<Rat> = (0..sl.len()).map(|k| r(k as i64 % 3 - 1)).collect();
                let ob = build(self.c, &sl, &o, r(5));
                self.b -= &ob;
                for (k, x) in self.vals.iter_mut().enumerate() {
                    *x = *x - o[k];
                }
            }
        }
        self.check()
    }
    fn warm(&self) {
        let n = self.c.n;
        let rhs: Vec<Rat> = (0..n).map(|k| r(1 + k as i64)).collect();
        let _ = catch(|| self.b.det());
        let _ = catch(|| self.b.solve(&model::to_vector(&rhs)));
        let _ = catch(|| &self.b * &model::to_vector(&rhs));
    }
    fn check(&self) -> Result<(), String> {
        let sl = self.sl();
        let n = self.c.n;
        let d = dense(self.c, &sl, &self.vals);
        for (k, &(i, j)) in sl.iter().enumerate() {
            ensure!(self.b[(i, j)] == self.vals[k], "index ({},{}) = {} expected {}", i, j, self.b[(i, j)], self.vals[k]);
        }
        for j in 0..=n {
            let x: Vec<Rat> = if j < n { (0..n).map(|k| if k == j { r(1) } else { r(0) }).collect() } else { (0..n).map(|k| r(1 + k as i64)).collect() };
            let y = &self.b * &model::to_vector(&x);
            let e = model::matvec(&d, &x);
            ensure!(y.vec == e, "&B*&x = {} expected {}", model::showv(&y.vec), model::showv(&e));
        }
        let det = model::det(&d);
        let got = self.b.det();
        ensure!(got == det, "det() = {} expected {}", got, det);
        if !det.is_zero() {
            let bb: Vec<Rat> = (0..n).map(|k| r(2 * k as i64 - 1)).collect();
            let x = self.b.solve(&model::to_vector(&bb));
            ensure!(model::matvec(&d, &x.vec) == bb, "solve: B*x != b (x = {})", model::showv(&x.vec));
        }
        Ok(())
    }
    fn classes(&self, hits: &mut Vec<&'static str>) {
        let sl = self.sl();
        let d = dense(self.c, &sl, &self.vals);
        if model::det(&d).is_zero() {
            hits.push("singular state");
        } else if model::exchanges(&d) > 0 {
            hits.push("state needing a row exchange");
        }
        // padding slot of the compact form holding a non-zero value?
        let cm = self.b.compact();
        let total: usize = cm.rows() * cm.cols();
        if total > sl.len() {
            let mut nz = false;
            for i in 0..cm.rows() {
                for k in 0..cm.cols() {
                    let j = i as isize + k as isize - self.c.m1 as isize;
                    if (j < 0 || j >= self.c.n as isize) && !cm[(i, k)].is_zero() {
                        nz = true;
                    }
                }
            }
            if nz {
                hits.push("state with non-zero padding");
            }
        }
    }
    fn show(&self) -> String {
        format!("n={} m1={} m2={} band={}", self.c.n, self.c.m1, self.c.m2, model::show(&dense(self.c, &self.sl(), &self.vals)))
    }
}

fn main() {
    let ctx = Ctx::from_args("C04");
    ctx.level("model_checking");
    ctx.rule("E1: every (n,m1,m2) with n<=4 (quick) / n<=5 (thorough) and every filling of the band over the largest of the alphabets {0,1,-1,2,-3}, {0,1,-1}, {0,-1}/{1,-2} that fits the cap; Toeplitz bands and <=2-entry deviations from a negative-diagonal dominant band for n=6..10, m1,m2<=3; each with padding values {0,7} (and NaN for f64): index, &B*&x (unit and generic vectors), det, solve against the dense twin over exact rationals; f64/Complex<f64> twins with +-1e-20 letters (backward error, bit-identical across paddings). E2: BFS over histories of set/fill/fill_band/+=c/-=c/*=/ /=/neg/+self/-=other on real Banded<Rat> objects (state = complete compact storage, padding included). Non-trivial: zero diagonal over non-zero sub-diagonal, negative diagonals, negative sub-diagonal of larger magnitude, singular bands, row exchanges, non-zero padding.");
    ctx.assume("n>5 only through Toeplitz and deviation-bounded families; f64 lattices restricted to well-conditioned members (tiny->0 twin nonsingular)");
    ctx.threshold("backward_error_banded_solve", BE_THRESHOLD);
    ctx.threshold("backward_error_complex_banded_solve", BE_THRESHOLD);
    ctx.require(&["wide band (m1 + m2 >= n)", "zero diagonal over non-zero sub-diagonal", "negative diagonal entry", "negative sub-diagonal larger in magnitude than positive pivot", "singular band", "row exchange needed", "has 1e-20 entries", "tiny/zero pivot above a negative sub-diagonal entry", "state with non-zero padding", "order >= 6"]);

    let cap = ctx.pick(150_000u64, 40_000_000u64);
    all_bandwidths_space(&ctx, 6, 10);
    {
        let mut pw = vec![Cfg { n: 4, m1: 3, m2: 0 }, Cfg { n: 4, m1: 3, m2: 1 }, Cfg { n: 5, m1: 3, m2: 0 }, Cfg { n: 5, m1: 3, m2: 1 }, Cfg { n: 5, m1: 4, m2: 0 }, Cfg { n: 5, m1: 4, m2: 2 }, Cfg { n: 5, m1: 2, m2: 1 }, Cfg { n: 6, m1: 3, m2: 1 }, Cfg { n: 6, m1: 4, m2: 1 }, Cfg { n: 6, m1: 5, m2: 0 }];
        if ctx.thorough() {
            pw.extend([Cfg { n: 7, m1: 3, m2: 2 }, Cfg { n: 7, m1: 4, m2: 1 }, Cfg { n: 7, m1: 6, m2: 0 }, Cfg { n: 8, m1: 3, m2: 1 }]);
        }
        pivot_word_space(&ctx, &pw);
    }
    let leftover = exhaustive_spaces(&ctx, ctx.pick(4, 5), cap);
    deviation_space(&ctx, &leftover, 2, "(configurations too large for exhaustive filling)");
    ctx.lattice(
        "arithmetic operators and fills, every (n,m1,m2) with n<=6",
        all_cfgs(1, 6, 10).len() as u64,
        |idx| format!("{:?}", all_cfgs(1, 6, 10)[idx as usize]),
        |idx, acc| {
            let c = all_cfgs(1, 6, 10)[idx as usize];
            if c.m1 != c.m2 {
                acc.nontriv("asymmetric bandwidths");
            }
            judge(acc, idx, || format!("{:?}", c), || arithmetic_case(c));
        },
    );
    if ctx.quick() {
        toeplitz_space(&ctx, &[6, 10], 2);
        deviation_space(&ctx, &all_cfgs(7, 7, 2), 2, "");
    } else {
        toeplitz_space(&ctx, &[6, 7, 8, 9, 10], 3);
        for n in 6..=10 {
            deviation_space(&ctx, &all_cfgs(n, n, 3), 2, "");
        }
    }
    f64_spaces(&ctx, ctx.pick(3, 4), ctx.pick(300_000u64, 20_000_000u64));
    scaled_f64_space(&ctx, ctx.pick(3, 4));
    mixed_f64_space(&ctx);
    f64_scalar_space(&ctx);
    complex_space(&ctx, ctx.pick(3, 3), ctx.pick(100_000u64, 11_000_000u64));
    {
        let mut cfgs = vec![(Cfg { n: 1, m1: 0, m2: 0 }, 5usize)];
        for (m1, m2) in [(0usize, 0usize), (1, 0), (0, 1), (1, 1)] {
            cfgs.push((Cfg { n: 2, m1, m2 }, 5));
        }
        if ctx.quick() {
            cfgs.push((Cfg { n: 3, m1: 1, m2: 1 }, 3));
        } else {
            for (m1, m2) in [(1usize, 1usize), (2, 0), (0, 2), (2, 1), (1, 2)] {
                cfgs.push((Cfg { n: 3, m1, m2 }, 4));
            }
        }
        complex_scaled_space(&ctx, &cfgs);
    }

    let depth = ctx.pick(4, 6);
    let mut inits = vec![];
    for (m1, m2) in [(1usize, 1usize), (2, 1), (0, 2)] {
        let c = Cfg { n: 3, m1, m2 };
        let sl = slots(c);
        let vals: Vec<Rat> = sl.iter().map(|&(i, j)| if i == j { r(2) } else { r(-1) }).collect();
        inits.push(St { c, b: build(c, &sl, &vals, r(0)), vals });
    }
    explore(&ctx, "banded histories n=3", inits.clone(), BfsOpts { max_depth: depth, state_cap: ctx.pick(1_500_000, 30_000_000) });
    if ctx.quick() {
        crosscheck_stateright(&ctx, "banded histories n=3", inits.clone(), depth);
    }
    explore_replayed(&ctx, "clone-free histories on one Banded<Rat>", inits, BfsOpts { max_depth: ctx.pick(4, 5), state_cap: 2_000_000 });
    // Banded<Complex<f64>> beyond |z| ~ 1e154 / below ~ 1e-154 (Complex::abs and the complex division were unscaled; repaired by
    // 9c56103 and 8d587e4, demanded now). The property names "tiny positive sub-diagonal entries".
    {
        let tiny_sub = |which: usize| -> Result<(), String> {
            // [[0, 1], [t, 1]] with t = 1e-200: det = -t, solution of A x = (1, 1) is (0, 1)
            let z = |re: f64| Cmplx::new(re, 0.0);
            let mut b = Banded::new(2, 1, 1, z(0.0));
            b[(0, 0)] = z(0.0);
            b[(0, 1)] = z(1.0);
            b[(1, 0)] = z(1e-200);
            b[(1, 1)] = z(1.0);
            if which == 0 {
                let d = b.det();
                ensure!((d.real + 1e-200).abs() <= 1e-212 && d.imag == 0.0, "det = {:?} but the determinant is -1e-200", d);
            } else {
                let x = b.solve(&Vector::create(vec![z(1.0), z(1.0)]));
                ensure!(x[0].real.abs() <= 1e-12 && (x[1].real - 1.0).abs() <= 1e-12 && x[0].imag == 0.0 && x[1].imag == 0.0, "x = {:?} but the solution is (0, 1)", x.vec);
            }
            Ok(())
        };
        let huge = || -> Result<(), String> {
            let z = |re: f64| Cmplx::new(re, 0.0);
            let mut b = Banded::new(1, 0, 0, z(0.0));
            b[(0, 0)] = z(1e160);
            let x = b.solve(&Vector::create(vec![z(2e160)]));
            ensure!((x[0].real - 2.0).abs() <= 1e-12 && x[0].imag == 0.0, "x = {:?} but the solution is 2", x.vec);
            Ok(())
        };
        let hunt2 = |under: bool| -> Result<(), String> {
            // second hunt: every entry within 1e-120..1e120, the back substitution divided an intermediate value by the pivot
            let z = |re: f64| Cmplx::new(re, 0.0);
            let mut b = Banded::new(2, 0, 1, z(0.0));
            if !under {
                b[(0, 0)] = z(1e120);
                b[(0, 1)] = z(1e100);
                b[(1, 1)] = z(1e-100);
                let x = b.solve(&Vector::create(vec![z(0.0), z(1.0)]));
                ensure!((x[0].real / 1e80 + 1.0).abs() <= 1e-12 && x[0].imag == 0.0, "x0 = {:?} but the solution is -1e80", x[0]);
            } else {
                b[(0, 0)] = z(1e-120);
                b[(0, 1)] = z(1e-100);
                b[(1, 1)] = z(1.0);
                let x = b.solve(&Vector::create(vec![z(0.0), z(1e-100)]));
                ensure!((x[0].real / 1e-80 + 1.0).abs() <= 1e-12 && x[0].imag == 0.0, "x0 = {:?} but the solution is -1e-80", x[0]);
            }
            Ok(())
        };
        ctx.listed_cases(
            "listed inputs: Banded<Complex<f64>> with entries of extreme magnitude (bug-hunt inputs, repaired by 8d587e4)",
            vec![
                ("extreme-complex band [[0,1],[1e-200,1]] det".to_string(), Box::new(move || tiny_sub(0))),
                ("extreme-complex band [[0,1],[1e-200,1]] solve".to_string(), Box::new(move || tiny_sub(1))),
                ("extreme-complex band [1e160] x = [2e160] solve".to_string(), Box::new(huge)),
                ("extreme-complex band [[1e120,1e100],[0,1e-100]] x = (0,1) solve".to_string(), Box::new(move || hunt2(false))),
                ("extreme-complex band [[1e-120,1e-100],[0,1]] x = (0,1e-100) solve".to_string(), Box::new(move || hunt2(true))),
            ],
        );
    }
    std::process::exit(ctx.finish());
}
