//! C16 (configuration half, guard OFF, real OS threads): dot_f64 for every length 0..200 under every worker
//! count 1..16, the worker count being what it really is derived from - the CPU affinity seen by num_cpus::get().
use mc::*;
use ohsl::Vector;

fn allowed_cpus() -> Vec<usize> {
    unsafe {
        let mut set: libc::cpu_set_t = std::mem::zeroed();
        libc::sched_getaffinity(0, std::mem::size_of::<libc::cpu_set_t>(), &mut set);
        (0..libc::CPU_SETSIZE as usize).filter(|&c| libc::CPU_ISSET(c, &set)).collect()
    }
}
fn pin(cpus: &[usize]) -> bool {
    unsafe {
        let mut set: libc::cpu_set_t = std::mem::zeroed();
        for &c in cpus {
            libc::CPU_SET(c, &mut set);
        }
        libc::sched_setaffinity(0, std::mem::size_of::<libc::cpu_set_t>(), &set) == 0
    }
}

/// k CPUs for the calling worker thread, rotated so that parallel harness workers do not pile up on the same cores
fn pick(cpus: &[usize], k: usize) -> Vec<usize> {
    let n = cpus.len();
    let off = (rayon_index() * k) % n;
    (0..k).map(|j| cpus[(off + j) % n]).collect()
}
fn rayon_index() -> usize {
    // rayon is a dependency of the harness library; the index only spreads load, it does not affect verdicts
    mc::worker_index()
}
fn integer_data(n: usize) -> (Vec<f64>, Vec<f64>) {
    ((0..n).map(|i| (i % 7) as f64 - 3.0).collect(), (0..n).map(|i| (i % 5) as f64 + 1.0 + (i % 3) as f64).collect())
}
fn sensitive_data(n: usize) -> (Vec<f64>, Vec<f64>) {
    ((0..n).map(|i| match i % 4 { 0 => 1e16, 1 => 1.0, 2 => -1e16, _ => 3.0 } + (i / 4) as f64).collect(), (0..n).map(|i| 1.0 + (i % 2) as f64 * 0.5).collect())
}

fn case(k: usize, n: usize) -> Result<(), String> {
    ensure!(num_cpus::get() == k, "MACHINERY: num_cpus::get() = {} after pinning to {} CPUs", num_cpus::get(), k);
    let (a, b) = integer_data(n);
    let (va, vb) = (Vector::create(a.clone()), Vector::create(b.clone()));
    let exact: i128 = (0..n).map(|i| (a[i] as i128) * (b[i] as i128)).sum();
    let seq = va.dot(&vb);
    let par = va.dot_f64(&vb);
    ensure!(seq == exact as f64, "sequential dot {} != exact {}", seq, exact);
    ensure!(par.to_bits() == seq.to_bits(), "workers={} length={}: dot_f64 = {} but dot = {} (exact {})", k, n, par, seq, exact);
    ensure!(va.vec == a && vb.vec == b, "operands modified");
    let (a, b) = sensitive_data(n);
    let (va, vb) = (Vector::create(a.clone()), Vector::create(b.clone()));
    let seq = va.dot(&vb);
    let p1 = va.dot_f64(&vb);
    let p2 = va.dot_f64(&vb);
    let p3 = vb.dot_f64(&va);
    let mag: f64 = (0..n).map(|i| (a[i] * b[i]).abs()).sum();
    ensure!((p1 - seq).abs() <= 4.0 * (n.max(1) as f64) * f64::EPSILON * mag, "workers={} length={}: dot_f64 = {} differs from dot = {} by more than reassociation allows", k, n, p1, seq);
    ensure!(p1.to_bits() == p2.to_bits(), "workers={} length={}: repeated calls differ: {} vs {}", k, n, p1, p2);
    ensure!(p1.to_bits() == p3.to_bits(), "workers={} length={}: a.b != b.a: {} vs {}", k, n, p1, p3);
    // non-finite entries: one infinite product (all others finite) gives that infinity under every association, a NaN
    // entry gives NaN; threaded and sequential must agree
    if n > 0 {
        let (mut a, b) = integer_data(n);
        let j = (n * 2) / 3;
        for v in [f64::INFINITY, f64::NEG_INFINITY, f64::NAN, 1e308] {
            a[j] = v;
            let (va, vb) = (Vector::create(a.clone()), Vector::create(b.clone()));
            let (seq, par) = (va.dot(&vb), va.dot_f64(&vb));
            let want = if v == 1e308 { seq } else { v * b[j] };
            ensure!(seq.to_bits() == want.to_bits() || (seq.is_nan() && want.is_nan()), "sequential dot with entry {} at {}: {} expected {}", v, j, seq, want);
            ensure!(par.to_bits() == seq.to_bits() || (par.is_nan() && seq.is_nan()), "workers={} length={}: entry {} at index {}: dot_f64 = {} but dot = {}", k, n, v, j, par, seq);
        }
    }
    // TWO non-finite contributions of different kinds (+inf and -inf, inf and NaN, finite entries whose products overflow with both
    // signs): NaN under every association, as the sequential dot says - a worker that stops early or a partial sum that is dropped
    // turns it into an infinity. And a ZERO vector against entries inf / NaN: 0 * inf = NaN in every order, never 0
    // (lengths above 48 carry these two classes at every fifth length: they cost ten threaded calls per case)
    let dense = n <= 48 || n % 5 == 0;
    if n >= 2 && dense {
        for (j1, j2) in [(0usize, n - 1), ((2 * n) / 3, n / 3)] {
            if j1 == j2 {
                continue;
            }
            // (two of the four kinds per pair, rotating with n: every kind meets every worker count and length class)
            let kinds = [(f64::INFINITY, f64::NEG_INFINITY, 1.0), (f64::INFINITY, f64::NAN, 1.0), (f64::NEG_INFINITY, f64::INFINITY, 1.0), (1e308, -1e308, 1e10)];
            for t in 0..2usize {
                let (v1, v2, scale) = kinds[(n + 2 * t + if j1 == 0 { 0 } else { 1 }) % 4];
                let (mut a, mut b) = integer_data(n);
                a[j1] = v1;
                a[j2] = v2;
                b[j1] = b[j1].abs().max(1.0) * scale;
                b[j2] = b[j2].abs().max(1.0) * scale;
                let (va, vb) = (Vector::create(a), Vector::create(b));
                let (seq, par) = (va.dot(&vb), if j1 == 0 { va.dot_f64(&vb) } else { vb.dot_f64(&va) });
                ensure!(seq.is_nan(), "sequential dot with {} at {} and {} at {}: {} expected NaN", v1, j1, v2, j2, seq);
                ensure!(par.is_nan(), "workers={} length={}: entries {} at {} and {} at {} (x {}): dot_f64 = {} but dot = NaN", k, n, v1, j1, v2, j2, scale, par);
            }
        }
    }
    if n >= 1 && dense {
        // (position, value and sign of the zero rotate with n: every combination occurs for every worker count)
        let j = (2 * n) / 3;
        let v = [f64::INFINITY, f64::NEG_INFINITY, f64::NAN][n % 3];
        let z = if (n / 3) % 2 == 0 { 0.0f64 } else { -0.0 };
        let mut w = vec![1.5; n];
        w[j] = v;
        let (vz, vw) = (Vector::create(vec![z; n]), Vector::create(w));
        let (seq, p1, p2) = (vz.dot(&vw), vz.dot_f64(&vw), vw.dot_f64(&vz));
        ensure!(seq.is_nan(), "sequential dot of a zero vector against an entry {}: {} expected NaN", v, seq);
        ensure!(p1.is_nan() && p2.is_nan(), "workers={} length={}: zero vector ({:?}) against an entry {} at {}: dot_f64 = {} / {} but dot = NaN", k, n, z, v, j, p1, p2);
    }
    // products that are NOT exact while every partial sum of the rounded products is: x = (1, a, 1, a, ..), w = (-(1 + 2^-26), a, ..) with
    // a = 1 + 2^-27; fl(a * a) = 1 + 2^-26, so every product is +-(1 + 2^-26) and any sum of them is a small multiple of it. Only
    // re-association is allowed to differ from the sequential dot - a fused multiply-add is not a re-association
    {
        let a27 = 1.0 + 2f64.powi(-27);
        let u = 1.0 + 2f64.powi(-26);
        let x: Vec<f64> = (0..n).map(|i| if i % 2 == 0 { 1.0 } else { a27 }).collect();
        let w: Vec<f64> = (0..n).map(|i| if i % 2 == 0 { -u } else { a27 }).collect();
        let (vx, vw) = (Vector::create(x), Vector::create(w));
        let (seq, par) = (vx.dot(&vw), vx.dot_f64(&vw));
        let want = if n % 2 == 0 { 0.0 } else { -u };
        ensure!(seq.to_bits() == want.to_bits(), "sequential dot on the rounded-product data: {:e} expected {:e}", seq, want);
        ensure!(par.to_bits() == seq.to_bits(), "workers={} length={}: inexact products with exact partial sums: dot_f64 = {:e} but dot = {:e}", k, n, par, seq);
    }
    // every product is -0.0 (a zero vector against a negative one, a -0.0 vector against a positive one): the sequential sum starts from
    // +0.0 and stays +0.0
    for (xv, wv) in [(0.0f64, -1.0f64), (-0.0, 2.0)] {
        let (vx, vw) = (Vector::create(vec![xv; n]), Vector::create(vec![wv; n]));
        let (seq, par) = (vx.dot(&vw), vx.dot_f64(&vw));
        ensure!(seq.to_bits() == 0.0f64.to_bits(), "sequential dot of all -0.0 products = {:?}", seq);
        ensure!(par.to_bits() == seq.to_bits(), "workers={} length={}: all products -0.0: dot_f64 = {:?} (bits {:#x}) but dot = {:?}", k, n, par, par.to_bits(), seq);
    }
    // the vector against ITSELF (one object, both arguments): the same sum of squares as against a distinct copy
    {
        let (a, _) = integer_data(n);
        let va = Vector::create(a.clone());
        let copy = Vector::create(a.clone());
        let exact: i128 = a.iter().map(|v| (*v as i128) * (*v as i128)).sum();
        let (aliased, distinct) = (va.dot_f64(&va), va.dot_f64(&copy));
        ensure!(aliased.to_bits() == (exact as f64).to_bits() && distinct.to_bits() == aliased.to_bits(), "workers={} length={}: v.dot_f64(&v) = {} but the sum of squares is {} (against a copy: {})", k, n, aliased, exact, distinct);
    }
    // products that are the smallest subnormal: sums of subnormals are exact, so every partial sum is; the result must be n * 2^-1074
    {
        let t = 2f64.powi(-537);
        let (vx, vw) = (Vector::create(vec![t; n]), Vector::create(vec![t; n]));
        let (seq, par) = (vx.dot(&vw), vx.dot_f64(&vw));
        let want = n as f64 * 2f64.powi(-1074);
        ensure!(seq.to_bits() == want.to_bits(), "sequential dot of {} products 2^-1074 = {:e}", n, seq);
        ensure!(par.to_bits() == seq.to_bits(), "workers={} length={}: subnormal products: dot_f64 = {:e} but dot = {:e}", k, n, par, seq);
    }
    // call sequences on one thread: after a long call, shorter ones (fewer elements than workers, none at all) must not see stale state
    for m in [0usize, k.saturating_sub(1).min(n), 1usize.min(n)] {
        let (a, b) = integer_data(m);
        let exact: i128 = (0..m).map(|i| (a[i] as i128) * (b[i] as i128)).sum();
        let got = Vector::create(a).dot_f64(&Vector::create(b));
        ensure!(got == exact as f64, "workers={}: a call of length {} right after one of length {} returned {} instead of {}", k, m, n, got, exact);
    }
    Ok(())
}

fn main() {
    let mut ctx = Ctx::from_args("C16");
    // thread creation under 16 pinned harness workers varies between 20 and 45 s for the first space: the default quick budget
    // (45 s) would sometimes skip the second one
    ctx.budget_s = ctx.budget_s.max(150.0);
    ctx.level("model_checking");
    ctx.rule("Configuration sweep (guard off, real OS threads): every worker count k = 1..min(16, CPUs available) - set through the CPU affinity of the calling thread and confirmed by num_cpus::get() == k - x every length 0..=200: integer-valued data must be bit-identical to the sequential dot and to an exact i128 dot product; reassociation-sensitive data must stay within 4 n eps sum|a_i b_i| and be bit-identical over repeated calls; one infinite, NaN or 1e308 entry among small integers (a value every association agrees on) must give the sequential result; two non-finite contributions of different kinds (+inf / -inf, inf / NaN, products overflowing with both signs) at the position pairs (0, n-1) and (2n/3, n/3), and a zero vector (+0.0 or -0.0) against an entry inf / -inf / NaN, must give NaN; data whose products are inexact but whose rounded products have exact partial sums, and data whose products are all -0.0 or all the smallest subnormal, must be bit-identical to the sequential dot; the vector against itself (one object) equals the sum of squares; each case ends with a sequence of shorter calls (length 0, < workers, 1) on the same thread, which must be exact (no state carried between calls). Non-trivial: lengths below, equal to, above and not divisible by the worker count with k >= 2.");
    ctx.assume("the sweep runs free (uncontrolled OS scheduling): it decides the configuration/length quantifiers; scheduling independence is decided by the shuttle exploration");
    let cpus = allowed_cpus();
    let kmax = cpus.len().min(16);
    let nlen = 201u64;
    let quick = ctx.quick();
    ctx.require(&["length < workers", "length == workers", "length not divisible by workers"]);
    ctx.lattice(
        &format!("worker counts 1..{} (CPU affinity) x lengths 0..=200", kmax),
        kmax as u64 * nlen,
        |idx| format!("workers={} length={}", 1 + idx / nlen, idx % nlen),
        |idx, acc| {
            let k = 1 + (idx / nlen) as usize;
            let n = (idx % nlen) as usize;
            if quick && n > 40 && ![1usize, 2, 3, 7, 16].contains(&k) {
                acc.hit("(quick tier: lengths above 40 only for worker counts 1,2,3,7,16)");
                return;
            }
            if !pin(&pick(&cpus, k)) {
                acc.machinery(format!("sched_setaffinity to {} CPUs failed", k));
                return;
            }
            if k >= 2 {
                if n < k {
                    acc.nontriv("length < workers");
                } else if n == k {
                    acc.nontriv("length == workers");
                } else if n % k != 0 {
                    acc.nontriv("length not divisible by workers");
                } else {
                    acc.nontriv("length divisible by workers");
                }
            }
            let res = catch(|| case(k, n));
            let _ = pin(&cpus);
            match res {
                Ok(Ok(())) => {}
                Ok(Err(e)) => {
                    if e.starts_with("MACHINERY") {
                        acc.machinery(e)
                    } else {
                        acc.fail(idx, format!("workers={} length={}", k, n), e)
                    }
                }
                Err(p) => acc.fail(idx, format!("workers={} length={}", k, n), format!("unexpected panic: {}", p)),
            }
        },
    );
    // a few longer vectors
    let longs = [255usize, 256, 257, 1000, 1023, 2048, 2049, 3001, 4099, 10007, 16385];
    ctx.lattice(
        &format!("worker counts 1..{} x longer vectors {:?}", kmax, longs),
        kmax as u64 * longs.len() as u64,
        |idx| format!("workers={} length={}", 1 + idx / longs.len() as u64, longs[(idx % longs.len() as u64) as usize]),
        |idx, acc| {
            let k = 1 + (idx / longs.len() as u64) as usize;
            let n = longs[(idx % longs.len() as u64) as usize];
            if !pin(&pick(&cpus, k)) {
                acc.machinery(format!("sched_setaffinity to {} CPUs failed", k));
                return;
            }
            acc.nontriv("long vector");
            let res = catch(|| case(k, n));
            let _ = pin(&cpus);
            match res {
                Ok(Ok(())) => {}
                Ok(Err(e)) => {
                    if e.starts_with("MACHINERY") {
                        acc.machinery(e)
                    } else {
                        acc.fail(idx, format!("workers={} length={}", k, n), e)
                    }
                }
                Err(p) => acc.fail(idx, format!("workers={} length={}", k, n), format!("unexpected panic: {}", p)),
            }
        },
    );
    std::process::exit(ctx.finish());
}
