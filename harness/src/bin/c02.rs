//! C02 - determinant and inverse agree with exact linear algebra; matrix left intact.
use mc::model::{self, CQ, M};
use mc::*;
use ohsl::{Cmplx, Matrix};

fn z3() -> Vec<Rat> {
    vec![r(0), r(1), r(-1)]
}
fn z5() -> Vec<Rat> {
    vec![r(0), r(1), r(-1), r(2), r(-2)]
}

fn check_exact(a: &M, acc: &mut Acc) -> Result<(), String> {
    let n = a.len();
    let am = model::to_matrix(a, n);
    let snapshot = am.clone();
    let d = model::det(a);
    let got = am.determinant();
    ensure!(got == d, "determinant() = {} but the exact determinant is {}", got, d);
    ensure!(am == snapshot, "determinant() modified the matrix");
    if d.is_zero() {
        acc.nontriv("singular");
        return Ok(());
    }
    let inv = am.inverse();
    ensure!(am == snapshot, "inverse() modified the matrix");
    ensure!(inv.rows() == n && inv.cols() == n, "inverse has shape {}x{}", inv.rows(), inv.cols());
    let im = model::from_matrix(&inv);
    let id = model::identity(n);
    let p1 = model::matmul(a, n, &im, n);
    let p2 = model::matmul(&im, n, a, n);
    ensure!(p1 == id, "A*inv(A) = {} != I (inv = {})", model::show(&p1), model::show(&im));
    ensure!(p2 == id, "inv(A)*A = {} != I (inv = {})", model::show(&p2), model::show(&im));
    Ok(())
}

fn classify(a: &M, acc: &mut Acc) {
    let ex = model::exchanges(a);
    if ex % 2 == 1 {
        acc.nontriv("odd number of row exchanges");
    } else if ex >= 2 {
        acc.nontriv("even (>=2) number of row exchanges");
    }
    let n = a.len();
    if (0..n).any(|i| (0..n).all(|j| a[i][j].is_zero())) {
        acc.nontriv("zero row");
    }
    if (0..n).any(|j| (0..n).all(|i| a[i][j].is_zero())) {
        acc.nontriv("zero column");
    }
}

fn exact_space(ctx: &Ctx, n: usize, letters: Vec<Rat>, lname: &str) {
    let len = pow(letters.len() as u64, (n * n) as u32);
    ctx.lattice(
        &format!("exact n={} all matrices over {}", n, lname),
        len,
        |idx| model::show(&model::mat_from_idx(idx, n, &letters)),
        |idx, acc| {
            let a = model::mat_from_idx(idx, n, &letters);
            classify(&a, acc);
            let mut local = Acc::new("t");
            let res = catch(|| check_exact(&a, &mut local));
            if local.nontrivial > 0 {
                acc.nontriv("singular");
            }
            match res {
                Ok(Ok(())) => {}
                Ok(Err(e)) => acc.fail(idx, format!("A={}", model::show(&a)), e),
                Err(p) => acc.fail(idx, format!("A={}", model::show(&a)), format!("unexpected panic: {}", p)),
            }
        },
    );
}

// --- structured families for orders up to 8 -------------------------------------------------------
fn signed_perm_space(ctx: &Ctx, n: usize) {
    let perms = permutations(n);
    let signs = 1u64 << n;
    ctx.lattice(
        &format!("signed permutation matrices n={} (all {} x {})", n, perms.len(), signs),
        perms.len() as u64 * signs,
        |idx| format!("perm={:?} signs={:b}", perms[(idx / signs) as usize], idx % signs),
        |idx, acc| {
            let p = &perms[(idx / signs) as usize];
            let s = idx % signs;
            let mut a = model::zeros(n, n);
            for i in 0..n {
                a[i][p[i]] = if (s >> i) & 1 == 1 { r(-1) } else { r(1) };
            }
            classify(&a, acc);
            let mut local = Acc::new("t");
            judge(acc, idx, || format!("signed permutation perm={:?} signs={:b}", p, s), || check_exact(&a, &mut local));
        },
    );
}

fn transposition_space(ctx: &Ctx, n: usize, k: usize) {
    // every product of exactly <= k transpositions, with every sign pattern having <= 2 negative entries,
    // applied to a diagonal matrix diag(1,2,..) so that a wrong pivot value (not only a wrong sign) shows
    let pairs: Vec<(usize, usize)> = (0..n).flat_map(|i| (i + 1..n).map(move |j| (i, j))).collect();
    let np = pairs.len() as u64 + 1; // last letter = "no transposition"
    let mut signsets: Vec<Vec<usize>> = vec![vec![]];
    for i in 0..n {
        signsets.push(vec![i]);
    }
    for i in 0..n {
        for j in i + 1..n {
            signsets.push(vec![i, j]);
        }
    }
    let ns = signsets.len() as u64;
    let len = pow(np, k as u32) * ns;
    ctx.lattice(
        &format!("n={} products of <= {} transpositions x <=2 sign flips on diag(1..n)", n, k),
        len,
        |idx| format!("seq#{} signs={:?}", idx / ns, signsets[(idx % ns) as usize]),
        |idx, acc| {
            let mut seq = vec![0usize; k];
            digits_uniform(idx / ns, np, &mut seq);
            let mut rows: Vec<usize> = (0..n).collect();
            for &t in &seq {
                if (t as u64) < np - 1 {
                    let (i, j) = pairs[t];
                    rows.swap(i, j);
                }
            }
            let mut a = model::zeros(n, n);
            for i in 0..n {
                a[i][rows[i]] = r(rows[i] as i64 + 1);
            }
            for &sidx in &signsets[(idx % ns) as usize] {
                for j in 0..n {
                    a[sidx][j] = -a[sidx][j];
                }
            }
            classify(&a, acc);
            let mut local = Acc::new("t");
            judge(acc, idx, || format!("A={}", model::show(&a)), || check_exact(&a, &mut local));
        },
    );
}

fn triangular_space(ctx: &Ctx, n: usize) {
    let letters = z5();
    let len = pow(5, n as u32) * 2;
    ctx.lattice(
        &format!("triangular n={} diagonal over {{0,+-1,+-2}} x {{upper,lower}}", n),
        len,
        |idx| format!("diag#{} {}", idx / 2, if idx % 2 == 0 { "upper" } else { "lower" }),
        |idx, acc| {
            let d = model::vec_from_idx(idx / 2, n, &letters);
            let upper = idx % 2 == 0;
            let mut a = model::zeros(n, n);
            for i in 0..n {
                for j in 0..n {
                    if i == j {
                        a[i][j] = d[i];
                    } else if (j > i) == upper {
                        a[i][j] = r(((i * 3 + j * 5) % 7) as i64 - 3);
                    }
                }
            }
            classify(&a, acc);
            let mut local = Acc::new("t");
            let res = catch(|| check_exact(&a, &mut local));
            if local.nontrivial > 0 {
                acc.nontriv("singular");
            }
            match res {
                Ok(Ok(())) => {}
                Ok(Err(e)) => acc.fail(idx, format!("A={}", model::show(&a)), e),
                Err(p) => acc.fail(idx, format!("A={}", model::show(&a)), format!("unexpected panic: {}", p)),
            }
        },
    );
}

fn base(n: usize, pat: usize) -> M {
    (0..n)
        .map(|i| {
            (0..n)
                .map(|j| match pat {
                    0 => r(((i * 5 + j * 3 + i * j) % 7) as i64 - 3),
                    _ => {
                        if i == j {
                            r(3 + i as i64)
                        } else {
                            r(((i + 2 * j) % 3) as i64 - 1)
                        }
                    }
                })
                .collect()
        })
        .collect()
}

/// row permutations applied to the dense nonsingular bases: every rotation and every 3-cycle among the first five rows
/// (pivoting permutations that are not involutions), so that elimination of a dense matrix needs several exchanges
fn row_perms(n: usize) -> Vec<Vec<usize>> {
    let mut v: Vec<Vec<usize>> = (1..n).map(|s0| (0..n).map(|i| (i + s0) % n).collect()).collect();
    let m = n.min(5);
    for a in 0..m {
        for b in a + 1..m {
            for c in b + 1..m {
                for dir in 0..2 {
                    let mut p: Vec<usize> = (0..n).collect();
                    if dir == 0 {
                        p[a] = b;
                        p[b] = c;
                        p[c] = a;
                    } else {
                        p[a] = c;
                        p[c] = b;
                        p[b] = a;
                    }
                    v.push(p);
                }
            }
        }
    }
    v
}

fn rank_deficient_space(ctx: &Ctx) {
    // (n, pattern, kind, i, j): kind 0 zero row i, 1 zero column i, 2 row j := row i, 3 row j := row i + row (i+1)%n, 4 block diag with zero block, 5 untouched base
    let mut cases: Vec<(usize, usize, usize, usize, usize)> = vec![];
    for n in 2..=8usize {
        for pat in 0..2 {
            cases.push((n, pat, 5, 0, 0));
            if n >= 3 {
                for k in 0..row_perms(n).len() {
                    cases.push((n, pat, 6, k, 0));
                }
            }
            for i in 0..n {
                cases.push((n, pat, 0, i, 0));
                cases.push((n, pat, 1, i, 0));
                for j in 0..n {
                    if i != j {
                        cases.push((n, pat, 2, i, j));
                        if n >= 3 && j != (i + 1) % n {
                            cases.push((n, pat, 3, i, j));
                        }
                    }
                }
            }
        }
    }
    ctx.lattice(
        "rank-deficient / structured matrices of order 2..8 (dense bases also under every row rotation and 3-cycle)",
        cases.len() as u64,
        |idx| format!("{:?}", cases[idx as usize]),
        |idx, acc| {
            let (n, pat, kind, i, j) = cases[idx as usize];
            let mut a = base(n, pat);
            match kind {
                0 => {
                    for c in 0..n {
                        a[i][c] = r(0);
                    }
                }
                1 => {
                    for rr in 0..n {
                        a[rr][i] = r(0);
                    }
                }
                2 => {
                    a[j] = a[i].clone();
                }
                3 => {
                    let k = (i + 1) % n;
                    a[j] = (0..n).map(|c| a[i][c] + a[k][c]).collect();
                }
                6 => {
                    let p = &row_perms(n)[i];
                    let b = a.clone();
                    for rr in 0..n {
                        a[p[rr]] = b[rr].clone();
                    }
                    acc.nontriv("dense base with permuted rows");
                }
                _ => {}
            }
            classify(&a, acc);
            if n >= 5 {
                acc.nontriv("order >= 5");
            }
            let mut local = Acc::new("t");
            let res = catch(|| check_exact(&a, &mut local));
            if local.nontrivial > 0 {
                acc.nontriv("singular");
            }
            match res {
                Ok(Ok(())) => {}
                Ok(Err(e)) => acc.fail(idx, format!("A={}", model::show(&a)), e),
                Err(p) => acc.fail(idx, format!("A={}", model::show(&a)), format!("unexpected panic: {}", p)),
            }
        },
    );
}

// --- floating point --------------------------------------------------------------------------------
const DET_REL: f64 = 1e-12;
const INV_RES: f64 = 1e-10;

fn check_f64(a: &M, acc: &mut Acc) -> Result<(), String> {
    check_f64_scaled(a, 1.0, acc)
}
/// the matrix s*A for a power-of-two (or decimal) scale s: det scales by s^n, the inverse residual is scale invariant
fn check_f64_scaled(a: &M, scale: f64, acc: &mut Acc) -> Result<(), String> {
    let n = a.len();
    let af: Vec<Vec<f64>> = model::to_f(a).iter().map(|r| r.iter().map(|x| x * scale).collect()).collect();
    let am = model::to_mat64(&af);
    let snap = am.clone();
    let d = model::det(a);
    let hadamard: f64 = af.iter().map(|row| row.iter().map(|x| x * x).sum::<f64>().sqrt()).map(|x| if x == 0.0 { 1.0 } else { x }).product();
    let got = am.determinant();
    let want = d.to_f64() * scale.powi(n as i32);
    let err = (got - want).abs() / hadamard;
    acc.worst("det_error_over_hadamard_f64", err, || format!("{} scale {:e}", model::show(a), scale));
    ensure!(err <= DET_REL, "f64 determinant {} vs exact {} (scale {:e}; error/Hadamard {:e})", got, want, scale, err);
    ensure!(am == snap, "determinant() modified the f64 matrix");
    if d.is_zero() {
        return Ok(());
    }
    let inv = am.inverse();
    ensure!(am == snap, "inverse() modified the f64 matrix");
    let mut res = 0.0f64;
    for i in 0..n {
        let (mut s1, mut s2) = (0.0f64, 0.0f64);
        for j in 0..n {
            let mut p = 0.0;
            let mut q = 0.0;
            for k in 0..n {
                p += af[i][k] * inv[(k, j)];
                q += inv[(i, k)] * af[k][j];
            }
            let t = if i == j { 1.0 } else { 0.0 };
            s1 += (p - t).abs();
            s2 += (q - t).abs();
        }
        res = res.max(s1).max(s2);
    }
    let res = if res.is_nan() { f64::INFINITY } else { res };
    acc.worst("inverse_residual_f64", res, || model::show(a));
    ensure!(res <= INV_RES, "f64 inverse residual {:e}", res);
    Ok(())
}

/// every 3x3 (and 2x2) matrix over {0, +-1, 2^20, 2^-20}: determinant against the exact integer determinant of the scaled
/// matrix (singular members included), inverse residual for the members with exact condition number <= 2^20
fn mixed_space(ctx: &Ctx, n: usize) {
    let big = (1u64 << 20) as f64;
    let lf = [0.0, 1.0, -1.0, big, 1.0 / big];
    let li: [i128; 5] = [0, 1 << 20, -(1 << 20), 1 << 40, 1];
    ctx.lattice(
        &format!("f64 n={} mixed-magnitude lattice: all matrices over {{0,1,-1,2^20,2^-20}}", n),
        pow(5, (n * n) as u32),
        |idx| {
            let mut d = vec![0usize; n * n];
            digits_uniform(idx, 5, &mut d);
            format!("{:?}", d.iter().map(|&k| lf[k]).collect::<Vec<f64>>())
        },
        |idx, acc| {
            let mut d = vec![0usize; n * n];
            digits_uniform(idx, 5, &mut d);
            let e = |i: usize, j: usize| li[d[i * n + j]];
            let det: i128 = if n == 2 {
                e(0, 0) * e(1, 1) - e(0, 1) * e(1, 0)
            } else {
                e(0, 0) * (e(1, 1) * e(2, 2) - e(1, 2) * e(2, 1)) - e(0, 1) * (e(1, 0) * e(2, 2) - e(1, 2) * e(2, 0)) + e(0, 2) * (e(1, 0) * e(2, 1) - e(1, 1) * e(2, 0))
            };
            let adj = |i: usize, j: usize| -> i128 {
                if n == 2 {
                    let v = e(1 - j, 1 - i);
                    if (i + j) % 2 == 0 { v } else { -v }
                } else {
                    let rs: Vec<usize> = (0..3).filter(|&r0| r0 != j).collect();
                    let cs: Vec<usize> = (0..3).filter(|&c0| c0 != i).collect();
                    let m = e(rs[0], cs[0]) * e(rs[1], cs[1]) - e(rs[0], cs[1]) * e(rs[1], cs[0]);
                    if (i + j) % 2 == 0 { m } else { -m }
                }
            };
            let af: Vec<Vec<f64>> = (0..n).map(|i| (0..n).map(|j| lf[d[i * n + j]]).collect()).collect();
            let key = || format!("mixed A={:?}", af);
            if det == 0 {
                acc.nontriv("singular mixed-magnitude member");
            } else {
                acc.nontriv("nonsingular mixed-magnitude member");
            }
            let res = catch(|| -> Result<(f64, f64), String> {
                let am = model::to_mat64(&af);
                let snap = am.clone();
                let hadamard: f64 = af.iter().map(|row| row.iter().map(|x| x * x).sum::<f64>().sqrt()).map(|x| if x == 0.0 { 1.0 } else { x }).product();
                let got = am.determinant();
                // det(2^20 A) = 2^(20 n) det A, exactly
                let want = det as f64 / big.powi(n as i32);
                // elimination with partial pivoting is backward stable normwise: det(A + E) with |E_ij| <= c eps max|a|, so the
                // determinant moves by at most c eps max|a| sum |cofactors| (the Hadamard measure used on the evenly scaled
                // lattices is too strict for badly row-scaled members: 1.05e-12 was observed on [[1,2^20,2^20],[1,-1,1],[1,1,0]])
                let _ = hadamard;
                let amax = af.iter().flat_map(|r0| r0.iter()).fold(0.0f64, |m, x| m.max(x.abs()));
                let cof_sum: f64 = (0..n).map(|i| (0..n).map(|j| (adj(i, j) as f64).abs()).sum::<f64>()).sum::<f64>() / big.powi(n as i32 - 1);
                let scale = amax * cof_sum;
                let err = if scale == 0.0 { (got - want).abs() } else { (got - want).abs() / scale };
                ensure!(err <= 8.0 * f64::EPSILON, "f64 determinant {:e} vs exact {:e}: error {:e} of max|a| * sum|cofactors| = {:e}", got, want, err, scale);
                ensure!(am == snap, "determinant() modified the matrix");
                if det == 0 {
                    return Ok((err, 0.0));
                }
                let norm_a = (0..n).map(|i| (0..n).map(|j| (e(i, j) as f64).abs()).sum::<f64>()).fold(0.0, f64::max);
                let norm_adj = (0..n).map(|i| (0..n).map(|j| (adj(i, j) as f64).abs()).sum::<f64>()).fold(0.0, f64::max);
                let cond = norm_a * norm_adj / (det as f64).abs();
                if cond > (1u64 << 20) as f64 {
                    return Ok((err, 0.0));
                }
                let inv = am.inverse();
                ensure!(am == snap, "inverse() modified the matrix");
                // entrywise against the exact inverse adj / det
                let mut worst = 0.0f64;
                let ninv = norm_adj / (det as f64).abs() * big; // ||A^-1||_inf of the unscaled matrix
                for i in 0..n {
                    for j in 0..n {
                        let exact = adj(i, j) as f64 / det as f64 * big;
                        worst = worst.max((inv[(i, j)] - exact).abs() / ninv);
                    }
                }
                ensure!(worst <= cond * 8.0 * f64::EPSILON, "inverse differs from adj/det by {:e} ||A^-1|| with condition number {:e}", worst, cond);
                Ok((err, worst / cond))
            });
            match res {
                Ok(Ok((e1, e2))) => {
                    acc.worst("mixed_det_error_over_amax_cofactors", e1, key);
                    acc.worst("mixed_inverse_error_over_cond", e2, key);
                }
                Ok(Err(e)) => acc.fail(idx, key(), e),
                Err(p) => acc.fail(idx, key(), format!("unexpected panic: {}", p)),
            }
        },
    );
}

fn f64_space(ctx: &Ctx, n: usize, letters: Vec<Rat>, lname: &str) {
    let len = pow(letters.len() as u64, (n * n) as u32);
    ctx.lattice(
        &format!("f64 n={} all matrices over {}", n, lname),
        len,
        |idx| model::show(&model::mat_from_idx(idx, n, &letters)),
        |idx, acc| {
            let a = model::mat_from_idx(idx, n, &letters);
            classify(&a, acc);
            if model::det(&a).is_zero() {
                acc.nontriv("singular");
            }
            let mut local = Acc::new("t");
            let res = catch(|| check_f64(&a, &mut local));
            acc.merge_worst(local);
            match res {
                Ok(Ok(())) => {}
                Ok(Err(e)) => acc.fail(idx, format!("f64 A={}", model::show(&a)), e),
                Err(p) => acc.fail(idx, format!("f64 A={}", model::show(&a)), format!("unexpected panic: {}", p)),
            }
        },
    );
}

fn scaled_f64_space(ctx: &Ctx) {
    let scales = [2f64.powi(-60), 2f64.powi(-30), 2f64.powi(40), 1e-18, 1e18];
    for (n, letters) in [(2usize, z5()), (3usize, z3())] {
        let len = pow(letters.len() as u64, (n * n) as u32);
        ctx.lattice(
            &format!("f64 n={} uniformly scaled integer lattice x scales {{2^-60,2^-30,2^40,1e-18,1e18}}", n),
            len * 5,
            |idx| format!("{} scale {:e}", model::show(&model::mat_from_idx(idx / 5, n, &letters)), scales[(idx % 5) as usize]),
            |idx, acc| {
                let a = model::mat_from_idx(idx / 5, n, &letters);
                acc.nontriv("uniformly scaled matrix");
                let mut local = Acc::new("t");
                let res = catch(|| check_f64_scaled(&a, scales[(idx % 5) as usize], &mut local));
                acc.merge_worst(local);
                let key = || format!("f64 scaled A={} scale {:e}", model::show(&a), scales[(idx % 5) as usize]);
                match res {
                    Ok(Ok(())) => {}
                    Ok(Err(e)) => acc.fail(idx, key(), e),
                    Err(p) => acc.fail(idx, key(), format!("unexpected panic: {}", p)),
                }
            },
        );
    }
}

/// f64 integer matrices with their COLUMNS scaled by powers of two so that the first pivot column is subnormal while the determinant
/// is of order one: (2^-1030, 2^1030 / 2^0 ..). Every multiplier is a ratio of small integers, so nothing here needs the reciprocal of
/// a pivot; the exact determinant is det(A0) times the product of the column scales
fn column_scaled_space(ctx: &Ctx) {
    for (n, letters, cs) in [(2usize, z5(), vec![2f64.powi(-1030), 2f64.powi(1000)]), (3usize, z3(), vec![2f64.powi(-1030), 2f64.powi(1000), 2f64.powi(30)]), (2usize, z5(), vec![2f64.powi(900), 2f64.powi(-1040)])] {
        let len = pow(letters.len() as u64, (n * n) as u32);
        let cs2 = cs.clone();
        ctx.lattice(
            &format!("f64 n={} integer lattice with columns scaled by {:?}: determinant against det(A0) * prod(scales)", n, cs.iter().map(|s| format!("2^{}", s.log2())).collect::<Vec<_>>()),
            len,
            |idx| model::show(&model::mat_from_idx(idx, n, &letters)),
            |idx, acc| {
                let a = model::mat_from_idx(idx, n, &letters);
                let d0 = model::det(&a).to_f64();
                let mut m = Matrix::<f64>::new(n, n, 0.0);
                for i in 0..n {
                    for j in 0..n {
                        m[(i, j)] = a[i][j].to_f64() * cs2[j];
                    }
                }
                acc.nontriv("matrix with a subnormal column");
                let key = || format!("column-scaled A0={} scales={:?}", model::show(&a), cs2);
                let res = catch(|| -> Result<(), String> {
                    let got = m.determinant();
                    // unscale one column at a time (exact, and the partial results stay in range)
                    let mut g = got;
                    for s in cs2.iter().rev() {
                        g /= *s;
                    }
                    let had: f64 = (0..n).map(|i| (0..n).map(|j| a[i][j].to_f64().powi(2)).sum::<f64>().sqrt().max(1.0)).product();
                    ensure!(g.is_finite() && (g - d0).abs() <= 1e-10 * had, "determinant / prod(scales) = {:e} but det(A0) = {:e} (determinant() = {:e})", g, d0, got);
                    Ok(())
                });
                match res {
                    Ok(Ok(())) => {}
                    Ok(Err(e)) => acc.fail(idx, key(), e),
                    Err(p) => acc.fail(idx, key(), format!("unexpected panic: {}", p)),
                }
            },
        );
    }
}

fn cletters(full: bool) -> Vec<(Cmplx, CQ)> {
    let c = |a: f64, b: f64| Cmplx::new(a, b);
    let q = |a: i64, b: i64| CQ::new(r(a), r(b));
    let mut v = vec![(c(0., 0.), q(0, 0)), (c(1., 0.), q(1, 0)), (c(0., 1.), q(0, 1)), (c(-1., 0.), q(-1, 0))];
    if full {
        v.push((c(0., -1.), q(0, -1)));
        v.push((c(1., 1.), q(1, 1)));
        v.push((c(2., -1.), q(2, -1)));
    }
    v
}
fn complex_space(ctx: &Ctx, n: usize, full: bool) {
    let letters = cletters(full);
    let l = letters.len() as u64;
    let len = pow(l, (n * n) as u32);
    ctx.lattice(
        &format!("Complex<f64> n={} over {} Gaussian-integer letters", n, l),
        len,
        |idx| {
            let mut d = vec![0usize; n * n];
            digits_uniform(idx, l, &mut d);
            format!("{:?}", d.iter().map(|&k| letters[k].0).collect::<Vec<Cmplx>>())
        },
        |idx, acc| {
            let mut d = vec![0usize; n * n];
            digits_uniform(idx, l, &mut d);
            let aq: Vec<Vec<CQ>> = (0..n).map(|i| (0..n).map(|j| letters[d[i * n + j]].1).collect()).collect();
            let dq = model::det_cq(&aq);
            let mut am = Matrix::<Cmplx>::new(n, n, Cmplx::new(0.0, 0.0));
            for i in 0..n {
                for j in 0..n {
                    am[(i, j)] = letters[d[i * n + j]].0;
                }
            }
            if dq.is_zero() {
                acc.nontriv("singular");
            }
            if am[(0, 0)] == Cmplx::new(0.0, 0.0) {
                acc.nontriv("zero leading pivot");
            }
            let key = || format!("complex A={:?}", (0..n).map(|i| (0..n).map(|j| am[(i, j)]).collect::<Vec<_>>()).collect::<Vec<_>>());
            let res = catch(|| -> Result<(f64, f64), String> {
                let snap = am.clone();
                let got = am.determinant();
                let hadamard: f64 = (0..n).map(|i| (0..n).map(|j| am[(i, j)].abs_sqr()).sum::<f64>().sqrt()).map(|x| if x == 0.0 { 1.0 } else { x }).product();
                let err = (got.real - dq.re.to_f64()).hypot(got.imag - dq.im.to_f64()) / hadamard;
                let err = if err.is_nan() { f64::INFINITY } else { err };
                ensure!(err <= DET_REL, "complex determinant {:?} vs exact ({},{})", got, dq.re, dq.im);
                ensure!(am == snap, "determinant() modified the matrix");
                if dq.is_zero() {
                    return Ok((err, 0.0));
                }
                let inv = am.inverse();
                ensure!(am == snap, "inverse() modified the matrix");
                let mut resid = 0.0f64;
                for i in 0..n {
                    for j in 0..n {
                        let mut p = Cmplx::new(0.0, 0.0);
                        let mut q = Cmplx::new(0.0, 0.0);
                        for k in 0..n {
                            p += am[(i, k)] * inv[(k, j)];
                            q += inv[(i, k)] * am[(k, j)];
                        }
                        let t = if i == j { 1.0 } else { 0.0 };
                        let e1 = (p.real - t).hypot(p.imag);
                        let e2 = (q.real - t).hypot(q.imag);
                        resid = resid.max(if e1.is_nan() { f64::INFINITY } else { e1 }).max(if e2.is_nan() { f64::INFINITY } else { e2 });
                    }
                }
                ensure!(resid <= INV_RES, "complex inverse residual {:e}", resid);
                Ok((err, resid))
            });
            match res {
                Ok(Ok((e, rs))) => {
                    acc.worst("det_error_over_hadamard_complex", e, key);
                    acc.worst("inverse_residual_complex", rs, key);
                }
                Ok(Err(e)) => acc.fail(idx, key(), e),
                Err(p) => acc.fail(idx, key(), format!("unexpected panic: {}", p)),
            }
        },
    );
}

/// Complex<f64> 2x2 matrices diag(rho) * A0, A0 over Gaussian-integer letters, rho a power of two up to 2^+-480:
/// determinant = rho_0 rho_1 det(A0) and inverse = A0^-1 diag(1/rho) are known exactly and all are representable
fn complex_scaled_space(ctx: &Ctx) {
    let n = 2usize;
    let letters = cletters(true);
    let l = letters.len() as u64;
    let rhos = [2f64.powi(-480), 2f64.powi(-340), 1.0, 2f64.powi(342), 2f64.powi(480)];
    let per = pow(rhos.len() as u64, n as u32);
    ctx.lattice(
        &format!("Complex<f64> n=2 over {} Gaussian-integer letters x row scales {{2^-480,2^-340,1,2^342,2^480}}^2: determinant and inverse", l),
        pow(l, 4) * per,
        |idx| format!("matrix#{} scales#{}", idx / per, idx % per),
        |idx, acc| {
            let mut d = vec![0usize; 4];
            digits_uniform(idx / per, l, &mut d);
            let mut rd = vec![0usize; 2];
            digits_uniform(idx % per, rhos.len() as u64, &mut rd);
            let aq: Vec<Vec<CQ>> = (0..n).map(|i| (0..n).map(|j| letters[d[i * n + j]].1).collect()).collect();
            let dq = model::det_cq(&aq);
            let mut am = Matrix::<Cmplx>::new(n, n, Cmplx::new(0.0, 0.0));
            for i in 0..n {
                for j in 0..n {
                    let z = letters[d[i * n + j]].0;
                    am[(i, j)] = Cmplx::new(z.real * rhos[rd[i]], z.imag * rhos[rd[i]]);
                }
            }
            if rd.iter().any(|&k| k != 2) {
                acc.nontriv("matrix with a row scale beyond 2^+-340");
            }
            let key = || format!("complex scaled A0={:?} row scales={:?}", aq.iter().map(|r| r.iter().map(|z| (z.re.to_f64(), z.im.to_f64())).collect::<Vec<_>>()).collect::<Vec<_>>(), rd.iter().map(|&k| rhos[k]).collect::<Vec<f64>>());
            let res = catch(|| -> Result<(), String> {
                let got = am.determinant();
                // dividing by the two row scales one after the other is exact
                let (gr, gi) = (got.real / rhos[rd[0]] / rhos[rd[1]], got.imag / rhos[rd[0]] / rhos[rd[1]]);
                let err = (gr - dq.re.to_f64()).hypot(gi - dq.im.to_f64());
                ensure!(err <= 1e-12, "determinant / (rho_0 rho_1) = ({:e}, {:e}) but det(A0) = ({}, {})", gr, gi, dq.re, dq.im);
                if dq.is_zero() {
                    return Ok(());
                }
                let inv = am.inverse();
                // exact inverse of A0: adj / det
                let adj = [[aq[1][1], aq[0][1].neg()], [aq[1][0].neg(), aq[0][0]]];
                for i in 0..n {
                    for j in 0..n {
                        let e = adj[i][j].div(dq);
                        let (re, im) = (inv[(i, j)].real * rhos[rd[j]], inv[(i, j)].imag * rhos[rd[j]]);
                        let err = (re - e.re.to_f64()).hypot(im - e.im.to_f64());
                        ensure!(err <= 1e-12, "inverse[({},{})] * rho_{} = ({:e}, {:e}) but the exact value is ({}, {})", i, j, j, re, im, e.re, e.im);
                    }
                }
                Ok(())
            });
            match res {
                Ok(Ok(())) => {}
                Ok(Err(e)) => acc.fail(idx, key(), e),
                Err(p) => acc.fail(idx, key(), format!("unexpected panic: {}", p)),
            }
        },
    );
}

fn main() {
    let ctx = Ctx::from_args("C02");
    ctx.level("exploration");
    ctx.rule("E1 exhaustive lattices including every singular member: all n x n matrices over {0,+-1,+-2} (n<=2), {0,+-1} (n=3 quick; {0,+-1,+-2} thorough; n=4 over {0,+-1} thorough); all signed permutation matrices n<=6 (every exchange count and parity); products of <=2 (quick) / <=3 (thorough) transpositions with <=2 sign flips for n=7,8; triangular matrices with every diagonal over {0,+-1,+-2} for n=5..8; rank-deficient constructions (zero row/column, repeated row, row = sum of two) and dense nonsingular bases under every row rotation and every 3-cycle of the first five rows, for n=2..8; f64 and Complex<f64> twins. Oracle: cofactor/Bareiss determinant over exact rationals; A*inv = inv*A = I exactly; matrix == clone taken before. Non-trivial: singular, zero row/column, odd / even>=2 exchange counts, order >= 5.");
    ctx.assume("orders 5..8 are covered through structured families only, not exhaustively");
    ctx.threshold("det_error_over_hadamard_f64", DET_REL);
    ctx.threshold("inverse_residual_f64", INV_RES);
    ctx.threshold("mixed_inverse_error_over_cond", 8.0 * f64::EPSILON);
    ctx.threshold("mixed_det_error_over_amax_cofactors", 8.0 * f64::EPSILON);
    ctx.threshold("det_error_over_hadamard_complex", DET_REL);
    ctx.threshold("inverse_residual_complex", INV_RES);
    ctx.require(&["singular", "zero row", "zero column", "odd number of row exchanges", "even (>=2) number of row exchanges", "order >= 5"]);

    exact_space(&ctx, 1, z5(), "{0,1,-1,2,-2}");
    exact_space(&ctx, 2, z5(), "{0,1,-1,2,-2}");
    exact_space(&ctx, 3, z3(), "{0,1,-1}");
    for n in 1..=ctx.pick(5, 6) {
        signed_perm_space(&ctx, n);
    }
    transposition_space(&ctx, 7, ctx.pick(2, 3));
    transposition_space(&ctx, 8, ctx.pick(2, 3));
    for n in 5..=ctx.pick(6, 8) {
        triangular_space(&ctx, n);
    }
    rank_deficient_space(&ctx);
    f64_space(&ctx, 1, z5(), "{0,1,-1,2,-2}");
    f64_space(&ctx, 2, z5(), "{0,1,-1,2,-2}");
    f64_space(&ctx, 3, z3(), "{0,1,-1}");
    scaled_f64_space(&ctx);
    column_scaled_space(&ctx);
    mixed_space(&ctx, 2);
    mixed_space(&ctx, 3);
    complex_space(&ctx, 1, true);
    complex_space(&ctx, 2, true);
    complex_space(&ctx, 3, false);
    complex_scaled_space(&ctx);
    if ctx.thorough() {
        exact_space(&ctx, 3, z5(), "{0,1,-1,2,-2}");
        f64_space(&ctx, 3, z5(), "{0,1,-1,2,-2}");
        exact_space(&ctx, 4, z3(), "{0,1,-1}");
        f64_space(&ctx, 4, z3(), "{0,1,-1}");
    }
    // (1) Complex<f64> determinant / inverse beyond |z| ~ 1e154 / below ~ 1e-154 (unscaled Complex::abs and complex division, see
    // C01): repaired (9c56103, 8d587e4), demanded now. Known findings: (2) the f64 determinant is the running product of the pivots, which over- or underflows although
    // the determinant itself is representable. Repairing (2) means carrying a scaled product (mantissa / exponent): not a small patch.
    {
        ctx.listed_cases(
            "listed inputs: Complex<f64> determinants / inverses of extreme magnitude (bug-hunt inputs, repaired by 8d587e4)",
            vec![
                ("extreme-complex determinant [[1e-170,1],[1e-170,2]]".to_string(), Box::new(|| {
                    let z = |re: f64| Cmplx::new(re, 0.0);
                    let mut a = Matrix::<Cmplx>::new(2, 2, z(0.0));
                    a[(0, 0)] = z(1e-170);
                    a[(0, 1)] = z(1.0);
                    a[(1, 0)] = z(1e-170);
                    a[(1, 1)] = z(2.0);
                    let d = a.determinant();
                    ensure!((d.real - 1e-170).abs() <= 1e-182 && d.imag == 0.0, "determinant = {:?} but the exact value is 1e-170", d);
                    Ok(())
                })),
                ("extreme-complex inverse [[1e200]]".to_string(), Box::new(|| {
                    let a = Matrix::<Cmplx>::new(1, 1, Cmplx::new(1e200, 0.0));
                    let inv = a.inverse();
                    ensure!((inv[(0, 0)].real - 1e-200).abs() <= 1e-212 && inv[(0, 0)].imag == 0.0, "inverse = {:?} but the exact value is 1e-200", inv[(0, 0)]);
                    Ok(())
                })),
                ("extreme-complex top binade: determinant and inverse of [(2 - i) 2^1022]".to_string(), Box::new(|| {
                    // the larger part of the entry lies in [2^1023, 2^1024): the power of two that scales it to order one is subnormal
                    let p = 2f64.powi(1022);
                    let a = Matrix::<Cmplx>::new(1, 1, Cmplx::new(2.0 * p, -p));
                    let d = a.determinant();
                    ensure!(d.real == 2.0 * p && d.imag == -p, "determinant = {:?} but the entry is (2 - i) 2^1022", d);
                    // 1 / ((2 - i) p) = (2 + i) / (5 p)
                    let inv = a.inverse();
                    let (wr, wi) = (0.4 / p, 0.2 / p);
                    ensure!((inv[(0, 0)].real / wr - 1.0).abs() <= 1e-12 && (inv[(0, 0)].imag / wi - 1.0).abs() <= 1e-12, "inverse = {:?} but the exact value is ({:e}, {:e})", inv[(0, 0)], wr, wi);
                    Ok(())
                })),
                ("extreme-complex top binade: inverse of 2^1020 [[2-i, 1],[0, 4i]] row 2 times 2^-1000".to_string(), Box::new(|| {
                    // pivots (2 - i) 2^1022 (top binade) and 4i 2^20: determinant representable, inverse entries down to 2^-1024
                    let p = 2f64.powi(1022);
                    let q = 2f64.powi(20);
                    let mut a = Matrix::<Cmplx>::new(2, 2, Cmplx::new(0.0, 0.0));
                    a[(0, 0)] = Cmplx::new(2.0 * p, -p);
                    a[(0, 1)] = Cmplx::new(p, 0.0);
                    a[(1, 1)] = Cmplx::new(0.0, 4.0 * q);
                    let d = a.determinant();
                    // (2 - i)(4 i) p q = (4 + 8 i) p q = 2^1044 (1 + 2 i): overflows - only the inverse is judged: inv[(1,1)] = 1 / (4 i q) = -i / (4 q)
                    let _ = d;
                    let inv = a.inverse();
                    ensure!(inv[(1, 1)].real.abs() <= 1e-300 && (inv[(1, 1)].imag * 4.0 * q + 1.0).abs() <= 1e-12, "inverse[(1,1)] = {:?} but the exact value is -i / 2^22", inv[(1, 1)]);
                    ensure!((inv[(0, 0)].real * p / 0.4 - 1.0).abs() <= 1e-9 && (inv[(0, 0)].imag * p / 0.2 - 1.0).abs() <= 1e-9, "inverse[(0,0)] = {:?} but the exact value is (0.4 + 0.2 i) / 2^1022", inv[(0, 0)]);
                    Ok(())
                })),
                ("extreme-complex inverse [[2^342,2^342],[0,2^-342]]".to_string(), Box::new(|| {
                    // every entry within 1e-103..1e103; the old back substitution formed 6e205 * pivot inside the complex quotient
                    let (s, t) = (2f64.powi(342), 2f64.powi(-342));
                    let mut a = Matrix::<Cmplx>::new(2, 2, Cmplx::new(0.0, 0.0));
                    a[(0, 0)] = Cmplx::new(s, 0.0);
                    a[(0, 1)] = Cmplx::new(s, 0.0);
                    a[(1, 1)] = Cmplx::new(t, 0.0);
                    let inv = a.inverse();
                    let want = [[t, -s], [0.0, s]];
                    for i in 0..2 {
                        for j in 0..2 {
                            ensure!(inv[(i, j)].real == want[i][j] && inv[(i, j)].imag == 0.0, "inverse[({},{})] = {:?} but the exact value is {:e}", i, j, inv[(i, j)], want[i][j]);
                        }
                    }
                    Ok(())
                })),
            ],
        );
        ctx.known_cases(
            "listed inputs: f64 determinants / inverses whose intermediate quantities leave the double range",
            vec![
                ("partial-product determinant diag(1e200, 1e200, 1e-300)".to_string(), Box::new(|| {
                    let mut a = Matrix::<f64>::new(3, 3, 0.0);
                    a[(0, 0)] = 1e200;
                    a[(1, 1)] = 1e200;
                    a[(2, 2)] = 1e-300;
                    let d = a.determinant();
                    ensure!((d - 1e100).abs() <= 1e88, "determinant = {:e} but the exact value is 1e100", d);
                    Ok(())
                })),
                ("partial-product determinant diag(1e-200, 1e-200, 1e300)".to_string(), Box::new(|| {
                    let mut a = Matrix::<f64>::new(3, 3, 0.0);
                    a[(0, 0)] = 1e-200;
                    a[(1, 1)] = 1e-200;
                    a[(2, 2)] = 1e300;
                    let d = a.determinant();
                    ensure!((d - 1e-100).abs() <= 1e-112, "determinant = {:e} but the exact value is 1e-100 (the matrix is nonsingular)", d);
                    Ok(())
                })),
                ("partial-product determinant diag(2^-300 x4, 2^300 x4)".to_string(), Box::new(|| {
                    let mut a = Matrix::<f64>::new(8, 8, 0.0);
                    for i in 0..8 {
                        a[(i, i)] = if i < 4 { 2f64.powi(-300) } else { 2f64.powi(300) };
                    }
                    let d = a.determinant();
                    ensure!(d == 1.0, "determinant = {:e} but the exact value is 1 (the pivots are only 2^600 apart)", d);
                    Ok(())
                })),
                ("partial-product determinant diag(2^520, 2^520, 2^-40)".to_string(), Box::new(|| {
                    let mut a = Matrix::<f64>::new(3, 3, 0.0);
                    a[(0, 0)] = 2f64.powi(520);
                    a[(1, 1)] = 2f64.powi(520);
                    a[(2, 2)] = 2f64.powi(-40);
                    let d = a.determinant();
                    ensure!(d == 2f64.powi(1000), "determinant = {:e} but the exact value is 2^1000", d);
                    Ok(())
                })),
                ("row-scaled pivot choice diag(2^54,2^54,1,1)*[[49,49,0,0],[1,1,1,1],[1,-1,0,-1],[0,-1,-1,-1]]".to_string(), Box::new(|| {
                    let s = 2f64.powi(54);
                    let rows: [[f64; 4]; 4] = [[49.0 * s, 49.0 * s, 0.0, 0.0], [s, s, s, s], [1.0, -1.0, 0.0, -1.0], [0.0, -1.0, -1.0, -1.0]];
                    let mut a = Matrix::<f64>::new(4, 4, 0.0);
                    for i in 0..4 {
                        for j in 0..4 {
                            a[(i, j)] = rows[i][j];
                        }
                    }
                    let exact = 49.0 * 2f64.powi(108);
                    let d = a.determinant();
                    ensure!((d - exact).abs() <= 1e-9 * exact, "determinant = {:e} but the exact value is 49 * 2^108 = {:e} (every entry exact, the matrix nonsingular)", d, exact);
                    Ok(())
                })),
                ("multiplier-underflow determinant [[2^600,2^900],[2^-600,3*2^-300]]".to_string(), Box::new(|| {
                    let mut a = Matrix::<f64>::new(2, 2, 0.0);
                    a[(0, 0)] = 2f64.powi(600);
                    a[(0, 1)] = 2f64.powi(900);
                    a[(1, 0)] = 2f64.powi(-600);
                    a[(1, 1)] = 3.0 * 2f64.powi(-300);
                    let d = a.determinant();
                    ensure!(d == 2f64.powi(301), "determinant = {:e} but the exact value is 2^301 = {:e} (ad - bc is exact in f64)", d, 2f64.powi(301));
                    Ok(())
                })),
                ("intermediate-overflow inverse [[2^515,2^515],[0,2^-515]]".to_string(), Box::new(|| {
                    let (s, t) = (2f64.powi(515), 2f64.powi(-515));
                    let mut a = Matrix::<f64>::new(2, 2, 0.0);
                    a[(0, 0)] = s;
                    a[(0, 1)] = s;
                    a[(1, 1)] = t;
                    let inv = a.inverse();
                    ensure!(inv[(0, 0)] == t && inv[(0, 1)] == -s && inv[(1, 0)] == 0.0 && inv[(1, 1)] == s, "inverse = [[{:e}, {:e}], [{:e}, {:e}]] but the exact value is [[t, -s], [0, s]]", inv[(0, 0)], inv[(0, 1)], inv[(1, 0)], inv[(1, 1)]);
                    Ok(())
                })),
            ],
        );
    }
    std::process::exit(ctx.finish());
}
