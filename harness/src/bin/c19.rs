//! C19 - meshes return what was stored; interpolation / quadrature exact on (bi)linear data.
use mc::bfs::*;
use mc::fl::ulps;
use mc::*;
use ohsl::{Mesh1D, Mesh2D, Vector};

const SP: [f64; 4] = [0.25, 0.5, 1.0, 2.0];
const SP2: [f64; 3] = [0.75, 1.5, 1.0];

fn nodes_from(word: &[f64], start: f64) -> Vec<f64> {
    let mut v = vec![start];
    for s in word {
        let l = *v.last().unwrap();
        v.push(l + s);
    }
    v
}
fn val(pat: usize, node: usize, var: usize) -> f64 {
    match pat {
        0 => {
            // zeros of this pattern are stored as -0.0: every access path must hand back the stored bits
            let x = ((node * 7 + var * 3) % 11) as f64 - 5.0;
            if x == 0.0 { -0.0 } else { x }
        }
        _ => (node as f64) * 2.0 - (var as f64) * 3.0 + 1.0,
    }
}

fn bits_eq(a: f64, b: f64) -> bool {
    a.to_bits() == b.to_bits()
}

fn mesh1d_case(nodes: &[f64], nvars: usize, pat: usize, exact: bool, acc: &mut Acc) -> Result<(), String> {
    let n = nodes.len();
    let mut m = Mesh1D::<f64, f64>::new(Vector::create(nodes.to_vec()), nvars);
    ensure!(m.nnodes() == n && m.nvars() == nvars, "nnodes/nvars");
    for i in 0..n {
        ensure!(m.get_nodes_vars(i).vec == vec![0.0; nvars], "fresh mesh is not zero at node {}", i);
    }
    // store through both write paths
    for i in 0..n {
        if i % 2 == 0 {
            m.set_nodes_vars(i, Vector::create((0..nvars).map(|v| val(pat, i, v)).collect()));
        } else {
            for v in 0..nvars {
                m[i][v] = val(pat, i, v);
            }
        }
    }
    for i in 0..n {
        ensure!(m.coord(i) == nodes[i], "coord({})", i);
        for v in 0..nvars {
            ensure!(bits_eq(m.get_nodes_vars(i)[v], val(pat, i, v)), "get_nodes_vars({})[{}] = {} expected {}", i, v, m.get_nodes_vars(i)[v], val(pat, i, v));
            ensure!(bits_eq(m[i][v], val(pat, i, v)), "index [{}][{}]", i, v);
        }
    }
    ensure!(m.nodes().vec == nodes, "nodes()");
    // off the power-of-two grids the linear interpolant is computed with rounding: a few ulps of the data scale (|values| <= 32)
    let same = |got: f64, want: f64| if exact { got == want } else { ulps(got, want) <= 4 || (got - want).abs() <= 64.0 * f64::EPSILON * want.abs().max(32.0) };
    // interpolation: at nodes, mid-cell, quarter points
    for i in 0..n {
        let g = m.get_interpolated_vars(nodes[i]);
        ensure!(g.size() == nvars, "interpolated vector has {} entries", g.size());
        for v in 0..nvars {
            // at a node the interpolant IS the nodal value (t = 0 or 1 exactly), on any grid - no rounding allowance
            ensure!(g[v] == val(pat, i, v), "interpolation at node {} (x = {}): var {} = {:?} but the nodal value is {:?}", i, nodes[i], v, g[v], val(pat, i, v));
        }
        acc.hit("interpolations at a node");
    }
    for i in 0..n - 1 {
        let dx = nodes[i + 1] - nodes[i];
        for fr in [0.5, 0.25, 0.75, 0.125] {
            let x = nodes[i] + fr * dx;
            let g = m.get_interpolated_vars(x);
            for v in 0..nvars {
                let (l, r) = (val(pat, i, v), val(pat, i + 1, v));
                let want = l + (r - l) * fr;
                ensure!(same(g[v], want), "interpolation in cell {} at x = {}: var {} = {} expected {}", i, x, v, g[v], want);
            }
            acc.hit("interpolations inside a cell");
        }
    }
    // quadrature
    for v in 0..nvars {
        let want: f64 = (0..n - 1).map(|i| 0.5 * (nodes[i + 1] - nodes[i]) * (val(pat, i, v) + val(pat, i + 1, v))).sum();
        ensure!(same(m.trapezium(v), want), "trapezium({}) = {} expected the cell sum {}", v, m.trapezium(v), want);
    }
    // exact for linear integrands
    let mut ml = Mesh1D::<f64, f64>::new(Vector::create(nodes.to_vec()), 1);
    for i in 0..n {
        ml[i][0] = 3.0 - 2.0 * nodes[i];
    }
    let (a, b) = (nodes[0], nodes[n - 1]);
    let want = 3.0 * (b - a) - (b * b - a * a);
    ensure!(same(ml.trapezium(0), want) || (ml.trapezium(0) - want).abs() <= 1e-12 * want.abs().max(1.0), "trapezium of a linear integrand = {} expected {}", ml.trapezium(0), want);
    Ok(())
}

fn roundtrip_case(nodes: &[f64], nvars: usize, prec: usize, big: bool, dir: &std::path::Path, tag: u64, scale: f64) -> Result<(), String> {
    let n = nodes.len();
    let mut m = Mesh1D::<f64, f64>::new(Vector::create(nodes.to_vec()), nvars);
    // `big`: values of seven to sixteen digits before the decimal point, of both signs (columns of a fixed width would run together)
    let bigs = [1234567.0, -87654321.0, 9007199254740992.0, -1000000.0];
    for i in 0..n {
        for v in 0..nvars {
            m[i][v] = (val(0, i, v) + 0.123456789012 * (v as f64 + 1.0) + if big { bigs[(i + 2 * v) % 4] } else { 0.0 }) * scale;
        }
    }
    let path = dir.join(format!("mesh_{}_{}.dat", tag, prec));
    let ps = path.to_str().unwrap();
    m.output(ps, prec);
    // read into meshes of a different node count - fewer, equally many and MORE nodes than the file, the latter holding stale data -
    // and a second time into the same object: read() overwrites the nodes, nothing of the old mesh may survive
    let tol = 0.5 * 10f64.powi(-(prec as i32)) * 1.0000001;
    for target in [2usize, n, n + 3] {
        let tn: Vec<f64> = (0..target).map(|i| -7.0 + 1.5 * i as f64).collect();
        let mut r = Mesh1D::<f64, f64>::new(Vector::create(tn), nvars);
        for i in 0..target {
            for v in 0..nvars {
                r[i][v] = 1000.0 + (i * 10 + v) as f64;
            }
        }
        for pass in 0..2 {
            // a query in the LAST cell of the mesh as it is before the read (a search hint or a cached cell index left behind by it
            // must not outlive the nodes it refers to), and one in the first
            if r.nnodes() >= 2 {
                let k = r.nnodes() - 1;
                let _ = r.get_interpolated_vars(0.5 * (r.coord(k - 1) + r.coord(k)));
                let _ = r.get_interpolated_vars(0.5 * (r.coord(0) + r.coord(1)));
                let _ = r.get_interpolated_vars(0.5 * (r.coord(k - 1) + r.coord(k)));
            }
            r.read(ps);
            ensure!(r.nnodes() == n && r.nodes().size() == n, "read() into a mesh of {} nodes (pass {}): {} nodes expected {}", target, pass, r.nnodes(), n);
            // interpolation on the mesh that was read, cell by cell from the left and once more from the right (cells of the stated minimum width only)
            for i in (0..n - 1).chain((0..n - 1).rev()) {
                let (a, b) = (r.coord(i), r.coord(i + 1));
                if b - a >= 1e-3 {
                    let got = r.get_interpolated_vars(0.5 * (a + b));
                    for v in 0..nvars {
                        let want = 0.5 * (r[i][v] + r[i + 1][v]);
                        ensure!((got[v] - want).abs() <= 1e-9 * want.abs().max(1.0), "after read() into a mesh of {} nodes (pass {}): interpolation at the middle of cell {} gives {} expected {}", target, pass, i, got[v], want);
                    }
                }
            }
            for i in 0..n {
                ensure!((r.coord(i) - nodes[i]).abs() <= tol, "node {} read back as {} expected {} (precision {}, target of {} nodes)", i, r.coord(i), nodes[i], prec, target);
                for v in 0..nvars {
                    ensure!((r[i][v] - m[i][v]).abs() <= tol, "node {} var {} read back as {} expected {} (precision {}, target of {} nodes)", i, v, r[i][v], m[i][v], prec, target);
                }
            }
            // a consumer of the whole mesh: the quadrature runs over the nodes of the file only
            let scale = (0..n).map(|i| m[i][0].abs()).fold(1.0, f64::max) * (nodes[n - 1] - nodes[0]).abs().max(1.0);
            ensure!((r.trapezium(0) - m.trapezium(0)).abs() <= 4.0 * (n as f64) * tol * scale + 16.0 * f64::EPSILON * scale, "trapezium after read() into a mesh of {} nodes: {} expected {}", target, r.trapezium(0), m.trapezium(0));
        }
    }
    // a second output() to the SAME path with less text (fewer nodes, lower precision): the file holds the new mesh only
    if n >= 3 {
        let short_nodes = &nodes[..2];
        let mut ms = Mesh1D::<f64, f64>::new(Vector::create(short_nodes.to_vec()), nvars);
        for i in 0..2 {
            for v in 0..nvars {
                ms[i][v] = (i + 2 * v) as f64 + 1.0;
            }
        }
        let p2 = prec.min(3);
        ms.output(ps, p2);
        let mut r = Mesh1D::<f64, f64>::new(Vector::create(vec![0.0, 1.0, 2.0, 3.0]), nvars);
        r.read(ps);
        ensure!(r.nnodes() == 2, "a shorter mesh written over a longer file reads back with {} nodes instead of 2 (output() must replace the file)", r.nnodes());
        let tol2 = 0.5 * 10f64.powi(-(p2 as i32)) * 1.0000001;
        for i in 0..2 {
            ensure!((r.coord(i) - short_nodes[i]).abs() <= tol2, "overwritten file: node {} read back as {}", i, r.coord(i));
            for v in 0..nvars {
                ensure!((r[i][v] - ms[i][v]).abs() <= tol2, "overwritten file: node {} var {} read back as {} expected {}", i, v, r[i][v], ms[i][v]);
            }
        }
    }
    let _ = std::fs::remove_file(&path);
    Ok(())
}

fn mesh2d_case(xn: &[f64], yn: &[f64], nvars: usize, pat: usize, exact: bool) -> Result<(), String> {
    let (nx, ny) = (xn.len(), yn.len());
    let mut m = Mesh2D::<f64>::new(Vector::create(xn.to_vec()), Vector::create(yn.to_vec()), nvars);
    ensure!(m.nnodes() == (nx, ny) && m.nvars() == nvars, "nnodes/nvars");
    let v2 = |i: usize, j: usize, v: usize| if i == 0 { val(pat, j * 5, v) } else { val(pat, i * 13 + j * 5, v) + (i as f64) * 100.0 };
    for i in 0..nx {
        for j in 0..ny {
            if (i + j) % 2 == 0 {
                m.set_nodes_vars(i, j, Vector::create((0..nvars).map(|v| v2(i, j, v)).collect()));
            } else {
                for v in 0..nvars {
                    m[(i, j)][v] = v2(i, j, v);
                }
            }
        }
    }
    for i in 0..nx {
        for j in 0..ny {
            ensure!(m.coord(i, j) == (xn[i], yn[j]), "coord({},{})", i, j);
            for v in 0..nvars {
                ensure!(bits_eq(m.get_nodes_vars(i, j)[v], v2(i, j, v)), "get_nodes_vars({},{})[{}] = {} expected {}", i, j, v, m.get_nodes_vars(i, j)[v], v2(i, j, v));
                ensure!(bits_eq(m[(i, j)][v], v2(i, j, v)), "index ({},{})[{}]", i, j, v);
            }
        }
    }
    ensure!(m.xnodes().vec == xn && m.ynodes().vec == yn, "xnodes/ynodes");
    // cross-sections in both orientations
    for i in 0..nx {
        let s = m.cross_section_xnode(i);
        ensure!(s.nnodes() == ny && s.nodes().vec == yn, "cross_section_xnode({}) nodes", i);
        for j in 0..ny {
            for v in 0..nvars {
                ensure!(bits_eq(s[j][v], v2(i, j, v)), "cross_section_xnode({})[{}][{}] = {} expected {}", i, j, v, s[j][v], v2(i, j, v));
            }
        }
    }
    for j in 0..ny {
        let s = m.cross_section_ynode(j);
        ensure!(s.nnodes() == nx && s.nodes().vec == xn, "cross_section_ynode({}) nodes", j);
        for i in 0..nx {
            for v in 0..nvars {
                ensure!(bits_eq(s[i][v], v2(i, j, v)), "cross_section_ynode({})[{}][{}] = {} expected {}", j, i, v, s[i][v], v2(i, j, v));
            }
        }
    }
    for v in 0..nvars {
        let a = m.var_as_matrix(v);
        ensure!(a.rows() == nx && a.cols() == ny, "var_as_matrix shape {}x{}", a.rows(), a.cols());
        for i in 0..nx {
            for j in 0..ny {
                ensure!(bits_eq(a[(i, j)], v2(i, j, v)), "var_as_matrix({})[{},{}] = {:?} but {:?} was stored", v, i, j, a[(i, j)], v2(i, j, v));
            }
        }
    }
    // output_var: one line "x y value" per node, y-major, values to the printed precision (dyadic data print exactly at 6 digits)
    if nx * ny <= 12 {
        let path = format!("/verif/target/run/mesh2d_{}_{}_{}_{}.dat", std::process::id(), mc::worker_index(), nx, ny);
        let _ = std::fs::create_dir_all("/verif/target/run");
        for v in 0..nvars {
            m.output_var(&path, v, 6);
            let txt = std::fs::read_to_string(&path).map_err(|e| format!("output_var file unreadable: {}", e))?;
            let nums: Vec<f64> = txt.split_whitespace().map(|t| t.parse::<f64>().map_err(|e| format!("output_var token {:?}: {}", t, e))).collect::<Result<_, _>>()?;
            ensure!(nums.len() == 3 * nx * ny, "output_var wrote {} numbers for a {}x{} mesh", nums.len(), nx, ny);
            let mut k = 0;
            for j in 0..ny {
                for i in 0..nx {
                    ensure!((nums[k] - xn[i]).abs() <= 1e-6 && (nums[k + 1] - yn[j]).abs() <= 1e-6 && (nums[k + 2] - v2(i, j, v)).abs() <= 1e-6, "output_var line {} is ({}, {}, {}) expected ({}, {}, {})", k / 3, nums[k], nums[k + 1], nums[k + 2], xn[i], yn[j], v2(i, j, v));
                    k += 3;
                }
            }
        }
        let _ = std::fs::remove_file(&path);
    }
    let same = |got: f64, want: f64| if exact { got == want } else { (got - want).abs() <= 16.0 * f64::EPSILON * want.abs().max(1.0) };
    // quadrature = sum of cell contributions
    for v in 0..nvars {
        let mut want = 0.0;
        let mut wsq = 0.0;
        for i in 0..nx - 1 {
            let dx = xn[i + 1] - xn[i];
            for j in 0..ny - 1 {
                let dy = yn[j + 1] - yn[j];
                want += 0.25 * dx * dy * (v2(i, j, v) + v2(i + 1, j, v) + v2(i, j + 1, v) + v2(i + 1, j + 1, v));
                wsq += 0.25 * dx * dy * (v2(i, j, v).powi(2) + v2(i + 1, j, v).powi(2) + v2(i, j + 1, v).powi(2) + v2(i + 1, j + 1, v).powi(2));
            }
        }
        ensure!(same(m.trapezium(v), want), "2-D trapezium({}) = {} expected the cell sum {}", v, m.trapezium(v), want);
        ensure!(same(m.square_trapezium(v), wsq), "square_trapezium({}) = {} expected {}", v, m.square_trapezium(v), wsq);
    }
    // signed data whose corner values CANCEL in some cells (1, -1, -2, 2 ...): the integral of the square does not vanish there
    {
        let cb = |i: usize, j: usize| (if (i + j) % 2 == 0 { 1.0 } else { -1.0 }) * (1.0 + ((i / 2 + j / 2) % 2) as f64);
        let mut mc = Mesh2D::<f64>::new(Vector::create(xn.to_vec()), Vector::create(yn.to_vec()), 1);
        for i in 0..nx {
            for j in 0..ny {
                mc[(i, j)][0] = cb(i, j);
            }
        }
        let (mut want, mut wsq) = (0.0, 0.0);
        for i in 0..nx - 1 {
            let dx = xn[i + 1] - xn[i];
            for j in 0..ny - 1 {
                let dy = yn[j + 1] - yn[j];
                want += 0.25 * dx * dy * (cb(i, j) + cb(i + 1, j) + cb(i, j + 1) + cb(i + 1, j + 1));
                wsq += 0.25 * dx * dy * (cb(i, j).powi(2) + cb(i + 1, j).powi(2) + cb(i, j + 1).powi(2) + cb(i + 1, j + 1).powi(2));
            }
        }
        ensure!(same(mc.trapezium(0), want), "2-D trapezium of checkerboard data = {} expected the cell sum {}", mc.trapezium(0), want);
        ensure!(same(mc.square_trapezium(0), wsq), "square_trapezium of checkerboard data (cells whose corner values cancel) = {} expected {}", mc.square_trapezium(0), wsq);
    }
    // apply + exactness on a bilinear integrand f = (1 + 2x)(3 - y)
    let mut mb = Mesh2D::<f64>::new(Vector::create(xn.to_vec()), Vector::create(yn.to_vec()), 2);
    mb.apply(&|x, y| (1.0 + 2.0 * x) * (3.0 - y), 1);
    for i in 0..nx {
        for j in 0..ny {
            ensure!(mb[(i, j)][1] == (1.0 + 2.0 * xn[i]) * (3.0 - yn[j]) && mb[(i, j)][0] == 0.0, "apply wrote the wrong node/variable at ({},{})", i, j);
        }
    }
    let (a, b, c, d) = (xn[0], xn[nx - 1], yn[0], yn[ny - 1]);
    let want = ((b - a) + (b * b - a * a)) * (3.0 * (d - c) - 0.5 * (d * d - c * c));
    ensure!((mb.trapezium(1) - want).abs() <= 1e-12 * want.abs().max(1.0), "2-D trapezium of a bilinear integrand = {} expected {}", mb.trapezium(1), want);
    // assign
    mb.assign(7.5);
    for i in 0..nx {
        for j in 0..ny {
            ensure!(mb[(i, j)].vec == vec![7.5, 7.5], "assign");
        }
    }
    Ok(())
}

// --- E2: write histories on a Mesh2D (no Clone: the object is rebuilt by replaying the history) -----------
#[derive(Clone, Debug, PartialEq)]
enum Act {
    SetNode(usize, usize, i64),
    IndexWrite(usize, usize, usize, i64),
    Assign(i64),
    Apply(usize),
}
#[derive(Clone)]
struct St {
    nx: usize,
    ny: usize,
    hist: Vec<Act>,
    model: Vec<Vec<Vec<f64>>>, // [i][j][var]
}
const NV: usize = 2;
fn xs(n: usize) -> Vec<f64> {
    nodes_from(&SP[..n - 1], 0.0)
}
impl St {
    fn build(&self) -> Mesh2D<f64> {
        let mut m = Mesh2D::<f64>::new(Vector::create(xs(self.nx)), Vector::create(xs(self.ny)), NV);
        for a in &self.hist {
            // read-only queries between the replayed writes: "query; write; query" happens on ONE object
            for v in 0..NV {
                let _ = catch(|| m.trapezium(v));
                let _ = catch(|| m.square_trapezium(v));
            }
            let _ = catch(|| m.cross_section_xnode(0));
            let _ = catch(|| m.cross_section_ynode(0));
            let _ = catch(|| m.var_as_matrix(1));
            apply_real(&mut m, a);
        }
        m
    }
}
fn apply_real(m: &mut Mesh2D<f64>, a: &Act) {
    match a {
        Act::SetNode(i, j, v) => m.set_nodes_vars(*i, *j, Vector::create(vec![*v as f64, *v as f64 + 0.5])),
        Act::IndexWrite(i, j, var, v) => m[(*i, *j)][*var] = *v as f64,
        Act::Assign(v) => m.assign(*v as f64),
        Act::Apply(var) => m.apply(&|x, y| 4.0 * x - 8.0 * y, *var),
    }
}
impl Sut for St {
    type Act = Act;
    fn key(&self) -> Key {
        let mut k = vec![self.nx as i128, self.ny as i128];
        for i in 0..self.nx {
            for j in 0..self.ny {
                for v in 0..NV {
                    k.push((self.model[i][j][v] * 8.0) as i128);
                }
            }
        }
        k
    }
    fn actions(&self) -> Vec<Act> {
        let mut a = vec![];
        for i in 0..self.nx {
            for j in 0..self.ny {
                a.push(Act::SetNode(i, j, 1));
                a.push(Act::IndexWrite(i, j, 1, 2));
                a.push(Act::IndexWrite(i, j, 0, 5));
            }
        }
        a.push(Act::Assign(3));
        a.push(Act::Apply(0));
        a.push(Act::Apply(1));
        a
    }
    fn step(&mut self, a: &Act, hits: &mut Vec<&'static str>) -> Result<(), String> {
        match a {
            Act::SetNode(i, j, v) => self.model[*i][*j] = vec![*v as f64, *v as f64 + 0.5],
            Act::IndexWrite(i, j, var, v) => self.model[*i][*j][*var] = *v as f64,
            Act::Assign(v) => {
                for i in 0..self.nx {
                    for j in 0..self.ny {
                        self.model[i][j] = vec![*v as f64; NV];
                    }
                }
            }
            Act::Apply(var) => {
                let (x, y) = (xs(self.nx), xs(self.ny));
                for i in 0..self.nx {
                    for j in 0..self.ny {
                        self.model[i][j][*var] = 4.0 * x[i] - 8.0 * y[j];
                    }
                }
                hits.push("apply in a history");
            }
        }
        self.hist.push(a.clone());
        self.check()
    }
    fn check(&self) -> Result<(), String> {
        let m = self.build();
        for i in 0..self.nx {
            for j in 0..self.ny {
                ensure!(m.get_nodes_vars(i, j).vec == self.model[i][j], "get_nodes_vars({},{}) = {:?} expected {:?}", i, j, m.get_nodes_vars(i, j).vec, self.model[i][j]);
                ensure!(m[(i, j)].vec == self.model[i][j], "index ({},{})", i, j);
            }
        }
        for i in 0..self.nx {
            let s = m.cross_section_xnode(i);
            for j in 0..self.ny {
                ensure!(s[j].vec == self.model[i][j], "cross_section_xnode({})[{}] = {:?} expected {:?}", i, j, s[j].vec, self.model[i][j]);
            }
        }
        for j in 0..self.ny {
            let s = m.cross_section_ynode(j);
            for i in 0..self.nx {
                ensure!(s[i].vec == self.model[i][j], "cross_section_ynode({})[{}] = {:?} expected {:?}", j, i, s[i].vec, self.model[i][j]);
            }
        }
        for v in 0..NV {
            let a = m.var_as_matrix(v);
            for i in 0..self.nx {
                for j in 0..self.ny {
                    ensure!(a[(i, j)] == self.model[i][j][v], "var_as_matrix({})[{},{}]", v, i, j);
                }
            }
        }
        // the integrals of the object that went through the history (queried between the writes as well): cell sums of the model
        let (x, y) = (xs(self.nx), xs(self.ny));
        for v in 0..NV {
            let (mut want, mut wsq) = (0.0, 0.0);
            for i in 0..self.nx - 1 {
                for j in 0..self.ny - 1 {
                    let w = 0.25 * (x[i + 1] - x[i]) * (y[j + 1] - y[j]);
                    let c = [self.model[i][j][v], self.model[i + 1][j][v], self.model[i][j + 1][v], self.model[i + 1][j + 1][v]];
                    want += w * (c[0] + c[1] + c[2] + c[3]);
                    wsq += w * (c[0] * c[0] + c[1] * c[1] + c[2] * c[2] + c[3] * c[3]);
                }
            }
            ensure!((m.trapezium(v) - want).abs() <= 1e-12 * want.abs().max(1.0), "after the history, trapezium({}) = {} expected the cell sum {}", v, m.trapezium(v), want);
            ensure!((m.square_trapezium(v) - wsq).abs() <= 1e-12 * wsq.abs().max(1.0), "after the history, square_trapezium({}) = {} expected {}", v, m.square_trapezium(v), wsq);
        }
        Ok(())
    }
    fn classes(&self, hits: &mut Vec<&'static str>) {
        if self.nx != self.ny {
            hits.push("non-square mesh state");
        }
    }
    fn show(&self) -> String {
        format!("{}x{} {:?}", self.nx, self.ny, self.model)
    }
}

// --- E2: query / write histories on a Mesh1D (no Clone: rebuilt by replaying writes AND the queries in between) ---
#[derive(Clone, Debug, PartialEq)]
enum Act1 {
    SetNode(usize, i64),
    IndexWrite(usize, usize, i64),
}
#[derive(Clone)]
struct St1 {
    nodes: Vec<f64>,
    hist: Vec<Act1>,
    model: Vec<Vec<f64>>, // [node][var]
}
fn probes(nodes: &[f64]) -> Vec<f64> {
    let mut p = vec![];
    for i in 0..nodes.len() - 1 {
        let dx = nodes[i + 1] - nodes[i];
        p.push(nodes[i] + 0.25 * dx);
        p.push(nodes[i] + 0.5 * dx);
    }
    for x in nodes {
        p.push(*x);
    }
    p
}
impl St1 {
    fn build(&self) -> Mesh1D<f64, f64> {
        self.build_probing(None)
    }
    /// `last_cell`: the cell in which the very last query before the final write is made
    fn build_probing(&self, last_cell: Option<usize>) -> Mesh1D<f64, f64> {
        let mut m = Mesh1D::<f64, f64>::new(Vector::create(self.nodes.clone()), NV);
        let ps = probes(&self.nodes);
        for (k, a) in self.hist.iter().enumerate() {
            for x in &ps {
                let _ = catch(|| m.get_interpolated_vars(*x));
            }
            let _ = catch(|| m.trapezium(0));
            if k + 1 == self.hist.len() {
                if let Some(c) = last_cell {
                    let x = self.nodes[c] + 0.375 * (self.nodes[c + 1] - self.nodes[c]);
                    let _ = catch(|| m.get_interpolated_vars(x));
                }
            }
            match a {
                Act1::SetNode(i, v) => m.set_nodes_vars(*i, Vector::create(vec![*v as f64, *v as f64 + 0.5])),
                Act1::IndexWrite(i, var, v) => m[*i][*var] = *v as f64,
            }
        }
        m
    }
}
impl Sut for St1 {
    type Act = Act1;
    fn key(&self) -> Key {
        let mut k = vec![self.nodes.len() as i128];
        for row in &self.model {
            for v in row {
                k.push((*v * 8.0) as i128);
            }
        }
        k
    }
    fn actions(&self) -> Vec<Act1> {
        let mut a = vec![];
        for i in 0..self.nodes.len() {
            a.push(Act1::SetNode(i, 4));
            a.push(Act1::IndexWrite(i, 0, -8));
            a.push(Act1::IndexWrite(i, 1, 16));
        }
        a
    }
    fn step(&mut self, a: &Act1, hits: &mut Vec<&'static str>) -> Result<(), String> {
        match a {
            Act1::SetNode(i, v) => self.model[*i] = vec![*v as f64, *v as f64 + 0.5],
            Act1::IndexWrite(i, var, v) => {
                self.model[*i][*var] = *v as f64;
                hits.push("index write after interpolation queries");
            }
        }
        self.hist.push(a.clone());
        self.check()
    }
    fn check(&self) -> Result<(), String> {
        let m = self.build();
        let n = self.nodes.len();
        for i in 0..n {
            ensure!(m.get_nodes_vars(i).vec == self.model[i] && m[i].vec == self.model[i], "node {} holds {:?} expected {:?}", i, m.get_nodes_vars(i).vec, self.model[i]);
        }
        for i in 0..n - 1 {
            let dx = self.nodes[i + 1] - self.nodes[i];
            for fr in [0.25, 0.5, 0.75] {
                let x = self.nodes[i] + fr * dx;
                let g = m.get_interpolated_vars(x);
                for v in 0..NV {
                    let want = self.model[i][v] + (self.model[i + 1][v] - self.model[i][v]) * fr;
                    ensure!(g[v] == want, "after the history, interpolation in cell {} at x = {}: var {} = {} expected {}", i, x, v, g[v], want);
                }
            }
            // the same cell queried immediately before and immediately after the last write (one object per cell)
            if !self.hist.is_empty() {
                let mc = self.build_probing(Some(i));
                let g = mc.get_interpolated_vars(self.nodes[i] + 0.625 * dx);
                for v in 0..NV {
                    let want = self.model[i][v] + (self.model[i + 1][v] - self.model[i][v]) * 0.625;
                    ensure!(g[v] == want, "query in cell {}, write, query in cell {} again: var {} = {} expected {}", i, i, v, g[v], want);
                }
            }
        }
        for i in 0..n {
            let g = m.get_interpolated_vars(self.nodes[i]);
            ensure!(g.vec == self.model[i], "after the history, interpolation at node {} = {:?} expected {:?}", i, g.vec, self.model[i]);
        }
        for v in 0..NV {
            let want: f64 = (0..n - 1).map(|i| 0.5 * (self.nodes[i + 1] - self.nodes[i]) * (self.model[i][v] + self.model[i + 1][v])).sum();
            ensure!(m.trapezium(v) == want, "after the history, trapezium({}) = {} expected {}", v, m.trapezium(v), want);
        }
        Ok(())
    }
    fn classes(&self, hits: &mut Vec<&'static str>) {
        if self.hist.len() >= 2 {
            hits.push("1-D history of >= 2 writes");
        }
    }
    fn show(&self) -> String {
        format!("{:?} {:?}", self.nodes, self.model)
    }
}

fn main() {
    let ctx = Ctx::from_args("C19");
    ctx.level("model_checking");
    ctx.rule("E1: 1-D meshes with 2..6 nodes and EVERY spacing word over {1/4,1/2,1,2} (2..7 nodes quick / 2..9 thorough), up to 12 nodes with every <=2 (quick) / <=3 (thorough) deviation word from uniform, a second family with spacings {3/4,3/2,1} (rounding tolerance), 1..4 variables, two integer-valued data patterns: every access path, interpolation at every node / mid-cell / quarter / eighth points (never within 1e-6 of a node except at it), trapezium = cell sum and exact on linear data, output->read round trip at precisions 0, 1, 2, 3, 6, 12 (nodes closer than the last printed digit included, values up to 2^53, targets of fewer / equally many / more nodes, read twice); 2-D meshes over all pairs of node counts 2..8 (quick) / 2..12 (thorough) with three spacing words each: every access path, both cross-section orientations, var_as_matrix, apply, assign, trapezium/square_trapezium = cell sums, exact on bilinear data. E2: BFS over write histories (set_nodes_vars, index writes, assign, apply) on 2x3 and 3x2 meshes, the real object rebuilt by replaying each history, all views re-checked in every state. Non-trivial: non-uniform grids, interpolation at the last node, non-square 2-D meshes.");
    ctx.assume("nodal data are integer-valued / dyadic so that f64 results are exact on power-of-two grids");
    ctx.require(&["non-uniform grid", "interpolations at a node", "interpolations inside a cell", "non-square 2-D mesh", "non-square mesh state", "apply in a history", "round trip", "index write after interpolation queries", "1-D history of >= 2 writes"]);
    // integer-valued nodal data that is large next to its neighbour (right - left is rounded): the nodes must still give back
    // what was stored, the last node included (it is reached with t = 1 of the last cell)
    {
        let bl = [1.0, 3.0, -(2f64.powi(53)), 2f64.powi(53) + 2.0, 2f64.powi(60), -(2f64.powi(62)) + 1024.0];
        let grids: Vec<Vec<f64>> = vec![vec![0.0, 1.0], vec![-1.0, 0.5], vec![0.0, 0.75, 1.0], vec![0.0, 0.25, 1.0, 3.0], vec![-2.0, -1.5, 0.0, 0.125, 7.0]];
        for nodes in grids {
            let n = nodes.len();
            ctx.lattice(
                &format!("nodal reproduction, integer data up to 2^62 next to small neighbours: grid {:?}, every data word over {{1,3,-2^53,2^53+2,2^60,-2^62+1024}}", nodes),
                pow(bl.len() as u64, n as u32),
                |idx| format!("{}", idx),
                |idx, acc| {
                    let mut d = vec![0usize; n];
                    digits_uniform(idx, bl.len() as u64, &mut d);
                    let data: Vec<f64> = d.iter().map(|&k| bl[k]).collect();
                    if data.iter().any(|v| v.abs() >= 2f64.powi(53)) && data.iter().any(|v| v.abs() < 4.0) {
                        acc.nontriv("large and small integers on one mesh");
                    }
                    judge(acc, idx, || format!("grid {:?} data {:?}", nodes, data), || {
                        let mut m = Mesh1D::<f64, f64>::new(Vector::create(nodes.clone()), 1);
                        for i in 0..n {
                            m[i][0] = data[i];
                        }
                        for i in 0..n {
                            let g = m.get_interpolated_vars(nodes[i]);
                            ensure!(g.size() == 1 && g[0] == data[i], "interpolation at node {} (x = {}) = {:?} but the stored value is {:?}", i, nodes[i], g.vec, data[i]);
                        }
                        Ok(())
                    });
                },
            );
        }
    }
    // grids far from the origin: the 1e-7 snapping window around a node is absolute (the statement gives 1e-6 as the distance from which
    // the containing cell's line is demanded), so a point 2^-15 or 2^-19 to either side of an interior node belongs to its own cell
    // whatever the size of the coordinates
    {
        let origins: [f64; 4] = [1024.0, -1048576.0, 65536.0, 0.0];
        let sp: [f64; 3] = [0.25, 1.0, 2.0];
        for n in 3..=4usize {
            let words = pow(3, (n - 1) as u32);
            ctx.lattice(
                &format!("1-D meshes far from the origin: {} nodes, origins {{1024,-2^20,2^16,0}} x every spacing word over {{1/4,1,2}}: points 2^-15 and 2^-19 to either side of every interior node", n),
                words * origins.len() as u64,
                |idx| format!("origin#{} word#{}", idx / words, idx % words),
                |idx, acc| {
                    let mut d = vec![0usize; n - 1];
                    digits_uniform(idx % words, 3, &mut d);
                    let mut nodes: Vec<f64> = vec![origins[(idx / words) as usize]];
                    for k in 0..n - 1 {
                        let last = *nodes.last().unwrap();
                        nodes.push(last + sp[d[k]]);
                    }
                    if nodes[0].abs() > 100.0 {
                        acc.nontriv("grid with coordinates beyond 1e3");
                    }
                    judge(acc, idx, || format!("far grid {:?}", nodes), || {
                        let mut m = Mesh1D::<f64, f64>::new(Vector::create(nodes.clone()), 1);
                        // slopes differ from cell to cell: 0, 0, 2048, -512
                        let data: [f64; 4] = [0.0, 0.0, 2048.0, -512.0];
                        for i in 0..n {
                            m[i][0] = data[i];
                        }
                        for i in 1..n - 1 {
                            for off in [2f64.powi(-15), -(2f64.powi(-15)), 2f64.powi(-19), -(2f64.powi(-19))] {
                                let x = nodes[i] + off;
                                let cell = if off > 0.0 { i } else { i - 1 };
                                let h = nodes[cell + 1] - nodes[cell];
                                let t = (x - nodes[cell]) / h;
                                let want: f64 = data[cell] + (data[cell + 1] - data[cell]) * t;
                                let g = m.get_interpolated_vars(x);
                                ensure!(g.size() == 1 && (g[0] - want).abs() <= 1e-9 * want.abs().max(1.0), "interpolation at x = node {} {:+e} = {:?} but the line of cell {} gives {}", i, off, g.vec, cell, want);
                            }
                        }
                        Ok(())
                    });
                },
            );
        }
    }
    // FINE cells far from the origin (|x| / h up to 2^32): the interpolant l + (r - l) (x - x_l) / h is accurate to a few ulps of the data
    // wherever the cell lies; a form that multiplies the data by the coordinates (l x_r - r x_l + (r - l) x) / h loses |x| / h digits
    {
        let origins: [f64; 6] = [4096.0, 10.0, -1e6, 0.0, 1.0 / 3.0, 123456.789];
        let hs: [f64; 4] = [2f64.powi(-9), 2f64.powi(-12), 1e-3, 0.25];
        let ts: [f64; 7] = [0.5, 0.25, 0.1, 0.3, 0.7, 0.9, 1.0 / 3.0];
        ctx.lattice(
            "1-D meshes with fine cells far from the origin: origins {4096,10,-1e6,0,1/3,123456.789} x cell widths {2^-9,2^-12,1e-3,1/4} x 3 data sets x 2 variables: 7 interior points of each of the 3 cells within 64 ulps of the data",
            (origins.len() * hs.len() * 3) as u64,
            |idx| format!("origin#{} h#{} data#{}", idx / 12, (idx / 3) % 4, idx % 3),
            |idx, acc| {
                let (o, h, di) = (origins[(idx / 12) as usize], hs[((idx / 3) % 4) as usize], (idx % 3) as usize);
                let nodes: Vec<f64> = (0..4).map(|k| o + k as f64 * h).collect();
                if (o.abs() / h) > 1e4 {
                    acc.nontriv("cell width below 1e-4 of the coordinate");
                } else {
                    acc.nontriv("fine-cell grid");
                }
                judge(acc, idx, || format!("fine far grid {:?} data#{}", nodes, di), || {
                    let mut m = Mesh1D::<f64, f64>::new(Vector::create(nodes.clone()), 2);
                    let data: [[f64; 4]; 3] = [[1.0, 1.7, -0.3, 2.5], [1000.25, 1000.5, 999.0, 1001.0], [0.0, 3.0, 3.0, -7.0]];
                    for i in 0..4 {
                        m[i][0] = data[di][i];
                        m[i][1] = -2.0 * data[di][3 - i];
                    }
                    for cell in 0..3 {
                        let (xl, xr) = (nodes[cell], nodes[cell + 1]);
                        let hh = xr - xl;
                        for &t in ts.iter() {
                            let x = xl + t * hh;
                            if !(x > xl && x < xr) {
                                continue;
                            }
                            let tt = (x - xl) / hh;
                            let g = m.get_interpolated_vars(x);
                            ensure!(g.size() == 2, "interpolation returned {} variables", g.size());
                            for v in 0..2 {
                                let (l, r) = if v == 0 { (data[di][cell], data[di][cell + 1]) } else { (-2.0 * data[di][3 - cell], -2.0 * data[di][2 - cell]) };
                                let want = l + (r - l) * tt;
                                let scale = l.abs().max(r.abs());
                                ensure!((g[v] - want).abs() <= 64.0 * f64::EPSILON * scale, "interpolation in the cell [{:?}, {:?}] at t = {}: variable {} = {:?} but the line gives {:?} (off by {:.0} ulps of the data)", xl, xr, tt, v, g[v], want, (g[v] - want).abs() / (f64::EPSILON * scale));
                            }
                        }
                    }
                    Ok(())
                });
            },
        );
    }
    // 1-D exhaustive spacing words
    for n in 2..=ctx.pick(7, 9) {
        let words = pow(4, (n - 1) as u32);
        ctx.lattice(
            &format!("Mesh1D: {} nodes, every spacing word over {{1/4,1/2,1,2}} x nvars 1..4 x 2 data patterns", n),
            words * 8,
            |idx| format!("word#{} nvars={} pattern={}", idx / 8, 1 + (idx / 2) % 4, idx % 2),
            |idx, acc| {
                let mut d = vec![0usize; n - 1];
                digits_uniform(idx / 8, 4, &mut d);
                let word: Vec<f64> = d.iter().map(|&k| SP[k]).collect();
                let nodes = nodes_from(&word, -1.0);
                let nvars = 1 + ((idx / 2) % 4) as usize;
                if word.windows(2).any(|w| w[0] != w[1]) {
                    acc.nontriv("non-uniform grid");
                } else {
                    acc.nontriv("uniform grid");
                }
                let mut local = Acc::new("t");
                let res = catch(|| mesh1d_case(&nodes, nvars, (idx % 2) as usize, true, &mut local));
                for (k, v) in std::mem::take(&mut local.hits) {
                    *acc.hits.entry(k).or_insert(0) += v;
                }
                let key = || format!("Mesh1D nodes={:?} nvars={} pattern={}", nodes, nvars, idx % 2);
                match res {
                    Ok(Ok(())) => {}
                    Ok(Err(e)) => acc.fail(idx, key(), e),
                    Err(p) => acc.fail(idx, key(), format!("unexpected panic: {}", p)),
                }
            },
        );
    }
    // 7..12 nodes: <= 2 deviations from the uniform word
    let ndev = ctx.pick(2, 3);
    for n in ctx.pick(8, 10)..=12usize {
        let devs = deviations(n - 1, 3, ndev);
        ctx.lattice(
            &format!("Mesh1D: {} nodes, <= {} deviations from uniform spacing 1 with letters {{1/4,1/2,2}}", n, ndev),
            devs.len() as u64,
            |idx| format!("{:?}", devs[idx as usize]),
            |idx, acc| {
                let mut word = vec![1.0; n - 1];
                for &(p, a) in &devs[idx as usize] {
                    word[p] = [0.25, 0.5, 2.0][a];
                }
                let nodes = nodes_from(&word, 0.5);
                acc.nontriv("non-uniform grid");
                let mut local = Acc::new("t");
                let res = catch(|| mesh1d_case(&nodes, 2, (idx % 2) as usize, true, &mut local));
                for (k, v) in std::mem::take(&mut local.hits) {
                    *acc.hits.entry(k).or_insert(0) += v;
                }
                let key = || format!("Mesh1D nodes={:?}", nodes);
                match res {
                    Ok(Ok(())) => {}
                    Ok(Err(e)) => acc.fail(idx, key(), e),
                    Err(p) => acc.fail(idx, key(), format!("unexpected panic: {}", p)),
                }
            },
        );
    }
    // non power-of-two spacings
    for n in 2..=5usize {
        let words = pow(3, (n - 1) as u32);
        ctx.lattice(
            &format!("Mesh1D: {} nodes, every spacing word over {{3/4,3/2,1}} (rounding tolerance)", n),
            words,
            |idx| format!("word#{}", idx),
            |idx, acc| {
                let mut d = vec![0usize; n - 1];
                digits_uniform(idx, 3, &mut d);
                let word: Vec<f64> = d.iter().map(|&k| SP2[k]).collect();
                let nodes = nodes_from(&word, 0.1);
                acc.nontriv("non-uniform grid");
                let mut local = Acc::new("t");
                let res = catch(|| mesh1d_case(&nodes, 2, 0, false, &mut local));
                let key = || format!("Mesh1D nodes={:?}", nodes);
                match res {
                    Ok(Ok(())) => {}
                    Ok(Err(e)) => acc.fail(idx, key(), e),
                    Err(p) => acc.fail(idx, key(), format!("unexpected panic: {}", p)),
                }
            },
        );
    }
    // file round trip
    let dir = std::path::PathBuf::from(format!("/verif/target/run/mesh_{}", std::process::id()));
    let _ = std::fs::create_dir_all(&dir);
    let precs = [0usize, 1, 2, 3, 6, 12];
    ctx.lattice(
        "Mesh1D output -> read round trip: node counts 2..8 x nvars 1..4 x precision {0,1,2,3,6,12} x {spacing 1/4..2, spacing 0.001..0.008} x {values below 40, values up to 2^53}",
        7 * 4 * 6 * 4,
        |idx| format!("n={} nvars={} precision={} variant={}", 2 + idx / 96, 1 + (idx / 24) % 4, precs[((idx / 4) % 6) as usize], idx % 4),
        |idx, acc| {
            let n = 2 + (idx / 96) as usize;
            let nvars = 1 + ((idx / 24) % 4) as usize;
            let prec = precs[((idx / 4) % 6) as usize];
            let (fine, big) = (idx % 2 == 1, (idx % 4) >= 2);
            // fine: neighbouring nodes closer than the last printed digit at precisions 0..2 (they read back equal: still n nodes)
            let word: Vec<f64> = (0..n - 1).map(|k| SP[(k * 3 + 1) % 4] * if fine { 0.004 } else { 1.0 }).collect();
            let nodes = nodes_from(&word, -0.375);
            acc.nontriv("round trip");
            judge(acc, idx, || format!("round trip n={} nvars={} precision={} fine={} big={}", n, nvars, prec, fine, big), || roundtrip_case(&nodes, nvars, prec, big, &dir, idx, 1.0));
        },
    );
    // LARGE files (10 kB .. 200 kB): long tokens (60 or 150 decimals, values of 1e200 printed in full) and many nodes - a reader with a
    // fixed buffer, or one that takes a single read() for the whole file, sees the first kilobytes only
    {
        let ncs = [8usize, 12, 40, 200];
        let lp = [12usize, 60, 150];
        ctx.lattice(
            "Mesh1D output -> read round trip, large files: node counts {8,12,40,200} x nvars {1,4} x precision {12,60,150} x {values below 40, values of 1e200}",
            (ncs.len() * 2 * lp.len() * 2) as u64,
            |idx| format!("n={} nvars={} precision={} huge={}", ncs[(idx / 12) as usize], [1, 4][((idx / 6) % 2) as usize], lp[((idx / 2) % 3) as usize], idx % 2),
            |idx, acc| {
                let n = ncs[(idx / 12) as usize];
                let nvars = [1usize, 4][((idx / 6) % 2) as usize];
                let prec = lp[((idx / 2) % 3) as usize];
                let huge = idx % 2 == 1;
                let word: Vec<f64> = (0..n - 1).map(|k| SP[(k * 3 + 1) % 4]).collect();
                let nodes = nodes_from(&word, -0.375);
                let bytes = n * (nvars + 1) * (prec + 3 + if huge { 200 } else { 2 });
                if bytes > 8192 {
                    acc.nontriv("file above 8 kB");
                } else {
                    acc.nontriv("round trip");
                }
                judge(acc, idx, || format!("large round trip n={} nvars={} precision={} huge={}", n, nvars, prec, huge), || roundtrip_case(&nodes, nvars, prec, false, &dir, 100_000 + idx, if huge { 1e200 } else { 1.0 }));
            },
        );
    }
    let _ = std::fs::remove_dir_all(&dir);
    // 2-D
    let words3 = |n: usize, w: usize| -> Vec<f64> { (0..n - 1).map(|k| SP[(k * (w + 1) + w) % 4]).collect() };
    let kk = ctx.pick(7, 11) as u64; // node counts 2..8 (quick) / 2..12 (thorough) per direction
    ctx.lattice(
        &format!("Mesh2D: node counts (2..{})^2 x 3 spacing words per direction x nvars 1..3 x 2 data patterns", kk + 1),
        kk * kk * 9 * 6,
        |idx| format!("{}", idx),
        |idx, acc| {
            let mut r = idx;
            let pat = (r % 2) as usize;
            r /= 2;
            let nvars = 1 + (r % 3) as usize;
            r /= 3;
            let wy = (r % 3) as usize;
            r /= 3;
            let wx = (r % 3) as usize;
            r /= 3;
            let ny = 2 + (r % kk) as usize;
            r /= kk;
            let nx = 2 + r as usize;
            if nx != ny {
                acc.nontriv("non-square 2-D mesh");
            } else {
                acc.nontriv("square 2-D mesh");
            }
            let xn = nodes_from(&words3(nx, wx), -1.0);
            let yn = nodes_from(&words3(ny, wy), 0.5);
            judge(acc, idx, || format!("Mesh2D x={:?} y={:?} nvars={} pattern={}", xn, yn, nvars, pat), || mesh2d_case(&xn, &yn, nvars, pat, true));
        },
    );
    let depth = ctx.pick(4, 7);
    let mk = |nx: usize, ny: usize| St { nx, ny, hist: vec![], model: vec![vec![vec![0.0; NV]; ny]; nx] };
    let inits = vec![mk(2, 3), mk(3, 2)];
    explore(&ctx, "Mesh2D write histories (2x3, 3x2)", inits.clone(), BfsOpts { max_depth: depth, state_cap: ctx.pick(500_000, 10_000_000) });
    if ctx.quick() {
        crosscheck_stateright(&ctx, "Mesh2D write histories (2x3, 3x2)", inits, depth);
    }
    let nodes1 = vec![-1.0, 0.0, 0.5, 2.5];
    let inits1 = vec![St1 { nodes: nodes1.clone(), hist: vec![], model: vec![vec![0.0; NV]; nodes1.len()] }];
    let d1 = ctx.pick(3, 6);
    explore(&ctx, "Mesh1D query/write histories (4 nodes incl. x = 0)", inits1.clone(), BfsOpts { max_depth: d1, state_cap: ctx.pick(300_000, 5_000_000) });
    if ctx.quick() {
        crosscheck_stateright(&ctx, "Mesh1D query/write histories (4 nodes incl. x = 0)", inits1, d1);
    }
    std::process::exit(ctx.finish());
}