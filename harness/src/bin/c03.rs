//! C03 - dense matrix algebra/editing follow their definitions for every shape and history.
use mc::bfs::*;
use mc::model::{self, M};
use mc::*;
use ohsl::{Matrix, Vector};

fn pat_a(r: usize, c: usize) -> M {
    (0..r).map(|i| (0..c).map(|j| Rat::int(1 + (i * c + j) as i64)).collect()).collect()
}
fn pat_b(r: usize, c: usize) -> M {
    (0..r).map(|i| (0..c).map(|j| rq(-(3 * (i * c + j) as i64 + 2), 2)).collect()).collect()
}
fn eq(m: &Matrix<Rat>, model: &M, cols: usize, what: &str) -> Result<(), String> {
    let e = model::to_matrix(model, cols);
    if m.rows() != model.len() || m.cols() != cols {
        return Err(format!("{}: shape {}x{} expected {}x{}", what, m.rows(), m.cols(), model.len(), cols));
    }
    if m.numel() != model.len() * cols {
        return Err(format!("{}: numel {} expected {}", what, m.numel(), model.len() * cols));
    }
    if *m != e {
        return Err(format!("{}: got {} expected {}", what, model::show(&model::from_matrix(m)), model::show(model)));
    }
    Ok(())
}
fn eqv(v: &Vector<Rat>, model: &[Rat], what: &str) -> Result<(), String> {
    if v.vec != model {
        return Err(format!("{}: got {} expected {}", what, model::showv(&v.vec), model::showv(model)));
    }
    Ok(())
}
fn map2(a: &M, b: &M, f: impl Fn(Rat, Rat) -> Rat) -> M {
    a.iter().zip(b.iter()).map(|(x, y)| x.iter().zip(y.iter()).map(|(p, q)| f(*p, *q)).collect()).collect()
}
fn map1(a: &M, f: impl Fn(Rat) -> Rat) -> M {
    a.iter().map(|x| x.iter().map(|p| f(*p)).collect()).collect()
}

fn product_case(r: usize, k: usize, c: usize) -> Result<(), String> {
    let am = pat_a(r, k);
    let bm = pat_b(k, c);
    let a = model::to_matrix(&am, k);
    let b = model::to_matrix(&bm, c);
    let expect = model::matmul(&am, k, &bm, c);
    let p = &a * &b;
    eq(&p, &expect, c, "&A * &B")?;
    eq(&a, &am, k, "A after &A*&B")?;
    eq(&b, &bm, c, "B after &A*&B")?;
    let p2 = a.clone() * b.clone();
    eq(&p2, &expect, c, "A * B (owned)")?;
    // f64 factors of DIFFERENT scale whose textbook products and sums are all exact (A = 2^e x small integers, B small integers,
    // and the other way round): every entry must be the exact integer result, bit for bit. A reformulation of the inner product
    // whose intermediates mix the two scales (Winograd's (a0 + b1)(a1 + b0) - a0 a1 - b0 b1) rounds them away
    for (ea, eb) in [(30i32, 0i32), (0, 40), (45, -20), (-300, 300)] {
        let (sa, sb) = (2f64.powi(ea), 2f64.powi(eb));
        let ia = |i: usize, j: usize| ((i * 5 + j * 3) % 7) as i64 - 3;
        let ib = |i: usize, j: usize| ((i * 2 + j * 7) % 9) as i64 - 4;
        let mut fa = Matrix::<f64>::new(r, k, 0.0);
        let mut fb = Matrix::<f64>::new(k, c, 0.0);
        for i in 0..r {
            for j in 0..k {
                fa[(i, j)] = ia(i, j) as f64 * sa;
            }
        }
        for i in 0..k {
            for j in 0..c {
                fb[(i, j)] = ib(i, j) as f64 * sb;
            }
        }
        let fp = &fa * &fb;
        let fp2 = fa.clone() * fb.clone();
        ensure!(fp.rows() == r && fp.cols() == c, "f64 product shape");
        for i in 0..r {
            for j in 0..c {
                let e: i64 = (0..k).map(|t| ia(i, t) * ib(t, j)).sum();
                let want = e as f64 * sa * sb;
                ensure!(fp[(i, j)] == want && fp2[(i, j)] == want, "f64 product of A = 2^{} x integers and B = 2^{} x integers: entry ({},{}) = {:e} / {:e}, exact {:e}", ea, eb, i, j, fp[(i, j)], fp2[(i, j)], want);
            }
        }
        // matrix * vector over the same data
        let xv = Vector::create((0..k).map(|t| ib(t, 1) as f64 * sb).collect());
        let mv = fa.multiply(&xv);
        for i in 0..r {
            let e: i64 = (0..k).map(|t| ia(i, t) * ib(t, 1)).sum();
            ensure!(mv[i] == e as f64 * sa * sb, "f64 A.multiply(x) with scales 2^{} / 2^{}: row {} = {:e}, exact {:e}", ea, eb, i, mv[i], e as f64 * sa * sb);
        }
    }
    // matrix-vector product with column 0 of B's pattern (vector of length k)
    let x: Vec<Rat> = (0..k).map(|i| rq(2 * i as i64 - 3, 3)).collect();
    let xv = Vector::create(x.clone());
    let mv = model::matvec(&am, &x);
    eqv(&a.multiply(&xv), &mv, "A.multiply(x)")?;
    eqv(&(&a * &xv), &mv, "&A * &x")?;
    eqv(&(a.clone() * xv.clone()), &mv, "A * x (owned)")?;
    Ok(())
}

fn unary_case(r: usize, c: usize) -> Result<(), String> {
    let am = pat_a(r, c);
    let bm = pat_b(r, c);
    let a = model::to_matrix(&am, c);
    let b = model::to_matrix(&bm, c);
    let two = Rat::int(2);
    let s = rq(-3, 2);
    eq(&(&a + &b), &map2(&am, &bm, |x, y| x + y), c, "&A + &B")?;
    eq(&(a.clone() + b.clone()), &map2(&am, &bm, |x, y| x + y), c, "A + B")?;
    eq(&(&a - &b), &map2(&am, &bm, |x, y| x - y), c, "&A - &B")?;
    eq(&(a.clone() - b.clone()), &map2(&am, &bm, |x, y| x - y), c, "A - B")?;
    eq(&(-&a), &map1(&am, |x| -x), c, "-&A")?;
    eq(&(-a.clone()), &map1(&am, |x| -x), c, "-A")?;
    eq(&(&a * s), &map1(&am, |x| x * s), c, "&A * s")?;
    eq(&(a.clone() * s), &map1(&am, |x| x * s), c, "A * s")?;
    eq(&(&a / s), &map1(&am, |x| x / s), c, "&A / s")?;
    eq(&(a.clone() / s), &map1(&am, |x| x / s), c, "A / s")?;
    eq(&a, &am, c, "A unchanged by borrowed operators")?;
    let mut t = a.clone();
    t += &b;
    eq(&t, &map2(&am, &bm, |x, y| x + y), c, "A += &B")?;
    let mut t = a.clone();
    t += b.clone();
    eq(&t, &map2(&am, &bm, |x, y| x + y), c, "A += B")?;
    let mut t = a.clone();
    t -= &b;
    eq(&t, &map2(&am, &bm, |x, y| x - y), c, "A -= &B")?;
    let mut t = a.clone();
    t -= b.clone();
    eq(&t, &map2(&am, &bm, |x, y| x - y), c, "A -= B")?;
    let mut t = a.clone();
    t *= s;
    eq(&t, &map1(&am, |x| x * s), c, "A *= s")?;
    let mut t = a.clone();
    t /= s;
    eq(&t, &map1(&am, |x| x / s), c, "A /= s")?;
    let mut t = a.clone();
    t += two;
    eq(&t, &map1(&am, |x| x + two), c, "A += s")?;
    let mut t = a.clone();
    t -= two;
    eq(&t, &map1(&am, |x| x - two), c, "A -= s")?;
    // transpose
    let tm = model::transpose(&am, c);
    eq(&a.transpose(), &tm, r, "transpose")?;
    let mut t = a.clone();
    t.transpose_in_place();
    eq(&t, &tm, r, "transpose_in_place")?;
    t.transpose_in_place();
    eq(&t, &am, c, "transpose_in_place twice")?;
    // rows / columns
    for i in 0..r {
        eqv(&a.get_row(i), &am[i], "get_row")?;
        let nv: Vec<Rat> = (0..c).map(|j| Rat::int(100 + j as i64)).collect();
        let mut t = a.clone();
        t.set_row(i, Vector::create(nv.clone()));
        let mut em = am.clone();
        em[i] = nv;
        eq(&t, &em, c, &format!("set_row({})", i))?;
        let mut t = a.clone();
        t.delete_row(i);
        let mut em = am.clone();
        em.remove(i);
        eq(&t, &em, c, &format!("delete_row({})", i))?;
        let mut t = a.clone();
        t.fill_row(i, s);
        let mut em = am.clone();
        em[i] = vec![s; c];
        eq(&t, &em, c, &format!("fill_row({})", i))?;
        for k in 0..r {
            let mut t = a.clone();
            t.swap_rows(i, k);
            let mut em = am.clone();
            em.swap(i, k);
            eq(&t, &em, c, &format!("swap_rows({},{})", i, k))?;
        }
    }
    for j in 0..c {
        let col: Vec<Rat> = (0..r).map(|i| am[i][j]).collect();
        eqv(&a.get_col(j), &col, "get_col")?;
        let nv: Vec<Rat> = (0..r).map(|i| Rat::int(200 + i as i64)).collect();
        let mut t = a.clone();
        t.set_col(j, Vector::create(nv.clone()));
        let mut em = am.clone();
        for i in 0..r {
            em[i][j] = nv[i];
        }
        eq(&t, &em, c, &format!("set_col({})", j))?;
        let mut t = a.clone();
        t.fill_col(j, s);
        let mut em = am.clone();
        for i in 0..r {
            em[i][j] = s;
        }
        eq(&t, &em, c, &format!("fill_col({})", j))?;
    }
    // swap_elem on every pair of corners-ish positions
    if r > 0 && c > 0 {
        let mut t = a.clone();
        t.swap_elem(0, 0, r - 1, c - 1);
        let mut em = am.clone();
        let tmp = em[0][0];
        em[0][0] = em[r - 1][c - 1];
        em[r - 1][c - 1] = tmp;
        eq(&t, &em, c, "swap_elem")?;
    }
    // fills
    let mut t = a.clone();
    t.fill(s);
    eq(&t, &map1(&am, |_| s), c, "fill")?;
    let mut t = a.clone();
    t.fill_diag(s);
    let mut em = am.clone();
    for i in 0..r.min(c) {
        em[i][i] = s;
    }
    eq(&t, &em, c, "fill_diag")?;
    for off in -(r as isize + 1)..=(c as isize + 1) {
        let mut t = a.clone();
        t.fill_band(off, s);
        let mut em = am.clone();
        for i in 0..r {
            let j = i as isize + off;
            if j >= 0 && (j as usize) < c {
                em[i][j as usize] = s;
            }
        }
        eq(&t, &em, c, &format!("fill_band({})", off))?;
    }
    let mut t = a.clone();
    t.fill_tridiag(Rat::int(7), Rat::int(8), Rat::int(9));
    let mut em = am.clone();
    for i in 0..r {
        for j in 0..c {
            if j + 1 == i {
                em[i][j] = Rat::int(7);
            }
            if j == i {
                em[i][j] = Rat::int(8);
            }
            if j == i + 1 {
                em[i][j] = Rat::int(9);
            }
        }
    }
    eq(&t, &em, c, "fill_tridiag")?;
    let mut t = a.clone();
    t.clear();
    ensure!(t.rows() == 0 && t.cols() == 0 && t.numel() == 0 && t == Matrix::<Rat>::empty(), "clear: not empty");
    Ok(())
}

fn resize_case(r: usize, c: usize, r2: usize, c2: usize) -> Result<(), String> {
    let am = pat_a(r, c);
    let mut t = model::to_matrix(&am, c);
    t.resize(r2, c2);
    let mut em = model::zeros(r2, c2);
    for i in 0..r2.min(r) {
        for j in 0..c2.min(c) {
            em[i][j] = am[i][j];
        }
    }
    eq(&t, &em, c2, "resize")
}

fn norm_case(r: usize, c: usize, pat: usize) -> Result<(), String> {
    // integer-valued f64 data with mixed signs: column/row sums and max are exact
    // patterns 2 and 3: pattern 0 scaled exactly by 2^600 / 2^-600 (squares and cubes leave the double range; every norm
    // scales exactly, so the textbook value is representable)
    // patterns 4..9: scales at which the squares / cubes land in the SUBNORMAL band (2^-530, 2^-515: squares; 2^-352, 2^-345:
    // cubes) or just below overflow (2^511, 2^340): a sum of powers that is positive and finite there is not yet accurate
    let big = match pat {
        2 => 2f64.powi(600),
        3 => 2f64.powi(-600),
        4 => 2f64.powi(-530),
        5 => 2f64.powi(-515),
        6 => 2f64.powi(-352),
        7 => 2f64.powi(-345),
        8 => 2f64.powi(511),
        9 => 2f64.powi(340),
        _ => 1.0,
    };
    let v = |i: usize, j: usize| -> f64 {
        let x = ((i * 7 + j * 3 + (pat % 2) * 5) % 11) as f64 - 5.0;
        if pat == 1 {
            -x * 2.0
        } else {
            x
        }
    };
    let mut a = Matrix::<f64>::new(r, c, 0.0);
    for i in 0..r {
        for j in 0..c {
            a[(i, j)] = v(i, j) * big;
        }
    }
    let mut n1 = 0.0f64;
    for j in 0..c {
        n1 = n1.max((0..r).map(|i| v(i, j).abs()).sum());
    }
    let mut ninf = 0.0f64;
    for i in 0..r {
        ninf = ninf.max((0..c).map(|j| v(i, j).abs()).sum());
    }
    let mut nmax = 0.0f64;
    let mut sq = 0.0f64;
    let mut cube = 0.0f64;
    for i in 0..r {
        for j in 0..c {
            nmax = nmax.max(v(i, j).abs());
            sq += v(i, j) * v(i, j);
            cube += v(i, j).abs().powi(3);
        }
    }
    if pat >= 2 {
        ensure!(a.norm_1() == n1 * big && a.norm_inf() == ninf * big && a.norm_max() == nmax * big, "norm_1 / norm_inf / norm_max of the scaled matrix");
        ensure!(mc::fl::ulps(a.norm_frob(), sq.sqrt() * big) <= 4, "norm_frob {:e} expected {:e} (entries scaled by {:e})", a.norm_frob(), sq.sqrt() * big, big);
        ensure!(mc::fl::ulps(a.norm_p(2.0), sq.sqrt() * big) <= 4, "norm_p(2) {:e} expected {:e}", a.norm_p(2.0), sq.sqrt() * big);
        ensure!(mc::fl::ulps(a.norm_p(3.0), cube.cbrt() * big) <= 8, "norm_p(3) {:e} expected {:e}", a.norm_p(3.0), cube.cbrt() * big);
        return Ok(());
    }
    ensure!(a.norm_1() == n1, "norm_1 {} expected {}", a.norm_1(), n1);
    ensure!(a.norm_inf() == ninf, "norm_inf {} expected {}", a.norm_inf(), ninf);
    ensure!(a.norm_max() == nmax, "norm_max {} expected {}", a.norm_max(), nmax);
    ensure!(mc::fl::ulps(a.norm_frob(), sq.sqrt()) <= 4, "norm_frob {} expected {}", a.norm_frob(), sq.sqrt());
    ensure!(mc::fl::ulps(a.norm_p(2.0), sq.sqrt()) <= 4, "norm_p(2) {} expected {}", a.norm_p(2.0), sq.sqrt());
    ensure!(mc::fl::ulps(a.norm_p(3.0), cube.cbrt()) <= 8, "norm_p(3) {} expected {}", a.norm_p(3.0), cube.cbrt());
    ensure!(mc::fl::ulps(a.norm_p(1.0), (0..r).map(|i| (0..c).map(|j| v(i, j).abs()).sum::<f64>()).sum::<f64>()) <= 2, "norm_p(1)");
    // f64 * Matrix and scalar forms on exactly representable data
    let left = 2.0 * a.clone();
    let right = a.clone() * 2.0;
    ensure!(left == right, "f64 * Matrix != Matrix * f64");
    // scalar operations over f64: every entry is the correctly rounded x op s (data where x/s != x*(1/s)),
    // compound forms bit-identical to the binary forms
    let sl = [49.0, 5.0, 7.0, 10.0, 3.0, -0.0, -0.3];
    let mut b = Matrix::<f64>::new(r, c, 0.0);
    for i in 0..r {
        for j in 0..c {
            b[(i, j)] = sl[(i * 3 + j + pat) % 7];
        }
    }
    // (the entries include -0.0 and the shifts +0.0 and -0.0: x - (+0.0) keeps -0.0, x + (0 - 0.0) does not)
    for sc in [0.0f64, -0.0] {
        let (mut aa, mut sa) = (b.clone(), b.clone());
        aa += sc;
        sa -= sc;
        for i in 0..r {
            for j in 0..c {
                let x = b[(i, j)];
                ensure!(aa[(i, j)].to_bits() == (x + sc).to_bits(), "A += {:?}: entry {:?} became {:?}", sc, x, aa[(i, j)]);
                ensure!(sa[(i, j)].to_bits() == (x - sc).to_bits(), "A -= {:?}: entry {:?} became {:?}", sc, x, sa[(i, j)]);
            }
        }
    }
    for sc in [3.0, 7.0, 49.0, 10.0, 0.1, -1.5] {
        let d = &b / sc;
        let m = &b * sc;
        let (mut da, mut ma, mut aa, mut sa) = (b.clone(), b.clone(), b.clone(), b.clone());
        da /= sc;
        ma *= sc;
        aa += sc;
        sa -= sc;
        ensure!(b.clone() / sc == d && b.clone() * sc == m && sc * b.clone() == m, "owned / borrowed / left scalar forms differ");
        for i in 0..r {
            for j in 0..c {
                let x = b[(i, j)];
                ensure!(d[(i, j)].to_bits() == (x / sc).to_bits(), "&A / {}: entry ({},{}) = {} expected {}", sc, i, j, d[(i, j)], x / sc);
                ensure!(da[(i, j)].to_bits() == d[(i, j)].to_bits(), "A /= {} differs from A / {}: {} vs {}", sc, sc, da[(i, j)], d[(i, j)]);
                ensure!(m[(i, j)].to_bits() == (x * sc).to_bits() && ma[(i, j)].to_bits() == m[(i, j)].to_bits(), "A * {} / A *= {}", sc, sc);
                ensure!(aa[(i, j)].to_bits() == (x + sc).to_bits() && sa[(i, j)].to_bits() == (x - sc).to_bits(), "A += {} / A -= {}", sc, sc);
            }
        }
    }
    Ok(())
}

// ---------------------------------------------------------------------------------------------------
// E2: histories

#[derive(Clone)]
struct St {
    m: Matrix<Rat>,
    model: M,
    mc: usize,
    /// only the shape- and entry-editing actions (no arithmetic, which makes the entries of a larger start matrix outgrow i128)
    edits_only: bool,
}
#[derive(Clone, Debug)]
enum Act {
    TransposeIP,
    Neg,
    Scale(i64),
    AddScalar(i64),
    FillDiag(i64),
    FillBand(isize, i64),
    DeleteRow(usize),
    FillRow(usize, i64),
    FillCol(usize, i64),
    SetRow(usize),
    SetCol(usize),
    SwapRows(usize, usize),
    Resize(usize, usize),
    AddSelfT,
    MulSelfT,
    Set(usize, usize, i64),
}
const BIG: i128 = 1_000;

impl Sut for St {
    type Act = Act;
    fn key(&self) -> Key {
        let mut k = vec![self.model.len() as i128, self.mc as i128];
        for row in &self.model {
            for v in row {
                k.push(v.n);
                k.push(v.d);
            }
        }
        k
    }
    fn actions(&self) -> Vec<Act> {
        let (rr, cc) = (self.model.len(), self.mc);
        let mut a = vec![];
        let small = !self.edits_only && self.model.iter().all(|r| r.iter().all(|v| v.n.abs() < BIG));
        a.push(Act::TransposeIP);
        if !self.edits_only {
            a.push(Act::Neg);
        }
        if small {
            a.push(Act::Scale(2));
            a.push(Act::AddScalar(1));
        }
        a.push(Act::FillDiag(7));
        a.push(Act::FillBand(1, 5));
        a.push(Act::FillBand(-1, 4));
        for i in 0..rr {
            a.push(Act::DeleteRow(i));
            a.push(Act::FillRow(i, 9));
            a.push(Act::SetRow(i));
            for k in i + 1..rr {
                a.push(Act::SwapRows(i, k));
            }
        }
        for j in 0..cc {
            a.push(Act::FillCol(j, 8));
            a.push(Act::SetCol(j));
        }
        // (3,2) and (3,4): targets that grow one dimension of a 3-row matrix within the capacity an earlier delete_row / shrinking resize left behind
        for (x, y) in [(0usize, 0usize), (1, 3), (3, 1), (2, 2), (3, 3), (2, 3), (3, 2), (3, 4)] {
            a.push(Act::Resize(x, y));
        }
        if rr == cc && small {
            a.push(Act::AddSelfT);
        }
        if small {
            a.push(Act::MulSelfT);
        }
        if rr > 0 && cc > 0 {
            a.push(Act::Set(rr - 1, cc - 1, 3));
            a.push(Act::Set(0, cc - 1, 6));
        }
        a
    }
    fn step(&mut self, a: &Act, hits: &mut Vec<&'static str>) -> Result<(), String> {
        let (rr, cc) = (self.model.len(), self.mc);
        let m = &mut self.m;
        let md = &mut self.model;
        let r = |v: i64| Rat::int(v);
        match a.clone() {
            Act::TransposeIP => {
                m.transpose_in_place();
                *md = model::transpose(md, cc);
                self.mc = rr;
                if rr != cc {
                    hits.push("nonsquare in-place transpose");
                }
            }
            Act::Neg => {
                *m = -&*m;
                *md = map1(md, |v| -v);
            }
            Act::Scale(k) => {
                *m *= r(k);
                *md = map1(md, |v| v * r(k));
            }
            Act::AddScalar(k) => {
                *m += r(k);
                *md = map1(md, |v| v + r(k));
            }
            Act::FillDiag(k) => {
                m.fill_diag(r(k));
                for i in 0..rr.min(cc) {
                    md[i][i] = r(k);
                }
            }
            Act::FillBand(o, k) => {
                m.fill_band(o, r(k));
                for i in 0..rr {
                    let j = i as isize + o;
                    if j >= 0 && (j as usize) < cc {
                        md[i][j as usize] = r(k);
                    }
                }
            }
            Act::DeleteRow(i) => {
                m.delete_row(i);
                md.remove(i);
            }
            Act::FillRow(i, k) => {
                m.fill_row(i, r(k));
                for j in 0..cc {
                    md[i][j] = r(k);
                }
            }
            Act::FillCol(j, k) => {
                m.fill_col(j, r(k));
                for i in 0..rr {
                    md[i][j] = r(k);
                }
            }
            Act::SetRow(i) => {
                let v: Vec<Rat> = (0..cc).map(|j| r(20 + j as i64)).collect();
                m.set_row(i, Vector::create(v.clone()));
                md[i] = v;
            }
            Act::SetCol(j) => {
                let v: Vec<Rat> = (0..rr).map(|i| r(30 + i as i64)).collect();
                m.set_col(j, Vector::create(v.clone()));
                for i in 0..rr {
                    md[i][j] = v[i];
                }
                if rr < cc && j >= rr {
                    hits.push("set_col beyond row count on a wide matrix");
                }
            }
            Act::SwapRows(i, k) => {
                m.swap_rows(i, k);
                md.swap(i, k);
            }
            Act::Resize(x, y) => {
                m.resize(x, y);
                let mut t = model::zeros(x, y);
                for i in 0..x.min(rr) {
                    for j in 0..y.min(cc) {
                        t[i][j] = md[i][j];
                    }
                }
                *md = t;
                self.mc = y;
            }
            Act::AddSelfT => {
                let t = m.transpose();
                *m = &*m + &t;
                let old = md.clone();
                for i in 0..rr {
                    for j in 0..cc {
                        md[i][j] = old[i][j] + old[j][i];
                    }
                }
            }
            Act::MulSelfT => {
                let t = m.transpose();
                *m = &*m * &t;
                let tm = model::transpose(md, cc);
                *md = model::matmul(md, cc, &tm, rr);
                self.mc = rr;
                if rr < cc {
                    hits.push("product with wide left operand");
                }
            }
            Act::Set(i, j, k) => {
                m[(i, j)] = r(k);
                md[i][j] = r(k);
            }
        }
        self.check()
    }
    fn warm(&self) {
        let (r, c) = (self.m.rows(), self.m.cols());
        let _ = catch(|| self.m.transpose());
        let _ = catch(|| self.m.multiply(&Vector::create(vec![Rat::int(1); c])));
        if r > 0 {
            let _ = catch(|| self.m.get_row(r - 1));
        }
        if c > 0 {
            let _ = catch(|| self.m.get_col(c - 1));
        }
        if r == c && r > 0 {
            let _ = catch(|| self.m.determinant());
            let _ = catch(|| self.m.inverse());
        }
    }
    fn check(&self) -> Result<(), String> {
        eq(&self.m, &self.model, self.mc, "state")?;
        // every getter agrees
        for i in 0..self.model.len() {
            eqv(&self.m.get_row(i), &self.model[i], "get_row")?;
        }
        for j in 0..self.mc {
            let col: Vec<Rat> = (0..self.model.len()).map(|i| self.model[i][j]).collect();
            eqv(&self.m.get_col(j), &col, "get_col")?;
        }
        Ok(())
    }
    fn classes(&self, hits: &mut Vec<&'static str>) {
        let (r, c) = (self.model.len(), self.mc);
        if r < c {
            hits.push("wide state");
        }
        if r > c {
            hits.push("tall state");
        }
        if r == 0 || c == 0 {
            hits.push("empty state");
        }
        if r == 1 && c == 3 {
            hits.push("1x3 state");
        }
    }
    fn show(&self) -> String {
        format!("{}x{} {}", self.model.len(), self.mc, model::show(&self.model))
    }
}

fn init(r: usize, c: usize) -> St {
    let md = pat_a(r, c);
    St { m: model::to_matrix(&md, c), model: md, mc: c, edits_only: false }
}

fn main() {
    let ctx = Ctx::from_args("C03");
    ctx.level("model_checking");
    ctx.rule("E1: every shape triple (r,k,c) in 0..=8 for products, every shape (r,c) in 0..=8 for all other operators/editors (each row/column/offset argument enumerated), every resize (r,c)->(r',c') in 0..=8; exact rationals with pairwise distinct entries. E2: breadth-first exploration of all editing histories from 2x3, 3x2, 1x1, 0x0 up to the stated depth, state = full matrix content. Non-trivial: non-square shapes, empty shapes, wide products, histories reaching wide/tall/empty states.");
    ctx.assume("identities are polynomial in the entries: one generic (pairwise distinct, mixed sign, fractional) filling per shape decides index arithmetic; value-dependent behaviour does not exist in these operators");
    ctx.assume("shapes above 8 are covered through a family of 400 shape pairs with dimensions up to 40 only; histories longer than the stated depth are not covered");
    ctx.require(&["wide product", "tall product", "empty result", "nonsquare in-place transpose", "wide state", "tall state", "empty state", "shape with a dimension above 8"]);
    let n = 9u64;
    ctx.lattice(
        "product shapes (r,k,c) in 0..=8",
        n * n * n,
        |idx| format!("r={} k={} c={}", idx / 81, (idx / 9) % 9, idx % 9),
        |idx, acc| {
            let (r, k, c) = ((idx / 81) as usize, ((idx / 9) % 9) as usize, (idx % 9) as usize);
            if r < c {
                acc.nontriv("wide product");
            }
            if r > c {
                acc.nontriv("tall product");
            }
            if r == 0 || c == 0 || k == 0 {
                acc.nontriv("empty result");
            }
            if r == 1 || c == 1 {
                acc.nontriv("single row/column");
            }
            judge(acc, idx, || format!("({}x{})*({}x{})", r, k, k, c), || product_case(r, k, c));
        },
    );
    ctx.lattice(
        "operators and editors, shapes (r,c) in 0..=8",
        n * n,
        |idx| format!("r={} c={}", idx / 9, idx % 9),
        |idx, acc| {
            let (r, c) = ((idx / 9) as usize, (idx % 9) as usize);
            if r != c {
                acc.nontriv("nonsquare");
            }
            if r == 0 || c == 0 {
                acc.nontriv("empty result");
            }
            judge(acc, idx, || format!("{}x{}", r, c), || unary_case(r, c));
        },
    );
    ctx.lattice(
        "resize (r,c)->(r',c') in 0..=8",
        n * n * n * n,
        |idx| format!("{}x{} -> {}x{}", idx / 729, (idx / 81) % 9, (idx / 9) % 9, idx % 9),
        |idx, acc| {
            let (r, c, r2, c2) = ((idx / 729) as usize, ((idx / 81) % 9) as usize, ((idx / 9) % 9) as usize, (idx % 9) as usize);
            if r != r2 || c != c2 {
                acc.nontriv("shape-changing resize");
            }
            judge(acc, idx, || format!("resize {}x{} -> {}x{}", r, c, r2, c2), || resize_case(r, c, r2, c2));
        },
    );
    {
        // shapes beyond the exhaustive range: sizes around typical block / unrolling boundaries
        let big: Vec<usize> = vec![9, 10, 12, 15, 16, 17, 31, 32, 33, 40];
        let nb = big.len() as u64;
        let bg = big.clone();
        ctx.lattice(
            &format!("larger shapes: products (r,k,c) and operators/editors (r,c) with r,k,c from {:?} and the small partners 1, 2, 7", big),
            nb * nb * 4,
            |idx| format!("{}", idx),
            |idx, acc| {
                let small = [1usize, 2, 7];
                let a = bg[(idx / (nb * 4)) as usize];
                let b = bg[((idx / 4) % nb) as usize];
                let v = (idx % 4) as usize;
                let (r, k, c) = match v {
                    0 => (a, b, small[(a + b) % 3]),
                    1 => (small[(a + b) % 3], a, b),
                    2 => (a, small[(a + b) % 3], b),
                    _ => (a, b, (a + b) / 2),
                };
                acc.nontriv("shape with a dimension above 8");
                judge(acc, idx, || format!("large ({}x{})*({}x{})", r, k, k, c), || {
                    product_case(r, k, c)?;
                    if v == 0 {
                        unary_case(a, b)?;
                        resize_case(a, b, b, small[(a + b) % 3])?;
                        resize_case(small[(a + b) % 3], a, a, b)?;
                    }
                    Ok(())
                });
            },
        );
    }
    ctx.lattice(
        "norms on integer-valued f64, shapes 0..=8 x 10 patterns (eight of them scaled by 2^+-600, 2^-530, 2^-515, 2^-352, 2^-345, 2^511, 2^340)",
        n * n * 10,
        |idx| format!("r={} c={} pattern={}", idx / 90, (idx / 10) % 9, idx % 10),
        |idx, acc| {
            let (r, c, p) = ((idx / 90) as usize, ((idx / 10) % 9) as usize, (idx % 10) as usize);
            if r != c {
                acc.nontriv("nonsquare");
            }
            judge(acc, idx, || format!("norms {}x{} pattern {}", r, c, p), || norm_case(r, c, p));
        },
    );
    ctx.lattice(
        "eye(n), n in 0..=8",
        9,
        |idx| format!("eye({})", idx),
        |idx, acc| {
            let n = idx as usize;
            judge(acc, idx, || format!("eye({})", n), || eq(&Matrix::<Rat>::eye(n), &model::identity(n), n, "eye"));
        },
    );
    let depth = ctx.pick(4, 6);
    let inits = vec![init(2, 3), init(3, 2), init(1, 1), init(0, 0)];
    explore(&ctx, "editing histories", inits.clone(), BfsOpts { max_depth: depth, state_cap: ctx.pick(2_000_000, 40_000_000) });
    if ctx.quick() {
        crosscheck_stateright(&ctx, "editing histories", inits, depth);
    }
    explore_replayed(&ctx, "clone-free editing histories on one Matrix<Rat>", vec![init(2, 3), init(3, 2), init(0, 0)], BfsOpts { max_depth: ctx.pick(4, 5), state_cap: 3_000_000 });
    // storage that delete_row / clear leave behind and a growing resize re-uses: only a history on ONE object sees it (a clone has no
    // spare capacity), and the re-striding goes wrong only with three rows or more - a 4x3 start, editing actions only (round 15)
    {
        let mut big = init(4, 3);
        big.edits_only = true;
        explore_replayed(&ctx, "clone-free shape-editing histories on one 4x3 Matrix<Rat>", vec![big], BfsOpts { max_depth: ctx.pick(3, 4), state_cap: 3_000_000 });
    }
    std::process::exit(ctx.finish());
}
