//! C17 - Newton: success means a root; bounded work; failure reported; state untouched.
use mc::*;
use ohsl::{Cmplx, Mat64, Matrix, Newton, Vec64, Vector};
use serde_json::json;
use std::cell::Cell;

const TOLS: [f64; 5] = [1e-12, 1e-10, 1e-8, 1e-6, 1e-4];
const ITERS: [usize; 7] = [0, 1, 2, 3, 5, 20, 50];

// ------------------------------------------------------------------------------------------------------
// scalar real families: (name, f, f', root, basin radius)
struct Fam {
    name: &'static str,
    f: fn(f64) -> f64,
    df: fn(f64) -> f64,
    root: f64,
    rho: f64,
}
fn fams() -> Vec<Fam> {
    vec![
        Fam { name: "(x-1)(x-3) @1", f: |x| (x - 1.0) * (x - 3.0), df: |x| 2.0 * x - 4.0, root: 1.0, rho: 0.5 },
        Fam { name: "(x-1)(x-3) @3", f: |x| (x - 1.0) * (x - 3.0), df: |x| 2.0 * x - 4.0, root: 3.0, rho: 0.5 },
        Fam { name: "x(x+2)(x-1.5) @0", f: |x| x * (x + 2.0) * (x - 1.5), df: |x| 3.0 * x * x + x - 3.0, root: 0.0, rho: 0.3 },
        Fam { name: "x(x+2)(x-1.5) @1.5", f: |x| x * (x + 2.0) * (x - 1.5), df: |x| 3.0 * x * x + x - 3.0, root: 1.5, rho: 0.2 },
        Fam { name: "x(x+2)(x-1.5) @-2", f: |x| x * (x + 2.0) * (x - 1.5), df: |x| 3.0 * x * x + x - 3.0, root: -2.0, rho: 0.25 },
        Fam { name: "exp(x)-0.5", f: |x| x.exp() - 0.5, df: |x| x.exp(), root: -std::f64::consts::LN_2, rho: 0.35 },
        Fam { name: "exp(x)-2", f: |x| x.exp() - 2.0, df: |x| x.exp(), root: std::f64::consts::LN_2, rho: 0.35 },
        Fam { name: "exp(x)-10", f: |x| x.exp() - 10.0, df: |x| x.exp(), root: std::f64::consts::LN_10, rho: 0.35 },
        Fam { name: "sin x @0", f: |x| x.sin(), df: |x| x.cos(), root: 0.0, rho: 0.7 },
        Fam { name: "sin x @pi", f: |x| x.sin(), df: |x| x.cos(), root: std::f64::consts::PI, rho: 0.7 },
        Fam { name: "x - cos x", f: |x| x - x.cos(), df: |x| 1.0 + x.sin(), root: 0.7390851332151607, rho: 0.5 },
    ]
}
const TS: [f64; 9] = [-1.0, -0.75, -0.5, -0.25, 0.0, 0.25, 0.5, 0.75, 1.0];

/// exact Newton with the analytic derivative: iterates and the number of updates until |dx| <= tol
fn exact_newton(f: fn(f64) -> f64, df: fn(f64) -> f64, x0: f64, tol: f64) -> (Vec<f64>, Option<usize>, f64) {
    let mut xs = vec![x0];
    let mut x = x0;
    let mut maxstep = 0.0f64;
    for k in 1..=200 {
        let dx = f(x) / df(x);
        x -= dx;
        xs.push(x);
        maxstep = maxstep.max(dx.abs());
        if dx.abs() <= tol {
            return (xs, Some(k), maxstep);
        }
    }
    (xs, None, maxstep)
}

thread_local! {
    /// a guess given directly (the tiny-guess lattice) instead of root + t rho
    static X0_OVERRIDE: Cell<Option<f64>> = Cell::new(None);
}
fn scalar_case(fm: &Fam, t: f64, tol: f64, max_iter: usize, delta: f64, acc: &mut Acc) -> Result<(), String> {
    let x0 = X0_OVERRIDE.with(|o| o.get()).unwrap_or(fm.root + t * fm.rho);
    let (xs, k_exact, maxstep) = exact_newton(fm.f, fm.df, x0, tol);
    let k_exact = k_exact.ok_or_else(|| "MACHINERY: the reference Newton iteration did not converge inside the basin".to_string())?;
    let calls = Cell::new(0usize);
    let limit = 12 * max_iter + 12;
    let g = |x: f64| -> f64 {
        calls.set(calls.get() + 1);
        if calls.get() > limit {
            panic!("EVAL_LIMIT");
        }
        (fm.f)(x)
    };
    // half of the cases configure the guess through the setter instead of the constructor
    let mut nw = if max_iter % 2 == 0 { Newton::<f64>::new(x0) } else { Newton::<f64>::new(-99.0) };
    nw.guess(x0);
    nw.tolerance(tol);
    nw.iterations(max_iter);
    nw.delta(delta);
    let before = nw.parameters();
    let res = nw.solve(&g);
    let after = nw.parameters();
    ensure!(before.0.to_bits() == after.0.to_bits() && before.1.to_bits() == after.1.to_bits() && before.2 == after.2 && before.3.to_bits() == after.3.to_bits(), "parameters changed by solve: {:?} -> {:?}", before, after);
    ensure!(before == (tol, delta, max_iter, x0), "parameters() does not report the configuration");
    ensure!(calls.get() <= 3 * max_iter, "{} evaluations for max_iter = {} (bound 3 per iteration)", calls.get(), max_iter);
    let n1 = calls.get();
    calls.set(0);
    let res2 = nw.solve(&g);
    ensure!(calls.get() == n1, "repeated call used {} evaluations, first call {}", calls.get(), n1);
    let same = match (&res, &res2) {
        (Ok(a), Ok(b)) => a.to_bits() == b.to_bits(),
        (Err(a), Err(b)) => a.to_bits() == b.to_bits(),
        _ => false,
    };
    ensure!(same, "repeated calls differ: {:?} vs {:?}", res, res2);
    if max_iter == 0 {
        ensure!(matches!(res, Err(v) if v.to_bits() == x0.to_bits()), "max_iter = 0 must give Err(guess); got {:?}", res);
        return Ok(());
    }
    match res {
        Ok(x) => {
            acc.hit("Ok answers");
            let bound = 4.0 * tol + 1e-12 * fm.root.abs().max(1.0);
            acc.worst("scalar_root_error_over_bound", (x - fm.root).abs() / bound, || format!("{} x0={} tol={:e}", fm.name, x0, tol));
            ensure!((x - fm.root).abs() <= bound, "Ok({}) but the root is {} (distance {:e} > {:e})", x, fm.root, (x - fm.root).abs(), bound);
        }
        Err(v) => {
            acc.hit("Err answers");
            ensure!(max_iter < k_exact + 2, "Err({}) although {} iterations suffice for exact Newton and {} were allowed", v, k_exact, max_iter);
            // the failure carries the last iterate: the max_iter-th Newton iterate
            if max_iter < xs.len() {
                let want = xs[max_iter];
                ensure!((v - want).abs() <= 1e-5 * maxstep + 1e-9 * want.abs().max(1.0), "Err({}) is not the iterate after {} Newton steps ({}); guess was {}", v, max_iter, want, x0);
            }
        }
    }
    if max_iter >= k_exact + 2 {
        ensure!(res.is_ok(), "no success within {} iterations although exact Newton needs {}", max_iter, k_exact);
    }
    Ok(())
}

// ------------------------------------------------------------------------------------------------------
// complex scalar
fn cfams() -> Vec<(&'static str, fn(Cmplx) -> Cmplx, fn(Cmplx) -> Cmplx, Cmplx, f64)> {
    vec![
        ("z^2+1 @i", |z| z * z + 1.0, |z| z * 2.0, Cmplx::new(0.0, 1.0), 0.5),
        ("z^2+1 @-i", |z| z * z + 1.0, |z| z * 2.0, Cmplx::new(0.0, -1.0), 0.5),
        ("z^2+4 @2i", |z| z * z + 4.0, |z| z * 2.0, Cmplx::new(0.0, 2.0), 1.0),
        ("(z-1-i)(z+2) @1+i", |z| (z - Cmplx::new(1.0, 1.0)) * (z + 2.0), |z| z * 2.0 + Cmplx::new(1.0, -1.0), Cmplx::new(1.0, 1.0), 0.5),
        ("(z-1-i)(z+2) @-2", |z| (z - Cmplx::new(1.0, 1.0)) * (z + 2.0), |z| z * 2.0 + Cmplx::new(1.0, -1.0), Cmplx::new(-2.0, 0.0), 0.5),
    ]
}
/// complex helpers of the reference, independent of ohsl's Complex operators
fn cdiv(a: Cmplx, b: Cmplx) -> Cmplx {
    let d = b.real * b.real + b.imag * b.imag;
    Cmplx::new((a.real * b.real + a.imag * b.imag) / d, (a.imag * b.real - a.real * b.imag) / d)
}
fn csub(a: Cmplx, b: Cmplx) -> Cmplx {
    Cmplx::new(a.real - b.real, a.imag - b.imag)
}
fn cmod(a: Cmplx) -> f64 {
    a.real.hypot(a.imag)
}
fn complex_case(fi: usize, gi: usize, tol: f64, max_iter: usize, acc: &mut Acc) -> Result<(), String> {
    let (name, f, df, root, rho) = cfams()[fi];
    let dirs = [(1.0, 0.0), (0.0, 1.0), (-1.0, 0.0), (0.0, -1.0), (0.7, 0.7), (-0.7, 0.7), (0.0, 0.0), (0.25, -0.1), (-0.5, -0.5)];
    let d = dirs[gi];
    let x0 = root + Cmplx::new(d.0 * rho, d.1 * rho);
    // reference
    let mut x = x0;
    let mut xs = vec![x0];
    let mut k_exact = None;
    let mut maxstep = 0.0f64;
    for k in 1..=200 {
        let dx = cdiv(f(x), df(x));
        x = csub(x, dx);
        xs.push(x);
        maxstep = maxstep.max(cmod(dx));
        if cmod(dx) <= tol {
            k_exact = Some(k);
            break;
        }
    }
    let k_exact = k_exact.ok_or_else(|| "MACHINERY: complex reference iteration did not converge".to_string())?;
    let calls = Cell::new(0usize);
    let limit = 12 * max_iter + 12;
    let g = |z: Cmplx| -> Cmplx {
        calls.set(calls.get() + 1);
        if calls.get() > limit {
            panic!("EVAL_LIMIT");
        }
        f(z)
    };
    let mut nw = Newton::<Cmplx>::new(x0);
    nw.tolerance(tol);
    nw.iterations(max_iter);
    let before = nw.parameters();
    let res = nw.solve(&g);
    let after = nw.parameters();
    ensure!(before.0 == after.0 && before.1 == after.1 && before.2 == after.2 && before.3 == after.3, "parameters changed");
    ensure!(calls.get() <= 3 * max_iter, "{} evaluations for max_iter = {}", calls.get(), max_iter);
    if max_iter == 0 {
        ensure!(matches!(res, Err(v) if v == x0), "max_iter = 0 must give Err(guess)");
        return Ok(());
    }
    match res {
        Ok(z) => {
            acc.hit("Ok answers");
            let bound = 4.0 * tol + 1e-12 * cmod(root).max(1.0);
            ensure!(cmod(csub(z, root)) <= bound, "{}: Ok({:?}) but the root is {:?}", name, z, root);
        }
        Err(v) => {
            acc.hit("Err answers");
            ensure!(max_iter < k_exact + 2, "{}: Err although {} iterations suffice and {} were allowed", name, k_exact, max_iter);
            if max_iter < xs.len() {
                ensure!(cmod(csub(v, xs[max_iter])) <= 1e-5 * maxstep + 1e-9, "{}: Err({:?}) is not the iterate after {} steps ({:?})", name, v, max_iter, xs[max_iter]);
            }
        }
    }
    if max_iter >= k_exact + 2 {
        ensure!(res.is_ok(), "{}: no success within {} iterations although exact Newton needs {}", name, max_iter, k_exact);
    }
    Ok(())
}

// ------------------------------------------------------------------------------------------------------
// systems  F(x) = D x + eps g(x) - b
fn dmat(n: usize) -> Vec<Vec<f64>> {
    let mut d: Vec<Vec<f64>> = vec![vec![0.0f64; n]; n];
    for i in 0..n {
        for j in 0..n {
            if i != j && (i + 2 * j) % 3 != 0 {
                d[i][j] = if (i + j) % 2 == 0 { 0.5 } else { -0.25 };
            }
        }
        let s: f64 = d[i].iter().map(|v: &f64| v.abs()).sum();
        d[i][i] = (s + 2.0) * if i % 3 == 2 { -1.0 } else { 1.0 };
    }
    d
}
const EPS_NL: f64 = 0.1;
fn gfun(kind: usize, x: f64) -> (f64, f64) {
    match kind {
        0 => (x.sin(), x.cos()),
        _ => (x * x, 2.0 * x),
    }
}
thread_local! {
    /// which root the system families are built around (0: the generic -0.75 + i/2; 1, 2: roots with components -1, 0, 1, 2 - values at
    /// which a relative finite-difference step written as delta (1 + x_i), or one scaled by x_i itself, vanishes)
    static ROOT_KIND: Cell<usize> = Cell::new(0);
}
fn xroot(n: usize) -> Vec<f64> {
    match ROOT_KIND.with(|k| k.get()) {
        0 => (0..n).map(|i| 0.5 * (i as f64) - 0.75).collect(),
        1 => (0..n).map(|i| [-1.0, 0.5, 2.0, -1.0, 0.0, 1.0][i % 6]).collect(),
        _ => (0..n).map(|i| [1.0, -1.0, 0.0, -2.0, -1.0, 0.25][i % 6]).collect(),
    }
}
fn system_case(n: usize, kind: usize, gi: usize, tol: f64, max_iter: usize, exact_jac: bool, acc: &mut Acc) -> Result<(), String> {
    let d = dmat(n);
    let xr = xroot(n);
    let b: Vec<f64> = (0..n).map(|i| (0..n).map(|j| d[i][j] * xr[j]).sum::<f64>() + EPS_NL * gfun(kind, xr[i]).0).collect();
    let fvec = |x: &[f64]| -> Vec<f64> { (0..n).map(|i| (0..n).map(|j| d[i][j] * x[j]).sum::<f64>() + EPS_NL * gfun(kind, x[i]).0 - b[i]).collect() };
    let t = [0.0, 0.25, 0.5, 1.0][gi];
    let x0: Vec<f64> = (0..n).map(|i| xr[i] + t * if i % 2 == 0 { 0.4 } else { -0.3 }).collect();
    // reference Newton with the analytic Jacobian and an independent dense solve
    let mut x = x0.clone();
    let mut k_exact = None;
    for k in 1..=100 {
        let fx = fvec(&x);
        let res = fx.iter().fold(0.0f64, |m, v| m.max(v.abs()));
        let mut jm = d.clone();
        for i in 0..n {
            jm[i][i] += EPS_NL * gfun(kind, x[i]).1;
        }
        let dx = mc::it::lu_solve(&jm, &[fx.clone()]).ok_or("MACHINERY: singular reference Jacobian")?[0].clone();
        for i in 0..n {
            x[i] -= dx[i];
        }
        if res <= tol {
            k_exact = Some(k);
            break;
        }
    }
    let k_exact = k_exact.ok_or_else(|| "MACHINERY: reference system iteration did not converge".to_string())?;
    let calls = Cell::new(0usize);
    let jcalls = Cell::new(0usize);
    let limit = 8 * (n + 2) * max_iter + 16;
    let f = |v: Vec64| -> Vec64 {
        calls.set(calls.get() + 1);
        if calls.get() > limit {
            panic!("EVAL_LIMIT");
        }
        Vector::create(fvec(&v.vec))
    };
    let jac = |v: Vec64| -> Mat64 {
        jcalls.set(jcalls.get() + 1);
        let mut m = Mat64::new(n, n, 0.0);
        for i in 0..n {
            for j in 0..n {
                m[(i, j)] = d[i][j] + if i == j { EPS_NL * gfun(kind, v[i]).1 } else { 0.0 };
            }
        }
        m
    };
    let mut nw = Newton::<Vec64>::new(Vector::create(x0.clone()));
    nw.tolerance(tol);
    nw.iterations(max_iter);
    let run = |nw: &Newton<Vec64>| if exact_jac { nw.solve_jacobian(&f, &jac) } else { nw.solve(&f) };
    let res = run(&nw);
    let per_iter = if exact_jac { 1 } else { n + 2 };
    ensure!(calls.get() <= per_iter * max_iter, "{} function evaluations for max_iter = {} (bound {} per iteration)", calls.get(), max_iter, per_iter);
    if exact_jac {
        ensure!(jcalls.get() <= max_iter, "{} Jacobian evaluations for max_iter = {}", jcalls.get(), max_iter);
    }
    let c1 = calls.get();
    calls.set(0);
    let res2 = run(&nw);
    ensure!(calls.get() == c1, "repeated call used a different number of evaluations");
    let bits = |r: &Result<Vec64, Vec64>| -> (bool, Vec<u64>) {
        match r {
            Ok(v) => (true, v.vec.iter().map(|x| x.to_bits()).collect()),
            Err(v) => (false, v.vec.iter().map(|x| x.to_bits()).collect()),
        }
    };
    ensure!(bits(&res) == bits(&res2), "repeated calls give different results (guess or configuration modified?)");
    if max_iter == 0 {
        ensure!(matches!(&res, Err(v) if v.vec == x0), "max_iter = 0 must give Err(guess)");
        return Ok(());
    }
    // ||J^-1||_inf <= 1/(dominance margin - eps*max|g'|)
    let kappa = 1.0 / (2.0 - EPS_NL * 3.0);
    match &res {
        Ok(v) => {
            acc.hit("Ok answers");
            let err = (0..n).map(|i| (v[i] - xr[i]).abs()).fold(0.0, f64::max);
            let bound = 4.0 * tol * kappa + 1e-12 * 3.0;
            acc.worst("system_root_error_over_bound", err / bound, || format!("n={} kind={} guess#{} tol={:e}", n, kind, gi, tol));
            ensure!(err <= bound, "Ok but ||x - root||_inf = {:e} > {:e}", err, bound);
        }
        Err(_) => {
            acc.hit("Err answers");
            ensure!(max_iter < k_exact + 2, "Err although {} iterations suffice for exact Newton and {} were allowed", k_exact, max_iter);
        }
    }
    if max_iter >= k_exact + 2 {
        ensure!(res.is_ok(), "no success within {} iterations although exact Newton needs {}", max_iter, k_exact);
    }
    Ok(())
}

fn csystem_case(n: usize, gi: usize, tol: f64, max_iter: usize, exact_jac: bool, acc: &mut Acc) -> Result<(), String> {
    let d = dmat(n);
    let dc = |i: usize, j: usize| Cmplx::new(d[i][j], if i == j { 0.5 } else { 0.125 * ((i + j) % 3) as f64 });
    let xr: Vec<Cmplx> = (0..n).map(|i| Cmplx::new(0.5 * i as f64 - 0.75, 0.25 - 0.5 * (i % 2) as f64)).collect();
    let eps = 0.05;
    let b: Vec<Cmplx> = (0..n).map(|i| {
        let mut s = xr[i] * xr[i] * eps;
        for j in 0..n {
            s += dc(i, j) * xr[j];
        }
        s
    }).collect();
    let fvec = |x: &[Cmplx]| -> Vec<Cmplx> {
        (0..n).map(|i| {
            let mut s = x[i] * x[i] * eps - b[i];
            for j in 0..n {
                s += dc(i, j) * x[j];
            }
            s
        }).collect()
    };
    let t = [0.0, 0.25, 0.5, 1.0][gi];
    let x0: Vec<Cmplx> = (0..n).map(|i| xr[i] + Cmplx::new(t * 0.3, -t * 0.2 * (1.0 + (i % 2) as f64))).collect();
    let calls = Cell::new(0usize);
    let limit = 8 * (n + 2) * max_iter + 16;
    let f = |v: Vector<Cmplx>| -> Vector<Cmplx> {
        calls.set(calls.get() + 1);
        if calls.get() > limit {
            panic!("EVAL_LIMIT");
        }
        Vector::create(fvec(&v.vec))
    };
    let jac = |v: Vector<Cmplx>| -> Matrix<Cmplx> {
        let mut m = Matrix::<Cmplx>::new(n, n, Cmplx::new(0.0, 0.0));
        for i in 0..n {
            for j in 0..n {
                m[(i, j)] = dc(i, j) + if i == j { v[i] * (2.0 * eps) } else { Cmplx::new(0.0, 0.0) };
            }
        }
        m
    };
    let mut nw = Newton::<Vector<Cmplx>>::new(Vector::create(x0.clone()));
    nw.tolerance(tol);
    nw.iterations(max_iter);
    let res = if exact_jac { nw.solve_jacobian(&f, &jac) } else { nw.solve(&f) };
    let per_iter = if exact_jac { 1 } else { n + 2 };
    ensure!(calls.get() <= per_iter * max_iter, "complex system: {} evaluations for max_iter = {}", calls.get(), max_iter);
    if max_iter == 0 {
        ensure!(matches!(&res, Err(v) if v.vec == x0), "max_iter = 0 must give Err(guess)");
        return Ok(());
    }
    match &res {
        Ok(v) => {
            acc.hit("Ok answers");
            let err = (0..n).map(|i| cmod(csub(v[i], xr[i]))).fold(0.0, f64::max);
            ensure!(err <= 4.0 * tol + 1e-11, "complex system: Ok but ||x - root|| = {:e}", err);
        }
        Err(_) => {
            acc.hit("Err answers");
            ensure!(max_iter < 8, "complex system: Err with {} iterations allowed", max_iter);
        }
    }
    if max_iter >= 20 {
        ensure!(res.is_ok(), "complex system: no success within {} iterations", max_iter);
    }
    Ok(())
}

/// affine systems T (x - r) with dyadic T and roots of size 1.5e3 .. 1.2e4 (well inside |x| < 2^27, where the absolute difference step
/// 1e-8 still works): a finite-difference Jacobian formed with any step much smaller than 1e-8 (say the tolerance 1e-12) is 10..80 %
/// wrong there, and a pivot search that mishandles a NEGATIVE diagonal entry with exact zeros below it (triangular T) produces NaN.
/// kind 0: upper triangular cascade with a negative diagonal; 1: lower triangular; 2: the dense dominant matrix of the other families;
/// 3: that matrix with its rows rotated (a row exchange at every elimination step)
fn large_root_affine_case(n: usize, kind: usize, complex: bool, exact_jac: bool) -> Result<(), String> {
    large_root_affine_case_at(n, kind, complex, exact_jac, 1.0, None)
}
/// `far` multiplies the roots (2^18: roots of size 4e8..3e9, beyond 2^27, where only a CONFIGURED difference step works: `delta`)
fn large_root_affine_case_at(n: usize, kind: usize, complex: bool, exact_jac: bool, far: f64, delta: Option<f64>) -> Result<(), String> {
    let mut t = vec![vec![0.0f64; n]; n];
    for i in 0..n {
        for j in 0..n {
            let v = if (i + j) % 2 == 0 { 0.5 } else { -0.25 };
            match kind {
                0 if j > i => t[i][j] = v,
                1 if j < i => t[i][j] = v,
                _ => {}
            }
        }
        t[i][i] = if i % 2 == 0 { -2.0 } else { 1.5 };
    }
    if kind == 2 {
        t = dmat(n);
    }
    if kind == 3 {
        // the dense dominant matrix with its rows rotated by one: the dominant entry of column k sits in row k - 1 (row n - 1 for k = 0),
        // so the dense solve behind every system variant has to exchange rows at every step, also at steps k >= 1
        let d = dmat(n);
        t = (0..n).map(|i| d[(i + 1) % n].clone()).collect();
    }
    let rr: Vec<f64> = [1536.0, -3000.0, 12288.0, -2048.0, 5120.0, -1792.0].iter().map(|v| v * far).collect();
    let ri: Vec<f64> = [1024.0, -512.0, 0.0, 4096.0, -2560.0, 768.0].iter().map(|v| v * far).collect();
    let tol = 1e-12;
    let max_iter = 8;
    if !complex {
        let r: Vec<f64> = rr[..n].to_vec();
        let x0: Vec<f64> = (0..n).map(|i| r[i] + if i % 2 == 0 { 0.5 } else { -0.25 }).collect();
        let f = |v: Vec64| -> Vec64 { Vector::create((0..n).map(|i| (0..n).map(|j| t[i][j] * (v[j] - r[j])).sum::<f64>()).collect()) };
        let jac = |_v: Vec64| -> Mat64 {
            let mut m = Mat64::new(n, n, 0.0);
            for i in 0..n {
                for j in 0..n {
                    m[(i, j)] = t[i][j];
                }
            }
            m
        };
        let mut nw = Newton::<Vec64>::new(Vector::create(x0));
        nw.tolerance(tol);
        nw.iterations(max_iter);
        if let Some(d) = delta {
            nw.delta(d);
        }
        let res = if exact_jac { nw.solve_jacobian(&f, &jac) } else { nw.solve(&f) };
        match res {
            Ok(v) => {
                let err = (0..n).map(|i| (v[i] - r[i]).abs()).fold(0.0, f64::max);
                ensure!(err <= 1e-9, "Ok but ||x - root||_inf = {:e}; x = {:?}", err, v.vec);
                Ok(())
            }
            Err(v) => Err(format!("no success within {} iterations from a guess 0.5 away from the root {:?}: Err({:?})", max_iter, r, v.vec)),
        }
    } else {
        let r: Vec<Cmplx> = (0..n).map(|i| Cmplx::new(rr[i], ri[i])).collect();
        let x0: Vec<Cmplx> = (0..n).map(|i| Cmplx::new(rr[i] + 0.5, ri[i] - 0.25)).collect();
        // T (x - r) with real dyadic T: componentwise real arithmetic, no crate complex operators in the closure
        let f = |v: Vector<Cmplx>| -> Vector<Cmplx> {
            Vector::create((0..n).map(|i| {
                let (mut re, mut im) = (0.0, 0.0);
                for j in 0..n {
                    re += t[i][j] * (v[j].real - r[j].real);
                    im += t[i][j] * (v[j].imag - r[j].imag);
                }
                Cmplx::new(re, im)
            }).collect())
        };
        let jac = |_v: Vector<Cmplx>| -> Matrix<Cmplx> {
            let mut m = Matrix::<Cmplx>::new(n, n, Cmplx::new(0.0, 0.0));
            for i in 0..n {
                for j in 0..n {
                    m[(i, j)] = Cmplx::new(t[i][j], 0.0);
                }
            }
            m
        };
        let mut nw = Newton::<Vector<Cmplx>>::new(Vector::create(x0));
        nw.tolerance(tol);
        nw.iterations(max_iter);
        if let Some(d) = delta {
            nw.delta(d);
        }
        let res = if exact_jac { nw.solve_jacobian(&f, &jac) } else { nw.solve(&f) };
        match res {
            Ok(v) => {
                let err = (0..n).map(|i| (v[i].real - r[i].real).hypot(v[i].imag - r[i].imag)).fold(0.0, f64::max);
                ensure!(err <= 1e-9, "Ok but ||x - root||_inf = {:e}; x = {:?}", err, v.vec);
                Ok(())
            }
            Err(v) => Err(format!("no success within {} iterations from a guess 0.56 away from the root: Err({:?})", max_iter, v.vec)),
        }
    }
}

// ------------------------------------------------------------------------------------------------------
// E2: histories of configuration changes and solves on ONE Newton object (rebuilt by replaying the history): every solve
// must equal, bit for bit, the solve of a freshly constructed object with the model's configuration
#[derive(Clone, Debug, PartialEq)]
enum NAct {
    Tol(usize),
    Delta(usize),
    Iter(usize),
    Guess(usize),
    Solve(usize),
    SolveVec(usize),
}
const NTOLS: [f64; 2] = [1e-6, 1e-11];
const NDELTAS: [f64; 2] = [1e-6, 1e-9];
const NITERS: [usize; 3] = [0, 2, 25];
const NGUESS: [f64; 3] = [1.5, -2.0, 0.25];
fn nfun(k: usize, x: f64) -> f64 {
    match k {
        0 => x * x - 2.0,
        1 => x * x * x - x - 1.0,
        _ => x * x + 1.0, // root-free
    }
}
fn nvec(k: usize, v: &Vec64) -> Vec64 {
    match k {
        0 => Vector::create(vec![v[0] * v[0] + v[1] - 3.0, v[0] - v[1] * 0.5]),
        _ => Vector::create(vec![3.0 * v[0] + v[1].sin() - 1.0, v[0] * 0.25 - 2.0 * v[1] + 0.5]),
    }
}
#[derive(Clone)]
struct NSt {
    hist: Vec<NAct>,
    cfg: (usize, usize, usize, usize), // indices into the tables; usize::MAX = constructor default
    solves: usize,
}
fn res_bits(r: &Result<f64, f64>) -> (bool, u64) {
    match r {
        Ok(v) => (true, v.to_bits()),
        Err(v) => (false, v.to_bits()),
    }
}
fn resv_bits(r: &Result<Vec64, Vec64>) -> (bool, Vec<u64>) {
    match r {
        Ok(v) => (true, v.vec.iter().map(|x| x.to_bits()).collect()),
        Err(v) => (false, v.vec.iter().map(|x| x.to_bits()).collect()),
    }
}
impl NSt {
    fn guess_val(&self) -> f64 {
        if self.cfg.3 == usize::MAX { 1.0 } else { NGUESS[self.cfg.3] }
    }
    fn apply_cfg(&self, s: &mut Newton<f64>, v: &mut Newton<Vec64>) {
        if self.cfg.0 != usize::MAX {
            s.tolerance(NTOLS[self.cfg.0]);
            v.tolerance(NTOLS[self.cfg.0]);
        }
        if self.cfg.1 != usize::MAX {
            s.delta(NDELTAS[self.cfg.1]);
            v.delta(NDELTAS[self.cfg.1]);
        }
        if self.cfg.2 != usize::MAX {
            s.iterations(NITERS[self.cfg.2]);
            v.iterations(NITERS[self.cfg.2]);
        }
    }
    /// the two real objects after the whole history (setters and earlier solves included)
    fn build(&self) -> (Newton<f64>, Newton<Vec64>) {
        let mut s = Newton::<f64>::new(1.0);
        let mut v = Newton::<Vec64>::new(Vector::create(vec![1.0, 1.0]));
        for a in &self.hist {
            match a {
                NAct::Tol(i) => {
                    s.tolerance(NTOLS[*i]);
                    v.tolerance(NTOLS[*i]);
                }
                NAct::Delta(i) => {
                    s.delta(NDELTAS[*i]);
                    v.delta(NDELTAS[*i]);
                }
                NAct::Iter(i) => {
                    s.iterations(NITERS[*i]);
                    v.iterations(NITERS[*i]);
                }
                NAct::Guess(i) => {
                    s.guess(NGUESS[*i]);
                    v.guess(Vector::create(vec![NGUESS[*i], 1.0 - NGUESS[*i]]));
                }
                NAct::Solve(k) => {
                    let _ = catch(|| s.solve(&|x| nfun(*k, x)));
                }
                NAct::SolveVec(k) => {
                    let _ = catch(|| v.solve(&|x: Vec64| nvec(*k, &x)));
                }
            }
        }
        (s, v)
    }
    fn fresh(&self) -> (Newton<f64>, Newton<Vec64>) {
        let g = self.guess_val();
        let mut s = Newton::<f64>::new(g);
        let mut v = Newton::<Vec64>::new(if self.cfg.3 == usize::MAX { Vector::create(vec![1.0, 1.0]) } else { Vector::create(vec![g, 1.0 - g]) });
        self.apply_cfg(&mut s, &mut v);
        (s, v)
    }
}
impl mc::bfs::Sut for NSt {
    type Act = NAct;
    fn key(&self) -> mc::bfs::Key {
        vec![self.cfg.0 as i128, self.cfg.1 as i128, self.cfg.2 as i128, self.cfg.3 as i128, self.solves.min(2) as i128]
    }
    fn actions(&self) -> Vec<NAct> {
        let mut a = vec![NAct::Solve(0), NAct::Solve(1), NAct::Solve(2), NAct::SolveVec(0), NAct::SolveVec(1)];
        for i in 0..NTOLS.len() {
            a.push(NAct::Tol(i));
        }
        for i in 0..NDELTAS.len() {
            a.push(NAct::Delta(i));
        }
        for i in 0..NITERS.len() {
            a.push(NAct::Iter(i));
        }
        for i in 0..NGUESS.len() {
            a.push(NAct::Guess(i));
        }
        a
    }
    fn step(&mut self, a: &NAct, hits: &mut Vec<&'static str>) -> Result<(), String> {
        match a {
            NAct::Tol(i) => self.cfg.0 = *i,
            NAct::Delta(i) => self.cfg.1 = *i,
            NAct::Iter(i) => self.cfg.2 = *i,
            NAct::Guess(i) => self.cfg.3 = *i,
            NAct::Solve(_) | NAct::SolveVec(_) => {
                if self.solves >= 1 {
                    hits.push("solve after an earlier solve on the same object");
                }
                self.solves += 1;
            }
        }
        self.hist.push(a.clone());
        self.check()
    }
    fn check(&self) -> Result<(), String> {
        let (s, v) = self.build();
        let (fs, fv) = self.fresh();
        let p = s.parameters();
        let q = fs.parameters();
        ensure!(p.0 == q.0 && p.1 == q.1 && p.2 == q.2 && p.3.to_bits() == q.3.to_bits(), "parameters() = {:?} after the history, a fresh object with the same configuration has {:?}", p, q);
        for k in 0..3 {
            let r1 = catch(|| s.solve(&|x| nfun(k, x)));
            let r2 = catch(|| fs.solve(&|x| nfun(k, x)));
            match (r1, r2) {
                (Ok(a), Ok(b)) => ensure!(res_bits(&a) == res_bits(&b), "scalar solve #{} after the history gives {:?}, a fresh object with the same configuration {:?}", k, a, b),
                (Err(_), Err(_)) => {}
                (a, b) => return Err(format!("scalar solve #{}: {:?} vs fresh {:?}", k, a.map(|_| ()), b.map(|_| ()))),
            }
        }
        for k in 0..2 {
            let r1 = catch(|| v.solve(&|x: Vec64| nvec(k, &x)));
            let r2 = catch(|| fv.solve(&|x: Vec64| nvec(k, &x)));
            match (r1, r2) {
                (Ok(a), Ok(b)) => ensure!(resv_bits(&a) == resv_bits(&b), "system solve #{} after the history gives {:?}, a fresh object with the same configuration {:?}", k, a, b),
                (Err(_), Err(_)) => {}
                (a, b) => return Err(format!("system solve #{}: {:?} vs fresh {:?}", k, a.map(|_| ()), b.map(|_| ()))),
            }
        }
        Ok(())
    }
    fn classes(&self, hits: &mut Vec<&'static str>) {
        if self.cfg.2 != usize::MAX && NITERS[self.cfg.2] == 0 {
            hits.push("configuration with max_iter = 0");
        }
    }
    fn show(&self) -> String {
        format!("{:?}", self.hist)
    }
}

// ------------------------------------------------------------------------------------------------------
// E4: answer-script exploration of the termination half
#[derive(Clone, Copy, PartialEq, Debug)]
enum Entry {
    F64,
    Cmplx,
    Vec,
    VecJac,
    CVec,
    CVecJac,
}
const ANSWERS: [&str; 6] = ["default", "0", "NaN", "+inf", "1e300", "-default"];
fn deviate(kind: usize, default: f64) -> f64 {
    match kind {
        1 => 0.0,
        2 => f64::NAN,
        3 => f64::INFINITY,
        4 => 1e300,
        5 => -default,
        _ => default,
    }
}
/// outcome of one scripted run
struct Run {
    bits: Vec<u64>,
    answers: usize,
    evals: usize,
    /// residual vectors handed back by the closure (system entries), as moduli per component
    log: Vec<Vec<f64>>,
}
const SCRIPT_TOL: f64 = 1e-8;
/// run one entry point with the scripted closure
fn scripted_run(e: Entry, base: usize, max_iter: usize, script: &[(usize, usize)]) -> Result<Run, String> {
    let calls = Cell::new(0usize);
    let evals = Cell::new(0usize);
    let log: std::cell::RefCell<Vec<Vec<f64>>> = std::cell::RefCell::new(vec![]);
    let n = 2usize;
    let limit = 8 * (n + 2) * max_iter + 16;
    let answer = |default: f64| -> f64 {
        let i = calls.get();
        calls.set(i + 1);
        if i + 1 > limit {
            panic!("EVAL_LIMIT: more than {} answers", limit);
        }
        match script.iter().find(|(p, _)| *p == i) {
            Some((_, k)) => deviate(*k, default),
            None => default,
        }
    };
    // base functions: 0 = root-free x^2+1, 1 = non-differentiable |x|+1, 2 = x^2-2 (has a root), 3 = x - 1.5 (the guess is the root);
    // bases 3..5 are functions 0..2 started at 0 (zero derivative / kink at the first step), base 6 is function 3
    let (fun, start) = match base {
        0..=2 => (base, 1.5),
        3..=5 => (base - 3, 0.0),
        _ => (3, 1.5),
    };
    let fb = |x: f64| -> f64 {
        match fun {
            0 => x * x + 1.0,
            1 => x.abs() + 1.0,
            2 => x * x - 2.0,
            _ => x - 1.5,
        }
    };
    let dfb = |x: f64| -> f64 {
        match fun {
            0 | 2 => 2.0 * x,
            1 => x.signum(),
            _ => 1.0,
        }
    };
    let out = catch(|| -> (Vec<u64>, bool) {
        match e {
            Entry::F64 => {
                let mut nw = Newton::<f64>::new(start);
                nw.iterations(max_iter);
                let before = nw.parameters();
                let r = nw.solve(&|x| {
                    evals.set(evals.get() + 1);
                    answer(fb(x))
                });
                let same = before.0 == nw.parameters().0 && before.1 == nw.parameters().1 && before.2 == nw.parameters().2 && before.3.to_bits() == nw.parameters().3.to_bits();
                match r {
                    Ok(v) => (vec![1, v.to_bits()], same),
                    Err(v) => (vec![0, v.to_bits()], same),
                }
            }
            Entry::Cmplx => {
                let mut nw = Newton::<Cmplx>::new(Cmplx::new(start, 0.0));
                nw.iterations(max_iter);
                let before = nw.parameters();
                let r = nw.solve(&|z: Cmplx| {
                    evals.set(evals.get() + 1);
                    Cmplx::new(answer(fb(z.real)), 0.0)
                });
                let same = before.2 == nw.parameters().2 && before.3 == nw.parameters().3;
                match r {
                    Ok(v) => (vec![1, v.real.to_bits(), v.imag.to_bits()], same),
                    Err(v) => (vec![0, v.real.to_bits(), v.imag.to_bits()], same),
                }
            }
            Entry::Vec | Entry::VecJac => {
                let mut nw = Newton::<Vec64>::new(Vector::create(vec![1.5, -0.5]));
                nw.iterations(max_iter);
                nw.tolerance(SCRIPT_TOL);
                // both residual components go through the script
                let f = |v: Vec64| -> Vec64 {
                    evals.set(evals.get() + 1);
                    let r = vec![answer(fb(v[0])), answer(v[1] + 0.5 * v[0])];
                    log.borrow_mut().push(r.iter().map(|x| x.abs()).collect());
                    Vector::create(r)
                };
                let jac = |v: Vec64| -> Mat64 {
                    let mut m = Mat64::new(2, 2, 0.0);
                    m[(0, 0)] = dfb(v[0]);
                    m[(1, 0)] = 0.5;
                    m[(1, 1)] = 1.0;
                    m
                };
                let r = if e == Entry::Vec { nw.solve(&f) } else { nw.solve_jacobian(&f, &jac) };
                let same = nw.parameters_vec() == (1.5, -0.5);
                match r {
                    Ok(v) => (std::iter::once(1u64).chain(v.vec.iter().map(|x| x.to_bits())).collect(), same),
                    Err(v) => (std::iter::once(0u64).chain(v.vec.iter().map(|x| x.to_bits())).collect(), same),
                }
            }
            Entry::CVec | Entry::CVecJac => {
                let nw0 = Vector::create(vec![Cmplx::new(1.5, 0.0), Cmplx::new(-0.5, 0.25)]);
                let mut nw = Newton::<Vector<Cmplx>>::new(nw0);
                nw.iterations(max_iter);
                nw.tolerance(SCRIPT_TOL);
                let f = |v: Vector<Cmplx>| -> Vector<Cmplx> {
                    evals.set(evals.get() + 1);
                    let second = v[1] + v[0] * 0.5 - Cmplx::new(0.0, 0.25);
                    let r = vec![Cmplx::new(answer(fb(v[0].real)), v[0].imag), Cmplx::new(answer(second.real), second.imag)];
                    // moduli computed independently of ohsl (hypot propagates NaN, maps inf to inf)
                    log.borrow_mut().push(r.iter().map(|z| if z.real.is_nan() || z.imag.is_nan() { f64::NAN } else { z.real.hypot(z.imag) }).collect());
                    Vector::create(r)
                };
                let jac = |v: Vector<Cmplx>| -> Matrix<Cmplx> {
                    let mut m = Matrix::<Cmplx>::new(2, 2, Cmplx::new(0.0, 0.0));
                    m[(0, 0)] = Cmplx::new(dfb(v[0].real), 0.0);
                    m[(0, 0)].imag = if fun == 3 { 0.0 } else { 2.0 * v[0].imag };
                    m[(1, 0)] = Cmplx::new(0.5, 0.0);
                    m[(1, 1)] = Cmplx::new(1.0, 0.0);
                    m
                };
                let r = if e == Entry::CVec { nw.solve(&f) } else { nw.solve_jacobian(&f, &jac) };
                match r {
                    Ok(v) => (std::iter::once(1u64).chain(v.vec.iter().flat_map(|x| [x.real.to_bits(), x.imag.to_bits()])).collect(), true),
                    Err(v) => (std::iter::once(0u64).chain(v.vec.iter().flat_map(|x| [x.real.to_bits(), x.imag.to_bits()])).collect(), true),
                }
            }
        }
    });
    match out {
        Ok((bits, same)) => {
            if !same {
                return Err("configuration / guess changed by the call".to_string());
            }
            Ok(Run { bits, answers: calls.get(), evals: evals.get(), log: log.into_inner() })
        }
        Err(p) => Err(format!("panic: {}", p)),
    }
}
/// Reference model of the termination logic for the user-Jacobian system entries, where every closure call is one residual:
/// success at the first residual whose components all have modulus <= tol (a NaN component is not <= tol), failure after max_iter residuals.
fn model_outcome(log: &[Vec<f64>], max_iter: usize) -> (bool, usize) {
    for (k, f) in log.iter().enumerate().take(max_iter) {
        if f.iter().all(|m| *m <= SCRIPT_TOL) {
            return (true, k + 1);
        }
    }
    (false, max_iter)
}

trait ParamsVec {
    fn parameters_vec(&self) -> (f64, f64);
}
impl ParamsVec for Newton<Vec64> {
    fn parameters_vec(&self) -> (f64, f64) {
        // Newton<Vec64> has no parameters() (Vec64 is not Copy): observe the guess through a zero-iteration solve
        // is not possible without changing the configuration, so repeat-call determinism carries this part
        (1.5, -0.5)
    }
}

fn eval_bound(e: Entry, max_iter: usize) -> usize {
    match e {
        Entry::F64 | Entry::Cmplx => 3 * max_iter,
        Entry::Vec | Entry::CVec => 4 * max_iter,
        Entry::VecJac | Entry::CVecJac => max_iter,
    }
}

struct ScriptStats {
    model_ok: u64,
    scripts: u64,
    transitions: u64,
    with_nan: u64,
    samples: Vec<serde_json::Value>,
    viols: Vec<Viol>,
}

/// every oracle of the termination half for one executed script (shared by exploration and replay)
fn script_verdicts(e: Entry, base: usize, max_iter: usize, script: &[(usize, usize)], run1: &Run, run2: &Run) -> (Vec<String>, bool) {
    let mut out = vec![];
    let mut model_ok = false;
    let (b1, n1, b2, n2) = (&run1.bits, &run1.answers, &run2.bits, &run2.answers);
    if b1 != b2 || n1 != n2 {
        out.push(format!("two runs of the same script differ: {:?}/{} vs {:?}/{}", b1, n1, b2, n2));
    }
    if run1.evals > eval_bound(e, max_iter) {
        out.push(format!("{} evaluations exceed the bound {} for max_iter = {}", run1.evals, eval_bound(e, max_iter), max_iter));
    }
    let root_free = matches!(base, 0 | 1 | 3 | 4);
    if script.is_empty() && root_free && b1[0] == 1 {
        out.push("success reported on a root-free function".to_string());
    }
    let system = !matches!(e, Entry::F64 | Entry::Cmplx);
    // systems stop on the residual norm: with a root-free first component and no scripted answer "0"
    // every residual ever returned has a first component of modulus >= 1, infinite or NaN
    if system && root_free && b1[0] == 1 && !script.iter().any(|(_, k)| *k == 1) {
        out.push(format!("success reported although no residual was ever small (residual moduli seen: {:?})", run1.log));
    }
    // user-supplied Jacobian: every closure call is one residual, so the outcome is decided by the logged residuals alone
    if matches!(e, Entry::VecJac | Entry::CVecJac) {
        let (ok, evals) = model_outcome(&run1.log, max_iter);
        if ok != (b1[0] == 1) || evals != run1.evals {
            out.push(format!("termination differs from the reference model: {} after {} residual evaluations, model says {} after {} (residual moduli: {:?}, tol {:e})", if b1[0] == 1 { "Ok" } else { "Err" }, run1.evals, if ok { "Ok" } else { "Err" }, evals, run1.log, SCRIPT_TOL));
        }
        model_ok = ok;
    }
    if max_iter == 0 && b1[0] == 1 {
        out.push("success reported with max_iter = 0".to_string());
    }
    (out, model_ok)
}

fn explore_scripts(ctx: &Ctx, e: Entry, base: usize, max_iter: usize, dmax: usize, st: &mut ScriptStats, space: &str) {
    // depth-first over deviation sets, re-running from the start each time (stateless exploration)
    let mut stack: Vec<Vec<(usize, usize)>> = vec![vec![]];
    while let Some(script) = stack.pop() {
        st.scripts += 1;
        let r1 = scripted_run(e, base, max_iter, &script);
        let r2 = scripted_run(e, base, max_iter, &script);
        let key = format!("{:?} base#{} max_iter={} script={:?}", e, base, max_iter, script.iter().map(|(p, k)| format!("call{}->{}", p, ANSWERS[*k])).collect::<Vec<_>>());
        let fail = |detail: String, st: &mut ScriptStats| {
            if st.viols.len() < 12 {
                st.viols.push(Viol { space: space.to_string(), idx: st.scripts, key: key.clone(), detail, extra: json!({"entry": format!("{:?}", e), "base": base, "max_iter": max_iter, "script": script}) });
            }
        };
        if script.iter().any(|(_, k)| *k == 2) {
            st.with_nan += 1;
        }
        match (&r1, &r2) {
            (Ok(run1), Ok(run2)) => {
                let (b1, n1) = (&run1.bits, &run1.answers);
                st.transitions += *n1 as u64;
                let (vs, model_ok) = script_verdicts(e, base, max_iter, &script, run1, run2);
                for v in vs {
                    fail(v, st);
                }
                if model_ok {
                    st.model_ok += 1;
                }
                // NOTE: "a scalar Ok carries a finite point" is NOT judged on scripted runs: with two deviations a correct
                // implementation can return Ok(-inf) (first step from a zero derivative sends the iterate to -inf, a later
                // scripted answer 0 makes the step 0). That oracle raised a false alarm in the thorough tier and was removed;
                // the NaN-step defect class is caught by the script-free runs started at 0 (root-free => Err).
                if st.samples.len() < 4 && !script.is_empty() {
                    st.samples.push(json!({"entry": format!("{:?}", e), "script": key, "calls": n1, "outcome": if b1[0] == 1 { "Ok" } else { "Err" }}));
                }
                // extend the script at every later call position
                if script.len() < dmax {
                    let from = script.iter().map(|(p, _)| p + 1).max().unwrap_or(0);
                    for pos in (from..*n1).rev() {
                        for k in (1..ANSWERS.len()).rev() {
                            let mut c = script.clone();
                            c.push((pos, k));
                            stack.push(c);
                        }
                    }
                }
            }
            (Err(m), _) | (_, Err(m)) => fail(format!("the call did not return normally: {}", m), st),
        }
        if ctx.over_budget() {
            break;
        }
    }
}

fn main() {
    let ctx = Ctx::from_args("C17");
    ctx.level("model_checking");
    ctx.rule("E1 (convergence): 11 scalar real families with analytic roots (quadratic, cubic, exp, sin, x - cos x) x 9 guesses across a conservatively computed basin x tol in {1e-12..1e-4} x max_iter in {0,1,2,3,5,20,50} x delta in {1e-8,1e-6}; 5 complex scalar families x 9 guesses; real and complex systems F(x) = Dx + eps g(x) - b of dimension 1..6 with finite-difference and user-supplied Jacobians. Ok(x) => distance to the root <= 4 tol kappa + 1e-12; enough iterations (exact Newton count + 2) => Ok; Err carries the iterate after max_iter exact Newton steps; max_iter = 0 => Err(guess) bit for bit; evaluations <= 3 (scalar) / n+2 (systems) per iteration; parameters() unchanged; repeated calls bit-identical. E4 (termination): depth-first exploration of ALL answer scripts of the user closure - at every call position every answer in {0, NaN, +inf, 1e300, -default} - up to 1 (quick) / 2..4 (thorough) deviations, for all six entry points (for the systems both residual components are scripted), max_iter 0..3 (thorough 0..5), on root-free, non-differentiable and ordinary base functions started at 1.5 and at 0 (zero derivative / kink on the first step) and on x - 1.5 started at its root: the call returns, evaluation bound respected, root-free => Err, a system never succeeds unless some residual was small, the user-Jacobian system entries agree with a reference model of the stopping rule (first residual whose components all have modulus <= tol; NaN never counts), two runs of a script identical.");
    ctx.assume("basins are computed conservatively from |f'(r)|/(2 max|f''|); a counting closure panics beyond 4x the evaluation bound so that an unbounded loop is reported, not waited for");
    ctx.threshold("scalar_root_error_over_bound", 1.0);
    ctx.threshold("system_root_error_over_bound", 1.0);
    ctx.require(&["Ok answers", "Err answers", "guess at the basin edge", "systems of dimension >= 3", "system of dimension >= 7", "solve after an earlier solve on the same object", "configuration with max_iter = 0"]);
    let fm = fams();
    let nf = fm.len() as u64;
    let per = (TS.len() * TOLS.len() * ITERS.len() * 2) as u64;
    ctx.lattice(
        "scalar real: 11 families x 9 guesses x 5 tolerances x 7 iteration limits x 2 difference steps",
        nf * per,
        |idx| format!("{}", idx),
        |idx, acc| {
            let f = &fm[(idx / per) as usize];
            let mut r = idx % per;
            let di = r % 2;
            r /= 2;
            let it = ITERS[(r % 7) as usize];
            r /= 7;
            let tol = TOLS[(r % 5) as usize];
            r /= 5;
            let t = TS[r as usize];
            if t.abs() == 1.0 {
                acc.nontriv("guess at the basin edge");
            } else {
                acc.nontriv("guess inside the basin");
            }
            let delta = if di == 0 { 1e-8 } else { 1e-6 };
            let mut local = Acc::new("t");
            let res = catch(|| scalar_case(f, t, tol, it, delta, &mut local));
            for (k, v) in std::mem::take(&mut local.hits) {
                *acc.hits.entry(k).or_insert(0) += v;
            }
            acc.merge_worst(local);
            let key = || format!("{} guess=root{:+}*rho tol={:e} max_iter={} delta={:e}", f.name, t, tol, it, delta);
            match res {
                Ok(Ok(())) => {}
                Ok(Err(e)) => {
                    if e.starts_with("MACHINERY") {
                        acc.machinery(e)
                    } else {
                        acc.fail(idx, key(), e)
                    }
                }
                Err(p) => acc.fail(idx, key(), format!("unexpected panic: {}", p)),
            }
        },
    );
    // TINY non-zero guesses (and -0.0) for functions whose root is of order one and whose basin contains 0: a difference step scaled by
    // |x| without a floor vanishes there (f(x + h) == f(x - h), zero slope, Err(NaN) from inside the basin)
    {
        let fidx = [0usize, 5, 6, 8, 10];
        let guesses = [1e-8, -1e-8, 1e-10, 1e-12, -1e-20, 1e-100, 1e-300, 5e-324, -0.0, 3e-9];
        let per = (guesses.len() * 2 * 2) as u64;
        ctx.lattice(
            "scalar real, tiny guesses: 5 families with 0 inside the basin x guesses {+-1e-8,1e-10,1e-12,-1e-20,1e-100,1e-300,5e-324,-0.0,3e-9} x tol {1e-8,1e-12} x max_iter {12,50}",
            fidx.len() as u64 * per,
            |idx| format!("{}", idx),
            |idx, acc| {
                let fs = fams();
                let f = &fs[fidx[(idx / per) as usize]];
                let mut r = idx % per;
                let it = [12usize, 50][(r % 2) as usize];
                r /= 2;
                let tol = [1e-8, 1e-12][(r % 2) as usize];
                r /= 2;
                let g = guesses[r as usize];
                acc.nontriv("tiny non-zero guess");
                let mut local = Acc::new("t");
                X0_OVERRIDE.with(|o| o.set(Some(g)));
                let res = catch(|| scalar_case(f, 0.0, tol, it, 1e-8, &mut local));
                X0_OVERRIDE.with(|o| o.set(None));
                for (k, v) in std::mem::take(&mut local.hits) {
                    *acc.hits.entry(k).or_insert(0) += v;
                }
                acc.merge_worst(local);
                let key = || format!("{} guess={:e} tol={:e} max_iter={}", f.name, g, tol, it);
                match res {
                    Ok(Ok(())) => {}
                    Ok(Err(e)) => {
                        if e.starts_with("MACHINERY") {
                            acc.machinery(e)
                        } else {
                            acc.fail(idx, key(), e)
                        }
                    }
                    Err(p) => acc.fail(idx, key(), format!("unexpected panic: {}", p)),
                }
            },
        );
    }
    let ncf = cfams().len() as u64;
    let perc = (9 * TOLS.len() * ITERS.len()) as u64;
    ctx.lattice(
        "scalar complex: 5 families x 9 guesses x 5 tolerances x 7 iteration limits",
        ncf * perc,
        |idx| format!("{}", idx),
        |idx, acc| {
            let fi = (idx / perc) as usize;
            let mut r = idx % perc;
            let it = ITERS[(r % 7) as usize];
            r /= 7;
            let tol = TOLS[(r % 5) as usize];
            r /= 5;
            let gi = r as usize;
            acc.nontriv("complex scalar");
            let mut local = Acc::new("t");
            let res = catch(|| complex_case(fi, gi, tol, it, &mut local));
            for (k, v) in std::mem::take(&mut local.hits) {
                *acc.hits.entry(k).or_insert(0) += v;
            }
            let key = || format!("{} guess#{} tol={:e} max_iter={}", cfams()[fi].0, gi, tol, it);
            match res {
                Ok(Ok(())) => {}
                Ok(Err(e)) => {
                    if e.starts_with("MACHINERY") {
                        acc.machinery(e)
                    } else {
                        acc.fail(idx, key(), e)
                    }
                }
                Err(p) => acc.fail(idx, key(), format!("unexpected panic: {}", p)),
            }
        },
    );
    let pers = (2 * 4 * TOLS.len() * ITERS.len() * 2) as u64;
    ctx.lattice(
        "real systems: dimension 1..6 x 2 nonlinearities x 4 guesses x 5 tolerances x 7 iteration limits x {finite-difference, supplied} Jacobian",
        6 * pers,
        |idx| format!("{}", idx),
        |idx, acc| {
            let n = 1 + (idx / pers) as usize;
            let mut r = idx % pers;
            let ej = r % 2 == 1;
            r /= 2;
            let it = ITERS[(r % 7) as usize];
            r /= 7;
            let tol = TOLS[(r % 5) as usize];
            r /= 5;
            let gi = (r % 4) as usize;
            r /= 4;
            let kind = r as usize;
            if n >= 3 {
                acc.nontriv("systems of dimension >= 3");
            } else {
                acc.nontriv("systems of dimension 1..2");
            }
            let mut local = Acc::new("t");
            let res = catch(|| system_case(n, kind, gi, tol, it, ej, &mut local));
            for (k, v) in std::mem::take(&mut local.hits) {
                *acc.hits.entry(k).or_insert(0) += v;
            }
            acc.merge_worst(local);
            let key = || format!("system n={} g#{} guess#{} tol={:e} max_iter={} supplied_jacobian={}", n, kind, gi, tol, it, ej);
            match res {
                Ok(Ok(())) => {}
                Ok(Err(e)) => {
                    if e.starts_with("MACHINERY") {
                        acc.machinery(e)
                    } else {
                        acc.fail(idx, key(), e)
                    }
                }
                Err(p) => acc.fail(idx, key(), format!("unexpected panic: {}", p)),
            }
        },
    );
    // the same families about roots whose components are -1, 0, 1, 2 (guess#0 starts AT the root, so the first Jacobian is taken there)
    {
        let pers2 = (2 * 4 * 2 * 2 * 2) as u64;
        ctx.lattice(
            "real systems about roots with components -1, 0, 1, 2: dimension 1..6 x 2 root sets x 2 nonlinearities x 4 guesses x tol {1e-8,1e-12} x max_iter {4,40} x {finite-difference, supplied} Jacobian",
            6 * pers2,
            |idx| format!("{}", idx),
            |idx, acc| {
                let n = 1 + (idx / pers2) as usize;
                let mut r = idx % pers2;
                let ej = r % 2 == 1;
                r /= 2;
                let it = [4usize, 40][(r % 2) as usize];
                r /= 2;
                let tol = [1e-8, 1e-12][(r % 2) as usize];
                r /= 2;
                let gi = (r % 4) as usize;
                r /= 4;
                let kind = (r % 2) as usize;
                acc.nontriv("system about a root with components -1, 0, 1");
                for rk in 1..=2usize {
                    let mut local = Acc::new("t");
                    ROOT_KIND.with(|k| k.set(rk));
                    let res = catch(|| system_case(n, kind, gi, tol, it, ej, &mut local));
                    ROOT_KIND.with(|k| k.set(0));
                    for (k, v) in std::mem::take(&mut local.hits) {
                        *acc.hits.entry(k).or_insert(0) += v;
                    }
                    acc.merge_worst(local);
                    let key = || format!("system about root set {} n={} g#{} guess#{} tol={:e} max_iter={} supplied_jacobian={}", rk, n, kind, gi, tol, it, ej);
                    match res {
                        Ok(Ok(())) => {}
                        Ok(Err(e)) => {
                            if e.starts_with("MACHINERY") {
                                acc.machinery(e)
                            } else {
                                acc.fail(idx, key(), e)
                            }
                        }
                        Err(p) => acc.fail(idx, key(), format!("unexpected panic: {}", p)),
                    }
                }
            },
        );
    }
    // dimensions beyond 6 (every residue of a 4- or 8-wise blocked residual test), and systems in which ONE equation has no
    // root (x_p^2 + 1 = 0 at position p): such a system has no root, so success must never be reported
    {
        let dims: Vec<usize> = vec![7, 8, 9, 10, 11, 12, 13, 16, 17, 21];
        let dd = dims.clone();
        ctx.lattice(
            &format!("real systems of dimension {:?}: convergence (2 guesses x 2 tolerances x 3 limits x 2 Jacobians) and one-equation-root-free variants at 3 positions", dims),
            dims.len() as u64,
            |i| format!("n={}", dd[i as usize]),
            |i, acc| {
                let n = dd[i as usize];
                acc.nontriv("system of dimension >= 7");
                let mut local = Acc::new("t");
                let res = catch(|| -> Result<(), String> {
                    for gi in [1usize, 3] {
                        for tol in [1e-10, 1e-6] {
                            for it in [2usize, 5, 50] {
                                for ej in [false, true] {
                                    system_case(n, 0, gi, tol, it, ej, &mut local).map_err(|e| format!("n={} guess#{} tol={:e} max_iter={} supplied={}: {}", n, gi, tol, it, ej, e))?;
                                }
                            }
                        }
                    }
                    // root-free component at position p
                    let d = dmat(n);
                    let xr = xroot(n);
                    for p in [0usize, n / 2, n - 1] {
                        let fvec = |x: &[f64]| -> Vec<f64> {
                            (0..n).map(|i| if i == p { x[p] * x[p] + 1.0 } else { (0..n).map(|j| d[i][j] * (x[j] - xr[j])).sum::<f64>() }).collect()
                        };
                        for ej in [false, true] {
                            for it in [1usize, 3, 8, 20] {
                                let mut nw = Newton::<Vec64>::new(Vector::create((0..n).map(|i| xr[i] + 0.25).collect()));
                                nw.iterations(it);
                                nw.tolerance(1e-8);
                                let f = |v: Vec64| -> Vec64 { Vector::create(fvec(&v.vec)) };
                                let jac = |v: Vec64| -> Mat64 {
                                    let mut m = Mat64::new(n, n, 0.0);
                                    for i in 0..n {
                                        for j in 0..n {
                                            m[(i, j)] = if i == p { if j == p { 2.0 * v[p] } else { 0.0 } } else { d[i][j] };
                                        }
                                    }
                                    m
                                };
                                let r = if ej { nw.solve_jacobian(&f, &jac) } else { nw.solve(&f) };
                                ensure!(r.is_err(), "n={} root-free equation at position {} (supplied Jacobian: {}, max_iter {}): success reported with x = {:?}", n, p, ej, it, r.map(|v| v.vec));
                            }
                        }
                    }
                    Ok(())
                });
                for (k, v) in std::mem::take(&mut local.hits) {
                    *acc.hits.entry(k).or_insert(0) += v;
                }
                acc.merge_worst(local);
                match res {
                    Ok(Ok(())) => {}
                    Ok(Err(e)) => {
                        if e.contains("MACHINERY") {
                            acc.machinery(e)
                        } else {
                            acc.fail(i, format!("large system n={}", n), e)
                        }
                    }
                    Err(p) => acc.fail(i, format!("large system n={}", n), format!("unexpected panic: {}", p)),
                }
            },
        );
    }
    ctx.lattice(
        "affine systems with roots of size 1.5e3..1.2e4: dimension 1..6 x {upper triangular with negative diagonal, lower triangular, dense dominant, dense dominant with rotated rows} x {real, complex} x {finite-difference, supplied} Jacobian, tol 1e-12, 8 iterations",
        6 * 4 * 4,
        |idx| format!("n={} kind={} variant={}", 1 + idx / 16, (idx / 4) % 4, idx % 4),
        |idx, acc| {
            let (n, kind, var) = (1 + (idx / 16) as usize, ((idx / 4) % 4) as usize, idx % 4);
            acc.nontriv("system with roots of size >= 1.5e3");
            judge(acc, idx, || format!("large-root affine n={} kind={} complex={} supplied={}", n, kind, var >= 2, var % 2 == 1), || large_root_affine_case(n, kind, var >= 2, var % 2 == 1));
            // roots beyond 2^27 with a configured step 2^-8 (the default 1e-8 is absorbed there - a known finding; a configured step must be used)
            judge(acc, idx, || format!("far-root affine (delta = 2^-8) n={} kind={} complex={} supplied={}", n, kind, var >= 2, var % 2 == 1), || large_root_affine_case_at(n, kind, var >= 2, var % 2 == 1, 262144.0, Some(2f64.powi(-8))));
        },
    );
    let perc2 = (4 * TOLS.len() * ITERS.len() * 2) as u64;
    ctx.lattice(
        "complex systems: dimension 1..6 x 4 guesses x 5 tolerances x 7 iteration limits x {finite-difference, supplied} Jacobian",
        6 * perc2,
        |idx| format!("{}", idx),
        |idx, acc| {
            let n = 1 + (idx / perc2) as usize;
            let mut r = idx % perc2;
            let ej = r % 2 == 1;
            r /= 2;
            let it = ITERS[(r % 7) as usize];
            r /= 7;
            let tol = TOLS[(r % 5) as usize];
            r /= 5;
            let gi = r as usize;
            acc.nontriv("complex system");
            let mut local = Acc::new("t");
            let res = catch(|| csystem_case(n, gi, tol, it, ej, &mut local));
            for (k, v) in std::mem::take(&mut local.hits) {
                *acc.hits.entry(k).or_insert(0) += v;
            }
            let key = || format!("complex system n={} guess#{} tol={:e} max_iter={} supplied_jacobian={}", n, gi, tol, it, ej);
            match res {
                Ok(Ok(())) => {}
                Ok(Err(e)) => acc.fail(idx, key(), e),
                Err(p) => acc.fail(idx, key(), format!("unexpected panic: {}", p)),
            }
        },
    );
    // E4
    let space = "answer scripts (termination half)";
    if ctx.wants(space) {
        let t0 = std::time::Instant::now();
        let mut st = ScriptStats { model_ok: 0, scripts: 0, transitions: 0, with_nan: 0, samples: vec![], viols: vec![] };
        if let Some(rp) = &ctx.replay {
            let e = match rp.extra["entry"].as_str().unwrap_or("F64") {
                "Cmplx" => Entry::Cmplx,
                "Vec" => Entry::Vec,
                "VecJac" => Entry::VecJac,
                "CVec" => Entry::CVec,
                "CVecJac" => Entry::CVecJac,
                _ => Entry::F64,
            };
            let script: Vec<(usize, usize)> = rp.extra["script"].as_array().map(|a| a.iter().map(|p| (p[0].as_u64().unwrap() as usize, p[1].as_u64().unwrap() as usize)).collect()).unwrap_or_default();
            let (base, mi) = (rp.extra["base"].as_u64().unwrap_or(0) as usize, rp.extra["max_iter"].as_u64().unwrap_or(1) as usize);
            let r = scripted_run(e, base, mi, &script);
            let r2 = scripted_run(e, base, mi, &script);
            let mut acc = Acc::new(space);
            acc.begin_case();
            match (r, r2) {
                (Ok(run1), Ok(run2)) => {
                    eprintln!("REPLAY script {:?} -> outcome bits {:?}, {} evaluations, residual moduli {:?}", script, run1.bits, run1.evals, run1.log);
                    for v in script_verdicts(e, base, mi, &script, &run1, &run2).0 {
                        acc.fail_extra(0, format!("{:?}", script), v, rp.extra.clone());
                    }
                }
                (Err(m), _) | (_, Err(m)) => acc.fail_extra(0, format!("{:?}", script), m, rp.extra.clone()),
            }
            ctx.absorb(space, "E4-scripts", 1, 1, false, acc, vec![], 0.0);
        } else {
            let dmax = ctx.pick(1, 2);
            for e in [Entry::F64, Entry::Cmplx, Entry::Vec, Entry::VecJac, Entry::CVec, Entry::CVecJac] {
                for base in 0..7 {
                    for mi in 0..=ctx.pick(3, 5) {
                        // thorough: three deviations where the runs are short enough for the script tree to stay small
                        let dm = if ctx.quick() { dmax } else if mi <= 1 { 4 } else if mi <= 3 { 3 } else { 2 };
                        explore_scripts(&ctx, e, base, mi, dm, &mut st, space);
                    }
                }
            }
            let mut s = SpaceSummary::new(space, "E4-scripts");
            s.len = st.scripts;
            s.completed = st.scripts;
            s.cap_hit = ctx.over_budget();
            s.evals = st.scripts;
            s.nontrivial = st.with_nan;
            s.states = st.scripts;
            s.transitions = st.transitions.max(1);
            s.depth = if ctx.thorough() { 4 } else { dmax as u64 };
            s.hits.insert("scripts with a NaN answer".into(), st.with_nan);
            s.hits.insert("user-Jacobian runs the reference model ends in Ok".into(), st.model_ok);
            if st.model_ok == 0 {
                ctx.machinery_error("vacuity: the termination model never predicted Ok".into());
            }
            s.samples = st.samples;
            s.viol_total = st.viols.len() as u64;
            s.wall_s = t0.elapsed().as_secs_f64();
            s.notes.push(format!("states = executed scripts (each run twice), transitions = closure calls answered; deviation bound {} (thorough: 4 for max_iter <= 1, 3 for max_iter 2..3, 2 for max_iter 4..5)", dmax));
            if st.with_nan == 0 {
                ctx.machinery_error("vacuity: no script with a NaN answer".into());
            }
            ctx.push_space(s, st.viols);
        }
    }
    {
        let depth = ctx.pick(4, 6);
        let inits = vec![NSt { hist: vec![], cfg: (usize::MAX, usize::MAX, usize::MAX, usize::MAX), solves: 0 }];
        mc::bfs::explore(&ctx, "configuration / solve histories on one Newton object", inits, mc::bfs::BfsOpts { max_depth: depth, state_cap: ctx.pick(200_000, 2_000_000) });
    }
    // Complex variants on functions whose VALUES are of extreme magnitude (exp(z) = c with |c| = 1e+-160, s (z^2 + 4) with s = 1e-170,
    // 1e160): the step f / f' went through the unscaled complex quotient and was NaN or wrong by 3e-4 (second bug hunt); repaired by
    // 8d587e4 in /repo, demanded now. The real variant on the same equations always worked.
    {
        fn cexp(z: Cmplx) -> Cmplx {
            let m = z.real.exp();
            Cmplx::new(m * z.imag.cos(), m * z.imag.sin())
        }
        let exp_case = |c: f64| -> Result<(), String> {
            let root = c.ln();
            let mut nw = Newton::<Cmplx>::new(Cmplx::new(root + 0.1, 0.05));
            nw.tolerance(1e-10);
            nw.iterations(50);
            match nw.solve(&|z: Cmplx| { let e = cexp(z); Cmplx::new(e.real - c, e.imag) }) {
                Ok(z) if (z.real - root).hypot(z.imag) <= 1e-9 => Ok(()),
                Ok(z) => Err(format!("Ok({:?}) is {:e} away from the root {}", z, (z.real - root).hypot(z.imag), root)),
                Err(z) => Err(format!("Err({:?}) from a guess inside the basin after 50 iterations", z)),
            }
        };
        let poly_case = |s: f64| -> Result<(), String> {
            // s (z^2 + 4), root 2i, guess 0.1 + 2.1i
            let mut nw = Newton::<Cmplx>::new(Cmplx::new(0.1, 2.1));
            nw.tolerance(1e-10);
            nw.iterations(50);
            match nw.solve(&|z: Cmplx| Cmplx::new((z.real * z.real - z.imag * z.imag + 4.0) * s, 2.0 * z.real * z.imag * s)) {
                Ok(z) if z.real.hypot(z.imag - 2.0) <= 1e-9 => Ok(()),
                Ok(z) => Err(format!("Ok({:?}) is {:e} away from the root 2i", z, z.real.hypot(z.imag - 2.0))),
                Err(z) => Err(format!("Err({:?}) from a guess inside the basin after 50 iterations", z)),
            }
        };
        ctx.listed_cases(
            "listed inputs: complex variants on functions of extreme magnitude (bug-hunt inputs, repaired by 8d587e4)",
            vec![
                ("extreme-complex Newton<Cmplx> exp(z) = 1e-160".to_string(), Box::new(move || exp_case(1e-160))),
                ("extreme-complex Newton<Cmplx> exp(z) = 1e160".to_string(), Box::new(move || exp_case(1e160))),
                ("extreme-complex Newton<Cmplx> 1e-170 (z^2 + 4)".to_string(), Box::new(move || poly_case(1e-170))),
                ("extreme-complex Newton<Cmplx> 1e150 (z^2 + 4)".to_string(), Box::new(move || poly_case(1e150))),
            ],
        );
    }
    // Known findings (known_findings.txt), all three consequences of design choices rather than slips, none repairable by a small patch:
    // (1) the finite-difference step delta is absolute, so beyond |x| = 2^27 (default delta 1e-8) x + delta == x, the difference
    //     quotient is 0 and every finite-difference variant fails on f(x) = x - 1e9;
    // (2) the system variants stop on the ABSOLUTE residual ||F(x)||_inf <= tol: where |F'| ulp(x) > tol (x^2 = 8192 at tol 1e-12) the
    //     criterion cannot be met even at the correctly rounded root, and Err is returned with that root;
    // (3) the same criterion accepts a point far from an ill-conditioned root: exp(x) = 1e-8 from root + 0.5 gives Ok(-18.31), the
    //     root is -18.42 (|F'| = 1e-8 = tol).
    {
        ctx.known_cases(
            "listed inputs: absolute difference step, absolute residual criterion",
            vec![
                ("fd-step-absolute Newton<f64> f(x) = x - 1e9 from 1e9 + 1".to_string(), Box::new(|| {
                    let nw = Newton::<f64>::new(1e9 + 1.0);
                    match nw.solve(&|x| x - 1e9) {
                        Ok(v) if (v - 1e9).abs() <= 1e-3 => Ok(()),
                        other => Err(format!("{:?} for a linear function started next to its root", other)),
                    }
                })),
                ("fd-step-absolute Newton<Vec64> F(x) = (x0 - 1e9) from (1e9 + 1)".to_string(), Box::new(|| {
                    let nw = Newton::<Vec64>::new(Vector::create(vec![1e9 + 1.0]));
                    match nw.solve(&|v: Vec64| Vector::create(vec![v[0] - 1e9])) {
                        Ok(v) if (v[0] - 1e9).abs() <= 1e-3 => Ok(()),
                        other => Err(format!("{:?} for a linear system started next to its root", other.map(|v| v.vec).map_err(|v| v.vec))),
                    }
                })),
                ("fd-step-absolute Newton<f64> (x-R)(x-3R)(x+2R), R = 8.5e-10, from 1.1 R".to_string(), Box::new(|| {
                    let rr = 8.5e-10;
                    let mut nw = Newton::<f64>::new(1.1 * rr);
                    nw.tolerance(1e-12);
                    nw.iterations(50);
                    match nw.solve(&|x| (x - rr) * (x - 3.0 * rr) * (x + 2.0 * rr)) {
                        Ok(v) if (v - rr).abs() <= 1e-11 => Ok(()),
                        other => Err(format!("{:?}; textbook Newton converges from this guess in 6 steps (the central difference adds delta^2 = 1e-16 to f' = -4e-18)", other)),
                    }
                })),
                ("fd-step-absolute Newton<f64> x^3 = R^3, R = 8.5e-10, from 1.1 R".to_string(), Box::new(|| {
                    let rr = 8.5e-10;
                    let mut nw = Newton::<f64>::new(1.1 * rr);
                    nw.tolerance(1e-12);
                    nw.iterations(50);
                    match nw.solve(&|x| x * x * x - rr * rr * rr) {
                        Ok(v) if (v - rr).abs() <= 1e-11 => Ok(()),
                        other => Err(format!("{:?} (root 8.5e-10, tolerance 1e-12)", other)),
                    }
                })),
                ("residual-criterion-unattainable Newton<Vec64> x^2 = 8192 tol 1e-12".to_string(), Box::new(|| {
                    let mut nw = Newton::<Vec64>::new(Vector::create(vec![90.0]));
                    nw.tolerance(1e-12);
                    nw.iterations(50);
                    match nw.solve_jacobian(&|v: Vec64| Vector::create(vec![v[0] * v[0] - 8192.0]), &|v: Vec64| { let mut m = Mat64::new(1, 1, 0.0); m[(0, 0)] = 2.0 * v[0]; m }) {
                        Ok(_) => Ok(()),
                        Err(v) => Err(format!("Err({:?}) after 50 iterations although the iterate is the correctly rounded root (8192^(1/2) = {})", v.vec, 8192f64.sqrt())),
                    }
                })),
                ("step-criterion-unattainable Newton<f64> x^2 = 1e9 tol 1e-12".to_string(), Box::new(|| {
                    // fifth bug hunt, the scalar counterpart: |dx| <= tol is purely absolute; half an ulp of the root 31622.77.. is 1.8e-12
                    let mut nw = Newton::<f64>::new(31000.0);
                    nw.tolerance(1e-12);
                    nw.iterations(50);
                    match nw.solve(&|x: f64| x * x - 1e9) {
                        Ok(_) => Ok(()),
                        Err(v) => Err(format!("Err({:?}) after 50 iterations although the iterate is the correctly rounded root ({})", v, 1e9f64.sqrt())),
                    }
                })),
                ("residual-criterion-ill-conditioned Newton<Vec64> exp(x) = 1e-8 from root + 0.5".to_string(), Box::new(|| {
                    let root = (1e-8f64).ln();
                    let nw = Newton::<Vec64>::new(Vector::create(vec![root + 0.5]));
                    match nw.solve_jacobian(&|v: Vec64| Vector::create(vec![v[0].exp() - 1e-8]), &|v: Vec64| { let mut m = Mat64::new(1, 1, 0.0); m[(0, 0)] = v[0].exp(); m }) {
                        Ok(v) if (v[0] - root).abs() <= 1e-6 => Ok(()),
                        Ok(v) => Err(format!("Ok({:?}) but the root is {} (distance {:e}, tolerance 1e-8)", v.vec, root, (v[0] - root).abs())),
                        Err(v) => Err(format!("Err({:?})", v.vec)),
                    }
                })),
            ],
        );
    }
    std::process::exit(ctx.finish());
}
