//! C12 - polynomial division: u = q*v + r, deg r < deg v, for every divisor with a non-zero leading coefficient.
use mc::*;
use ohsl::{Cmplx, Polynomial};

fn coeffs_of<T: Copy>(p: &Polynomial<T>) -> Vec<T> {
    (0..p.size()).map(|i| p[i]).collect()
}
fn vec_from_idx<T: Copy>(mut idx: u64, minlen: usize, letters: &[T]) -> Vec<T> {
    let l = letters.len() as u64;
    let mut len = minlen;
    loop {
        let cnt = l.pow(len as u32);
        if idx < cnt {
            break;
        }
        idx -= cnt;
        len += 1;
    }
    (0..len)
        .map(|_| {
            let v = letters[(idx % l) as usize];
            idx /= l;
            v
        })
        .collect()
}
fn count_vecs(minlen: usize, maxlen: usize, l: u64) -> u64 {
    (minlen as u32..=maxlen as u32).map(|k| l.pow(k)).sum()
}

// --- exact ---------------------------------------------------------------------------------------------
fn strip(v: &[Rat]) -> Vec<Rat> {
    let mut w = v.to_vec();
    while w.last().map_or(false, |c| c.is_zero()) {
        w.pop();
    }
    w
}
fn check_exact(u: &[Rat], v: &[Rat], acc: &mut Acc) -> Result<(), String> {
    let pu = Polynomial::new(u.to_vec());
    let pv = Polynomial::new(v.to_vec());
    let zero_div = v.iter().all(|c| c.is_zero());
    if !zero_div && v.last().unwrap().is_zero() {
        acc.hit("divisor with zero leading coefficient (outside the claim, skipped)");
        return Ok(());
    }
    let res = pu.polydiv(&pv);
    ensure!(coeffs_of(&pu) == u && coeffs_of(&pv) == v, "operands modified");
    if zero_div {
        acc.nontriv("empty or all-zero divisor");
        ensure!(res.is_err(), "division by the empty/zero polynomial returned Ok");
        return Ok(());
    }
    let (q, rm) = match res {
        Ok(x) => x,
        Err(e) => return Err(format!("Err({}) although the divisor has a non-zero leading coefficient", e)),
    };
    let qc = coeffs_of(&q);
    let rc = coeffs_of(&rm);
    // u == q*v + r with an independent convolution
    let mut s = vec![r(0); (qc.len() + v.len()).max(rc.len()).max(u.len()) + 1];
    for i in 0..qc.len() {
        for j in 0..v.len() {
            s[i + j] = s[i + j] + qc[i] * v[j];
        }
    }
    for i in 0..rc.len() {
        s[i] = s[i] + rc[i];
    }
    ensure!(strip(&s) == strip(u), "q*v + r = {:?} but u = {:?} (q = {:?}, r = {:?})", strip(&s), u, qc, rc);
    let rs = strip(&rc);
    ensure!(rs.is_empty() || rs.len() < v.len(), "deg r = {} is not below deg v = {} (r = {:?})", rs.len() - 1, v.len() - 1, rc);
    if u.len() < v.len() {
        acc.nontriv("divisor longer than dividend");
    }
    if v.len() == 1 {
        acc.nontriv("constant divisor");
    }
    if strip(u).len() >= v.len() && !rs.is_empty() {
        acc.nontriv("non-zero remainder");
    }
    Ok(())
}

// --- floats --------------------------------------------------------------------------------------------
const REL: f64 = 1e-13;

fn check_f64(u: &[f64], v: &[f64], acc: &mut Acc) -> Result<(), String> {
    let pu = Polynomial::new(u.to_vec());
    let pv = Polynomial::new(v.to_vec());
    let zero_div = v.iter().all(|c| *c == 0.0);
    let lead_zero = !zero_div && *v.last().unwrap() == 0.0;
    let res = pu.polydiv(&pv);
    if lead_zero {
        acc.hit("divisor with zero leading coefficient (only: returns without panicking)");
        return Ok(());
    }
    if zero_div {
        acc.nontriv("empty or all-zero divisor");
        ensure!(res.is_err(), "division by the zero polynomial returned Ok");
        return Ok(());
    }
    let (q, rm) = match res {
        Ok(x) => x,
        Err(e) => return Err(format!("Err({}) although the divisor has a non-zero leading coefficient", e)),
    };
    let qc = coeffs_of(&q);
    let rc = coeffs_of(&rm);
    ensure!(qc.iter().chain(rc.iter()).all(|c| c.is_finite()), "non-finite coefficients: q = {:?} r = {:?}", qc, rc);
    let n = (qc.len() + v.len()).max(rc.len()).max(u.len()) + 1;
    // residual u - (q*v + r) in double-double, scale = sum of magnitudes
    let mut worst = 0.0f64;
    let mut scale = 0.0f64;
    for k in 0..n {
        let mut s = mc::fl::DD::from(if k < u.len() { u[k] } else { 0.0 });
        let mut sc = if k < u.len() { u[k].abs() } else { 0.0 };
        for i in 0..qc.len() {
            if k >= i && k - i < v.len() {
                s = s.sub(mc::fl::DD::from(qc[i]).mul(mc::fl::DD::from(v[k - i])));
                sc += (qc[i] * v[k - i]).abs();
            }
        }
        if k < rc.len() {
            s = s.sub(mc::fl::DD::from(rc[k]));
            sc += rc[k].abs();
        }
        worst = worst.max(s.abs());
        scale = scale.max(sc);
    }
    let rel = if scale == 0.0 { 0.0 } else { worst / scale };
    acc.worst("division_identity_relative_error", rel, || format!("u={:?} v={:?}", u, v));
    ensure!(rel <= REL, "u - (q*v + r) has relative size {:e} (q = {:?}, r = {:?})", rel, qc, rc);
    let mut rl = rc.len();
    while rl > 0 && rc[rl - 1] == 0.0 {
        rl -= 1;
    }
    ensure!(rl == 0 || rl < v.len(), "deg r = {} is not below deg v = {} (r = {:?})", rl - 1, v.len() - 1, rc);
    if rl > 0 {
        acc.nontriv("non-zero remainder");
    }
    if u.len() < v.len() {
        acc.nontriv("divisor longer than dividend");
    }
    // leading terms that do not cancel exactly in floating point (the mechanism named by the property)
    let t = u[u.len() - 1] / v[v.len() - 1];
    if u.len() >= v.len() && u[u.len() - 1] - t * v[v.len() - 1] != 0.0 {
        acc.nontriv("leading term does not cancel exactly in f64");
    }
    Ok(())
}

fn check_cmplx(u: &[Cmplx], v: &[Cmplx], acc: &mut Acc) -> Result<(), String> {
    let pu = Polynomial::new(u.to_vec());
    let pv = Polynomial::new(v.to_vec());
    let z = Cmplx::new(0.0, 0.0);
    let zero_div = v.iter().all(|c| *c == z);
    let lead_zero = !zero_div && *v.last().unwrap() == z;
    let res = pu.polydiv(&pv);
    if lead_zero {
        return Ok(());
    }
    if zero_div {
        ensure!(res.is_err(), "division by the zero polynomial returned Ok");
        return Ok(());
    }
    let (q, rm) = match res {
        Ok(x) => x,
        Err(e) => return Err(format!("Err({}) although the divisor has a non-zero leading coefficient", e)),
    };
    let qc = coeffs_of(&q);
    let rc = coeffs_of(&rm);
    let n = (qc.len() + v.len()).max(rc.len()).max(u.len()) + 1;
    let mut worst = 0.0f64;
    let mut scale = 0.0f64;
    for k in 0..n {
        let mut s = if k < u.len() { u[k] } else { z };
        let mut sc = s.abs();
        for i in 0..qc.len() {
            if k >= i && k - i < v.len() {
                s -= qc[i] * v[k - i];
                sc += qc[i].abs() * v[k - i].abs();
            }
        }
        if k < rc.len() {
            s -= rc[k];
            sc += rc[k].abs();
        }
        worst = worst.max(s.abs());
        scale = scale.max(sc);
    }
    let rel = if scale == 0.0 { 0.0 } else { worst / scale };
    let rel = if rel.is_nan() { f64::INFINITY } else { rel };
    acc.worst("division_identity_relative_error_complex", rel, || format!("u={:?} v={:?}", u, v));
    ensure!(rel <= 1e-12, "complex u - (q*v + r) has relative size {:e}", rel);
    let mut rl = rc.len();
    while rl > 0 && rc[rl - 1] == z {
        rl -= 1;
    }
    ensure!(rl == 0 || rl < v.len(), "complex: deg r = {} is not below deg v = {}", rl - 1, v.len() - 1);
    acc.nontriv("complex division judged");
    Ok(())
}

/// u = su * u0, v = sv * v0 with su, sv powers of two up to 2^+-480: the quotient is (su / sv) q0 and the remainder su r0, so
/// after exact unscaling the division identity is judged on the O(1) twins u0, v0 (hand-written complex arithmetic)
fn check_cmplx_scaled(u0: &[Cmplx], v0: &[Cmplx], su: f64, sv: f64, acc: &mut Acc) -> Result<(), String> {
    let z = Cmplx::new(0.0, 0.0);
    if v0.iter().all(|c| *c == z) || *v0.last().unwrap() == z {
        return Ok(());
    }
    let pu = Polynomial::new(u0.iter().map(|c| Cmplx::new(c.real * su, c.imag * su)).collect::<Vec<_>>());
    let pv = Polynomial::new(v0.iter().map(|c| Cmplx::new(c.real * sv, c.imag * sv)).collect::<Vec<_>>());
    let (q, rm) = match pu.polydiv(&pv) {
        Ok(x) => x,
        Err(e) => return Err(format!("Err({}) although the divisor has a non-zero leading coefficient", e)),
    };
    // (re, im) pairs, unscaled exactly: q / (su / sv) in two steps, r / su
    let qc: Vec<(f64, f64)> = coeffs_of(&q).iter().map(|c| (c.real / su * sv, c.imag / su * sv)).collect();
    let rc: Vec<(f64, f64)> = coeffs_of(&rm).iter().map(|c| (c.real / su, c.imag / su)).collect();
    ensure!(qc.iter().chain(rc.iter()).all(|c| c.0.is_finite() && c.1.is_finite()), "quotient {:?} / remainder {:?} not finite", coeffs_of(&q), coeffs_of(&rm));
    let n = (qc.len() + v0.len()).max(rc.len()).max(u0.len()) + 1;
    let mut worst = 0.0f64;
    let mut scale = 0.0f64;
    for k in 0..n {
        let (mut sr, mut si) = if k < u0.len() { (u0[k].real, u0[k].imag) } else { (0.0, 0.0) };
        let mut sc = sr.hypot(si);
        for i in 0..qc.len() {
            if k >= i && k - i < v0.len() {
                let w = v0[k - i];
                sr -= qc[i].0 * w.real - qc[i].1 * w.imag;
                si -= qc[i].0 * w.imag + qc[i].1 * w.real;
                sc += qc[i].0.hypot(qc[i].1) * w.real.hypot(w.imag);
            }
        }
        if k < rc.len() {
            sr -= rc[k].0;
            si -= rc[k].1;
            sc += rc[k].0.hypot(rc[k].1);
        }
        worst = worst.max(sr.hypot(si));
        scale = scale.max(sc);
    }
    let rel = if scale == 0.0 { 0.0 } else { worst / scale };
    let rel = if rel.is_nan() { f64::INFINITY } else { rel };
    acc.worst("division_identity_relative_error_complex_scaled", rel, || format!("u0={:?} v0={:?} su={:e} sv={:e}", u0, v0, su, sv));
    ensure!(rel <= 1e-12, "complex (scaled {:e} / {:e}) u - (q*v + r) has relative size {:e}; q = {:?}, r = {:?}", su, sv, rel, coeffs_of(&q), coeffs_of(&rm));
    let mut rl = rc.len();
    while rl > 0 && rc[rl - 1] == (0.0, 0.0) {
        rl -= 1;
    }
    ensure!(rl == 0 || rl < v0.len(), "complex (scaled): deg r = {} is not below deg v = {}", rl - 1, v0.len() - 1);
    acc.nontriv("complex division at extreme scale judged");
    Ok(())
}

fn main() {
    let ctx = Ctx::from_args("C12");
    ctx.level("exploration");
    ctx.rule("E1: exact - every dividend of length 0..4 and divisor of length 0..3 over {0,1,-1,2,-2} plus structured pairs up to degree 10/6; f64 - every dividend of length 1..4 (quick) / 1..6 (thorough) and divisor of length 1..3 over {1,-3,0.1,49,1e-6,-7.3e5,0,1/3}, and dividends of degree 5..10 with divisors of degree 0..6 built from letter cycles; integer-valued f64; Complex<f64> over 6 letters. Oracle: non-zero leading coefficient => Ok, u = q*v + r (exact / relative 1e-13 by double-double residual), deg r < deg v or r = 0; empty or all-zero divisor => Err; never a panic; a per-call watchdog reports a spin. Non-trivial: non-zero remainders, divisors longer than the dividend, constant divisors, leading terms that do not cancel exactly in f64.");
    ctx.assume("divisors whose stored leading coefficient is zero are outside the claim (only absence of a panic is required over floats)");
    ctx.threshold("division_identity_relative_error", REL);
    ctx.threshold("division_identity_relative_error_complex", 1e-12);
    ctx.threshold("division_identity_relative_error_complex_scaled", 1e-12);
    ctx.require(&["empty or all-zero divisor", "divisor longer than dividend", "constant divisor", "non-zero remainder", "leading term does not cancel exactly in f64", "complex division judged"]);
    let z5 = vec![r(0), r(1), r(-1), r(2), r(-2)];
    let nu = count_vecs(0, 4, 5);
    let nv = count_vecs(0, 3, 5);
    ctx.lattice(
        "exact: dividends of length 0..4 x divisors of length 0..3 over {0,1,-1,2,-2}",
        nu * nv,
        |idx| format!("u={:?} v={:?}", vec_from_idx(idx / nv, 0, &z5), vec_from_idx(idx % nv, 0, &z5)),
        |idx, acc| {
            let u = vec_from_idx(idx / nv, 0, &z5);
            let v = vec_from_idx(idx % nv, 0, &z5);
            let mut local = Acc::new("t");
            let res = catch(|| check_exact(&u, &v, &mut local));
            if local.nontrivial > 0 {
                for (k, _) in local.hits.iter() {
                    acc.nontriv(k);
                }
            } else {
                for (k, _) in local.hits.iter() {
                    acc.hit(k);
                }
            }
            let key = || format!("exact u={:?} v={:?}", u, v);
            match res {
                Ok(Ok(())) => {}
                Ok(Err(e)) => acc.fail(idx, key(), e),
                Err(p) => acc.fail(idx, key(), format!("unexpected panic: {}", p)),
            }
        },
    );
    // structured exact pairs up to degree 10 / 6
    let mut us: Vec<Vec<Rat>> = vec![];
    for d in 5..=10usize {
        us.push((0..=d).map(|k| r((k as i64 * 7 + 3) % 11 - 5)).map(|c| if c.is_zero() { r(1) } else { c }).collect());
        let mut m = vec![r(0); d + 1];
        m[d] = r(1);
        m[0] = r(-1);
        us.push(m); // x^d - 1
        us.push((0..=d).map(|k| if k % 2 == 0 { rq(1, 2) } else { r(-3) }).collect());
        // monomials and polynomials whose low coefficients all vanish (x^s times a short polynomial)
        let mut m = vec![r(0); d + 1];
        m[d] = r(1);
        us.push(m);
        for sft in [d - 1, d - 2, d / 2] {
            let mut m = vec![r(0); d + 1];
            for k in sft..=d {
                m[k] = r([3, -1, 2, 1][(k - sft) % 4]);
            }
            us.push(m);
        }
    }
    let mut vs: Vec<Vec<Rat>> = vec![];
    for d in 0..=6usize {
        vs.push((0..=d).map(|k| r((k as i64 * 5 + 2) % 7 - 3)).map(|c| if c.is_zero() { r(2) } else { c }).collect());
        let mut m = vec![r(0); d + 1];
        m[d] = rq(-3, 2);
        m[0] = r(1);
        vs.push(m);
        let mut m = vec![r(1); d + 1];
        m[d] = r(-1);
        vs.push(m);
        // monomial divisors c x^d
        let mut m = vec![r(0); d + 1];
        m[d] = r(2);
        vs.push(m);
    }
    let (nus, nvs) = (us.len() as u64, vs.len() as u64);
    ctx.lattice(
        "exact: structured dividends of degree 5..10 x divisors of degree 0..6",
        nus * nvs,
        |idx| format!("u={:?} v={:?}", us[(idx / nvs) as usize], vs[(idx % nvs) as usize]),
        |idx, acc| {
            let (u, v) = (&us[(idx / nvs) as usize], &vs[(idx % nvs) as usize]);
            acc.nontriv("degree >= 5 dividend");
            let mut local = Acc::new("t");
            judge(acc, idx, || format!("exact u={:?} v={:?}", u, v), || check_exact(u, v, &mut local));
        },
    );
    // floats
    let f8 = vec![1.0, -3.0, 0.1, 49.0, 1e-6, -7.3e5, 0.0, 1.0 / 3.0];
    let maxu = ctx.pick(4, 6);
    let nu = count_vecs(1, maxu, 8);
    let nv = count_vecs(1, 3, 8);
    ctx.lattice(
        &format!("f64: dividends of length 1..{} x divisors of length 1..3 over {{1,-3,0.1,49,1e-6,-7.3e5,0,1/3}}", maxu),
        nu * nv,
        |idx| format!("u={:?} v={:?}", vec_from_idx(idx / nv, 1, &f8), vec_from_idx(idx % nv, 1, &f8)),
        |idx, acc| {
            let u = vec_from_idx(idx / nv, 1, &f8);
            let v = vec_from_idx(idx % nv, 1, &f8);
            let mut local = Acc::new("t");
            let res = catch(|| check_f64(&u, &v, &mut local));
            for (k, _) in local.hits.iter() {
                if local.nontrivial > 0 {
                    acc.nontriv(k);
                } else {
                    acc.hit(k);
                }
            }
            acc.merge_worst(local);
            let key = || format!("f64 u={:?} v={:?}", u, v);
            match res {
                Ok(Ok(())) => {}
                Ok(Err(e)) => acc.fail(idx, key(), e),
                Err(p) => acc.fail(idx, key(), format!("unexpected panic: {}", p)),
            }
        },
    );
    // f64 pairs of the full degree range of the property: dividends of degree 5..10, divisors of degree 0..6, coefficient
    // sequences cycling through the 8 letters from every starting letter (zeros inside, leading coefficient made non-zero)
    {
        let f8c = f8.clone();
        ctx.lattice(
            "f64: dividends of degree 5..10 x divisors of degree 0..6, letter cycles from 8 x 8 starting positions",
            6 * 7 * 64,
            |idx| format!("{}", idx),
            |idx, acc| {
                let (ru, rv) = ((idx % 8) as usize, ((idx / 8) % 8) as usize);
                let dv = ((idx / 64) % 7) as usize;
                let du = 5 + (idx / 448) as usize;
                let mut u: Vec<f64> = (0..=du).map(|k| f8c[(k * 3 + ru) % 8]).collect();
                let mut v: Vec<f64> = (0..=dv).map(|k| f8c[(k * 5 + rv) % 8]).collect();
                if u[du] == 0.0 {
                    u[du] = -3.0;
                }
                if v[dv] == 0.0 {
                    v[dv] = 0.1;
                }
                acc.nontriv("f64 dividend of degree >= 5");
                let mut local = Acc::new("t");
                let res = catch(|| check_f64(&u, &v, &mut local));
                acc.merge_worst(local);
                let key = || format!("f64 u={:?} v={:?}", u, v);
                match res {
                    Ok(Ok(())) => {}
                    Ok(Err(e)) => acc.fail(idx, key(), e),
                    Err(p) => acc.fail(idx, key(), format!("unexpected panic: {}", p)),
                }
            },
        );
    }
    let i5 = vec![0.0, 1.0, -1.0, 2.0, 7.0];
    let nu = count_vecs(0, 4, 5);
    let nv = count_vecs(0, 3, 5);
    ctx.lattice(
        "integer-valued f64: dividends of length 0..4 x divisors of length 0..3 over {0,1,-1,2,7}",
        nu * nv,
        |idx| format!("u={:?} v={:?}", vec_from_idx(idx / nv, 0, &i5), vec_from_idx(idx % nv, 0, &i5)),
        |idx, acc| {
            let u = vec_from_idx(idx / nv, 0, &i5);
            let v = vec_from_idx(idx % nv, 0, &i5);
            if u.is_empty() {
                // the empty dividend is the zero polynomial
                judge(acc, idx, || format!("f64 u=[] v={:?}", v), || {
                    let res = Polynomial::<f64>::new(vec![]).polydiv(&Polynomial::new(v.clone()));
                    if v.iter().all(|c| *c == 0.0) {
                        ensure!(res.is_err(), "zero divisor accepted");
                    } else if *v.last().unwrap() != 0.0 {
                        let (q, rm) = res.map_err(|e| format!("Err({})", e))?;
                        ensure!(coeffs_of(&q).iter().all(|c| *c == 0.0) && coeffs_of(&rm).iter().all(|c| *c == 0.0), "0 / v is not 0");
                    }
                    Ok(())
                });
                return;
            }
            if v.is_empty() {
                judge(acc, idx, || format!("f64 u={:?} v=[]", u), || {
                    ensure!(Polynomial::new(u.clone()).polydiv(&Polynomial::<f64>::new(vec![])).is_err(), "empty divisor accepted");
                    Ok(())
                });
                acc.nontriv("empty or all-zero divisor");
                return;
            }
            let mut local = Acc::new("t");
            let res = catch(|| check_f64(&u, &v, &mut local));
            acc.merge_worst(local);
            let key = || format!("f64 u={:?} v={:?}", u, v);
            match res {
                Ok(Ok(())) => {}
                Ok(Err(e)) => acc.fail(idx, key(), e),
                Err(p) => acc.fail(idx, key(), format!("unexpected panic: {}", p)),
            }
        },
    );
    let c6 = vec![Cmplx::new(0., 0.), Cmplx::new(1., 0.), Cmplx::new(0., 1.), Cmplx::new(0.1, -3.), Cmplx::new(49., 1e-3), Cmplx::new(-1. / 3., 0.5)];
    let nu = count_vecs(1, ctx.pick(3, 4), 6);
    let nv = count_vecs(1, 3, 6);
    ctx.lattice(
        "Complex<f64>: dividends of length 1..3(4) x divisors of length 1..3 over 6 letters",
        nu * nv,
        |idx| format!("u={:?} v={:?}", vec_from_idx(idx / nv, 1, &c6), vec_from_idx(idx % nv, 1, &c6)),
        |idx, acc| {
            let u = vec_from_idx(idx / nv, 1, &c6);
            let v = vec_from_idx(idx % nv, 1, &c6);
            let mut local = Acc::new("t");
            let res = catch(|| check_cmplx(&u, &v, &mut local));
            if local.nontrivial > 0 {
                acc.nontriv("complex division judged");
            }
            acc.merge_worst(local);
            let key = || format!("complex u={:?} v={:?}", u, v);
            match res {
                Ok(Ok(())) => {}
                Ok(Err(e)) => acc.fail(idx, key(), e),
                Err(p) => acc.fail(idx, key(), format!("unexpected panic: {}", p)),
            }
        },
    );
    {
        // f64 dividend and divisor each scaled by a power of two up to 2^+-600 (products of two coefficients leave the range, every
        // quotient coefficient is representable): the identity is judged on the unscaled twins after exact unscaling
        let il = [0.0f64, 1.0, -1.0, 2.0, -3.0];
        let scales = [2f64.powi(-600), 2f64.powi(-520), 1.0, 2f64.powi(520), 2f64.powi(600)];
        let nu = count_vecs(1, ctx.pick(4, 5), 5);
        let nv = count_vecs(1, 3, 5);
        let per = 25u64;
        ctx.lattice(
            "f64 at extreme scale: dividends of length 1..4(5) x divisors of length 1..3 over {0,+-1,2,-3}, each side scaled by {2^-600,2^-520,1,2^520,2^600} (representable quotients)",
            nu * nv * per,
            |idx| format!("u0={:?} v0={:?} scales#{}", vec_from_idx(idx / per / nv, 1, &il), vec_from_idx(idx / per % nv, 1, &il), idx % per),
            |idx, acc| {
                let u0 = vec_from_idx(idx / per / nv, 1, &il);
                let v0 = vec_from_idx(idx / per % nv, 1, &il);
                let su = scales[(idx % per) as usize / 5];
                let sv = scales[(idx % per) as usize % 5];
                if (su.log2() - sv.log2()).abs() > 1000.0 || *v0.last().unwrap() == 0.0 {
                    return;
                }
                let key = || format!("f64 scaled u0={:?} v0={:?} su={:e} sv={:e}", u0, v0, su, sv);
                let res = catch(|| -> Result<(), String> {
                    let pu = Polynomial::new(u0.iter().map(|c| c * su).collect::<Vec<f64>>());
                    let pv = Polynomial::new(v0.iter().map(|c| c * sv).collect::<Vec<f64>>());
                    let (q, rm) = pu.polydiv(&pv).map_err(|e| format!("Err({}) although the divisor has a non-zero leading coefficient", e))?;
                    let qc: Vec<f64> = coeffs_of(&q).iter().map(|c| c / su * sv).collect();
                    let rc: Vec<f64> = coeffs_of(&rm).iter().map(|c| c / su).collect();
                    ensure!(qc.iter().chain(rc.iter()).all(|c| c.is_finite()), "quotient {:?} / remainder {:?} not finite", coeffs_of(&q), coeffs_of(&rm));
                    let n = (qc.len() + v0.len()).max(rc.len()).max(u0.len()) + 1;
                    let (mut worst, mut scale) = (0.0f64, 0.0f64);
                    for k in 0..n {
                        let mut s = if k < u0.len() { u0[k] } else { 0.0 };
                        let mut sc = s.abs();
                        for i in 0..qc.len() {
                            if k >= i && k - i < v0.len() {
                                s -= qc[i] * v0[k - i];
                                sc += (qc[i] * v0[k - i]).abs();
                            }
                        }
                        if k < rc.len() {
                            s -= rc[k];
                            sc += rc[k].abs();
                        }
                        worst = worst.max(s.abs());
                        scale = scale.max(sc);
                    }
                    let rel = if scale == 0.0 { 0.0 } else { worst / scale };
                    ensure!(rel <= 1e-12, "f64 (scaled {:e} / {:e}) u - (q*v + r) has relative size {:e}; q = {:?}, r = {:?}", su, sv, rel, coeffs_of(&q), coeffs_of(&rm));
                    let mut rl = rc.len();
                    while rl > 0 && rc[rl - 1] == 0.0 {
                        rl -= 1;
                    }
                    ensure!(rl == 0 || rl < v0.len(), "f64 (scaled): deg r = {} is not below deg v = {}", rl - 1, v0.len() - 1);
                    Ok(())
                });
                if su != 1.0 || sv != 1.0 {
                    acc.nontriv("f64 division at extreme scale judged");
                }
                match res {
                    Ok(Ok(())) => {}
                    Ok(Err(e)) => acc.fail(idx, key(), e),
                    Err(p) => acc.fail(idx, key(), format!("unexpected panic: {}", p)),
                }
            },
        );
    }
    {
        // every dividend / divisor pair of the small complex lattice, each scaled by a power of two up to 2^+-480
        let c5 = vec![Cmplx::new(0., 0.), Cmplx::new(1., 0.), Cmplx::new(0., 1.), Cmplx::new(-1., 2.), Cmplx::new(3., -1.)];
        let scales = [2f64.powi(-480), 2f64.powi(-340), 1.0, 2f64.powi(342), 2f64.powi(480)];
        let nu = count_vecs(1, ctx.pick(3, 4), 5);
        let nv = count_vecs(1, 3, 5);
        let per = (scales.len() * scales.len()) as u64;
        ctx.lattice(
            "Complex<f64> at extreme scale: dividends of length 1..3(4) x divisors of length 1..3 over {0,1,i,-1+2i,3-i}, each side scaled by {2^-480,2^-340,1,2^342,2^480}",
            nu * nv * per,
            |idx| format!("u0={:?} v0={:?} scales#{}", vec_from_idx(idx / per / nv, 1, &c5), vec_from_idx(idx / per % nv, 1, &c5), idx % per),
            |idx, acc| {
                let u0 = vec_from_idx(idx / per / nv, 1, &c5);
                let v0 = vec_from_idx(idx / per % nv, 1, &c5);
                let su = scales[(idx % per) as usize / scales.len()];
                let sv = scales[(idx % per) as usize % scales.len()];
                let mut local = Acc::new("t");
                let res = catch(|| check_cmplx_scaled(&u0, &v0, su, sv, &mut local));
                if local.nontrivial > 0 && (su != 1.0 || sv != 1.0) {
                    acc.nontriv("complex division at extreme scale judged");
                }
                acc.merge_worst(local);
                let key = || format!("complex scaled u0={:?} v0={:?} su={:e} sv={:e}", u0, v0, su, sv);
                match res {
                    Ok(Ok(())) => {}
                    Ok(Err(e)) => acc.fail(idx, key(), e),
                    Err(p) => acc.fail(idx, key(), format!("unexpected panic: {}", p)),
                }
            },
        );
    }
    // Complex<f64> division by a leading coefficient of modulus beyond ~1e154 / below ~1e-154 (unscaled complex division, see C01):
    // the quotient was NaN although every coefficient ratio is O(1). Repaired by 8d587e4, demanded now.
    {
        ctx.listed_cases(
            "listed inputs: Complex<f64> polynomial division at extreme magnitude (bug-hunt inputs, repaired by 8d587e4)",
            vec![
                ("extreme-complex polydiv [3e200] / [1e200]".to_string(), Box::new(|| {
                    let u = Polynomial::new(vec![Cmplx::new(3e200, 0.0)]);
                    let v = Polynomial::new(vec![Cmplx::new(1e200, 0.0)]);
                    let (q, _r) = u.polydiv(&v).map_err(|e| format!("Err({})", e))?;
                    let qc = coeffs_of(&q);
                    ensure!(qc.len() == 1 && (qc[0].real - 3.0).abs() <= 1e-12 && qc[0].imag == 0.0, "q = {:?} but the quotient is 3", qc);
                    Ok(())
                })),
                ("extreme-complex polydiv [3e-200] / [1e-200]".to_string(), Box::new(|| {
                    let u = Polynomial::new(vec![Cmplx::new(3e-200, 0.0)]);
                    let v = Polynomial::new(vec![Cmplx::new(1e-200, 0.0)]);
                    let (q, _r) = u.polydiv(&v).map_err(|e| format!("Err({})", e))?;
                    let qc = coeffs_of(&q);
                    ensure!(qc.len() == 1 && (qc[0].real - 3.0).abs() <= 1e-12 && qc[0].imag == 0.0, "q = {:?} but the quotient is 3", qc);
                    Ok(())
                })),
            ],
        );
    }
    std::process::exit(ctx.finish());
}
