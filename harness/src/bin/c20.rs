//! C20 - mismatched shapes are rejected; operands are never mutated; clones are independent.
use mc::bfs::*;
use mc::*;
use ohsl::{Banded, Cmplx, Matrix, Mesh1D, Mesh2D, Polynomial, Sparse, Tridiagonal, Vector};
use std::cell::RefCell;
use std::collections::BTreeMap;

// --- builders with pairwise distinct entries ---------------------------------------------------------------
fn vecr(n: usize, off: i64) -> Vector<Rat> {
    Vector::create((0..n).map(|i| r(off + i as i64 + 1)).collect())
}
fn vecf(n: usize) -> Vector<f64> {
    Vector::create((0..n).map(|i| 1.0 + i as f64).collect())
}
fn matr(rr: usize, c: usize, off: i64) -> Matrix<Rat> {
    let mut m = Matrix::new(rr, c, r(0));
    for i in 0..rr {
        for j in 0..c {
            m[(i, j)] = r(off + (i * c + j) as i64 + 1) + if i == j { r(50) } else { r(0) };
        }
    }
    m
}
fn band(n: usize, m1: usize, m2: usize, off: i64) -> Banded<Rat> {
    let mut b = Banded::new(n, m1, m2, r(0));
    for i in 0..n {
        for j in 0..n {
            if j <= i + m2 && i <= j + m1 {
                b[(i, j)] = r(off + (i * n + j) as i64 + 1) + if i == j { r(40) } else { r(0) };
            }
        }
    }
    b
}
fn tri(n: usize, off: i64) -> Tridiagonal<Rat> {
    Tridiagonal::with_vecs((0..n - 1).map(|i| r(off + i as i64 + 1)).collect(), (0..n).map(|i| r(off + 20 + i as i64)).collect(), (0..n - 1).map(|i| r(off - 3 - i as i64)).collect())
}
fn sparse(rr: usize, c: usize) -> Sparse<f64> {
    let mut t = vec![];
    for i in 0..rr {
        for j in 0..c {
            if (i + 2 * j) % 3 != 1 || i == j {
                t.push((i, j, 1.0 + (i * c + j) as f64 + if i == j { 10.0 } else { 0.0 }));
            }
        }
    }
    Sparse::from_triplets(rr, c, &mut t)
}
/// a matrix of the given shape without any stored entry: from no triplets (route 0) or from empty compressed-column arrays
fn empty_sparse(rr: usize, c: usize, route: usize) -> Sparse<f64> {
    if route == 0 {
        let mut t: Vec<(usize, usize, f64)> = vec![];
        Sparse::from_triplets(rr, c, &mut t)
    } else {
        Sparse::from_vecs(rr, c, vec![], vec![], vec![0usize; c + 1])
    }
}
fn skey(s: &Sparse<f64>) -> String {
    format!("{} {} {} {:?} {:?} {:?}", s.rows, s.cols, s.nonzero, s.val, s.row_index, s.col_start)
}
fn poly(n: usize) -> Polynomial<Rat> {
    Polynomial::new((0..n).map(|i| r(i as i64 + 1)).collect())
}

/// run `op` on a freshly built state; report (panicked, state changed, panic message)
fn probe<S>(setup: &dyn Fn() -> S, key: &dyn Fn(&S) -> String, op: &dyn Fn(&mut S)) -> (bool, bool, String) {
    let mut s = setup();
    let before = key(&s);
    let res = catch(|| op(&mut s));
    let after = key(&s);
    match res {
        Ok(()) => (false, before != after, String::new()),
        Err(m) => (true, before != after, m),
    }
}

thread_local! {
    static COUNTS: RefCell<BTreeMap<String, (u64, u64)>> = RefCell::new(BTreeMap::new());
}

/// verdict for one call: must panic iff `mismatch`; when it panics the state must be unchanged;
/// when `readonly` the state must be unchanged in any case.
fn verdict(out: &mut Vec<(String, String)>, entry: &str, args: String, mismatch: bool, readonly: bool, res: (bool, bool, String)) {
    COUNTS.with(|c| {
        let mut c = c.borrow_mut();
        let e = c.entry(entry.to_string()).or_insert((0, 0));
        e.0 += 1;
        if mismatch {
            e.1 += 1;
        }
    });
    let (panicked, changed, msg) = res;
    if is_overflow(&msg) {
        out.push((format!("{} {}", entry, args), "MACHINERY rational overflow".into()));
        return;
    }
    if mismatch && !panicked {
        out.push((format!("{} {}", entry, args), "mismatched / out-of-range arguments were accepted (no panic)".to_string()));
    }
    if !mismatch && panicked {
        out.push((format!("{} {}", entry, args), format!("conforming arguments were rejected: {}", msg)));
    }
    if panicked && changed {
        out.push((format!("{} {}", entry, args), format!("storage was modified before the call was refused ({})", msg)));
    }
    if readonly && changed {
        out.push((format!("{} {}", entry, args), "a by-reference / &self operation modified its operands".to_string()));
    }
}

const N: usize = 6;

fn vector_entries(out: &mut Vec<(String, String)>) {
    for a in 0..=N {
        for b in 0..=N {
            let mm = a != b;
            let setup = || (vecr(a, 0), vecr(b, 100));
            let key = |s: &(Vector<Rat>, Vector<Rat>)| format!("{:?}|{:?}", s.0, s.1);
            let ar = format!("sizes {} {}", a, b);
            verdict(out, "&Vector + &Vector", ar.clone(), mm, true, probe(&setup, &key, &|s| { let _ = &s.0 + &s.1; }));
            verdict(out, "Vector + &Vector", ar.clone(), mm, true, probe(&setup, &key, &|s| { let _ = s.0.clone() + &s.1; }));
            verdict(out, "Vector + Vector", ar.clone(), mm, true, probe(&setup, &key, &|s| { let _ = s.0.clone() + s.1.clone(); }));
            verdict(out, "&Vector - &Vector", ar.clone(), mm, true, probe(&setup, &key, &|s| { let _ = &s.0 - &s.1; }));
            verdict(out, "Vector - &Vector", ar.clone(), mm, true, probe(&setup, &key, &|s| { let _ = s.0.clone() - &s.1; }));
            verdict(out, "Vector - Vector", ar.clone(), mm, true, probe(&setup, &key, &|s| { let _ = s.0.clone() - s.1.clone(); }));
            verdict(out, "Vector += Vector", ar.clone(), mm, false, probe(&setup, &key, &|s| { let w = s.1.clone(); s.0 += w; }));
            verdict(out, "Vector -= Vector", ar.clone(), mm, false, probe(&setup, &key, &|s| { let w = s.1.clone(); s.0 -= w; }));
            verdict(out, "Vector::dot", ar.clone(), mm, true, probe(&setup, &key, &|s| { let _ = s.0.dot(&s.1); }));
            let setupf = || (vecf(a), vecf(b));
            let keyf = |s: &(Vector<f64>, Vector<f64>)| format!("{:?}|{:?}", s.0, s.1);
            verdict(out, "Vector::dot_f64", ar.clone(), mm, true, probe(&setupf, &keyf, &|s| { let _ = s.0.dot_f64(&s.1); }));
            // owned and borrowed forms agree
            if !mm {
                let (x, y) = setup();
                if (&x + &y).vec != (x.clone() + y.clone()).vec || (&x - &y).vec != (x.clone() - y.clone()).vec {
                    out.push((format!("Vector owned vs borrowed {}", ar), "owned and borrowed operator forms differ".into()));
                }
            }
        }
        // checked accessors: every (start, end) up to size + 2, every index up to size + 2
        let setup1 = || vecr(a, 0);
        let key1 = |s: &Vector<Rat>| format!("{:?}", s);
        for st in 0..=a + 2 {
            for en in 0..=a + 2 {
                let bad = st > en || st >= a || en >= a;
                verdict(out, "Vector::sum_slice", format!("size {} range {}..={}", a, st, en), bad, true, probe(&setup1, &key1, &|s| { let _ = s.sum_slice(st, en); }));
                verdict(out, "Vector::product_slice", format!("size {} range {}..={}", a, st, en), bad, true, probe(&setup1, &key1, &|s| { let _ = s.product_slice(st, en); }));
            }
        }
        for i in 0..=a + 2 {
            verdict(out, "Vector[i] read", format!("size {} index {}", a, i), i >= a, true, probe(&setup1, &key1, &|s| { let _ = s[i]; }));
            verdict(out, "Vector[i] write", format!("size {} index {}", a, i), i >= a, false, probe(&setup1, &key1, &|s| { s[i] = r(9); }));
            verdict(out, "Vector::insert", format!("size {} pos {}", a, i), i > a, false, probe(&setup1, &key1, &|s| { s.insert(i, r(9)); }));
            for j in 0..=a + 1 {
                verdict(out, "Vector::swap", format!("size {} ({},{})", a, i, j), i >= a || j >= a, false, probe(&setup1, &key1, &|s| { s.swap(i, j); }));
            }
        }
        verdict(out, "Vector::pop", format!("size {}", a), a == 0, false, probe(&setup1, &key1, &|s| { let _ = s.pop(); }));
    }
}

/// binary vector and matrix operations on operand sizes well beyond 6 (sizes that agree modulo 4, 8 and 16 included): a
/// blocked or unrolled size check must still refuse every mismatched pair
fn large_size_entries(out: &mut Vec<(String, String)>) {
    let sizes = [0usize, 1, 3, 5, 8, 9, 11, 13, 16, 17, 24, 32, 33, 64];
    for &a in &sizes {
        for &b in &sizes {
            let mm = a != b;
            let setup = || (vecr(a, 0), vecr(b, 100));
            let key = |s: &(Vector<Rat>, Vector<Rat>)| format!("{:?}|{:?}", s.0, s.1);
            let ar = format!("sizes {} {}", a, b);
            verdict(out, "&Vector + &Vector (large)", ar.clone(), mm, true, probe(&setup, &key, &|s| { let _ = &s.0 + &s.1; }));
            verdict(out, "Vector + Vector (large)", ar.clone(), mm, true, probe(&setup, &key, &|s| { let _ = s.0.clone() + s.1.clone(); }));
            verdict(out, "&Vector - &Vector (large)", ar.clone(), mm, true, probe(&setup, &key, &|s| { let _ = &s.0 - &s.1; }));
            verdict(out, "Vector - &Vector (large)", ar.clone(), mm, true, probe(&setup, &key, &|s| { let _ = s.0.clone() - &s.1; }));
            verdict(out, "Vector += Vector (large)", ar.clone(), mm, false, probe(&setup, &key, &|s| { let w = s.1.clone(); s.0 += w; }));
            verdict(out, "Vector -= Vector (large)", ar.clone(), mm, false, probe(&setup, &key, &|s| { let w = s.1.clone(); s.0 -= w; }));
            verdict(out, "Vector::dot (large)", ar.clone(), mm, true, probe(&setup, &key, &|s| { let _ = s.0.dot(&s.1); }));
            let setupf = || (vecf(a), vecf(b));
            let keyf = |s: &(Vector<f64>, Vector<f64>)| format!("{:?}|{:?}", s.0, s.1);
            verdict(out, "Vector::dot_f64 (large)", ar.clone(), mm, true, probe(&setupf, &keyf, &|s| { let _ = s.0.dot_f64(&s.1); }));
        }
    }
    let shapes = [(2usize, 9usize), (9, 2), (8, 8), (16, 3), (3, 16), (9, 9), (1, 17), (17, 1), (8, 16), (16, 8)];
    let key2 = |s: &(Matrix<Rat>, Matrix<Rat>)| format!("{:?}#{}x{}|{:?}#{}x{}", s.0, s.0.rows(), s.0.cols(), s.1, s.1.rows(), s.1.cols());
    for &(r1, c1) in &shapes {
        for &(r2, c2) in &shapes {
            let setup = || (matr(r1, c1, 0), matr(r2, c2, 100));
            let ar = format!("{}x{} with {}x{}", r1, c1, r2, c2);
            let mm = r1 != r2 || c1 != c2;
            verdict(out, "&Matrix + &Matrix (large)", ar.clone(), mm, true, probe(&setup, &key2, &|s| { let _ = &s.0 + &s.1; }));
            verdict(out, "&Matrix - &Matrix (large)", ar.clone(), mm, true, probe(&setup, &key2, &|s| { let _ = &s.0 - &s.1; }));
            verdict(out, "Matrix += &Matrix (large)", ar.clone(), mm, false, probe(&setup, &key2, &|s| { let w = s.1.clone(); s.0 += &w; }));
            verdict(out, "Matrix -= Matrix (large)", ar.clone(), mm, false, probe(&setup, &key2, &|s| { let w = s.1.clone(); s.0 -= w; }));
            verdict(out, "&Matrix * &Matrix (large)", ar.clone(), c1 != r2, true, probe(&setup, &key2, &|s| { let _ = &s.0 * &s.1; }));
        }
        for &b in &sizes {
            let setup = || (matr(r1, c1, 0), vecr(b, 100));
            let key = |s: &(Matrix<Rat>, Vector<Rat>)| format!("{:?}#{}x{}|{:?}", s.0, s.0.rows(), s.0.cols(), s.1);
            let ar = format!("{}x{} with vector {}", r1, c1, b);
            verdict(out, "&Matrix * &Vector (large)", ar.clone(), b != c1, true, probe(&setup, &key, &|s| { let _ = &s.0 * &s.1; }));
            verdict(out, "Matrix::set_col (large)", format!("{}x{} col 0 vector {}", r1, c1, b), b != r1, false, probe(&setup, &key, &|s| { let v = s.1.clone(); s.0.set_col(0, v); }));
            verdict(out, "Matrix::set_row (large)", format!("{}x{} row 0 vector {}", r1, c1, b), b != c1, false, probe(&setup, &key, &|s| { let v = s.1.clone(); s.0.set_row(0, v); }));
        }
        let setup1 = || matr(r1, c1, 0);
        let key1 = |s: &Matrix<Rat>| format!("{:?}#{}x{}", s, s.rows(), s.cols());
        for i in [0usize, r1.max(c1) - 1, r1.max(c1), r1.max(c1) + 7] {
            for k in [0usize, r1, r1 + 8] {
                verdict(out, "Matrix::swap_rows (large)", format!("{}x{} rows {} {}", r1, c1, i, k), i >= r1 || k >= r1, false, probe(&setup1, &key1, &|s| { s.swap_rows(i, k); }));
            }
            // equal row arguments: in range a no-op, out of range a refusal
            verdict(out, "Matrix::swap_rows (equal arguments)", format!("{}x{} rows {} {}", r1, c1, i, i), i >= r1, false, probe(&setup1, &key1, &|s| { s.swap_rows(i, i); }));
        }
    }
}

fn matrix_entries(out: &mut Vec<(String, String)>, nm: usize) {
    let key2 = |s: &(Matrix<Rat>, Matrix<Rat>)| format!("{:?}#{}x{}|{:?}#{}x{}", s.0, s.0.rows(), s.0.cols(), s.1, s.1.rows(), s.1.cols());
    for r1 in 0..=nm {
        for c1 in 0..=nm {
            for r2 in 0..=nm {
                for c2 in 0..=nm {
                    let setup = || (matr(r1, c1, 0), matr(r2, c2, 100));
                    let ar = format!("{}x{} with {}x{}", r1, c1, r2, c2);
                    let mm = r1 != r2 || c1 != c2;
                    verdict(out, "&Matrix + &Matrix", ar.clone(), mm, true, probe(&setup, &key2, &|s| { let _ = &s.0 + &s.1; }));
                    verdict(out, "Matrix + Matrix", ar.clone(), mm, true, probe(&setup, &key2, &|s| { let _ = s.0.clone() + s.1.clone(); }));
                    verdict(out, "&Matrix - &Matrix", ar.clone(), mm, true, probe(&setup, &key2, &|s| { let _ = &s.0 - &s.1; }));
                    verdict(out, "Matrix - Matrix", ar.clone(), mm, true, probe(&setup, &key2, &|s| { let _ = s.0.clone() - s.1.clone(); }));
                    verdict(out, "Matrix += &Matrix", ar.clone(), mm, false, probe(&setup, &key2, &|s| { let w = s.1.clone(); s.0 += &w; }));
                    verdict(out, "Matrix += Matrix", ar.clone(), mm, false, probe(&setup, &key2, &|s| { let w = s.1.clone(); s.0 += w; }));
                    verdict(out, "Matrix -= &Matrix", ar.clone(), mm, false, probe(&setup, &key2, &|s| { let w = s.1.clone(); s.0 -= &w; }));
                    verdict(out, "Matrix -= Matrix", ar.clone(), mm, false, probe(&setup, &key2, &|s| { let w = s.1.clone(); s.0 -= w; }));
                    let mmul = c1 != r2;
                    verdict(out, "&Matrix * &Matrix", ar.clone(), mmul, true, probe(&setup, &key2, &|s| { let _ = &s.0 * &s.1; }));
                    verdict(out, "Matrix * Matrix", ar.clone(), mmul, true, probe(&setup, &key2, &|s| { let _ = s.0.clone() * s.1.clone(); }));
                    if !mm {
                        let (x, y) = setup();
                        if (&x + &y) != (x.clone() + y.clone()) || (&x - &y) != (x.clone() - y.clone()) {
                            out.push((format!("Matrix owned vs borrowed {}", ar), "owned and borrowed operator forms differ".into()));
                        }
                    }
                    if !mmul {
                        let (x, y) = setup();
                        if (&x * &y) != (x.clone() * y.clone()) {
                            out.push((format!("Matrix owned vs borrowed product {}", ar), "owned and borrowed products differ".into()));
                        }
                    }
                }
            }
            // matrix with vector
            for b in 0..=nm + 1 {
                let setup = || (matr(r1, c1, 0), vecr(b, 100));
                let key = |s: &(Matrix<Rat>, Vector<Rat>)| format!("{:?}#{}x{}|{:?}", s.0, s.0.rows(), s.0.cols(), s.1);
                let ar = format!("{}x{} with vector {}", r1, c1, b);
                verdict(out, "Matrix::multiply(&Vector)", ar.clone(), b != c1, true, probe(&setup, &key, &|s| { let _ = s.0.multiply(&s.1); }));
                verdict(out, "&Matrix * &Vector", ar.clone(), b != c1, true, probe(&setup, &key, &|s| { let _ = &s.0 * &s.1; }));
                verdict(out, "Matrix * Vector", ar.clone(), b != c1, true, probe(&setup, &key, &|s| { let _ = s.0.clone() * s.1.clone(); }));
                // solvers work on a copy: the original pair must survive a refusal
                if r1 >= 1 || c1 >= 1 {
                    let bad = r1 != b || r1 != c1;
                    if !(r1 == 0 && !bad) {
                        verdict(out, "Matrix::solve_basic", ar.clone(), bad, true, probe(&setup, &key, &|s| { let mut a = s.0.clone(); let _ = a.solve_basic(&s.1); }));
                        verdict(out, "Matrix::solve_lu", ar.clone(), bad, true, probe(&setup, &key, &|s| { let mut a = s.0.clone(); let _ = a.solve_lu(&s.1); }));
                        // and a refusal must happen before the matrix itself is touched
                        if bad {
                            verdict(out, "Matrix::solve_basic (in place)", ar.clone(), bad, false, probe(&setup, &key, &|s| { let b = s.1.clone(); let _ = s.0.solve_basic(&b); }));
                            verdict(out, "Matrix::solve_lu (in place)", ar.clone(), bad, false, probe(&setup, &key, &|s| { let b = s.1.clone(); let _ = s.0.solve_lu(&b); }));
                        }
                    }
                }
                verdict(out, "Matrix::set_row", format!("{}x{} row 0 vector {}", r1, c1, b), b != c1 || r1 == 0, false, probe(&setup, &key, &|s| { let v = s.1.clone(); s.0.set_row(0, v); }));
                verdict(out, "Matrix::set_col", format!("{}x{} col 0 vector {}", r1, c1, b), b != r1 || c1 == 0, false, probe(&setup, &key, &|s| { let v = s.1.clone(); s.0.set_col(0, v); }));
            }
            let setup1 = || matr(r1, c1, 0);
            let key1 = |s: &Matrix<Rat>| format!("{:?}#{}x{}", s, s.rows(), s.cols());
            let sq = r1 == c1;
            verdict(out, "Matrix::inverse", format!("{}x{}", r1, c1), !sq, true, probe(&setup1, &key1, &|s| { let _ = s.inverse(); }));
            verdict(out, "Matrix::lu_decomp_in_place", format!("{}x{}", r1, c1), !sq, false, probe(&setup1, &key1, &|s| { let _ = s.lu_decomp_in_place(); }));
            verdict(out, "Matrix::determinant", format!("{}x{}", r1, c1), !sq, true, probe(&setup1, &key1, &|s| { let _ = s.determinant(); }));
            for i in 0..=r1.max(c1) + 2 {
                let ar = format!("{}x{} index {}", r1, c1, i);
                verdict(out, "Matrix::get_row", ar.clone(), i >= r1, true, probe(&setup1, &key1, &|s| { let _ = s.get_row(i); }));
                verdict(out, "Matrix::get_col", ar.clone(), i >= c1, true, probe(&setup1, &key1, &|s| { let _ = s.get_col(i); }));
                verdict(out, "Matrix::set_row (range)", ar.clone(), i >= r1, false, probe(&setup1, &key1, &|s| { s.set_row(i, vecr(c1, 7)); }));
                verdict(out, "Matrix::set_col (range)", ar.clone(), i >= c1, false, probe(&setup1, &key1, &|s| { s.set_col(i, vecr(r1, 7)); }));
                verdict(out, "Matrix::delete_row", ar.clone(), i >= r1, false, probe(&setup1, &key1, &|s| { s.delete_row(i); }));
                verdict(out, "Matrix::fill_row", ar.clone(), i >= r1, false, probe(&setup1, &key1, &|s| { s.fill_row(i, r(3)); }));
                verdict(out, "Matrix::fill_col", ar.clone(), i >= c1, false, probe(&setup1, &key1, &|s| { s.fill_col(i, r(3)); }));
                for k in 0..=r1 + 1 {
                    verdict(out, "Matrix::swap_rows", format!("{}x{} rows {} {}", r1, c1, i, k), i >= r1 || k >= r1, false, probe(&setup1, &key1, &|s| { s.swap_rows(i, k); }));
                }
                // swap_elem(row_1, col_1, row_2, col_2): a named method with stated row / column arguments (not one of the raw
                // (i,j) index operators the property leaves out): an argument out of range must not reach another element
                if i <= r1.max(c1) + 1 && r1 <= 3 && c1 <= 3 {
                    for j in 0..=c1 + 1 {
                        for (i2, j2) in [(0usize, 0usize), (r1.saturating_sub(1), c1.saturating_sub(1)), (r1, 0), (0, c1)] {
                            let bad = i >= r1 || j >= c1 || i2 >= r1 || j2 >= c1;
                            verdict(out, "Matrix::swap_elem", format!("{}x{} ({},{}) <-> ({},{})", r1, c1, i, j, i2, j2), bad, false, probe(&setup1, &key1, &|s| { s.swap_elem(i, j, i2, j2); }));
                        }
                    }
                }
            }
        }
    }
}

fn banded_entries(out: &mut Vec<(String, String)>) {
    let cfgs: Vec<(usize, usize, usize)> = vec![(1, 0, 0), (2, 1, 0), (2, 1, 1), (3, 1, 1), (3, 2, 1), (3, 0, 2), (4, 1, 1), (4, 2, 2), (5, 1, 2), (6, 2, 1)];
    let key2 = |s: &(Banded<Rat>, Banded<Rat>)| format!("{:?}|{:?}", s.0, s.1);
    for &(n1, a1, b1) in &cfgs {
        for &(n2, a2, b2) in &cfgs {
            let setup = || (band(n1, a1, b1, 0), band(n2, a2, b2, 100));
            let mm = (n1, a1, b1) != (n2, a2, b2);
            let ar = format!("({},{},{}) with ({},{},{})", n1, a1, b1, n2, a2, b2);
            verdict(out, "&Banded + &Banded", ar.clone(), mm, true, probe(&setup, &key2, &|s| { let _ = &s.0 + &s.1; }));
            verdict(out, "Banded + Banded", ar.clone(), mm, true, probe(&setup, &key2, &|s| { let _ = s.0.clone() + s.1.clone(); }));
            verdict(out, "&Banded - &Banded", ar.clone(), mm, true, probe(&setup, &key2, &|s| { let _ = &s.0 - &s.1; }));
            verdict(out, "Banded - Banded", ar.clone(), mm, true, probe(&setup, &key2, &|s| { let _ = s.0.clone() - s.1.clone(); }));
            verdict(out, "Banded += &Banded", ar.clone(), mm, false, probe(&setup, &key2, &|s| { let w = s.1.clone(); s.0 += &w; }));
            verdict(out, "Banded += Banded", ar.clone(), mm, false, probe(&setup, &key2, &|s| { let w = s.1.clone(); s.0 += w; }));
            verdict(out, "Banded -= &Banded", ar.clone(), mm, false, probe(&setup, &key2, &|s| { let w = s.1.clone(); s.0 -= &w; }));
            verdict(out, "Banded -= Banded", ar.clone(), mm, false, probe(&setup, &key2, &|s| { let w = s.1.clone(); s.0 -= w; }));
            if !mm {
                let (x, y) = setup();
                if (&x + &y) != (x.clone() + y.clone()) || (&x - &y) != (x.clone() - y.clone()) {
                    out.push((format!("Banded owned vs borrowed {}", ar), "owned and borrowed operator forms differ".into()));
                }
            }
        }
        for b in 0..=N + 1 {
            let setup = || (band(n1, a1, b1, 0), vecr(b, 100));
            let key = |s: &(Banded<Rat>, Vector<Rat>)| format!("{:?}|{:?}", s.0, s.1);
            let ar = format!("({},{},{}) with vector {}", n1, a1, b1, b);
            verdict(out, "&Banded * &Vector", ar.clone(), b != n1, true, probe(&setup, &key, &|s| { let _ = &s.0 * &s.1; }));
            verdict(out, "Banded * Vector", ar.clone(), b != n1, true, probe(&setup, &key, &|s| { let _ = s.0.clone() * s.1.clone(); }));
            verdict(out, "Banded::solve", ar.clone(), b != n1, true, probe(&setup, &key, &|s| { let _ = s.0.solve(&s.1); }));
        }
        let setup1 = || band(n1, a1, b1, 0);
        let key1 = |s: &Banded<Rat>| format!("{:?}", s);
        for bd in -(a1 as isize) - 2..=(b1 as isize) + 2 {
            verdict(out, "Banded::fill_band", format!("({},{},{}) band {}", n1, a1, b1, bd), bd < -(a1 as isize) || bd > b1 as isize, false, probe(&setup1, &key1, &|s| { s.fill_band(bd, r(3)); }));
        }
        verdict(out, "Banded::det (&self)", format!("({},{},{})", n1, a1, b1), false, true, probe(&setup1, &key1, &|s| { let _ = s.det(); }));
        // a matrix that was RESIZED to other bandwidths (same n; also the same m1 + m2, where the compact storage keeps its shape): every
        // later shape check must see the new bandwidths
        for &(n2, a2, b2) in &cfgs {
            if n2 != n1 || (a2, b2) == (a1, b1) {
                continue;
            }
            let resized = move || {
                let mut x = band(n1, a1, b1, 0);
                x.resize(n1, a2, b2);
                x
            };
            let tag = format!("({},{},{}) resized to ({},{},{})", n1, a1, b1, n1, a2, b2);
            let with_old = || (resized(), band(n1, a1, b1, 100));
            let with_new = || (resized(), band(n1, a2, b2, 100));
            verdict(out, "Banded += &Banded after resize", format!("{} with the OLD shape", tag), true, false, probe(&with_old, &key2, &|s| { let w = s.1.clone(); s.0 += &w; }));
            verdict(out, "&Banded - &Banded after resize", format!("{} with the OLD shape", tag), true, true, probe(&with_old, &key2, &|s| { let _ = &s.0 - &s.1; }));
            verdict(out, "Banded += &Banded after resize", format!("{} with the NEW shape", tag), false, false, probe(&with_new, &key2, &|s| { let w = s.1.clone(); s.0 += &w; }));
            verdict(out, "&Banded - &Banded after resize", format!("{} with the NEW shape", tag), false, true, probe(&with_new, &key2, &|s| { let _ = &s.0 - &s.1; }));
            for bd in -(a1.max(a2) as isize) - 1..=(b1.max(b2) as isize) + 1 {
                verdict(out, "Banded::fill_band after resize", format!("{} band {}", tag, bd), bd < -(a2 as isize) || bd > b2 as isize, false, probe(&resized, &key1, &|s| { s.fill_band(bd, r(3)); }));
            }
        }
    }
}

fn tkey(t: &Tridiagonal<Rat>) -> String {
    format!("{:?}", t)
}
fn tridiagonal_entries(out: &mut Vec<(String, String)>) {
    for a in 1..=N {
        for b in 1..=N {
            let setup = || (tri(a, 0), tri(b, 100));
            let key = |s: &(Tridiagonal<Rat>, Tridiagonal<Rat>)| format!("{}|{}", tkey(&s.0), tkey(&s.1));
            let ar = format!("sizes {} {}", a, b);
            verdict(out, "Tridiagonal + Tridiagonal", ar.clone(), a != b, true, probe(&setup, &key, &|s| { let _ = s.0.clone() + s.1.clone(); }));
            verdict(out, "Tridiagonal - Tridiagonal", ar.clone(), a != b, true, probe(&setup, &key, &|s| { let _ = s.0.clone() - s.1.clone(); }));
        }
        for b in 0..=N + 1 {
            let setup = || (tri(a, 0), vecr(b, 100));
            let key = |s: &(Tridiagonal<Rat>, Vector<Rat>)| format!("{}|{:?}", tkey(&s.0), s.1);
            let ar = format!("size {} with vector {}", a, b);
            verdict(out, "&Tridiagonal * &Vector", ar.clone(), a != b, true, probe(&setup, &key, &|s| { let _ = &s.0 * &s.1; }));
            verdict(out, "Tridiagonal * Vector", ar.clone(), a != b, true, probe(&setup, &key, &|s| { let _ = s.0.clone() * s.1.clone(); }));
            verdict(out, "Tridiagonal::solve", ar.clone(), a != b, true, probe(&setup, &key, &|s| { let _ = s.0.solve(&s.1); }));
        }
        let setup1 = || tri(a, 0);
        for i in 0..=a + 1 {
            for j in 0..=a + 1 {
                let bad = i >= a || j >= a || !(i == j || i == j + 1 || i + 1 == j);
                verdict(out, "Tridiagonal[(i,j)] read", format!("size {} ({},{})", a, i, j), bad, true, probe(&setup1, &tkey, &|s| { let _ = s[(i, j)]; }));
                verdict(out, "Tridiagonal[(i,j)] write", format!("size {} ({},{})", a, i, j), bad, false, probe(&setup1, &tkey, &|s| { s[(i, j)] = r(9); }));
            }
        }
        // constructors: the three diagonals must have lengths n-1, n, n-1
        for sl in 0..=a + 1 {
            for ul in 0..=a + 1 {
                let bad = sl != a - 1 || ul != a - 1;
                let setup0 = || ();
                let key0 = |_: &()| String::new();
                verdict(out, "Tridiagonal::with_vecs", format!("main {} sub {} sup {}", a, sl, ul), bad, true, probe(&setup0, &key0, &|_| { let _ = Tridiagonal::with_vecs(vec![r(1); sl], vec![r(2); a], vec![r(3); ul]); }));
                verdict(out, "Tridiagonal::with_vectors", format!("main {} sub {} sup {}", a, sl, ul), bad, true, probe(&setup0, &key0, &|_| { let _ = Tridiagonal::with_vectors(vecr(sl, 0), vecr(a, 0), vecr(ul, 0)); }));
            }
        }
    }
}

/// The binary entries once more on operands that are ALL ZERO (a zero vector, a zero matrix, a band / tridiagonal matrix of zeros)
/// and, for the f64 dot products, on operands holding inf / NaN: the answer to a conforming call may be known without looking at
/// the other operand, a mismatch is refused all the same - and only mismatches are judged here (a zero matrix is singular:
/// what the solvers do with conforming zero operands is not this property's business)
fn zero_operand_entries(out: &mut Vec<(String, String)>) {
    let zv = |n: usize| Vector::new(n, r(0));
    for a in 0..=4usize {
        for b in 0..=4usize {
            if a == b {
                continue;
            }
            let ar = format!("sizes {} {} (zero operands)", a, b);
            for side in 0..3usize {
                let setup = move || (if side != 1 { Vector::new(a, r(0)) } else { vecr(a, 0) }, if side != 0 { Vector::new(b, r(0)) } else { vecr(b, 100) });
                let key = |s: &(Vector<Rat>, Vector<Rat>)| format!("{:?}|{:?}", s.0, s.1);
                let ar = format!("{} side {}", ar, side);
                verdict(out, "&Vector + &Vector (zero operand)", ar.clone(), true, true, probe(&setup, &key, &|s| { let _ = &s.0 + &s.1; }));
                verdict(out, "Vector - Vector (zero operand)", ar.clone(), true, true, probe(&setup, &key, &|s| { let _ = s.0.clone() - s.1.clone(); }));
                verdict(out, "Vector += Vector (zero operand)", ar.clone(), true, false, probe(&setup, &key, &|s| { let w = s.1.clone(); s.0 += w; }));
                verdict(out, "Vector::dot (zero operand)", ar.clone(), true, true, probe(&setup, &key, &|s| { let _ = s.0.dot(&s.1); }));
                let setupf = move || {
                    let mut x = if side != 1 { Vector::new(a, 0.0f64) } else { vecf(a) };
                    let mut y = if side != 0 { Vector::new(b, 0.0f64) } else { vecf(b) };
                    if side == 2 {
                        if a > 0 {
                            x[0] = f64::INFINITY;
                        }
                        if b > 0 {
                            y[b - 1] = f64::NAN;
                        }
                    }
                    (x, y)
                };
                let keyf = |s: &(Vector<f64>, Vector<f64>)| format!("{:?}|{:?}", s.0, s.1);
                verdict(out, "Vector::dot_f64 (zero / non-finite operand)", ar.clone(), true, true, probe(&setupf, &keyf, &|s| { let _ = s.0.dot_f64(&s.1); }));
                verdict(out, "Vector<f64>::dot (zero / non-finite operand)", ar.clone(), true, true, probe(&setupf, &keyf, &|s| { let _ = s.0.dot(&s.1); }));
            }
        }
    }
    for r1 in 1..=3usize {
        for c1 in 1..=3usize {
            let zm = move || Matrix::new(r1, c1, r(0));
            for b in 0..=4usize {
                let keymv = |s: &(Matrix<Rat>, Vector<Rat>)| format!("{:?}#{}x{}|{:?}", s.0, s.0.rows(), s.0.cols(), s.1);
                for side in 0..2usize {
                    let setup = move || (if side == 0 { zm() } else { matr(r1, c1, 0) }, if side == 1 { Vector::new(b, r(0)) } else { vecr(b, 100) });
                    let ar = format!("{}x{} with vector {} (zero operand, side {})", r1, c1, b, side);
                    if b != c1 {
                        verdict(out, "Matrix::multiply(&Vector) (zero operand)", ar.clone(), true, true, probe(&setup, &keymv, &|s| { let _ = s.0.multiply(&s.1); }));
                        verdict(out, "&Matrix * &Vector (zero operand)", ar.clone(), true, true, probe(&setup, &keymv, &|s| { let _ = &s.0 * &s.1; }));
                    }
                    if r1 != b || r1 != c1 {
                        verdict(out, "Matrix::solve_basic (zero operand)", ar.clone(), true, false, probe(&setup, &keymv, &|s| { let b = s.1.clone(); let _ = s.0.solve_basic(&b); }));
                        verdict(out, "Matrix::solve_lu (zero operand)", ar.clone(), true, false, probe(&setup, &keymv, &|s| { let b = s.1.clone(); let _ = s.0.solve_lu(&b); }));
                    }
                }
            }
            for r2 in 1..=3usize {
                for c2 in 1..=3usize {
                    let keymm = |s: &(Matrix<Rat>, Matrix<Rat>)| format!("{:?}#{}x{}|{:?}#{}x{}", s.0, s.0.rows(), s.0.cols(), s.1, s.1.rows(), s.1.cols());
                    for side in 0..2usize {
                        let setup = move || (if side == 0 { zm() } else { matr(r1, c1, 0) }, if side == 1 { Matrix::new(r2, c2, r(0)) } else { matr(r2, c2, 100) });
                        let ar = format!("{}x{} and {}x{} (zero operand, side {})", r1, c1, r2, c2, side);
                        if c1 != r2 {
                            verdict(out, "&Matrix * &Matrix (zero operand)", ar.clone(), true, true, probe(&setup, &keymm, &|s| { let _ = &s.0 * &s.1; }));
                        }
                        if (r1, c1) != (r2, c2) {
                            verdict(out, "&Matrix + &Matrix (zero operand)", ar.clone(), true, true, probe(&setup, &keymm, &|s| { let _ = &s.0 + &s.1; }));
                            verdict(out, "Matrix -= Matrix (zero operand)", ar.clone(), true, false, probe(&setup, &keymm, &|s| { let w = s.1.clone(); s.0 -= w; }));
                        }
                    }
                }
            }
        }
    }
    for n1 in 1..=4usize {
        for b in 0..=5usize {
            if b == n1 {
                continue;
            }
            for side in 0..2usize {
                let setup = move || (if side == 0 { Banded::new(n1, 1.min(n1 - 1), 1.min(n1 - 1), r(0)) } else { band(n1, 1.min(n1 - 1), 1.min(n1 - 1), 0) }, if side == 1 { Vector::new(b, r(0)) } else { vecr(b, 100) });
                let key = |s: &(Banded<Rat>, Vector<Rat>)| format!("{:?}|{:?}", s.0, s.1);
                let ar = format!("order {} with vector {} (zero operand, side {})", n1, b, side);
                verdict(out, "&Banded * &Vector (zero operand)", ar.clone(), true, true, probe(&setup, &key, &|s| { let _ = &s.0 * &s.1; }));
                verdict(out, "Banded::solve (zero operand)", ar.clone(), true, true, probe(&setup, &key, &|s| { let _ = s.0.solve(&s.1); }));
                if n1 >= 2 {
                    let setupt = move || (if side == 0 { Tridiagonal::with_vecs(vec![r(0); n1 - 1], vec![r(0); n1], vec![r(0); n1 - 1]) } else { tri(n1, 0) }, if side == 1 { Vector::new(b, r(0)) } else { vecr(b, 100) });
                    let keyt = |s: &(Tridiagonal<Rat>, Vector<Rat>)| format!("{}|{:?}", tkey(&s.0), s.1);
                    verdict(out, "&Tridiagonal * &Vector (zero operand)", ar.clone(), true, true, probe(&setupt, &keyt, &|s| { let _ = &s.0 * &s.1; }));
                    verdict(out, "Tridiagonal::solve (zero operand)", ar.clone(), true, true, probe(&setupt, &keyt, &|s| { let _ = s.0.solve(&s.1); }));
                }
            }
        }
    }
    let _ = zv;
}

fn sparse_entries(out: &mut Vec<(String, String)>) {
    for rr in 1..=4usize {
        for c in 1..=4usize {
            let setup1 = || sparse(rr, c);
            for b in 0..=5usize {
                let setup = || (sparse(rr, c), vecf(b));
                let key = |s: &(Sparse<f64>, Vector<f64>)| format!("{}|{:?}", skey(&s.0), s.1);
                let ar = format!("{}x{} with vector {}", rr, c, b);
                verdict(out, "Sparse::multiply", ar.clone(), b != c, true, probe(&setup, &key, &|s| { let _ = s.0.multiply(&s.1); }));
                verdict(out, "Sparse::transpose_multiply", ar.clone(), b != rr, true, probe(&setup, &key, &|s| { let _ = s.0.transpose_multiply(&s.1); }));
                // a matrix without any stored entry (built from no triplets / from empty arrays), a vector of zeros, a vector holding
                // inf: the product has nothing to add up, the sizes are checked all the same
                for route in 0..2usize {
                    for vk in 0..3usize {
                        let setupe = || {
                            let mut v = if vk == 1 { Vector::new(b, 0.0) } else { vecf(b) };
                            if vk == 2 && b > 0 {
                                v[0] = f64::INFINITY;
                            }
                            (empty_sparse(rr, c, route), v)
                        };
                        let ar = format!("{}x{} without stored entries (route {}) with vector {} kind {}", rr, c, route, b, vk);
                        verdict(out, "Sparse::multiply (matrix without entries)", ar.clone(), b != c, true, probe(&setupe, &key, &|s| { let _ = s.0.multiply(&s.1); }));
                        verdict(out, "Sparse::transpose_multiply (matrix without entries)", ar.clone(), b != rr, true, probe(&setupe, &key, &|s| { let _ = s.0.transpose_multiply(&s.1); }));
                    }
                }
                {
                    let setupz = || {
                        let mut v = Vector::new(b, 0.0);
                        if b > 1 {
                            v[1] = f64::NAN;
                        }
                        (sparse(rr, c), v)
                    };
                    let ar = format!("{}x{} with a zero / NaN vector {}", rr, c, b);
                    verdict(out, "Sparse::multiply (zero vector)", ar.clone(), b != c, true, probe(&setupz, &key, &|s| { let _ = s.0.multiply(&s.1); }));
                    verdict(out, "Sparse::transpose_multiply (zero vector)", ar.clone(), b != rr, true, probe(&setupz, &key, &|s| { let _ = s.0.transpose_multiply(&s.1); }));
                }
                // iterative solvers: matrix must be square, b and x must have its size
                for xs in 0..=5usize {
                    let setup3 = || (sparse(rr, c), vecf(b), vecf(xs));
                    let key3 = |s: &(Sparse<f64>, Vector<f64>, Vector<f64>)| format!("{}|{:?}|{:?}", skey(&s.0), s.1, s.2);
                    let bad = rr != c || b != rr || xs != b;
                    let ar = format!("{}x{} b {} x {}", rr, c, b, xs);
                    verdict(out, "Sparse::solve_cg", ar.clone(), bad, bad, probe(&setup3, &key3, &|s| { let bb = s.1.clone(); let _ = s.0.solve_cg(&bb, &mut s.2, 2, 1e-8); }));
                    verdict(out, "Sparse::solve_bicg", ar.clone(), bad, bad, probe(&setup3, &key3, &|s| { let bb = s.1.clone(); let _ = s.0.solve_bicg(&bb, &mut s.2, 2, 1e-8, 1); }));
                    verdict(out, "Sparse::solve_bicgstab", ar.clone(), bad, bad, probe(&setup3, &key3, &|s| { let bb = s.1.clone(); let _ = s.0.solve_bicgstab(&bb, &mut s.2, 2, 1e-8); }));
                    verdict(out, "Sparse::solve_qmr", ar.clone(), bad, bad, probe(&setup3, &key3, &|s| { let bb = s.1.clone(); let _ = s.0.solve_qmr(&bb, &mut s.2, 2, 1e-8); }));
                    // calls that would return before the first product: budget 0, and an "already solved" start (b = 0, x = 0) - the
                    // shapes must be refused all the same
                    let setup0 = || (sparse(rr, c), Vector::new(b, 0.0), Vector::new(xs, 0.0));
                    verdict(out, "Sparse::solve_cg (budget 0)", ar.clone(), bad, bad, probe(&setup3, &key3, &|s| { let bb = s.1.clone(); let _ = s.0.solve_cg(&bb, &mut s.2, 0, 1e-8); }));
                    verdict(out, "Sparse::solve_bicg (budget 0)", ar.clone(), bad, bad, probe(&setup3, &key3, &|s| { let bb = s.1.clone(); let _ = s.0.solve_bicg(&bb, &mut s.2, 0, 1e-8, 2); }));
                    verdict(out, "Sparse::solve_bicgstab (budget 0)", ar.clone(), bad, bad, probe(&setup3, &key3, &|s| { let bb = s.1.clone(); let _ = s.0.solve_bicgstab(&bb, &mut s.2, 0, 1e-8); }));
                    verdict(out, "Sparse::solve_qmr (budget 0)", ar.clone(), bad, bad, probe(&setup3, &key3, &|s| { let bb = s.1.clone(); let _ = s.0.solve_qmr(&bb, &mut s.2, 0, 1e-8); }));
                    verdict(out, "Sparse::solve_cg (b = 0, x = 0)", ar.clone(), bad, bad, probe(&setup0, &key3, &|s| { let bb = s.1.clone(); let _ = s.0.solve_cg(&bb, &mut s.2, 2, 1e-8); }));
                    verdict(out, "Sparse::solve_bicg (b = 0, x = 0)", ar.clone(), bad, bad, probe(&setup0, &key3, &|s| { let bb = s.1.clone(); let _ = s.0.solve_bicg(&bb, &mut s.2, 2, 1e-8, 1); }));
                    verdict(out, "Sparse::solve_bicgstab (b = 0, x = 0)", ar.clone(), bad, bad, probe(&setup0, &key3, &|s| { let bb = s.1.clone(); let _ = s.0.solve_bicgstab(&bb, &mut s.2, 2, 1e-8); }));
                    verdict(out, "Sparse::solve_qmr (b = 0, x = 0)", ar.clone(), bad, bad, probe(&setup0, &key3, &|s| { let bb = s.1.clone(); let _ = s.0.solve_qmr(&bb, &mut s.2, 2, 1e-8); }));
                    // the same entries on operands whose VALUES or STORED STRUCTURE invite an early exit: a right-hand side holding inf / NaN
                    // / 1.5e308 (its norm is not finite), a guess holding inf, a matrix without any stored entry - a mismatch is refused
                    // whatever the operands hold (an exit placed above the shape checks answers Err or a zero vector instead)
                    if bad {
                        for sv in 0..4usize {
                            let special = |n: usize, which: usize| -> Vector<f64> {
                                let mut v = vecf(n);
                                if n > 0 {
                                    v[n - 1] = [f64::INFINITY, f64::NAN, 1.5e308, f64::NEG_INFINITY][which];
                                    if which == 2 {
                                        v[0] = 1.5e308;
                                    }
                                }
                                v
                            };
                            let setups = || (sparse(rr, c), special(b, sv), if sv == 3 { special(xs, 0) } else { vecf(xs) });
                            let ar = format!("{}x{} b {} x {} special values #{}", rr, c, b, xs, sv);
                            verdict(out, "Sparse::solve_cg (non-finite operands)", ar.clone(), bad, bad, probe(&setups, &key3, &|s| { let bb = s.1.clone(); let _ = s.0.solve_cg(&bb, &mut s.2, 2, 1e-8); }));
                            verdict(out, "Sparse::solve_bicg (non-finite operands)", ar.clone(), bad, bad, probe(&setups, &key3, &|s| { let bb = s.1.clone(); let _ = s.0.solve_bicg(&bb, &mut s.2, 2, 1e-8, 1 + sv % 2); }));
                            verdict(out, "Sparse::solve_bicgstab (non-finite operands)", ar.clone(), bad, bad, probe(&setups, &key3, &|s| { let bb = s.1.clone(); let _ = s.0.solve_bicgstab(&bb, &mut s.2, 2, 1e-8); }));
                            verdict(out, "Sparse::solve_qmr (non-finite operands)", ar.clone(), bad, bad, probe(&setups, &key3, &|s| { let bb = s.1.clone(); let _ = s.0.solve_qmr(&bb, &mut s.2, 2, 1e-8); }));
                        }
                        let setupe = || (empty_sparse(rr, c, (b + xs) % 2), vecf(b), vecf(xs));
                        let ar = format!("{}x{} without stored entries, b {} x {}", rr, c, b, xs);
                        verdict(out, "Sparse::solve_cg (matrix without entries)", ar.clone(), bad, bad, probe(&setupe, &key3, &|s| { let bb = s.1.clone(); let _ = s.0.solve_cg(&bb, &mut s.2, 2, 1e-8); }));
                        verdict(out, "Sparse::solve_bicg (matrix without entries)", ar.clone(), bad, bad, probe(&setupe, &key3, &|s| { let bb = s.1.clone(); let _ = s.0.solve_bicg(&bb, &mut s.2, 2, 1e-8, 1); }));
                        verdict(out, "Sparse::solve_bicgstab (matrix without entries)", ar.clone(), bad, bad, probe(&setupe, &key3, &|s| { let bb = s.1.clone(); let _ = s.0.solve_bicgstab(&bb, &mut s.2, 2, 1e-8); }));
                        verdict(out, "Sparse::solve_qmr (matrix without entries)", ar.clone(), bad, bad, probe(&setupe, &key3, &|s| { let bb = s.1.clone(); let _ = s.0.solve_qmr(&bb, &mut s.2, 2, 1e-8); }));
                    }
                    if !bad {
                        for itol in [0usize, 3] {
                            verdict(out, "Sparse::solve_bicg (itol)", format!("{} itol {}", ar, itol), true, true, probe(&setup3, &key3, &|s| { let bb = s.1.clone(); let _ = s.0.solve_bicg(&bb, &mut s.2, 2, 1e-8, itol); }));
                        }
                    }
                }
            }
            // raw compressed-column arrays: every way in which the three arrays can disagree with each other or with the shape
            {
                let setup0 = || ();
                let key0 = |_: &()| String::new();
                // a well-formed matrix with one entry (0,0) and, if there is a second column, one entry (rr-1, 1)
                let good = || -> (Vec<f64>, Vec<usize>, Vec<usize>) {
                    let mut cs = vec![0usize; c + 1];
                    let (mut val, mut ri) = (vec![1.0], vec![0usize]);
                    cs[1] = 1;
                    if c >= 2 {
                        val.push(2.0);
                        ri.push(rr - 1);
                        cs[2] = 2;
                    }
                    for k in 2..=c {
                        cs[k] = cs[k].max(cs[k - 1]);
                    }
                    cs[c] = val.len();
                    (val, ri, cs)
                };
                let ar = format!("{}x{}", rr, c);
                verdict(out, "Sparse::from_vecs (well-formed)", ar.clone(), false, true, probe(&setup0, &key0, &|_| { let (v, r0, cs) = good(); let _ = Sparse::from_vecs(rr, c, v, r0, cs); }));
                verdict(out, "Sparse::from_vecs (val longer than row_index)", ar.clone(), true, true, probe(&setup0, &key0, &|_| { let (mut v, r0, cs) = good(); v.push(9.0); let _ = Sparse::from_vecs(rr, c, v, r0, cs); }));
                verdict(out, "Sparse::from_vecs (row_index longer than val)", ar.clone(), true, true, probe(&setup0, &key0, &|_| { let (v, mut r0, cs) = good(); r0.push(0); let _ = Sparse::from_vecs(rr, c, v, r0, cs); }));
                verdict(out, "Sparse::from_vecs (col_start too short)", ar.clone(), true, true, probe(&setup0, &key0, &|_| { let (v, r0, mut cs) = good(); cs.pop(); let _ = Sparse::from_vecs(rr, c, v, r0, cs); }));
                verdict(out, "Sparse::from_vecs (col_start too long)", ar.clone(), true, true, probe(&setup0, &key0, &|_| { let (v, r0, mut cs) = good(); let l = *cs.last().unwrap(); cs.push(l); let _ = Sparse::from_vecs(rr, c, v, r0, cs); }));
                verdict(out, "Sparse::from_vecs (row index = rows)", ar.clone(), true, true, probe(&setup0, &key0, &|_| { let (v, mut r0, cs) = good(); r0[0] = rr; let _ = Sparse::from_vecs(rr, c, v, r0, cs); }));
                verdict(out, "Sparse::from_vecs (last col_start != number of entries)", ar.clone(), true, true, probe(&setup0, &key0, &|_| { let (v, r0, mut cs) = good(); *cs.last_mut().unwrap() += 1; let _ = Sparse::from_vecs(rr, c, v, r0, cs); }));
                if c >= 2 {
                    verdict(out, "Sparse::from_vecs (col_start decreasing)", ar.clone(), true, true, probe(&setup0, &key0, &|_| { let (v, r0, mut cs) = good(); cs[1] = 2; cs[2] = 1; if c == 2 { cs[2] = 1; } let _ = Sparse::from_vecs(rr, c, v, r0, cs); }));
                }
            }
            // col_start_from_index: one column index per stored entry, each below cols (seventh hunt: a longer vector was truncated, the
            // index cols was counted in the slot of the total)
            {
                let good: Vec<usize> = setup1().col_index().vec.clone();
                let nz = good.len();
                let mut cands: Vec<(String, Vec<usize>, bool)> = vec![("the matrix's own col_index".into(), good.clone(), false)];
                let mut longer = good.clone();
                longer.push(c - 1);
                cands.push(("one index too many".into(), longer, true));
                let mut longer2 = good.clone();
                longer2.extend_from_slice(&[0, 0, 0]);
                cands.push(("three indices too many".into(), longer2, true));
                if nz > 0 {
                    let mut shorter = good.clone();
                    shorter.pop();
                    cands.push(("one index too few".into(), shorter, true));
                    for pos in [0, nz - 1] {
                        for bad_col in [c, c + 1] {
                            let mut w = good.clone();
                            w[pos] = bad_col;
                            cands.push((format!("index {} at position {}", bad_col, pos), w, true));
                        }
                    }
                }
                for (what, ci, bad) in cands {
                    let civ = Vector::create(ci.clone());
                    let res = probe(&setup1, &skey, &|s| { let _ = s.col_start_from_index(&civ); });
                    verdict(out, "Sparse::col_start_from_index", format!("{}x{} ({} entries) {}", rr, c, nz, what), bad, true, res);
                    if !bad {
                        let s0 = setup1();
                        if s0.col_start_from_index(&civ) != s0.col_start {
                            out.push((format!("Sparse::col_start_from_index {}x{}", rr, c), "the starts computed from the matrix's own column indices differ from col_start".into()));
                        }
                    }
                }
            }
            for i in 0..=rr + 1 {
                for j in 0..=c + 1 {
                    let bad = i >= rr || j >= c;
                    let ar = format!("{}x{} ({},{})", rr, c, i, j);
                    verdict(out, "Sparse::get", ar.clone(), bad, true, probe(&setup1, &skey, &|s| { let _ = s.get(i, j); }));
                    verdict(out, "Sparse::insert", ar.clone(), bad, false, probe(&setup1, &skey, &|s| { s.insert(i, j, 5.0); }));
                    let setup0 = || ();
                    let key0 = |_: &()| String::new();
                    verdict(out, "Sparse::from_triplets", ar.clone(), bad, true, probe(&setup0, &key0, &|_| { let mut t = vec![(0usize, 0usize, 1.0f64), (i, j, 2.0)]; let _ = Sparse::from_triplets(rr, c, &mut t); }));
                }
            }
        }
    }
}

fn mesh_entries(out: &mut Vec<(String, String)>) {
    for n in 1..=4usize {
        for nv in 1..=3usize {
            let setup = || {
                let mut m = Mesh1D::<f64, f64>::new(vecf(n), nv);
                for i in 0..n {
                    for v in 0..nv {
                        m[i][v] = (i * 10 + v) as f64;
                    }
                }
                m
            };
            let key = |m: &Mesh1D<f64, f64>| format!("{:?}{:?}", m.nodes(), (0..m.nnodes()).map(|i| m.get_nodes_vars(i).vec).collect::<Vec<_>>());
            for node in 0..=n + 1 {
                verdict(out, "Mesh1D::get_nodes_vars", format!("{} nodes, node {}", n, node), node >= n, true, probe(&setup, &key, &|m| { let _ = m.get_nodes_vars(node); }));
                for len in 0..=nv + 1 {
                    verdict(out, "Mesh1D::set_nodes_vars", format!("{} nodes {} vars, node {} vector {}", n, nv, node, len), node >= n || len != nv, false, probe(&setup, &key, &|m| { m.set_nodes_vars(node, vecf(len)); }));
                }
            }
        }
    }
    // Mesh1D index operator, on fresh meshes and after read() replaced the nodes by fewer / more nodes from a file
    let dir = std::path::PathBuf::from(format!("/verif/target/run/c20_mesh_{}", std::process::id()));
    let _ = std::fs::create_dir_all(&dir);
    for n_old in 1..=4usize {
        for n_file in 0..=5usize {
            // n_file == 0: no read at all (fresh mesh)
            let file = dir.join(format!("m_{}_{}.dat", n_old, n_file));
            if n_file > 0 {
                let mut src = Mesh1D::<f64, f64>::new(vecf(n_file), 2);
                for i in 0..n_file {
                    src[i][0] = 7.0 + i as f64;
                    src[i][1] = -1.0;
                }
                src.output(file.to_str().unwrap(), 6);
            }
            let n_now = if n_file > 0 { n_file } else { n_old };
            let setup = || {
                let mut m = Mesh1D::<f64, f64>::new(vecf(n_old), 2);
                for i in 0..n_old {
                    m[i][0] = 100.0 + i as f64;
                }
                if n_file > 0 {
                    m.read(file.to_str().unwrap());
                }
                m
            };
            let key = |m: &Mesh1D<f64, f64>| format!("{:?}{:?}", m.nodes(), (0..m.nnodes()).map(|i| m.get_nodes_vars(i).vec).collect::<Vec<_>>());
            let ar0 = if n_file > 0 { format!("{} nodes, after read() of a {}-node file", n_old, n_file) } else { format!("{} nodes (fresh)", n_old) };
            {
                let m = setup();
                if m.nnodes() != n_now {
                    out.push((format!("Mesh1D::read {}", ar0), format!("nnodes() = {} expected {}", m.nnodes(), n_now)));
                }
            }
            for node in 0..=n_now.max(n_old) + 1 {
                let ar = format!("{}, node {}", ar0, node);
                verdict(out, "Mesh1D[node] read", ar.clone(), node >= n_now, true, probe(&setup, &key, &|m| { let _ = m[node].size(); }));
                verdict(out, "Mesh1D[node] write", ar.clone(), node >= n_now, false, probe(&setup, &key, &|m| { m[node][0] = 5.0; }));
                verdict(out, "Mesh1D::get_nodes_vars (after read)", ar.clone(), node >= n_now, true, probe(&setup, &key, &|m| { let _ = m.get_nodes_vars(node); }));
                verdict(out, "Mesh1D::coord", ar.clone(), node >= n_now, true, probe(&setup, &key, &|m| { let _ = m.coord(node); }));
            }
            let _ = std::fs::remove_file(&file);
        }
    }
    let _ = std::fs::remove_dir_all(&dir);
    for nx in 1..=3usize {
        for ny in 1..=3usize {
            let nv = 2usize;
            let setup = || {
                let mut m = Mesh2D::<f64>::new(vecf(nx), vecf(ny), nv);
                for i in 0..nx {
                    for j in 0..ny {
                        for v in 0..nv {
                            m[(i, j)][v] = (i * 100 + j * 10 + v) as f64;
                        }
                    }
                }
                m
            };
            let key = |m: &Mesh2D<f64>| {
                let (a, b) = m.nnodes();
                format!("{:?}", (0..a).flat_map(|i| (0..b).map(move |j| (i, j))).map(|(i, j)| m.get_nodes_vars(i, j).vec).collect::<Vec<_>>())
            };
            for i in 0..=nx + 1 {
                for j in 0..=ny + 1 {
                    let bad = i >= nx || j >= ny;
                    verdict(out, "Mesh2D::get_nodes_vars", format!("{}x{} node ({},{})", nx, ny, i, j), bad, true, probe(&setup, &key, &|m| { let _ = m.get_nodes_vars(i, j); }));
                    for len in [nv, nv + 1, 0] {
                        verdict(out, "Mesh2D::set_nodes_vars", format!("{}x{} node ({},{}) vector {}", nx, ny, i, j, len), bad || len != nv, false, probe(&setup, &key, &|m| { m.set_nodes_vars(i, j, vecf(len)); }));
                    }
                }
            }
            for v in 0..=nv + 1 {
                verdict(out, "Mesh2D::var_as_matrix", format!("{}x{} var {}", nx, ny, v), v >= nv, true, probe(&setup, &key, &|m| { let _ = m.var_as_matrix(v); }));
            }
            for i in 0..=nx + 1 {
                verdict(out, "Mesh2D::cross_section_xnode", format!("{}x{} node {}", nx, ny, i), i >= nx, true, probe(&setup, &key, &|m| { let _ = m.cross_section_xnode(i); }));
            }
            for j in 0..=ny + 1 {
                verdict(out, "Mesh2D::cross_section_ynode", format!("{}x{} node {}", nx, ny, j), j >= ny, true, probe(&setup, &key, &|m| { let _ = m.cross_section_ynode(j); }));
            }
        }
    }
}

/// variable / node arguments of the mesh operations that have no other argument to be caught by: on a mesh one node wide (or empty)
/// in a direction the loops that would index the missing variable are empty (seventh hunt)
fn mesh_argument_entries(out: &mut Vec<(String, String)>) {
    for n in 1..=4usize {
        for nv in 1..=3usize {
            let setup = || {
                let mut m = Mesh1D::<f64, f64>::new(vecf(n), nv);
                for i in 0..n {
                    for v in 0..nv {
                        m[i][v] = (i * 10 + v) as f64;
                    }
                }
                m
            };
            let key = |m: &Mesh1D<f64, f64>| format!("{:?}{:?}", m.nodes(), (0..m.nnodes()).map(|i| m.get_nodes_vars(i).vec).collect::<Vec<_>>());
            for v in 0..=nv + 1 {
                verdict(out, "Mesh1D::trapezium", format!("{} nodes {} vars, var {}", n, nv, v), v >= nv, true, probe(&setup, &key, &|m| { let _ = m.trapezium(v); }));
            }
        }
    }
    let dir = std::path::PathBuf::from(format!("/verif/target/run/c20_mesh2_{}", std::process::id()));
    let _ = std::fs::create_dir_all(&dir);
    for nx in 0..=3usize {
        for ny in 0..=3usize {
            for nv in 1..=2usize {
                let setup = || {
                    let mut m = Mesh2D::<f64>::new(vecf(nx), vecf(ny), nv);
                    for i in 0..nx {
                        for j in 0..ny {
                            for v in 0..nv {
                                m[(i, j)][v] = (i * 100 + j * 10 + v) as f64;
                            }
                        }
                    }
                    m
                };
                let key = |m: &Mesh2D<f64>| {
                    let (a, b) = m.nnodes();
                    format!("{:?}", (0..a).flat_map(|i| (0..b).map(move |j| (i, j))).map(|(i, j)| m.get_nodes_vars(i, j).vec).collect::<Vec<_>>())
                };
                let shape = format!("{}x{} mesh {} vars", nx, ny, nv);
                for v in 0..=nv + 1 {
                    if nx >= 1 && ny >= 1 {
                        verdict(out, "Mesh2D::trapezium", format!("{} var {}", shape, v), v >= nv, true, probe(&setup, &key, &|m| { let _ = m.trapezium(v); }));
                        verdict(out, "Mesh2D::square_trapezium", format!("{} var {}", shape, v), v >= nv, true, probe(&setup, &key, &|m| { let _ = m.square_trapezium(v); }));
                    }
                    verdict(out, "Mesh2D::apply", format!("{} var {}", shape, v), v >= nv, false, probe(&setup, &key, &|m| { m.apply(&|x, y| x + y, v); }));
                    let file = dir.join(format!("v_{}_{}_{}_{}.dat", nx, ny, nv, v));
                    verdict(out, "Mesh2D::output_var", format!("{} var {}", shape, v), v >= nv, true, probe(&setup, &key, &|m| { m.output_var(file.to_str().unwrap(), v, 4); }));
                    if v >= nv && file.exists() {
                        out.push((format!("Mesh2D::output_var {} var {}", shape, v), "a file was created for a variable that does not exist".into()));
                    }
                }
                for i in 0..=nx + 1 {
                    verdict(out, "Mesh2D::cross_section_xnode (degenerate shapes)", format!("{} node {}", shape, i), i >= nx, true, probe(&setup, &key, &|m| { let _ = m.cross_section_xnode(i); }));
                }
                for j in 0..=ny + 1 {
                    verdict(out, "Mesh2D::cross_section_ynode (degenerate shapes)", format!("{} node {}", shape, j), j >= ny, true, probe(&setup, &key, &|m| { let _ = m.cross_section_ynode(j); }));
                }
            }
        }
    }
    let _ = std::fs::remove_dir_all(&dir);
}

fn polynomial_entries(out: &mut Vec<(String, String)>) {
    for n in 0..=N {
        let setup = || poly(n);
        let key = |p: &Polynomial<Rat>| format!("{:?}", p);
        for i in 0..=n + 2 {
            verdict(out, "Polynomial[i] read", format!("{} coefficients index {}", n, i), i >= n, true, probe(&setup, &key, &|p| { let _ = p[i]; }));
            verdict(out, "Polynomial[i] write", format!("{} coefficients index {}", n, i), i >= n, false, probe(&setup, &key, &|p| { p[i] = r(9); }));
        }
        for m in 0..=N {
            let setup2 = || (poly(n), poly(m));
            let key2 = |s: &(Polynomial<Rat>, Polynomial<Rat>)| format!("{:?}|{:?}", s.0, s.1);
            let ar = format!("{} and {} coefficients", n, m);
            // polynomials of any two lengths are conformable; the borrowed forms must leave both operands untouched
            verdict(out, "&Polynomial + &Polynomial", ar.clone(), false, true, probe(&setup2, &key2, &|s| { let _ = &s.0 + &s.1; }));
            verdict(out, "&Polynomial - &Polynomial", ar.clone(), false, true, probe(&setup2, &key2, &|s| { let _ = &s.0 - &s.1; }));
            verdict(out, "&Polynomial * &Polynomial", ar.clone(), false, true, probe(&setup2, &key2, &|s| { let _ = &s.0 * &s.1; }));
            verdict(out, "Polynomial::polydiv (&self)", ar.clone(), false, true, probe(&setup2, &key2, &|s| { let _ = s.0.polydiv(&s.1); }));
            let (x, y) = setup2();
            let c = |p: &Polynomial<Rat>| format!("{:?}", p);
            if c(&(&x + &y)) != c(&(x.clone() + y.clone())) || c(&(&x - &y)) != c(&(x.clone() - y.clone())) || c(&(&x * &y)) != c(&(x.clone() * y.clone())) {
                out.push((format!("Polynomial owned vs borrowed {}", ar), "owned and borrowed operator forms differ".into()));
            }
        }
    }
}

// --- E2: a value and its clone under interleaved mutations ------------------------------------------------------
#[derive(Clone)]
enum Obj {
    V(Vector<Rat>),
    M(Matrix<Rat>),
    B(Banded<Rat>),
    T(Tridiagonal<Rat>),
    P(Polynomial<Rat>),
}
impl Obj {
    fn content(&self) -> Vec<Rat> {
        match self {
            Obj::V(v) => v.vec.clone(),
            Obj::M(m) => (0..m.rows()).flat_map(|i| (0..m.cols()).map(move |j| (i, j))).map(|(i, j)| m[(i, j)]).collect(),
            Obj::B(b) => {
                let c = b.compact();
                (0..c.rows()).flat_map(|i| (0..c.cols()).map(move |j| (i, j))).map(|(i, j)| c[(i, j)]).collect()
            }
            Obj::T(t) => t.subdiagonal().vec.iter().chain(t.maindiagonal().vec.iter()).chain(t.superdiagonal().vec.iter()).copied().collect(),
            Obj::P(p) => (0..p.size()).map(|i| p[i]).collect(),
        }
    }
    /// the mutators of each type, applied in place; returns the new expected content computed from the old one
    fn mutate(&mut self, k: usize, old: &[Rat]) -> Vec<Rat> {
        let two = r(2);
        match self {
            Obj::V(v) => match k {
                0 => {
                    v[0] = r(9);
                    let mut o = old.to_vec();
                    o[0] = r(9);
                    o
                }
                1 => {
                    *v *= two;
                    old.iter().map(|x| *x * two).collect()
                }
                2 => {
                    *v += r(1);
                    old.iter().map(|x| *x + r(1)).collect()
                }
                3 => {
                    v.swap(0, 1);
                    let mut o = old.to_vec();
                    o.swap(0, 1);
                    o
                }
                _ => {
                    v.assign(r(4));
                    vec![r(4); old.len()]
                }
            },
            Obj::M(m) => match k {
                0 => {
                    m[(0, 0)] = r(9);
                    let mut o = old.to_vec();
                    o[0] = r(9);
                    o
                }
                1 => {
                    *m *= two;
                    old.iter().map(|x| *x * two).collect()
                }
                2 => {
                    *m += r(1);
                    old.iter().map(|x| *x + r(1)).collect()
                }
                3 => {
                    m.swap_rows(0, 1);
                    let c = m.cols();
                    let mut o = old.to_vec();
                    for j in 0..c {
                        o.swap(j, c + j);
                    }
                    o
                }
                _ => {
                    m.fill(r(4));
                    vec![r(4); old.len()]
                }
            },
            Obj::B(b) => match k {
                0 => {
                    b[(0, 0)] = r(9);
                    let idx = b.size_below();
                    let mut o = old.to_vec();
                    o[idx] = r(9);
                    o
                }
                1 => {
                    *b *= two;
                    old.iter().map(|x| *x * two).collect()
                }
                2 => {
                    *b += r(1);
                    old.iter().map(|x| *x + r(1)).collect()
                }
                3 => {
                    *b -= r(3);
                    old.iter().map(|x| *x - r(3)).collect()
                }
                _ => {
                    b.fill(r(4));
                    vec![r(4); old.len()]
                }
            },
            Obj::T(t) => match k {
                0 => {
                    t[(0, 0)] = r(9);
                    let n = t.size();
                    let mut o = old.to_vec();
                    o[n - 1] = r(9);
                    o
                }
                1 => {
                    *t *= two;
                    old.iter().map(|x| *x * two).collect()
                }
                2 => {
                    *t += r(1);
                    old.iter().map(|x| *x + r(1)).collect()
                }
                3 => {
                    t.transpose_in_place();
                    let n = t.size();
                    let mut o = old[2 * n - 1..].to_vec();
                    o.extend_from_slice(&old[n - 1..2 * n - 1]);
                    o.extend_from_slice(&old[..n - 1]);
                    o
                }
                _ => {
                    *t -= r(2);
                    old.iter().map(|x| *x - r(2)).collect()
                }
            },
            Obj::P(p) => match k {
                0 => {
                    p[0] = r(9);
                    let mut o = old.to_vec();
                    o[0] = r(9);
                    o
                }
                1 => {
                    p.coeffs().push(r(7));
                    let mut o = old.to_vec();
                    o.push(r(7));
                    o
                }
                2 => {
                    let l = p.size() - 1;
                    p[l] = r(0);
                    let mut o = old.to_vec();
                    o[l] = r(0);
                    o
                }
                3 => {
                    p.trim();
                    let mut o = old.to_vec();
                    while o.len() > 1 && o.last().unwrap().is_zero() {
                        o.pop();
                    }
                    o
                }
                _ => {
                    p.coeffs()[0] = r(-1);
                    let mut o = old.to_vec();
                    o[0] = r(-1);
                    o
                }
            },
        }
    }
}
#[derive(Clone)]
struct Pair {
    a: Obj,
    b: Obj,
    ma: Vec<Rat>,
    mb: Vec<Rat>,
}
#[derive(Clone, Debug)]
enum PAct {
    MutA(usize),
    MutB(usize),
    RecloneB,
    RecloneA,
}
impl Sut for Pair {
    type Act = PAct;
    fn key(&self) -> Key {
        // the type of the object and the lengths are part of the state: equal contents of different types have different futures
        let tag = match self.a {
            Obj::V(_) => 1,
            Obj::M(_) => 2,
            Obj::B(_) => 3,
            Obj::T(_) => 4,
            Obj::P(_) => 5,
        };
        let mut k = vec![tag, self.ma.len() as i128, self.mb.len() as i128];
        for v in self.ma.iter().chain([r(-777)].iter()).chain(self.mb.iter()) {
            k.push(v.n);
            k.push(v.d);
        }
        k
    }
    fn actions(&self) -> Vec<PAct> {
        let big = self.ma.iter().chain(self.mb.iter()).any(|v| v.n.abs() > 500);
        let long = self.ma.len() > 8 || self.mb.len() > 8;
        let mut a = vec![];
        for k in 0..5 {
            if big && (k == 1 || k == 2) {
                continue;
            }
            if long && k == 1 && matches!(self.a, Obj::P(_)) {
                continue;
            }
            a.push(PAct::MutA(k));
            a.push(PAct::MutB(k));
        }
        a.push(PAct::RecloneB);
        a.push(PAct::RecloneA);
        a
    }
    fn step(&mut self, a: &PAct, hits: &mut Vec<&'static str>) -> Result<(), String> {
        match a {
            PAct::MutA(k) => {
                self.ma = self.a.mutate(*k, &self.ma.clone());
                hits.push("mutation of the original");
            }
            PAct::MutB(k) => {
                self.mb = self.b.mutate(*k, &self.mb.clone());
                hits.push("mutation of the clone");
            }
            PAct::RecloneB => {
                self.b = self.a.clone();
                self.mb = self.ma.clone();
            }
            PAct::RecloneA => {
                self.a = self.b.clone();
                self.ma = self.mb.clone();
            }
        }
        self.check()
    }
    fn warm(&self) {
        for o in [&self.a, &self.b] {
            match o {
                Obj::V(v) => {
                    let _ = catch(|| v.dot(v));
                }
                Obj::M(m) => {
                    let _ = catch(|| m.transpose());
                }
                Obj::B(b) => {
                    let _ = catch(|| b.det());
                    let _ = catch(|| b.solve(&vecr(b.size(), 0)));
                }
                Obj::T(t) => {
                    let _ = catch(|| t.det());
                    let _ = catch(|| t.solve(&vecr(t.size(), 0)));
                }
                Obj::P(p) => {
                    if p.size() > 0 {
                        let _ = catch(|| p.eval(r(2)));
                    }
                }
            }
        }
    }
    fn check(&self) -> Result<(), String> {
        ensure!(self.a.content() == self.ma, "the first value holds {:?} expected {:?} (aliasing with its clone?)", self.a.content(), self.ma);
        ensure!(self.b.content() == self.mb, "the second value holds {:?} expected {:?} (aliasing with its clone?)", self.b.content(), self.mb);
        Ok(())
    }
    fn classes(&self, hits: &mut Vec<&'static str>) {
        if self.ma != self.mb {
            hits.push("state where original and clone differ");
        }
    }
    fn show(&self) -> String {
        format!("{:?} | {:?}", self.ma, self.mb)
    }
}
fn pair_of(o: Obj) -> Pair {
    let c = o.content();
    Pair { b: o.clone(), a: o, ma: c.clone(), mb: c }
}

/// owned and borrowed operator forms on element types with signed zeros / infinities: results compared through their Debug
/// rendering, which distinguishes -0.0 from 0.0 (the by-reference form is the definition, the consuming form must equal it)
fn owned_vs_borrowed<T>(e: &[T], sc: &[T]) -> Result<(), String>
where
    T: Copy + PartialOrd + ohsl::Number + ohsl::Signed + std::fmt::Debug + std::ops::Neg<Output = T>,
{
    macro_rules! same {
        ($what:expr, $a:expr, $b:expr) => {{
            let (x, y) = (format!("{:?}", $a), format!("{:?}", $b));
            ensure!(x == y, "{}: borrowed form gives {} but consuming form gives {}", $what, x, y);
        }};
    }
    // 2x2 matrices a (entries e[0..4]) and b (rotated)
    let mk = |o: usize| {
        let mut m = Matrix::new(2, 2, e[o % 4]);
        for k in 0..4 {
            m[(k / 2, k % 2)] = e[(k + o) % 4];
        }
        m
    };
    let (a, b) = (mk(0), mk(1));
    let v = Vector::create(vec![e[2], e[1]]);
    same!("-Matrix", -&a, -a.clone());
    same!("Matrix + Matrix", &a + &b, a.clone() + b.clone());
    same!("Matrix - Matrix", &a - &b, a.clone() - b.clone());
    same!("Matrix * Matrix", &a * &b, a.clone() * b.clone());
    same!("Matrix * Vector", &a * &v, a.clone() * v.clone());
    for s in sc {
        same!(format!("Matrix * {:?}", s), &a * *s, a.clone() * *s);
        same!(format!("Matrix / {:?}", s), &a / *s, a.clone() / *s);
    }
    // vectors
    let (x, y) = (Vector::create(e.to_vec()), Vector::create(vec![e[3], e[0], e[1], e[2]]));
    same!("Vector + Vector", &x + &y, x.clone() + y.clone());
    same!("Vector + &Vector", &x + &y, x.clone() + &y);
    same!("Vector - Vector", &x - &y, x.clone() - y.clone());
    same!("Vector - &Vector", &x - &y, x.clone() - &y);
    // banded 3x3 with one sub- and one super-diagonal
    let mkb = |o: usize| {
        let mut m = Banded::new(3, 1, 1, e[o % 4]);
        let mut k = o;
        for i in 0..3usize {
            for j in 0..3usize {
                if j <= i + 1 && i <= j + 1 {
                    m[(i, j)] = e[k % 4];
                    k += 1;
                }
            }
        }
        m
    };
    let (p, q) = (mkb(0), mkb(1));
    let w = Vector::create(vec![e[2], e[1], e[3]]);
    same!("-Banded", -&p, -p.clone());
    same!("Banded + Banded", &p + &q, p.clone() + q.clone());
    same!("Banded - Banded", &p - &q, p.clone() - q.clone());
    same!("Banded * Vector", &p * &w, p.clone() * w.clone());
    for s in sc {
        same!(format!("Banded * {:?}", s), &p * *s, p.clone() * *s);
        same!(format!("Banded / {:?}", s), &p / *s, p.clone() / *s);
    }
    // tridiagonal
    let t = Tridiagonal::with_vecs(vec![e[0], e[1]], vec![e[1], e[2], e[3]], vec![e[3], e[0]]);
    same!("Tridiagonal * Vector", &t * &w, t.clone() * w.clone());
    // polynomials
    let (f, g) = (Polynomial::new(e.to_vec()), Polynomial::new(vec![e[1], e[3], e[0]]));
    same!("-Polynomial", -&f, -f.clone());
    same!("Polynomial + Polynomial", &f + &g, f.clone() + g.clone());
    same!("Polynomial - Polynomial", &f - &g, f.clone() - g.clone());
    same!("Polynomial * Polynomial", &f * &g, f.clone() * g.clone());
    for s in sc {
        same!(format!("Polynomial * {:?}", s), &f * *s, f.clone() * *s);
    }
    Ok(())
}

fn main() {
    let ctx = Ctx::from_args("C20");
    ctx.level("model_checking");
    ctx.rule("E1 entry-point table: every binary operator (owned and borrowed), solver entry and checked accessor of Vector, Matrix, Banded, Tridiagonal, Sparse, Mesh1D/2D and Polynomial x ALL pairs of sizes/shapes up to 6 (matrices up to 3x3 quick / 6x6 thorough; accessors with every argument up to size+2): the call must panic iff the pair is a mismatch / the argument out of range; after a refusal every operand equals its snapshot (nothing written before the check); by-reference and &self operations leave operands unchanged; owned and borrowed forms return identical results. E2: BFS over interleavings of mutations on a value and its clone (and re-cloning either way) for Vector, Matrix, Banded, Tridiagonal, Polynomial, with independent models. Non-trivial: mismatched pairs, out-of-range arguments. The raw (i,j) index operators of Matrix, Banded and Mesh2D are excluded as the property states.");
    ctx.assume("0x0 systems are not passed to the dense solvers (n >= 1 in C01)");
    ctx.require(&["mismatched or out-of-range calls", "conforming calls", "mutation of the original", "mutation of the clone", "owned/borrowed pair on signed-zero data", "state where original and clone differ"]);
    let nm = ctx.pick(3, 6);
    let groups: Vec<(&str, Box<dyn Fn(&mut Vec<(String, String)>) + Sync>)> = vec![
        ("Vector", Box::new(vector_entries)),
        ("Matrix", Box::new(move |o| matrix_entries(o, nm))),
        ("Banded", Box::new(banded_entries)),
        ("Tridiagonal", Box::new(tridiagonal_entries)),
        ("Sparse", Box::new(sparse_entries)),
        ("Mesh1D/Mesh2D", Box::new(mesh_entries)),
        ("Mesh1D/Mesh2D variable and node arguments, degenerate shapes", Box::new(mesh_argument_entries)),
        ("Polynomial", Box::new(polynomial_entries)),
        ("sizes beyond 6", Box::new(large_size_entries)),
        ("zero / non-finite operands", Box::new(zero_operand_entries)),
    ];
    ctx.lattice(
        "entry-point table: 7 types x all size pairs / arguments up to 6, binary vector / matrix operations on 14 sizes and 10 shapes up to 64, and the mismatched binary entries once more on all-zero / non-finite operands",
        groups.len() as u64,
        |i| groups[i as usize].0.to_string(),
        |i, acc| {
            let mut out = vec![];
            COUNTS.with(|c| c.borrow_mut().clear());
            let res = catch(|| (groups[i as usize].1)(&mut out));
            if let Err(p) = res {
                acc.fail(i, groups[i as usize].0.to_string(), format!("harness-level panic in the {} table: {}", groups[i as usize].0, p));
            }
            let mut calls = 0u64;
            let mut mism = 0u64;
            let mut entries = 0u64;
            COUNTS.with(|c| {
                for (_, (n, m)) in c.borrow().iter() {
                    calls += n;
                    mism += m;
                    entries += 1;
                }
            });
            *acc.hits.entry("entry points").or_insert(0) += entries;
            *acc.hits.entry("mismatched or out-of-range calls").or_insert(0) += mism;
            *acc.hits.entry("conforming calls").or_insert(0) += calls - mism;
            acc.evals += calls.saturating_sub(1);
            acc.nontrivial += mism;
            for (k, d) in out {
                if d.starts_with("MACHINERY") {
                    acc.machinery(format!("{}: {}", k, d));
                } else {
                    acc.fail(i, k, d);
                }
            }
        },
    );
    {
        let fl = [0.0f64, -0.0, 1.5, -2.0, f64::INFINITY, f64::NEG_INFINITY];
        let cl = [Cmplx::new(0.0, 0.0), Cmplx::new(-0.0, -0.0), Cmplx::new(0.0, -0.0), Cmplx::new(1.5, -2.0), Cmplx::new(f64::INFINITY, 1.0), Cmplx::new(-2.0, 0.0), Cmplx::new(0.0, 3.0)];
        ctx.lattice(
            "owned vs borrowed operator forms on f64 with signed zeros and infinities: all 4-tuples over 6 letters",
            6u64.pow(4),
            |i| format!("{}", i),
            |i, acc| {
                let e: Vec<f64> = (0..4).map(|k| fl[((i / 6u64.pow(k)) % 6) as usize]).collect();
                acc.nontriv("owned/borrowed pair on signed-zero data");
                judge(acc, i, || format!("f64 entries {:?}", e), || owned_vs_borrowed(&e, &[2.0, -1.0, 0.0, -0.0]));
            },
        );
        ctx.lattice(
            "owned vs borrowed operator forms on Complex<f64> with signed zero parts and infinite parts: all 4-tuples over 7 letters",
            7u64.pow(4),
            |i| format!("{}", i),
            |i, acc| {
                let e: Vec<Cmplx> = (0..4).map(|k| cl[((i / 7u64.pow(k)) % 7) as usize]).collect();
                acc.nontriv("owned/borrowed pair on signed-zero data");
                judge(acc, i, || format!("Complex<f64> entries {:?}", e), || owned_vs_borrowed(&e, &[Cmplx::new(2.0, 0.0), Cmplx::new(-1.0, 0.0), Cmplx::new(0.0, 1.0), Cmplx::new(0.0, 0.0)]));
            },
        );
    }
    let depth = ctx.pick(4, 8);
    let inits = vec![
        pair_of(Obj::V(vecr(3, 0))),
        pair_of(Obj::M(matr(2, 3, 0))),
        pair_of(Obj::B(band(3, 1, 1, 0))),
        pair_of(Obj::T(tri(3, 0))),
        pair_of(Obj::P(poly(3))),
    ];
    explore(&ctx, "value / clone mutation interleavings", inits.clone(), BfsOpts { max_depth: depth, state_cap: ctx.pick(1_000_000, 20_000_000) });
    if ctx.quick() {
        crosscheck_stateright(&ctx, "value / clone mutation interleavings", inits, depth);
    }
    std::process::exit(ctx.finish());
}
