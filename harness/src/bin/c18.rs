//! C18 - the finite-difference Jacobian is m x n and equals the forward difference quotients.
use mc::*;
use ohsl::{Cmplx, Mat64, Matrix, Vec64, Vector};
use std::cell::RefCell;

fn m_entry(pat: usize, i: usize, j: usize) -> f64 {
    match pat {
        0 => ((i * 3 + j * 5) % 7) as f64 - 3.0 + if (i + j) % 2 == 0 { 0.5 } else { 0.0 },
        _ => (if (i + 2 * j) % 3 == 0 { -1.25 } else { 0.75 }) * (1 + (i * j) % 3) as f64,
    }
}
fn build_m(pat: usize, m: usize, n: usize, dev: Option<(usize, usize)>) -> Vec<Vec<f64>> {
    let mut a: Vec<Vec<f64>> = (0..m).map(|i| (0..n).map(|j| m_entry(pat, i, j)).collect()).collect();
    if let Some((i, j)) = dev {
        if i == usize::MAX {
            // the map does not depend on variable j at all: the perturbed evaluation equals the unperturbed one
            for row in a.iter_mut() {
                row[j] = 0.0;
            }
        } else {
            a[i][j] = 6.5; // a value no pattern entry takes: a misplaced column or row shows
        }
    }
    a
}
const COORDS: [f64; 5] = [-4.0, -1.0, 0.0, 0.25, 3.0];
/// largest n whose point lattice {-4,-1,0,0.25,3}^n is enumerated completely (3 quick, 5 thorough)
static FULL_POINTS_UPTO: std::sync::atomic::AtomicUsize = std::sync::atomic::AtomicUsize::new(3);
fn points(n: usize) -> Vec<Vec<f64>> {
    let mut pts = vec![];
    if n <= FULL_POINTS_UPTO.load(std::sync::atomic::Ordering::Relaxed) {
        for idx in 0..pow(5, n as u32) {
            let mut d = vec![0usize; n];
            digits_uniform(idx, 5, &mut d);
            pts.push(d.iter().map(|&k| COORDS[k]).collect());
        }
    } else {
        pts.push(vec![0.0; n]);
        pts.push((0..n).map(|k| COORDS[k % 5]).collect());
        pts.push((0..n).map(|k| COORDS[(2 * k + 1) % 5]).collect());
        pts.push(vec![-4.0; n]);
        pts.push(vec![3.0; n]);
    }
    pts
}
fn deltas() -> Vec<(f64, bool)> {
    let mut d: Vec<(f64, bool)> = (4..=26).map(|k| (2f64.powi(-k), true)).collect();
    d.push((1e-8, false));
    d
}

fn affine_case(m: usize, n: usize, pat: usize, dev: Option<(usize, usize)>, acc: &mut Acc) -> Result<(), String> {
    affine_case_scaled(m, n, pat, dev, 1.0, acc)
}
/// `scale` (a power of two) multiplies M and c: with 2^1000 the values f(x) are of order 2^1007 while the quotients (f(x + delta e_j) -
/// f(x)) / delta are still exactly the entries of M - dividing f itself by delta would overflow
fn affine_case_scaled(m: usize, n: usize, pat: usize, dev: Option<(usize, usize)>, scale: f64, acc: &mut Acc) -> Result<(), String> {
    let a: Vec<Vec<f64>> = build_m(pat, m, n, dev).iter().map(|r| r.iter().map(|v| v * scale).collect()).collect();
    let c: Vec<f64> = (0..m).map(|i| ((i as f64) * 0.5 - 1.0) * scale).collect();
    for (delta, dyadic) in deltas() {
        // besides the fixed lattice: points with a coordinate in [-delta, 0) (the perturbed coordinate lands on / crosses zero)
        let mut pts = points(n);
        if dyadic {
            let mut q = pts[1 % pts.len()].clone();
            q[0] = -delta;
            pts.push(q);
            let mut q = pts[2 % pts.len()].clone();
            q[n - 1] = -delta * 0.5;
            pts.push(q);
        }
        // points whose coordinates do not survive "x + delta - delta" (tiny coordinates are absorbed, coordinates just below a
        // power of two cross the binade): restored means the ORIGINAL value, bit for bit; entries are not exact there
        let ndrift = if dyadic {
            let base = pts[1 % pts.len()].clone();
            let mut extra = vec![];
            for (pos, val) in [(0usize, 2f64.powi(-60)), (n - 1, 4.0 - 2f64.powi(-51)), (n / 2, -2f64.powi(-70))] {
                let mut q = base.clone();
                q[pos] = val;
                extra.push(q);
            }
            let k = extra.len();
            pts.extend(extra);
            k
        } else {
            0
        };
        let first_drift = pts.len() - ndrift;
        for (pi, p) in pts.into_iter().enumerate() {
            let drift_point = pi >= first_drift;
            acc.hit("jacobian calls");
            let log: RefCell<Vec<Vec<f64>>> = RefCell::new(vec![]);
            let f = |x: Vec64| -> Vec64 {
                log.borrow_mut().push(x.vec.clone());
                Vector::create((0..m).map(|i| c[i] + (0..n).map(|j| a[i][j] * x[j]).sum::<f64>()).collect())
            };
            let jac = Mat64::jacobian(Vector::create(p.clone()), &f, delta);
            ensure!(jac.rows() == m && jac.cols() == n, "shape {}x{} for a map R^{} -> R^{}", jac.rows(), jac.cols(), n, m);
            let fmax = (0..m).map(|i| c[i].abs() + (0..n).map(|j| (a[i][j] * p[j]).abs()).sum::<f64>()).fold(scale, f64::max);
            for i in 0..m {
                for j in 0..n {
                    if drift_point {
                        let tol = 8.0 * f64::EPSILON * fmax / delta + 1e-12 * scale;
                        ensure!((jac[(i, j)] - a[i][j]).abs() <= tol, "m={} n={} delta=2^{}: J[{},{}] = {} expected {} (tol {:e}) at {:?}", m, n, delta.log2(), i, j, jac[(i, j)], a[i][j], tol, p);
                    } else if dyadic {
                        ensure!(jac[(i, j)] == a[i][j], "m={} n={} delta=2^{}: J[{},{}] = {} expected exactly {} at {:?}", m, n, delta.log2(), i, j, jac[(i, j)], a[i][j], p);
                    } else {
                        let tol = 8.0 * f64::EPSILON * fmax / delta + 1e-12 * scale;
                        ensure!((jac[(i, j)] - a[i][j]).abs() <= tol, "delta=1e-8: J[{},{}] = {} expected {} (tol {:e})", i, j, jac[(i, j)], a[i][j], tol);
                    }
                }
            }
            // the sequence of evaluation points: x, x + delta e_0, x + delta e_1, ... each coordinate restored in between
            let lg = log.borrow();
            ensure!(lg.len() == n + 1, "{} evaluations expected {}", lg.len(), n + 1);
            ensure!(lg.iter().all(|v| v.len() == n), "the map was evaluated at a vector of length {:?} instead of {}", lg.iter().map(|v| v.len()).collect::<Vec<_>>(), n);
            ensure!(lg[0] == p, "first evaluation at {:?} instead of the point {:?}", lg[0], p);
            for j in 0..n {
                for k in 0..n {
                    let want = if k == j { p[k] + delta } else { p[k] };
                    if drift_point && k != j {
                        ensure!(lg[j + 1][k].to_bits() == p[k].to_bits(), "evaluation {}: coordinate {} is {:e} but the point has {:e} there: not restored after its own perturbation (delta = 2^{})", j + 1, k, lg[j + 1][k], p[k], delta.log2());
                    } else if dyadic || k == j {
                        ensure!(lg[j + 1][k] == want, "evaluation {}: coordinate {} is {} expected {} (point {:?}, delta {:e})", j + 1, k, lg[j + 1][k], want, p, delta);
                    } else {
                        ensure!(mc::fl::ulps(lg[j + 1][k], want) <= 1 || (lg[j + 1][k] - want).abs() <= delta * 1e-7, "evaluation {}: coordinate {} is {} expected {} (not restored)", j + 1, k, lg[j + 1][k], want);
                    }
                }
            }
        }
    }
    Ok(())
}

fn affine_case_cmplx(m: usize, n: usize, pat: usize) -> Result<(), String> {
    affine_case_cmplx_zc(m, n, pat, None)
}
/// `zero_col`: a variable the map ignores (the perturbed evaluation equals the unperturbed one: a shortcut taken there must still
/// restore the coordinate - the call log shows it)
fn affine_case_cmplx_zc(m: usize, n: usize, pat: usize, zero_col: Option<usize>) -> Result<(), String> {
    let a = build_m(pat, m, n, None);
    let ci = |i: usize, j: usize| if Some(j) == zero_col { Cmplx::new(0.0, 0.0) } else { Cmplx::new(a[i][j], m_entry(1 - pat, i, j)) };
    for p in points(n).into_iter().take(7) {
        let pz: Vec<Cmplx> = p.iter().enumerate().map(|(k, x)| Cmplx::new(*x, COORDS[(k + 2) % 5])).collect();
        for (delta, dyadic) in deltas() {
            if !dyadic {
                continue;
            }
            let log: RefCell<Vec<Vec<Cmplx>>> = RefCell::new(vec![]);
            let f = |x: Vector<Cmplx>| -> Vector<Cmplx> {
                log.borrow_mut().push(x.vec.clone());
                Vector::create(
                    (0..m)
                        .map(|i| {
                            let mut s = Cmplx::new(i as f64, -1.0);
                            for j in 0..n {
                                s += ci(i, j) * x[j];
                            }
                            s
                        })
                        .collect(),
                )
            };
            let jac = Matrix::<Cmplx>::jacobian_cmplx(Vector::create(pz.clone()), &f, delta);
            ensure!(jac.rows() == m && jac.cols() == n, "complex: shape {}x{} for a map C^{} -> C^{}", jac.rows(), jac.cols(), n, m);
            for i in 0..m {
                for j in 0..n {
                    ensure!(jac[(i, j)] == ci(i, j), "complex m={} n={} delta=2^{}: J[{},{}] = {:?} expected exactly {:?}", m, n, delta.log2(), i, j, jac[(i, j)], ci(i, j));
                }
            }
            let lg = log.borrow();
            ensure!(lg.len() == n + 1 && lg[0] == pz, "complex: evaluation sequence");
            for j in 0..n {
                for k in 0..n {
                    let want = if k == j { pz[k] + Cmplx::new(delta, 0.0) } else { pz[k] };
                    ensure!(lg[j + 1][k] == want, "complex evaluation {}: coordinate {} is {:?} expected {:?}", j + 1, k, lg[j + 1][k], want);
                }
            }
        }
    }
    // coordinates that "z + delta - delta" does not give back: a tiny real part, a real part just below 4, an imaginary part -0.0
    let mut pz: Vec<Cmplx> = (0..n).map(|k| Cmplx::new(COORDS[(k + 1) % 5], COORDS[(k + 3) % 5])).collect();
    pz[0] = Cmplx::new(2f64.powi(-60), -0.0);
    pz[n - 1] = Cmplx::new(4.0 - 2f64.powi(-51), if n > 1 { 0.25 } else { -0.0 });
    for k in [4, 13, 26] {
        let delta = 2f64.powi(-k);
        let log: RefCell<Vec<Vec<Cmplx>>> = RefCell::new(vec![]);
        let f = |x: Vector<Cmplx>| -> Vector<Cmplx> {
            log.borrow_mut().push(x.vec.clone());
            Vector::create((0..m).map(|i| (0..n).fold(Cmplx::new(i as f64, -1.0), |s, j| s + ci(i, j) * x[j])).collect())
        };
        let jac = Matrix::<Cmplx>::jacobian_cmplx(Vector::create(pz.clone()), &f, delta);
        ensure!(jac.rows() == m && jac.cols() == n, "complex: shape {}x{}", jac.rows(), jac.cols());
        let lg = log.borrow();
        ensure!(lg.len() == n + 1, "complex: {} evaluations expected {}", lg.len(), n + 1);
        for j in 0..n {
            for c in 0..n {
                if c != j {
                    ensure!(lg[j + 1][c].real.to_bits() == pz[c].real.to_bits() && lg[j + 1][c].imag.to_bits() == pz[c].imag.to_bits(), "complex evaluation {}: coordinate {} is {:?} but the point has {:?} there: not restored (delta = 2^-{})", j + 1, c, lg[j + 1][c], pz[c], k);
                } else {
                    // the step goes into the real part only: an imaginary part -0.0 stays -0.0 (x - 0i and x + 0i lie on different
                    // sides of every branch cut along the real axis)
                    ensure!(lg[j + 1][c].real.to_bits() == (pz[c].real + delta).to_bits() && lg[j + 1][c].imag.to_bits() == pz[c].imag.to_bits(), "complex evaluation {}: the perturbed coordinate {} is {:?} but the point has {:?} there and delta = 2^-{}: only the real part may change, by exactly delta", j + 1, c, lg[j + 1][c], pz[c], k);
                }
            }
        }
    }
    Ok(())
}

/// 2x2 integer affine maps in two regimes where every quantity of the difference quotient is still exactly representable:
/// kind 0 - function values that are SUBNORMAL (x -> 2^-1074 (M x + c), M over {16,48,-32,0}, delta = 2^-4: halving a value with an odd
/// last bit rounds); kind 1 - a large offset (c = 1.5 * 2^26 + integers, M over {1,-2,3,0}, delta = 2^-26: the difference M delta is one
/// or a few units in the last place of f, not "cancellation noise"). Real and complex Jacobians; J must equal scale * M exactly.
fn integer_map_case(idx: u64, kind: usize) -> Result<(), String> {
    let ml: [f64; 4] = if kind == 0 { [16.0, 48.0, -32.0, 0.0] } else { [1.0, -2.0, 3.0, 0.0] };
    let (scale, delta, offset) = if kind == 0 { (2f64.powi(-1074), 2f64.powi(-4), 0.0) } else { (1.0, 2f64.powi(-26), 1.5 * 2f64.powi(26)) };
    let mut d = vec![0usize; 4];
    digits_uniform(idx, 4, &mut d);
    let m = [[ml[d[0]], ml[d[1]]], [ml[d[2]], ml[d[3]]]];
    let c = [offset + 1.0, offset - 3.0];
    for (x0, x1) in [(2.0f64, -1.0f64), (3.0, 2.0), (-1.0, 3.0), (0.0, 1.0)] {
        // the scale is applied to the exactly computed integer value (2^-1074 * integer is exact; for kind 1 the scale is 1)
        let f = |v: Vec64| -> Vec64 { Vector::create((0..2).map(|i| (m[i][0] * v[0] + m[i][1] * v[1] + c[i]) * scale).collect()) };
        let jac = Mat64::jacobian(Vector::create(vec![x0, x1]), &f, delta);
        for i in 0..2 {
            for j in 0..2 {
                ensure!(jac[(i, j)] == m[i][j] * scale, "real: J[{},{}] = {:e} but the entry is {:e} (M = {:?}, point ({}, {}), delta = 2^{}, values scaled by {:e}, offset {:e})", i, j, jac[(i, j)], m[i][j] * scale, m, x0, x1, delta.log2(), scale, offset);
            }
        }
        let fz = |v: Vector<Cmplx>| -> Vector<Cmplx> {
            Vector::create((0..2).map(|i| Cmplx::new((m[i][0] * v[0].real + m[i][1] * v[1].real + c[i]) * scale, (m[i][0] * v[0].imag + m[i][1] * v[1].imag + 2.0) * scale)).collect())
        };
        let jz = Matrix::<Cmplx>::jacobian_cmplx(Vector::create(vec![Cmplx::new(x0, 1.0), Cmplx::new(x1, -2.0)]), &fz, delta);
        for i in 0..2 {
            for j in 0..2 {
                ensure!(jz[(i, j)].real == m[i][j] * scale && jz[(i, j)].imag == 0.0, "complex: J[{},{}] = {:?} but the entry is {:e} (M = {:?}, point ({}, {}), delta = 2^{}, values scaled by {:e}, offset {:e})", i, j, jz[(i, j)], m[i][j] * scale, m, x0, x1, delta.log2(), scale, offset);
            }
        }
    }
    Ok(())
}

fn smooth_case(m: usize, n: usize, acc: &mut Acc) -> Result<(), String> {
    // F_i(x) = sin(x_{i mod n}) + x_{i mod n} * x_{(i+1) mod n} ; second derivatives bounded by 3 on [-4,4]
    let f = |x: Vec64| -> Vec64 { Vector::create((0..m).map(|i| x[i % n].sin() + x[i % n] * x[(i + 1) % n]).collect()) };
    for p in points(n).into_iter().take(9) {
        for delta in [1e-4, 1e-6, 1e-8] {
            let jac = Mat64::jacobian(Vector::create(p.clone()), &f, delta);
            ensure!(jac.rows() == m && jac.cols() == n, "smooth: shape");
            for i in 0..m {
                for j in 0..n {
                    let (u, v) = (i % n, (i + 1) % n);
                    let mut want = 0.0;
                    if j == u {
                        want += p[u].cos() + if u == v { 2.0 * p[u] } else { p[v] };
                    } else if j == v {
                        want += p[u];
                    }
                    let tol = 10.0 * delta * 3.0 + 1e-15 * 20.0 / delta * 16.0;
                    acc.worst("smooth_jacobian_error_over_tolerance", (jac[(i, j)] - want).abs() / tol, || format!("m={} n={} p={:?} delta={:e}", m, n, p, delta));
                    ensure!((jac[(i, j)] - want).abs() <= tol, "smooth: J[{},{}] = {} analytic {} (delta {:e})", i, j, jac[(i, j)], want, delta);
                }
            }
        }
    }
    Ok(())
}

/// square maps x -> M x + c whose matrix is symmetric EXCEPT for 2^-30 (or 2^-20, -2^-28) in one off-diagonal entry - every
/// position in turn -, and exactly symmetric ones: the slopes are exact for dyadic steps, so J = M bit for bit (a "Hessian"
/// clean-up that averages nearly equal off-diagonal pairs is off by 2^-31)
fn nearly_symmetric_case(n: usize) -> Result<(), String> {
    let sym = |i: usize, j: usize| ((i + j) % 5) as f64 - 2.0 + if i == j { 3.0 } else { 0.0 };
    let mut variants: Vec<Option<(usize, usize, f64)>> = vec![None];
    for i in 0..n {
        for j in 0..n {
            if i != j {
                variants.push(Some((i, j, [2f64.powi(-30), 2f64.powi(-20), -2f64.powi(-28)][(i + 2 * j) % 3])));
            }
        }
    }
    for var in variants {
        let mm = |i: usize, j: usize| sym(i, j) + match var { Some((a, b, e)) if a == i && b == j => e, _ => 0.0 };
        for p in [vec![0.0; n], (0..n).map(|k| COORDS[k % 5]).collect::<Vec<f64>>()] {
            // (steps down to 2^-14: the products 2^-30 * 2^-14 and the sums of at most six terms below 128 are still exact)
            for k in [4, 10, 14] {
                let delta = 2f64.powi(-k);
                let f = |x: Vec64| -> Vec64 { Vector::create((0..n).map(|i| (0..n).fold(i as f64 - 1.0, |s, j| s + mm(i, j) * x[j])).collect()) };
                let jac = Mat64::jacobian(Vector::create(p.clone()), &f, delta);
                ensure!(jac.rows() == n && jac.cols() == n, "nearly symmetric: shape");
                for i in 0..n {
                    for j in 0..n {
                        ensure!(jac[(i, j)] == mm(i, j), "nearly symmetric n={} variant {:?} delta=2^-{}: J[{},{}] = {:?} expected exactly {:?} (J[{},{}] = {:?})", n, var, k, i, j, jac[(i, j)], mm(i, j), j, i, jac[(j, i)]);
                    }
                }
            }
        }
    }
    Ok(())
}

/// a REAL point at which the map takes REAL values although its slopes are complex: F(z) = r + M (z - p) with real r, real p and
/// complex M (every term dyadic, so F(p) = r exactly), and F(z) = i (z^2 - 1) at z = 1 (slope 2i). The Jacobian is M (resp. 2i to
/// within the step): nothing about the point or the value there says that the problem is real
fn real_point_complex_slope_case(m: usize, n: usize, pat: usize) -> Result<(), String> {
    let a = build_m(pat, m, n, None);
    let ci = |i: usize, j: usize| Cmplx::new(a[i][j], m_entry(1 - pat, i, j));
    for (pi, p) in points(n).into_iter().take(5).enumerate() {
        // imaginary parts +0.0 / -0.0 alternate
        let pz: Vec<Cmplx> = p.iter().enumerate().map(|(k, x)| Cmplx::new(*x, if (k + pi) % 2 == 0 { 0.0 } else { -0.0 })).collect();
        for k in [4, 13, 26] {
            let delta = 2f64.powi(-k);
            let pzc = pz.clone();
            let f = |x: Vector<Cmplx>| -> Vector<Cmplx> {
                Vector::create((0..m).map(|i| (0..n).fold(Cmplx::new(i as f64 - 2.0, 0.0), |s, j| s + ci(i, j) * (x[j] - pzc[j]))).collect())
            };
            let at = f(Vector::create(pz.clone()));
            ensure!(at.vec.iter().all(|v| v.imag == 0.0), "MACHINERY: the map is not real at the point");
            let jac = Matrix::<Cmplx>::jacobian_cmplx(Vector::create(pz.clone()), &f, delta);
            for i in 0..m {
                for j in 0..n {
                    ensure!(jac[(i, j)] == ci(i, j), "real point, real value, complex slope (m={} n={} delta=2^-{}): J[{},{}] = {:?} expected exactly {:?}", m, n, k, i, j, jac[(i, j)], ci(i, j));
                }
            }
        }
    }
    if m == 1 && n == 1 {
        let f = |x: Vector<Cmplx>| -> Vector<Cmplx> { Vector::create(vec![Cmplx::new(0.0, 1.0) * (x[0] * x[0] - Cmplx::new(1.0, 0.0))]) };
        let delta = 2f64.powi(-20);
        let jac = Matrix::<Cmplx>::jacobian_cmplx(Vector::create(vec![Cmplx::new(1.0, 0.0)]), &f, delta);
        ensure!((jac[(0, 0)].imag - 2.0).abs() <= 2.0 * delta && jac[(0, 0)].real.abs() <= 2.0 * delta, "d/dz i (z^2 - 1) at z = 1 is {:?}, expected 2i", jac[(0, 0)]);
    }
    Ok(())
}

fn main() {
    let ctx = Ctx::from_args("C18");
    ctx.level("exploration");
    ctx.rule("E1: every shape (m,n) in 1..6 x 1..6 (m<n, m=n, m>n), affine maps x -> Mx + c with two dyadic matrices, every single-entry deviation of M and every zero column of M (a variable the map ignores; real and complex), M and c multiplied by 2^1000 and 2^-1000, every point of {-4,-1,0,0.25,3}^n for n<=3 (thorough n<=5) and 5 corner/centre points above, every step 2^-4..2^-26 and 1e-8, through Mat64::jacobian and Matrix::<Cmplx>::jacobian_cmplx (plus twelve larger shapes up to 64 x 2 / 5 x 33): shape exactly m x n, entries exactly M for dyadic steps (all arithmetic exact) and within rounding for 1e-8; the closure logs its arguments: call 0 is the point, call j+1 is the point with coordinate j increased by exactly delta and all others restored - bit for bit, also for coordinates that x + delta - delta does not give back (2^-60, 4 - 2^-51, an imaginary part -0.0), and the perturbed coordinate keeps its imaginary part bit for bit; square maps symmetric except for 2^-30 / 2^-20 / -2^-28 in one off-diagonal entry (every position) exactly; complex maps that are REAL at a REAL point but have complex slopes exactly (and d/dz i(z^2-1) at 1); smooth maps within 10*delta*max|F''|. Non-trivial: m < n, m > n, n >= 2.");
    ctx.assume("exactness for dyadic data relies on every product and sum fitting in 53 bits, which holds for the chosen alphabets");
    ctx.threshold("smooth_jacobian_error_over_tolerance", 1.0);
    ctx.require(&["wide (m < n)", "tall (m > n)", "jacobian calls", "shape with m or n above 6"]);
    let thorough = true; // single-entry deviations are cheap enough for both tiers
    if ctx.thorough() {
        FULL_POINTS_UPTO.store(5, std::sync::atomic::Ordering::Relaxed);
    }
    ctx.lattice(
        "affine maps, shapes (m,n) in 1..6 x 1..6 x 2 matrices",
        72,
        |i| format!("m={} n={} pattern={}", 1 + i / 12, 1 + (i / 2) % 6, i % 2),
        |i, acc| {
            let (m, n, pat) = (1 + (i / 12) as usize, 1 + ((i / 2) % 6) as usize, (i % 2) as usize);
            if m < n {
                acc.nontriv("wide (m < n)");
            }
            if m > n {
                acc.nontriv("tall (m > n)");
            }
            if m == n {
                acc.nontriv("square");
            }
            let mut local = Acc::new("t");
            let res = catch(|| {
                affine_case(m, n, pat, None, &mut local)?;
                if pat == 0 {
                    affine_case_scaled(m, n, pat, None, 2f64.powi(1000), &mut local)?;
                    affine_case_scaled(m, n, pat, None, 2f64.powi(-1000), &mut local)?;
                }
                for dj in 0..n {
                    // variable dj does not enter the map (zero column of M)
                    affine_case(m, n, pat, Some((usize::MAX, dj)), &mut local)?;
                    affine_case_cmplx_zc(m, n, pat, Some(dj))?;
                }
                if thorough {
                    for di in 0..m {
                        for dj in 0..n {
                            affine_case(m, n, pat, Some((di, dj)), &mut local)?;
                        }
                    }
                }
                real_point_complex_slope_case(m, n, pat)?;
                if m == n && n >= 2 && pat == 0 {
                    nearly_symmetric_case(n)?;
                }
                affine_case_cmplx(m, n, pat)
            });
            for (k, v) in std::mem::take(&mut local.hits) {
                *acc.hits.entry(k).or_insert(0) += v;
            }
            let key = || format!("affine m={} n={} pattern={}", m, n, pat);
            match res {
                Ok(Ok(())) => {}
                Ok(Err(e)) => acc.fail(i, key(), e),
                Err(p) => acc.fail(i, key(), format!("unexpected panic: {}", p)),
            }
        },
    );
    // shapes beyond 6: every block size / unrolling factor of the column store and of the vector arithmetic is crossed
    {
        let shapes: Vec<(usize, usize)> = vec![(7, 3), (8, 8), (9, 3), (11, 3), (3, 9), (13, 13), (16, 4), (17, 2), (2, 17), (33, 5), (5, 33), (64, 2)];
        let sh = shapes.clone();
        ctx.lattice(
            &format!("affine maps, larger shapes {:?} x 2 matrices (real and complex)", shapes),
            shapes.len() as u64 * 2,
            |i| format!("{:?} pattern={}", sh[(i / 2) as usize], i % 2),
            |i, acc| {
                let (m, n) = sh[(i / 2) as usize];
                let pat = (i % 2) as usize;
                acc.nontriv("shape with m or n above 6");
                let mut local = Acc::new("t");
                let res = catch(|| {
                    affine_case(m, n, pat, None, &mut local)?;
                    affine_case(m, n, pat, Some((m - 1, n - 1)), &mut local)?;
                    affine_case_cmplx(m, n, pat)
                });
                for (k, v) in std::mem::take(&mut local.hits) {
                    *acc.hits.entry(k).or_insert(0) += v;
                }
                match res {
                    Ok(Ok(())) => {}
                    Ok(Err(e)) => acc.fail(i, format!("affine m={} n={} pattern={}", m, n, pat), e),
                    Err(p) => acc.fail(i, format!("affine m={} n={} pattern={}", m, n, pat), format!("unexpected panic: {}", p)),
                }
            },
        );
    }
    // call sequences on one thread: a Jacobian of a map with MANY variables followed by ones with fewer (and back)
    ctx.lattice(
        "call sequences on one thread: dimensions n = 6,5,..,1,4,2,6 in a row (nothing may be carried from call to call)",
        2,
        |i| format!("pattern {}", i),
        |i, acc| {
            acc.nontriv("dimension sequence");
            let mut local = Acc::new("t");
            let res = catch(|| -> Result<(), String> {
                for n in [6usize, 5, 4, 3, 2, 1, 4, 2, 6, 1] {
                    affine_case((n % 3) + 1, n, i as usize, None, &mut local)?;
                    affine_case_cmplx((n % 2) + 2, n, i as usize)?;
                }
                Ok(())
            });
            match res {
                Ok(Ok(())) => {}
                Ok(Err(e)) => acc.fail(i, format!("dimension sequence pattern {}", i), e),
                Err(p) => acc.fail(i, format!("dimension sequence pattern {}", i), format!("unexpected panic: {}", p)),
            }
        },
    );
    ctx.lattice(
        "smooth maps (sin + products), shapes (m,n) in 1..6 x 1..6",
        36,
        |i| format!("m={} n={}", 1 + i / 6, 1 + i % 6),
        |i, acc| {
            let (m, n) = (1 + (i / 6) as usize, 1 + (i % 6) as usize);
            if m != n {
                acc.nontriv("non-square smooth map");
            }
            let mut local = Acc::new("t");
            let res = catch(|| smooth_case(m, n, &mut local));
            acc.merge_worst(local);
            match res {
                Ok(Ok(())) => {}
                Ok(Err(e)) => acc.fail(i, format!("smooth m={} n={}", m, n), e),
                Err(p) => acc.fail(i, format!("smooth m={} n={}", m, n), format!("unexpected panic: {}", p)),
            }
        },
    );
    for kind in 0..2usize {
        ctx.lattice(
            if kind == 0 { "2x2 integer maps with SUBNORMAL values (2^-1074 (M x + c), M over {16,48,-32,0}, delta 2^-4): J = 2^-1074 M exactly, real and complex" } else { "2x2 integer maps with a large offset (c = 1.5 2^26 + .., M over {1,-2,3,0}, delta 2^-26): J = M exactly, real and complex" },
            256,
            |idx| format!("M#{}", idx),
            |idx, acc| {
                acc.nontriv("integer map in an exactly representable extreme regime");
                judge(acc, idx, || format!("integer map kind {} M#{}", kind, idx), || integer_map_case(idx, kind));
            },
        );
    }
    std::process::exit(ctx.finish());
}
