//! C11 - polynomial arithmetic, evaluation and differentiation obey ring and calculus laws.
use mc::bfs::*;
use mc::*;
use ohsl::traits::{Number, Signed};
use ohsl::{Cmplx, Polynomial};
use std::fmt::Debug;

/// equality of element values decided by the harness, not by the element type's own PartialEq (which for Complex is
/// part of the crate under test: a model comparing with it inherits its faults)
trait Ind: Copy {
    fn ieq(&self, o: &Self) -> bool;
    fn izero(&self) -> bool;
}
impl Ind for Rat {
    fn ieq(&self, o: &Self) -> bool {
        self.n * o.d == o.n * self.d
    }
    fn izero(&self) -> bool {
        self.n == 0
    }
}
impl Ind for f64 {
    fn ieq(&self, o: &Self) -> bool {
        *self == *o
    }
    fn izero(&self) -> bool {
        *self == 0.0
    }
}
impl Ind for Cmplx {
    fn ieq(&self, o: &Self) -> bool {
        self.real == o.real && self.imag == o.imag
    }
    fn izero(&self) -> bool {
        self.real == 0.0 && self.imag == 0.0
    }
}
fn veq<T: Ind>(a: &[T], b: &[T]) -> bool {
    a.len() == b.len() && a.iter().zip(b.iter()).all(|(x, y)| x.ieq(y))
}

// --- the boring model: coefficient lists ------------------------------------------------------------
fn strip<T: Number + Copy + Ind>(v: &[T]) -> Vec<T> {
    let mut w = v.to_vec();
    while let Some(l) = w.last() {
        if l.izero() {
            w.pop();
        } else {
            break;
        }
    }
    w
}
fn m_add<T: Number + Copy>(a: &[T], b: &[T]) -> Vec<T> {
    let n = a.len().max(b.len());
    (0..n).map(|i| (if i < a.len() { a[i] } else { T::zero() }) + (if i < b.len() { b[i] } else { T::zero() })).collect()
}
fn m_sub<T: Number + Copy>(a: &[T], b: &[T]) -> Vec<T> {
    let n = a.len().max(b.len());
    (0..n).map(|i| (if i < a.len() { a[i] } else { T::zero() }) - (if i < b.len() { b[i] } else { T::zero() })).collect()
}
fn m_mul<T: Number + Copy>(a: &[T], b: &[T]) -> Vec<T> {
    if a.is_empty() || b.is_empty() {
        return vec![];
    }
    let mut p = vec![T::zero(); a.len() + b.len() - 1];
    for i in 0..a.len() {
        for j in 0..b.len() {
            p[i + j] = p[i + j] + a[i] * b[j];
        }
    }
    p
}
fn m_eval<T: Number + Copy>(a: &[T], x: T) -> T {
    // sum of a_k x^k by explicit powers (not Horner)
    let mut s = T::zero();
    let mut p = T::one();
    for k in 0..a.len() {
        s = s + a[k] * p;
        p = p * x;
    }
    s
}
fn m_deriv<T: Number + Copy>(a: &[T], from: &dyn Fn(i64) -> T) -> Vec<T> {
    (1..a.len()).map(|k| a[k] * from(k as i64)).collect()
}

fn coeffs_of<T: Copy>(p: &Polynomial<T>) -> Vec<T> {
    (0..p.size()).map(|i| p[i]).collect()
}

struct Dom<T> {
    from: Box<dyn Fn(i64) -> T + Sync>,
    pts: Vec<T>,
}

fn same<T: Number + Copy + Debug + Ind>(got: &Polynomial<T>, expect: &[T], natural_len: Option<usize>, what: &str) -> Result<(), String> {
    let g = coeffs_of(got);
    ensure!(veq(&strip(&g), &strip(expect)), "{}: coefficients {:?} expected {:?}", what, g, expect);
    if let Some(l) = natural_len {
        ensure!(g.len() <= l.max(strip(expect).len()), "{}: stored length {} exceeds the natural length {}", what, g.len(), l);
    }
    Ok(())
}

fn check_pair<T>(a: &[T], b: &[T], dom: &Dom<T>) -> Result<(), String>
where
    T: Number + Signed + Copy + Debug + Ind,
{
    let from = &dom.from;
    let pa = Polynomial::new(a.to_vec());
    let pb = Polynomial::new(b.to_vec());
    ensure!(pa.size() == a.len(), "size()");
    match pa.degree() {
        Ok(d) => ensure!(!a.is_empty() && d == a.len() - 1, "degree() = {} for {} coefficients", d, a.len()),
        Err(_) => ensure!(a.is_empty(), "degree() is Err for a non-empty polynomial"),
    }
    ensure!(pa.is_zero() == a.iter().all(|c| c.izero()), "is_zero() = {} for {:?}", pa.is_zero(), a);
    {
        // trim removes exactly the trailing zero coefficients (and nothing else)
        if !a.is_empty() {
            let mut t = pa.clone();
            t.trim();
            let want = strip(a);
            ensure!(veq(&strip(&coeffs_of(&t)), &want) && coeffs_of(&t).len() == want.len().max(1), "trim() of {:?} left {:?}", a, coeffs_of(&t));
        }
    }
    // sums / differences / products, borrowed and owned
    let sum = &pa + &pb;
    same(&sum, &m_add(a, b), Some(a.len().max(b.len())), "&a + &b")?;
    same(&(pa.clone() + pb.clone()), &m_add(a, b), Some(a.len().max(b.len())), "a + b")?;
    let dif = &pa - &pb;
    same(&dif, &m_sub(a, b), Some(a.len().max(b.len())), "&a - &b")?;
    same(&(pa.clone() - pb.clone()), &m_sub(a, b), Some(a.len().max(b.len())), "a - b")?;
    let neg: Vec<T> = a.iter().map(|c| -*c).collect();
    same(&(-&pa), &neg, Some(a.len()), "-&a")?;
    same(&(-pa.clone()), &neg, Some(a.len()), "-a")?;
    let prod = &pa * &pb;
    let natural = if a.is_empty() || b.is_empty() { 0 } else { a.len() + b.len() - 1 };
    same(&prod, &m_mul(a, b), Some(natural), "&a * &b")?;
    same(&(pa.clone() * pb.clone()), &m_mul(a, b), Some(natural), "a * b")?;
    if !a.is_empty() && !b.is_empty() && !a.last().unwrap().izero() && !b.last().unwrap().izero() {
        ensure!(prod.degree() == Ok(a.len() + b.len() - 2), "deg(a*b) = {:?} expected {}", prod.degree(), a.len() + b.len() - 2);
    }
    for s in [from(0), from(1), from(-3)] {
        let sc: Vec<T> = a.iter().map(|c| *c * s).collect();
        same(&(&pa * s), &sc, Some(a.len()), "&a * s")?;
        same(&(pa.clone() * s), &sc, Some(a.len()), "a * s")?;
    }
    // named constructors: quadratic(a,b,c) = a x^2 + b x + c, cubic(a,b,c,d) = a x^3 + b x^2 + c x + d
    if a.len() >= 3 {
        let q = Polynomial::quadratic(a[0], a[1], a[2]);
        ensure!(veq(&coeffs_of(&q), &[a[2], a[1], a[0]]), "quadratic({:?},{:?},{:?}) stores {:?}", a[0], a[1], a[2], coeffs_of(&q));
        for &x in dom.pts.iter() {
            ensure!(q.eval(x).ieq(&(a[0] * x * x + a[1] * x + a[2])), "quadratic(a,b,c).eval");
        }
        if !b.is_empty() {
            let cu = Polynomial::cubic(a[0], a[1], a[2], b[0]);
            ensure!(veq(&coeffs_of(&cu), &[b[0], a[2], a[1], a[0]]), "cubic stores {:?}", coeffs_of(&cu));
        }
    }
    {
        let mut pm = pa.clone();
        pm.coeffs().push(from(5));
        ensure!(pm.size() == a.len() + 1 && pm[a.len()].ieq(&from(5)) && veq(&coeffs_of(&pa), a), "coeffs() does not expose the coefficient vector of this polynomial only");
    }
    // ONE object on both sides of a borrowed operator (a "squaring" or "doubling" fast path keyed on pointer equality)
    {
        same(&(&pa * &pa), &m_mul(a, a), Some(if a.is_empty() { 0 } else { 2 * a.len() - 1 }), "&a * &a (one object)")?;
        same(&(&pa + &pa), &m_add(a, a), Some(a.len()), "&a + &a (one object)")?;
        same(&(&pa - &pa), &m_sub(a, a), Some(a.len()), "&a - &a (one object)")?;
        ensure!(veq(&coeffs_of(&pa), a), "operand modified by an operator applied to itself");
    }
    // operands whose coefficient vectors hold SPARE CAPACITY (built by pushes into a larger allocation; three coefficients pushed
    // and popped again through coeffs()): the consuming operators may reuse an operand's buffer, the result must not depend on it
    {
        let slack = |v: &[T], route: usize| -> Polynomial<T> {
            if route == 0 {
                let mut w: Vec<T> = Vec::with_capacity(v.len() + 9);
                w.extend_from_slice(v);
                Polynomial::new(w)
            } else {
                let mut q = Polynomial::new(v.to_vec());
                for _ in 0..3 {
                    q.coeffs().push(from(5));
                }
                for _ in 0..3 {
                    q.coeffs().pop();
                }
                q
            }
        };
        for route in 0..2usize {
            let what = ["operand built with spare capacity", "operand after push x3 / pop x3"][route];
            same(&(slack(a, route) + pb.clone()), &m_add(a, b), Some(a.len().max(b.len())), &format!("a + b, left {}", what))?;
            same(&(pa.clone() + slack(b, route)), &m_add(a, b), Some(a.len().max(b.len())), &format!("a + b, right {}", what))?;
            same(&(slack(a, route) + slack(b, 1 - route)), &m_add(a, b), Some(a.len().max(b.len())), &format!("a + b, both {}", what))?;
            same(&(slack(a, route) - pb.clone()), &m_sub(a, b), Some(a.len().max(b.len())), &format!("a - b, left {}", what))?;
            same(&(pa.clone() - slack(b, route)), &m_sub(a, b), Some(a.len().max(b.len())), &format!("a - b, right {}", what))?;
            same(&(slack(a, route) * slack(b, route)), &m_mul(a, b), Some(natural), &format!("a * b, both {}", what))?;
            same(&(-slack(a, route)), &neg, Some(a.len()), &format!("-a, {}", what))?;
            same(&(&slack(a, route) + &pb), &m_add(a, b), Some(a.len().max(b.len())), &format!("&a + &b, left {}", what))?;
            if !a.is_empty() {
                same(&slack(a, route).derivative(), &m_deriv(a, from.as_ref()), Some(a.len() - 1), &format!("derivative(), {}", what))?;
            }
        }
    }
    // operands untouched, clone equal
    ensure!(veq(&coeffs_of(&pa), a) && veq(&coeffs_of(&pb), b), "operands modified");
    ensure!(veq(&coeffs_of(&pa.clone()), a), "clone differs");
    // evaluation homomorphism
    for &x in dom.pts.iter() {
        let va = if a.is_empty() { T::zero() } else { pa.eval(x) };
        let vb = if b.is_empty() { T::zero() } else { pb.eval(x) };
        if !a.is_empty() {
            ensure!(va.ieq(&m_eval(a, x)), "eval(a, {:?}) = {:?} expected {:?}", x, va, m_eval(a, x));
        }
        // a result built from a non-empty operand must itself be evaluable (an all-zero operand is not the empty polynomial)
        ensure!(sum.size() > 0 || (a.is_empty() && b.is_empty()), "a + b is empty although an operand is not");
        ensure!(dif.size() > 0 || (a.is_empty() && b.is_empty()), "a - b is empty although an operand is not");
        ensure!(prod.size() > 0 || a.is_empty() || b.is_empty(), "a * b is empty although both operands hold coefficients ({:?} * {:?})", a, b);
        if sum.size() > 0 {
            ensure!(sum.eval(x).ieq(&(va + vb)), "(a+b)({:?}) = {:?} but a(x)+b(x) = {:?}", x, sum.eval(x), va + vb);
        }
        if dif.size() > 0 {
            ensure!(dif.eval(x).ieq(&(va - vb)), "(a-b)({:?}) != a(x)-b(x)", x);
        }
        if prod.size() > 0 {
            ensure!(prod.eval(x).ieq(&(va * vb)), "(a*b)({:?}) = {:?} but a(x)*b(x) = {:?}", x, prod.eval(x), va * vb);
        }
    }
    // differentiation
    if !a.is_empty() {
        let mut expect = a.to_vec();
        for order in 0..=a.len() {
            let dn = pa.derivative_n(order);
            same(&dn, &expect, Some(a.len().saturating_sub(order)), &format!("derivative_n({})", order))?;
            // every order 0..deg+1 (the last one is the zero polynomial: value 0, not a panic)
            for &x in dom.pts.iter().take(3) {
                let got = catch(|| pa.derivative_at(x, order)).map_err(|p| format!("derivative_at(x, {}) of {:?} panicked: {}", order, a, p))?;
                let want = if expect.is_empty() { T::zero() } else { m_eval(&expect, x) };
                ensure!(got.ieq(&want), "derivative_at({:?}, {}) = {:?} expected {:?}", x, order, got, want);
            }
            expect = m_deriv(&expect, from.as_ref());
        }
        same(&pa.derivative(), &m_deriv(a, from.as_ref()), Some(a.len() - 1), "derivative()")?;
    }
    if a.is_empty() {
        // the empty polynomial is the zero polynomial: differentiating or trimming it gives the empty polynomial again
        let e = Polynomial::<T>::new(vec![]);
        let d = catch(|| e.derivative()).map_err(|p| format!("derivative() of the empty polynomial panicked: {}", p))?;
        ensure!(d.size() == 0, "derivative() of the empty polynomial has {} coefficients", d.size());
        for order in 0..3 {
            let d = catch(|| e.derivative_n(order)).map_err(|p| format!("derivative_n({}) of the empty polynomial panicked: {}", order, p))?;
            ensure!(d.size() == 0, "derivative_n({}) of the empty polynomial has {} coefficients", order, d.size());
            let v = catch(|| e.derivative_at(dom.pts[0], order + 1)).map_err(|p| format!("derivative_at(x, {}) of the empty polynomial panicked: {}", order + 1, p))?;
            ensure!(v.izero(), "derivative_at of the empty polynomial = {:?}", v);
        }
        let mut t = Polynomial::<T>::new(vec![]);
        catch(move || { t.trim(); t.size() }).map_err(|p| format!("trim() of the empty polynomial panicked: {}", p)).and_then(|n| if n == 0 { Ok(()) } else { Err("trim() of the empty polynomial produced coefficients".to_string()) })?;
    }
    if !a.is_empty() && !b.is_empty() {
        // linearity and product rule, as identities between results of the real operations
        let lhs = (&pa + &pb).derivative();
        let rhs = &pa.derivative() + &pb.derivative();
        ensure!(veq(&strip(&coeffs_of(&lhs)), &strip(&coeffs_of(&rhs))), "(a+b)' != a' + b'");
        let lhs = (&pa * &pb).derivative();
        let rhs = &(&pa.derivative() * &pb) + &(&pa * &pb.derivative());
        ensure!(veq(&strip(&coeffs_of(&lhs)), &strip(&coeffs_of(&rhs))), "(ab)' != a'b + ab': {:?} vs {:?}", coeffs_of(&lhs), coeffs_of(&rhs));
    }
    Ok(())
}

fn vec_from_idx<T: Copy>(mut idx: u64, maxlen: usize, letters: &[T]) -> Vec<T> {
    // idx enumerates all vectors of length 0..=maxlen: length l block has |letters|^l members
    let l = letters.len() as u64;
    let mut len = 0usize;
    loop {
        let cnt = l.pow(len as u32);
        if idx < cnt {
            break;
        }
        idx -= cnt;
        len += 1;
        assert!(len <= maxlen);
    }
    (0..len)
        .map(|_| {
            let v = letters[(idx % l) as usize];
            idx /= l;
            v
        })
        .collect()
}
fn count_vecs(maxlen: usize, l: u64) -> u64 {
    (0..=maxlen as u32).map(|k| l.pow(k)).sum()
}

fn pair_space<T>(ctx: &Ctx, tname: &str, maxlen: usize, letters: Vec<T>, dom: Dom<T>)
where
    T: Number + Signed + Copy + Debug + Sync + Send + Ind,
{
    let nv = count_vecs(maxlen, letters.len() as u64);
    ctx.lattice(
        &format!("{}: all ordered pairs of coefficient vectors of length 0..{} over {:?}", tname, maxlen, letters),
        nv * nv,
        |idx| format!("a={:?} b={:?}", vec_from_idx(idx / nv, maxlen, &letters), vec_from_idx(idx % nv, maxlen, &letters)),
        |idx, acc| {
            let a = vec_from_idx(idx / nv, maxlen, &letters);
            let b = vec_from_idx(idx % nv, maxlen, &letters);
            if a.is_empty() || b.is_empty() {
                acc.nontriv("empty operand");
            }
            if a.len() != b.len() {
                acc.nontriv("operands of different length");
            }
            if a.last().map_or(false, |c| c.izero()) || b.last().map_or(false, |c| c.izero()) {
                acc.nontriv("trailing zero coefficient");
            }
            judge(acc, idx, || format!("{} a={:?} b={:?}", tname, a, b), || check_pair(&a, &b, &dom));
        },
    );
}

/// evaluation at points of extreme magnitude: the correctly rounded value of the exact result (which may be +-inf or 0)
fn extreme_eval_case(a: &[f64]) -> Result<(), String> {
    let p = Polynomial::new(a.to_vec());
    let big = 2.0f64.powi(600);
    let tiny = 2.0f64.powi(-600);
    let hi = a.iter().rposition(|c| *c != 0.0);
    let lo = a.iter().position(|c| *c != 0.0);
    for s in [1.0, -1.0] {
        // |x| = 2^600: the leading non-zero term decides; degree >= 2 overflows to the infinity of its sign
        let x = s * big;
        let want = match hi {
            None => 0.0,
            Some(0) => a[0],
            Some(1) => a[1] * x + a[0],
            Some(d) => a[d] * (if d % 2 == 1 { s } else { 1.0 }) * f64::INFINITY,
        };
        let got = p.eval(x);
        ensure!(got == want, "eval({:?}, {:e}) = {:e} but the correctly rounded value is {:e}", a, x, got, want);
        // |x| = 2^-600: the lowest non-zero term decides; order >= 2 underflows to zero
        let x = s * tiny;
        let want = match lo {
            None => 0.0,
            Some(0) => a[0],
            Some(1) => a[1] * x,
            Some(_) => 0.0,
        };
        let got = p.eval(x);
        ensure!(got == want, "eval({:?}, {:e}) = {:e} but the correctly rounded value is {:e}", a, x, got, want);
        // the same through the complex entry point at the tiny point (no infinities involved)
        let pc = Polynomial::new(a.iter().map(|c| Cmplx::new(*c, 0.0)).collect::<Vec<_>>());
        let gc = pc.eval(Cmplx::new(x, 0.0));
        ensure!(gc.real == want && gc.imag == 0.0, "complex eval({:?}, {:e}) = {:?} expected {:e}", a, x, gc, want);
    }
    Ok(())
}

fn family<T: Copy>(from: &dyn Fn(i64) -> T) -> Vec<Vec<T>> {
    let mut v: Vec<Vec<i64>> = vec![vec![]];
    for k in 0..9usize {
        let mut m = vec![0i64; k + 1];
        m[k] = 1;
        v.push(m); // monomial x^k
    }
    for k in 1..=9usize {
        v.push(vec![1; k]); // all ones
        v.push((0..k).map(|i| if i % 2 == 0 { 2 } else { -1 }).collect()); // alternating
    }
    for k in 1..=6usize {
        let mut p: Vec<i64> = (0..k).map(|i| i as i64 - 1).collect();
        p.extend([0, 0, 0]); // zero padded
        v.push(p);
    }
    v.push(vec![0]);
    v.push(vec![0, 0, 0]);
    v.push(vec![-2, 0, 0, 0, 0, 0, 0, 0, 3]);
    v.push(vec![1, -1, 1, -1, 1, -1, 1, -1, 1]);
    v.push(vec![5]);
    v.into_iter().map(|c| c.into_iter().map(|x| from(x)).collect()).collect()
}
fn family_space<T>(ctx: &Ctx, tname: &str, dom: Dom<T>)
where
    T: Number + Signed + Copy + Debug + Sync + Send + Ind,
{
    let fam = family(dom.from.as_ref());
    let n = fam.len() as u64;
    ctx.lattice(
        &format!("{}: all ordered pairs from a {}-member structured family (length up to 9)", tname, n),
        n * n,
        |idx| format!("a={:?} b={:?}", fam[(idx / n) as usize], fam[(idx % n) as usize]),
        |idx, acc| {
            let a = &fam[(idx / n) as usize];
            let b = &fam[(idx % n) as usize];
            if a.len() > 4 || b.len() > 4 {
                acc.nontriv("degree >= 4 operand");
            }
            judge(acc, idx, || format!("{} a={:?} b={:?}", tname, a, b), || check_pair(a, b, &dom));
        },
    );
}

// --- E2: closure of the ring operations ----------------------------------------------------------------
#[derive(Clone)]
struct St {
    p: Polynomial<Rat>,
    m: Vec<Rat>,
}
#[derive(Clone, Debug)]
enum Act {
    AddX,
    AddOne,
    SubXX,
    MulXm1,
    MulSelf,
    Neg,
    Scale2,
    Deriv,
    Trim,
    SetLead0,
    SetLead3,
    PushCoef,
}
impl Sut for St {
    type Act = Act;
    fn key(&self) -> Key {
        let mut k = vec![self.m.len() as i128];
        for c in &self.m {
            k.push(c.n);
            k.push(c.d);
        }
        k
    }
    fn actions(&self) -> Vec<Act> {
        let mut a = vec![Act::AddX, Act::AddOne, Act::SubXX, Act::Neg];
        let small = self.m.len() <= 5 && self.m.iter().all(|c| c.n.abs() < 50);
        if small {
            a.push(Act::MulXm1);
            a.push(Act::Scale2);
            if self.m.len() <= 3 {
                a.push(Act::MulSelf);
            }
        }
        if self.m.len() <= 5 {
            a.push(Act::PushCoef);
        }
        if !self.m.is_empty() {
            a.push(Act::Deriv);
            a.push(Act::Trim);
            a.push(Act::SetLead0);
            a.push(Act::SetLead3);
        }
        a
    }
    fn step(&mut self, a: &Act, hits: &mut Vec<&'static str>) -> Result<(), String> {
        let x = vec![r(0), r(1)];
        let one = vec![r(1)];
        let xx = vec![r(0), r(0), r(1)];
        let xm1 = vec![r(-1), r(1)];
        match a {
            Act::AddX => {
                self.p = &self.p + &Polynomial::new(x.clone());
                self.m = if self.m.is_empty() { x } else { m_add(&self.m, &x) };
            }
            Act::AddOne => {
                self.p = self.p.clone() + Polynomial::new(one.clone());
                self.m = if self.m.is_empty() { one } else { m_add(&self.m, &one) };
            }
            Act::SubXX => {
                self.p = &self.p - &Polynomial::new(xx.clone());
                self.m = m_sub(&self.m, &xx);
            }
            Act::MulXm1 => {
                self.p = &self.p * &Polynomial::new(xm1.clone());
                self.m = m_mul(&self.m, &xm1);
            }
            Act::MulSelf => {
                self.p = &self.p * &self.p;
                self.m = m_mul(&self.m, &self.m);
            }
            Act::Neg => {
                self.p = -&self.p;
                self.m = self.m.iter().map(|c| -*c).collect();
            }
            Act::Scale2 => {
                self.p = &self.p * r(2);
                self.m = self.m.iter().map(|c| *c * r(2)).collect();
            }
            Act::Deriv => {
                self.p = self.p.derivative();
                self.m = m_deriv(&self.m, &|k| r(k));
                if self.m.is_empty() {
                    hits.push("derivative of a constant (empty result)");
                }
            }
            Act::Trim => {
                self.p.trim();
                while self.m.len() > 1 && self.m.last().unwrap().is_zero() {
                    self.m.pop();
                }
            }
            Act::SetLead0 => {
                let l = self.m.len() - 1;
                self.p[l] = r(0);
                self.m[l] = r(0);
                hits.push("leading coefficient zeroed");
            }
            Act::PushCoef => {
                // a coefficient appended through the coeffs() handle (a leading index remembered by an earlier trim() must not survive it)
                self.p.coeffs().push(r(2));
                self.m.push(r(2));
            }
            Act::SetLead3 => {
                // a write through the index operator at the last stored position: after SetLead0 this is exactly the lowest position
                // holding a leading zero, where a lazily kept "number of significant coefficients" has its off-by-one (round 15)
                let l = self.m.len() - 1;
                self.p[l] = r(3);
                self.m[l] = r(3);
            }
        }
        self.check()
    }
    fn warm(&self) {
        if self.p.size() > 0 {
            let _ = catch(|| self.p.eval(r(2)));
            let _ = catch(|| self.p.derivative());
        }
        let _ = catch(|| self.p.is_zero());
        let _ = catch(|| self.p.degree());
        let _ = catch(|| &self.p * &Polynomial::new(vec![r(-1), r(1)]));
        let _ = catch(|| &Polynomial::new(vec![r(2), r(1)]) * &self.p);
        let _ = catch(|| self.p.polydiv(&Polynomial::new(vec![r(1), r(1)])));
        if self.p.size() > 0 {
            // a one-entry memo keeps only the LAST query: end with the order the check asks for first
            let w = self.p.size() % 3;
            let _ = catch(|| self.p.derivative_at(r(2), (w + 1) % 3));
            let _ = catch(|| self.p.derivative_n(w));
        }
    }
    fn check(&self) -> Result<(), String> {
        let g = coeffs_of(&self.p);
        // the stored list may differ from the model only by trailing zeros
        ensure!(strip(&g) == strip(&self.m), "coefficients {:?} expected {:?}", g, self.m);
        ensure!(g.len() <= self.m.len().max(1) || strip(&g).len() == g.len(), "stored length {} vs model {}", g.len(), self.m.len());
        if !g.is_empty() {
            for x in [r(-2), r(0), rq(1, 2), r(3)] {
                ensure!(self.p.eval(x) == m_eval(&self.m, x), "eval({}) = {} expected {}", x, self.p.eval(x), m_eval(&self.m, x));
            }
        }
        ensure!(self.p.is_zero() == self.m.iter().all(|c| c.is_zero()), "is_zero");
        // products with the object that went through the history as an operand, on either side (not a fresh twin)
        {
            let q = vec![r(-1), r(1)];
            let want = if self.m.is_empty() { vec![] } else { m_mul(&self.m, &q) };
            let left = &self.p * &Polynomial::new(q.clone());
            let right = &Polynomial::new(q.clone()) * &self.p;
            ensure!(strip(&coeffs_of(&left)) == strip(&want), "(edited object) * (x - 1) = {:?} expected {:?}", coeffs_of(&left), want);
            ensure!(strip(&coeffs_of(&right)) == strip(&want), "(x - 1) * (edited object) = {:?} expected {:?}", coeffs_of(&right), want);
        }
        // differentiation of the object that went through the history (not of a fresh twin)
        if !g.is_empty() {
            let w = g.len() % 3;
            let models: Vec<Vec<Rat>> = {
                let mut v = vec![self.m.clone()];
                for _ in 0..2 {
                    let last = v.last().unwrap().clone();
                    v.push(if last.is_empty() { vec![] } else { m_deriv(&last, &|k| r(k)) });
                }
                v
            };
            for order in [w, (w + 1) % 3, (w + 2) % 3] {
                let expect = models[order].clone();
                if order > 0 && models[order - 1].is_empty() {
                    continue; // differentiating the empty polynomial is outside the claim
                }
                let dn = self.p.derivative_n(order);
                ensure!(strip(&coeffs_of(&dn)) == strip(&expect), "derivative_n({}) of the edited object = {:?} expected {:?}", order, coeffs_of(&dn), expect);
                if !expect.is_empty() {
                    ensure!(self.p.derivative_at(r(2), order) == m_eval(&expect, r(2)), "derivative_at(2, {}) of the edited object", order);
                }
            }
        }
        Ok(())
    }
    fn classes(&self, hits: &mut Vec<&'static str>) {
        if self.m.is_empty() {
            hits.push("empty polynomial state");
        }
        if self.m.last().map_or(false, |c| c.is_zero()) {
            hits.push("state with zero leading coefficient");
        }
    }
    fn show(&self) -> String {
        format!("{:?}", self.m)
    }
}

fn main() {
    let ctx = Ctx::from_args("C11");
    ctx.level("model_checking");
    ctx.rule("E1: all ordered pairs of coefficient vectors of length 0..3 (quick) / 0..4 (thorough) over {-1,0,1,2} for exact rationals, integer-valued f64 and Gaussian-integer Complex<f64>, and all pairs from a 39-member family of length <= 9: +, -, unary -, *, scalar * (owned and borrowed) against termwise/convolution lists modulo trailing zeros, eval at 6 points as a ring homomorphism, derivative_n for every order 0..deg+1 against k*a_k, linearity and product rule; is_zero and trim against the model's own zero test (element equality is decided by the harness, not by the element type's PartialEq); evaluation of every integer polynomial of length <= 5 (thorough 7) at x = +-2^600 and +-2^-600 against the correctly rounded exact value (+-inf, 0 included). E2: BFS over histories of ring operations, differentiation, trim and coefficient writes on a real Polynomial<Rat> against a coefficient-list model. Non-trivial: empty operands, different lengths, trailing zero coefficients, empty results.");
    ctx.assume("all data are small integers / dyadic fractions, so f64 and Complex<f64> results are exact and compared with ==");
    ctx.require(&["empty operand", "operands of different length", "trailing zero coefficient", "degree >= 4 operand", "evaluation at a point of extreme magnitude", "empty polynomial state", "state with zero leading coefficient"]);
    let ml = ctx.pick(3, 4);
    let li = [-1i64, 0, 1, 2];
    pair_space(&ctx, "Rat", ml, li.iter().map(|&v| r(v)).collect(), Dom { from: Box::new(|k| r(k)), pts: vec![r(-2), r(-1), r(0), rq(1, 2), r(1), r(2)] });
    pair_space(&ctx, "f64", ml, li.iter().map(|&v| v as f64).collect(), Dom { from: Box::new(|k| k as f64), pts: vec![-2.0, -1.0, 0.0, 0.5, 1.0, 2.0] });
    let cl = vec![Cmplx::new(0., 0.), Cmplx::new(1., 0.), Cmplx::new(0., 1.), Cmplx::new(-1., 2.)];
    pair_space(&ctx, "Complex<f64>", ml, cl, Dom { from: Box::new(|k| Cmplx::new(k as f64, 0.0)), pts: vec![Cmplx::new(-2., 0.), Cmplx::new(0., 1.), Cmplx::new(0., 0.), Cmplx::new(0.5, -1.), Cmplx::new(1., 1.), Cmplx::new(2., 0.)] });
    family_space(&ctx, "Rat", Dom { from: Box::new(|k| r(k)), pts: vec![r(-2), r(-1), r(0), rq(1, 2), r(1), r(2)] });
    family_space(&ctx, "f64", Dom { from: Box::new(|k| k as f64), pts: vec![-2.0, -1.0, 0.0, 0.5, 1.0, 2.0] });
    family_space(&ctx, "Complex<f64>", Dom { from: Box::new(|k| Cmplx::new(k as f64, 0.0)), pts: vec![Cmplx::new(-2., 0.), Cmplx::new(0., 1.), Cmplx::new(0., 0.), Cmplx::new(0.5, -1.), Cmplx::new(1., 1.), Cmplx::new(2., 0.)] });
    {
        // equal-length operands (6..9 coefficients) whose halves differ widely in magnitude: {0, 1, -1, 2^53} times a monomial c x^k stored
        // at the same length. The product is a shifted copy (exact); a divide-and-conquer product that forms (a_lo + a_hi)(b_lo + b_hi)
        // rounds 2^53 + 1
        let bl = [0.0f64, 1.0, -1.0, 2f64.powi(53)];
        for len in [6usize, 7, 8, 9] {
            let nvec = pow(4, len as u32);
            let monos = (len * 2) as u64;
            if ctx.quick() && len > 7 {
                continue;
            }
            ctx.lattice(
                &format!("f64 products of equal length {}: all coefficient vectors over {{0,1,-1,2^53}} times the monomials c x^k (c in {{1,-2}}, k < {}) stored at the same length", len, len),
                nvec * monos,
                |idx| format!("vector#{} monomial#{}", idx / monos, idx % monos),
                |idx, acc| {
                    let mut d = vec![0usize; len];
                    digits_uniform(idx / monos, 4, &mut d);
                    let a: Vec<f64> = d.iter().map(|&k| bl[k]).collect();
                    let k = ((idx % monos) / 2) as usize;
                    let c = if idx % 2 == 0 { 1.0 } else { -2.0 };
                    let mut b = vec![0.0f64; len];
                    b[k] = c;
                    acc.nontriv("equal-length product with entries 2^53 apart");
                    judge(acc, idx, || format!("a={:?} b={:?}", a, b), || {
                        let (pa, pb) = (Polynomial::new(a.clone()), Polynomial::new(b.clone()));
                        for (which, prod) in [("&a * &b", &pa * &pb), ("&b * &a", &pb * &pa), ("a * b", pa.clone() * pb.clone())] {
                            let got = coeffs_of(&prod);
                            for i in 0..(2 * len - 1) {
                                let want = if i >= k && i - k < len { a[i - k] * c } else { 0.0 };
                                let g = if i < got.len() { got[i] } else { 0.0 };
                                ensure!(g == want, "{}: coefficient of x^{} is {:e} but the convolution gives {:e}", which, i, g, want);
                            }
                            ensure!(got.len() <= 2 * len - 1, "{}: {} coefficients", which, got.len());
                        }
                        Ok(())
                    });
                },
            );
        }
    }
    {
        let el = [-1.0f64, 0.0, 1.0, 2.0, 3.0];
        let maxlen = ctx.pick(5, 7);
        let total: u64 = (1..=maxlen as u32).map(|k| 5u64.pow(k)).sum();
        ctx.lattice(
            &format!("f64 / Complex<f64> evaluation at |x| = 2^600 and 2^-600: all coefficient vectors of length 1..{} over {{-1,0,1,2,3}}", maxlen),
            total,
            |idx| format!("{}", idx),
            |idx, acc| {
                let mut i = idx;
                let mut len = 1u32;
                while i >= 5u64.pow(len) {
                    i -= 5u64.pow(len);
                    len += 1;
                }
                let a: Vec<f64> = (0..len).map(|_| {
                    let v = el[(i % 5) as usize];
                    i /= 5;
                    v
                }).collect();
                acc.nontriv("evaluation at a point of extreme magnitude");
                judge(acc, idx, || format!("extreme points a={:?}", a), || extreme_eval_case(&a));
            },
        );
    }
    {
        // eval has no Zero bound on T, so it cannot return the value 0 of the empty (zero) polynomial and panics instead; every
        // empty result (p * empty, empty + empty, a derivative beyond the degree) inherits that. Repairing it means changing
        // the bound of a public method; recorded as a known finding instead (known_findings.txt).
        let space = "value of the empty polynomial (known finding)";
        ctx.known_finding_space(space);
        ctx.lattice(
            space,
            2,
            |i| format!("{}", i),
            |i, acc| {
                acc.nontriv("eval of an empty polynomial");
                let key = || if i == 0 { "eval-of-empty Polynomial::<f64>::empty().eval(2.0)".to_string() } else { "eval-of-empty (Polynomial::new(vec![1.0, 2.0]) * Polynomial::empty()).eval(2.0)".to_string() };
                let res = catch(|| {
                    if i == 0 {
                        Polynomial::<f64>::empty().eval(2.0)
                    } else {
                        (Polynomial::new(vec![1.0, 2.0]) * Polynomial::<f64>::empty()).eval(2.0)
                    }
                });
                match res {
                    Ok(v) if v == 0.0 => {}
                    Ok(v) => acc.fail(i, key(), format!("the zero polynomial has the value {}", v)),
                    Err(p) => acc.fail(i, key(), format!("panicked instead of returning 0: {}", p)),
                }
            },
        );
    }
    let depth = ctx.pick(7, 10);
    let inits = vec![St { p: Polynomial::empty(), m: vec![] }, St { p: Polynomial::new(vec![r(1), r(-2), r(1)]), m: vec![r(1), r(-2), r(1)] }];
    explore(&ctx, "ring-operation histories", inits.clone(), BfsOpts { max_depth: depth, state_cap: ctx.pick(1_000_000, 20_000_000) });
    if ctx.quick() {
        crosscheck_stateright(&ctx, "ring-operation histories", inits, depth);
    }
    {
        let inits = vec![St { p: Polynomial::empty(), m: vec![] }, St { p: Polynomial::new(vec![r(1), r(-2), r(1)]), m: vec![r(1), r(-2), r(1)] }];
        explore_replayed(&ctx, "clone-free histories on one Polynomial<Rat>", inits, BfsOpts { max_depth: ctx.pick(6, 7), state_cap: 2_000_000 });
    }
    std::process::exit(ctx.finish());
}
