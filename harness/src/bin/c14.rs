//! C14 - complex functions match their definitions, invert correctly and use principal branches.
use mc::*;
use ohsl::Cmplx;
use std::f64::consts::PI;

// --- independent oracle: own complex arithmetic, exp by scaling-and-squaring Taylor series ----------------
type C = (f64, f64);
fn add(a: C, b: C) -> C {
    (a.0 + b.0, a.1 + b.1)
}
fn sub(a: C, b: C) -> C {
    (a.0 - b.0, a.1 - b.1)
}
fn mul(a: C, b: C) -> C {
    (a.0 * b.0 - a.1 * b.1, a.0 * b.1 + a.1 * b.0)
}
fn div(a: C, b: C) -> C {
    // Smith's algorithm
    if b.0.abs() >= b.1.abs() {
        let r = b.1 / b.0;
        let d = b.0 + b.1 * r;
        ((a.0 + a.1 * r) / d, (a.1 - a.0 * r) / d)
    } else {
        let r = b.0 / b.1;
        let d = b.0 * r + b.1;
        ((a.0 * r + a.1) / d, (a.1 * r - a.0) / d)
    }
}
fn scale(a: C, s: f64) -> C {
    (a.0 * s, a.1 * s)
}
fn cabs(a: C) -> f64 {
    a.0.hypot(a.1)
}
const I: C = (0.0, 1.0);
const ONE: C = (1.0, 0.0);
fn oexp(z: C) -> C {
    if !(z.0.is_finite() && z.1.is_finite()) {
        return (f64::NAN, f64::NAN);
    }
    let mut k = 0;
    let mut w = z;
    while cabs(w) > 0.25 {
        w = scale(w, 0.5);
        k += 1;
    }
    // Taylor series, summed from the smallest term
    let n = 24;
    let mut s = ONE;
    for j in (1..=n).rev() {
        s = add(ONE, mul(scale(w, 1.0 / j as f64), s));
    }
    for _ in 0..k {
        s = mul(s, s);
    }
    s
}
fn osin(z: C) -> C {
    let e1 = oexp(mul(I, z));
    let e2 = oexp(mul((0.0, -1.0), z));
    div(sub(e1, e2), (0.0, 2.0))
}
fn ocos(z: C) -> C {
    let e1 = oexp(mul(I, z));
    let e2 = oexp(mul((0.0, -1.0), z));
    scale(add(e1, e2), 0.5)
}
fn osinh(z: C) -> C {
    scale(sub(oexp(z), oexp(scale(z, -1.0))), 0.5)
}
fn ocosh(z: C) -> C {
    scale(add(oexp(z), oexp(scale(z, -1.0))), 0.5)
}
fn c(z: Cmplx) -> C {
    (z.real, z.imag)
}
fn z(w: C) -> Cmplx {
    Cmplx::new(w.0, w.1)
}
fn nrel(got: C, want: C) -> f64 {
    if !(got.0.is_finite() && got.1.is_finite()) {
        return f64::INFINITY;
    }
    let n = cabs(want);
    let d = cabs(sub(got, want));
    if n == 0.0 {
        d
    } else {
        d / n
    }
}

const FWD: f64 = 1e-9;
/// z^w against exp(w ln z) with ln from std: worst observed 3e-14 on the unchanged tree; 1e-8 would pass an exponent whose imaginary
/// part of 1e-9 is ignored
const POW_TOL: f64 = 1e-11;
/// f(f^-1(z)) = z: worst observed 1.2e-12 since the logarithm's argument in asin / acos / asinh is formed without cancellation (fifth
/// hunt: with 1e-8, calibrated on the crate, asec / acsc / acsch of |z| = 1e-3 lost six digits unnoticed - the worst observed then was 3.3e-10)
const INV: f64 = 1e-10;
const RANGE_SLACK: f64 = 1e-12;

fn points(quick: bool) -> Vec<C> {
    let mut comps: Vec<f64> = vec![0.0];
    for v in [10.0, 3.0, 2.0, 1.0 + 1e-6, 1.0 - 1e-6, 1.0, 0.5, 1e-3, 1e-9] {
        comps.push(v);
        comps.push(-v);
    }
    let mut pts = vec![];
    for &re in &comps {
        for &im in &comps {
            let m = re.hypot(im);
            if m >= 1e-3 * (1.0 - 1e-12) && m <= 10.0 * (1.0 + 1e-12) {
                pts.push((re, im));
            }
        }
    }
    let nang = if quick { 16 } else { 32 };
    for r in [1e-3, 0.1, 1.0 - 1e-6, 1.0, 1.0 + 1e-6, 2.0, 10.0] {
        for k in 0..nang {
            let t = 2.0 * PI * (k as f64) / nang as f64 + 0.01;
            pts.push((r * t.cos(), r * t.sin()));
        }
    }
    // next to the branch points +-1, +-i at distance 1e-6 in 8 directions
    for bp in [(1.0, 0.0), (-1.0, 0.0), (0.0, 1.0), (0.0, -1.0)] {
        for k in 0..8 {
            let t = PI * (k as f64) / 4.0;
            pts.push((bp.0 + 1e-6 * t.cos(), bp.1 + 1e-6 * t.sin()));
        }
    }
    // dense polar sweep and the two sides of every cut along both axes
    let (nr, na) = if quick { (20, 32) } else { (1200, 2880) };
    for i in 0..nr {
        let r = 1e-3 * (1e4f64).powf(i as f64 / (nr - 1) as f64);
        for k in 0..na {
            let t = 2.0 * PI * (k as f64 + 0.37) / na as f64;
            pts.push((r * t.cos(), r * t.sin()));
        }
    }
    let nline = if quick { 24 } else { 20000 };
    for i in 0..nline {
        let x = 1e-3 * (1e4f64).powf(i as f64 / (nline - 1) as f64);
        for sx in [1.0, -1.0] {
            // offsets from the axis down to the smallest subnormal: a quotient by c + 1e-200 i must not depend on which part is larger
            for eps in [1e-9, -1e-9, 1e-13, -1e-13, 0.0, -0.0, 1e-200, -1e-200, 5e-324, -1e-300] {
                pts.push((sx * x, eps));
                pts.push((eps, sx * x));
            }
        }
    }
    // exactly on the lines through the branch points +-1 and +-i, at offsets down to the smallest subnormal (y^2 underflows)
    for bp in [1.0, -1.0, 2.0, 0.5] {
        for eps in [1e-170, -1e-170, 3e-200, -1e-300, 1e-310, 5e-324, 1e-13, -1e-9] {
            pts.push((bp, eps));
            pts.push((eps, bp));
        }
    }
    // next to the poles of tan / sec (odd multiples of pi/2 inside |z| <= 10), csc / cot (multiples of pi) and of their hyperbolic
    // twins on the imaginary axis, at distances 1e-4 and 1e-5 in 8 directions: formulae that cancel near a pole lose digits here
    for k in [1.0f64, -1.0, 3.0, -3.0, 5.0, 2.0, -2.0, 4.0, 6.0] {
        let pole = k * PI / 2.0;
        for dist in [1e-4, 1e-5] {
            for j in 0..8 {
                let t = PI * (j as f64) / 4.0 + 0.1;
                pts.push((pole + dist * t.cos(), dist * t.sin()));
                pts.push((dist * t.sin(), pole + dist * t.cos()));
            }
        }
    }
    if !quick {
        // a finer rectangular grid
        for i in -8..=8 {
            for j in -8..=8 {
                let (re, im) = (i as f64 * 1.2 + 0.07, j as f64 * 1.2 - 0.03);
                let m = re.hypot(im);
                if m >= 1e-3 && m <= 10.0 {
                    pts.push((re, im));
                }
            }
        }
    }
    pts
}

fn near_pole(v: C) -> bool {
    cabs(v) < 1e-6
}

fn check_point(p: C, acc: &mut Acc) -> Result<(), String> {
    let zz = z(p);
    let mut worst = |name: &'static str, e: f64, acc: &mut Acc| acc.worst(name, e, || format!("z={:?}", p));
    // ---- forward functions against the series oracle
    let e = nrel(c(zz.exp()), oexp(p));
    worst("forward_exp", e, acc);
    ensure!(e <= FWD, "exp({:?}) = {:?} oracle {:?}", p, zz.exp(), oexp(p));
    let (s, co, sh, ch) = (osin(p), ocos(p), osinh(p), ocosh(p));
    let fw: Vec<(&'static str, C, C, bool)> = vec![
        ("sin", c(zz.sin()), s, true),
        ("cos", c(zz.cos()), co, true),
        ("tan", c(zz.tan()), div(s, co), !near_pole(co)),
        ("sec", c(zz.sec()), div(ONE, co), !near_pole(co)),
        ("csc", c(zz.csc()), div(ONE, s), !near_pole(s)),
        ("cot", c(zz.cot()), div(co, s), !near_pole(s)),
        ("sinh", c(zz.sinh()), sh, true),
        ("cosh", c(zz.cosh()), ch, true),
        ("tanh", c(zz.tanh()), div(sh, ch), !near_pole(ch)),
        ("sech", c(zz.sech()), div(ONE, ch), !near_pole(ch)),
        ("csch", c(zz.csch()), div(ONE, sh), !near_pole(sh)),
        ("coth", c(zz.coth()), div(ch, sh), !near_pole(sh)),
    ];
    for (name, got, want, ok) in fw.iter() {
        if !*ok {
            continue;
        }
        let e = nrel(*got, *want);
        worst("forward_trig_hyperbolic", e, acc);
        ensure!(e <= FWD, "{}({:?}) = {:?} but the series oracle gives {:?} (rel {:e})", name, p, got, want, e);
    }
    // reciprocal functions are reciprocals of the implementation's own values
    ensure!(nrel(c(zz.sec()), div(ONE, c(zz.cos()))) <= 1e-13 || near_pole(co), "sec != 1/cos");
    ensure!(nrel(c(zz.csc()), div(ONE, c(zz.sin()))) <= 1e-13 || near_pole(s), "csc != 1/sin");
    ensure!(nrel(c(zz.sech()), div(ONE, c(zz.cosh()))) <= 1e-13 || near_pole(ch), "sech != 1/cosh");
    ensure!(nrel(c(zz.csch()), div(ONE, c(zz.sinh()))) <= 1e-13 || near_pole(sh), "csch != 1/sinh");
    // Pythagorean identities
    let py = add(mul(c(zz.sin()), c(zz.sin())), mul(c(zz.cos()), c(zz.cos())));
    let scale_py = cabs(c(zz.sin())).powi(2) + cabs(c(zz.cos())).powi(2);
    ensure!(cabs(sub(py, ONE)) <= 1e-12 * scale_py.max(1.0), "sin^2 + cos^2 = {:?}", py);
    let hy = sub(mul(c(zz.cosh()), c(zz.cosh())), mul(c(zz.sinh()), c(zz.sinh())));
    let scale_hy = cabs(c(zz.sinh())).powi(2) + cabs(c(zz.cosh())).powi(2);
    ensure!(cabs(sub(hy, ONE)) <= 1e-12 * scale_hy.max(1.0), "cosh^2 - sinh^2 = {:?}", hy);
    // ---- modulus, argument, polar form
    ensure!(mc::fl::ulps(zz.abs(), p.0.hypot(p.1)) <= 2, "abs");
    let a = zz.arg();
    ensure!(a > -PI - RANGE_SLACK && a <= PI + RANGE_SLACK, "arg out of range: {}", a);
    let back = Cmplx::polar(zz.abs(), zz.arg());
    ensure!(nrel(c(back), p) <= 1e-14, "polar(|z|, arg z) = {:?} != z", back);
    // ---- sqrt and ln: right inverses with principal ranges
    let w = c(zz.sqrt());
    let e = nrel(mul(w, w), p);
    worst("inverse_roundtrip", e, acc);
    ensure!(e <= 1e-13, "sqrt({:?})^2 = {:?}", p, mul(w, w));
    ensure!(w.0 >= -RANGE_SLACK * cabs(w), "Re sqrt(z) = {} < 0", w.0);
    if w.0.abs() <= 1e-300 {
        ensure!(w.1 >= 0.0 || p.1.to_bits() == (-0.0f64).to_bits() || p.1 < 0.0, "sqrt on the cut: {:?}", w);
    }
    let l = c(zz.ln());
    let e = nrel(oexp(l), p);
    worst("inverse_roundtrip", e, acc);
    ensure!(e <= INV, "exp(ln({:?})) = {:?}", p, oexp(l));
    ensure!(l.1 <= PI + RANGE_SLACK && l.1 >= -PI - RANGE_SLACK, "Im ln z = {} outside [-pi, pi]", l.1);
    if l.1 <= -PI + 1e-15 {
        ensure!(p.1.to_bits() == (-0.0f64).to_bits() || p.1 < 0.0, "Im ln z = -pi for a non-negative imaginary part");
    }
    // ---- inverse trigonometric / hyperbolic functions: right inverses + principal ranges
    let checks: Vec<(&'static str, C, C, Option<(usize, f64, f64)>)> = vec![
        ("asin", c(zz.asin()), osin(c(zz.asin())), Some((0, -PI / 2.0, PI / 2.0))),
        ("acos", c(zz.acos()), ocos(c(zz.acos())), Some((0, 0.0, PI))),
        ("atan", c(zz.atan()), div(osin(c(zz.atan())), ocos(c(zz.atan()))), Some((0, -PI / 2.0, PI / 2.0))),
        ("asinh", c(zz.asinh()), osinh(c(zz.asinh())), Some((1, -PI / 2.0, PI / 2.0))),
        ("acosh", c(zz.acosh()), ocosh(c(zz.acosh())), Some((1, -PI, PI))),
        ("atanh", c(zz.atanh()), div(osinh(c(zz.atanh())), ocosh(c(zz.atanh()))), Some((1, -PI / 2.0, PI / 2.0))),
        ("asec", c(zz.asec()), div(ONE, ocos(c(zz.asec()))), Some((0, 0.0, PI))),
        ("acsc", c(zz.acsc()), div(ONE, osin(c(zz.acsc()))), Some((0, -PI / 2.0, PI / 2.0))),
        ("acot", c(zz.acot()), div(ocos(c(zz.acot())), osin(c(zz.acot()))), Some((0, -PI / 2.0, PI / 2.0))),
        ("asech", c(zz.asech()), div(ONE, ocosh(c(zz.asech()))), Some((1, -PI, PI))),
        ("acsch", c(zz.acsch()), div(ONE, osinh(c(zz.acsch()))), Some((1, -PI / 2.0, PI / 2.0))),
        ("acoth", c(zz.acoth()), div(ocosh(c(zz.acoth())), osinh(c(zz.acoth()))), Some((1, -PI / 2.0, PI / 2.0))),
    ];
    // logarithmic singularities (atan at +-i, atanh/acoth at +-1 ...) are outside "adjacent to": the grid keeps 1e-6 away
    for (name, val, round, range) in checks.iter() {
        // exactly at a logarithmic singularity (atan/acot at +-i, atanh/acoth at +-1) the function has no finite value
        let singular = match *name {
            "atan" | "acot" => p.0 == 0.0 && p.1.abs() == 1.0,
            "atanh" | "acoth" => p.1 == 0.0 && p.0.abs() == 1.0,
            _ => false,
        };
        if singular {
            acc.hit("logarithmic singularity (no finite value; skipped)");
            continue;
        }
        ensure!(val.0.is_finite() && val.1.is_finite(), "{}({:?}) = {:?} is not finite", name, p, val);
        let e = nrel(*round, p);
        worst("inverse_roundtrip", e, acc);
        ensure!(e <= INV, "{}: f({}({:?})) = {:?} (value {:?}, rel {:e})", name, name, p, round, val, e);
        if let Some((comp, lo, hi)) = range {
            let v = if *comp == 0 { val.0 } else { val.1 };
            ensure!(v >= lo - 1e-9 && v <= hi + 1e-9, "{}({:?}) = {:?}: principal range [{}, {}] violated", name, p, val, lo, hi);
        }
    }
    ensure!(c(zz.acosh()).0 >= -1e-9, "Re acosh z = {} < 0", c(zz.acosh()).0);
    // reciprocal relations of the inverse functions
    let inv = div(ONE, p);
    ensure!(nrel(c(zz.asec()), c(z(inv).acos())) <= 1e-9, "asec(z) != acos(1/z)");
    ensure!(nrel(c(zz.acsc()), c(z(inv).asin())) <= 1e-9, "acsc(z) != asin(1/z)");
    // ---- general powers: z^w = exp(w ln z)
    // (the exponents include some NEXT TO the real and imaginary axes: an implementation that treats a "numerically real" exponent
    // as real drops a factor exp(i Im w ln z) of relative size |Im w| |ln z|)
    for wv in [(2.0, 0.0), (0.5, 0.0), (-1.0, 0.0), (0.0, 1.0), (1.5, -2.0), (-3.0, 0.5), (1.0 / 3.0, 0.0), (2.0, 5e-9), (0.5, -3e-10), (-1.0, 7e-7), (3e-9, 1.0), (1.5, 1e-5)] {
        let want = oexp(mul(wv, l));
        let got = c(zz.pow(&z(wv)));
        let e = nrel(got, want);
        worst("pow_vs_exp_w_ln_z", e, acc);
        ensure!(e <= POW_TOL, "pow({:?}, {:?}) = {:?} but exp(w ln z) = {:?}", p, wv, got, want);
        if wv.1 == 0.0 {
            let gotf = c(zz.powf(wv.0));
            let e = nrel(gotf, want);
            worst("pow_vs_exp_w_ln_z", e, acc);
            ensure!(e <= POW_TOL, "powf({:?}, {}) = {:?} but exp(x ln z) = {:?}", p, wv.0, gotf, want);
        }
    }
    // no state may be carried between calls: f(z), f(z') with the same modulus (conjugate, negative, rotated), f(z) again
    for wv in [(0.5, 0.0), (1.5, -2.0), (-1.0, 0.0)] {
        let first = c(zz.pow(&z(wv)));
        for other in [(p.0, -p.1), (-p.0, -p.1), (p.1, p.0), (-p.1, p.0)] {
            let _ = z(other).pow(&z(wv));
            let again = c(zz.pow(&z(wv)));
            ensure!(again.0.to_bits() == first.0.to_bits() && again.1.to_bits() == first.1.to_bits(), "pow({:?}, {:?}) changed from {:?} to {:?} after an intervening call with base {:?}", p, wv, first, again, other);
            let o = c(z(other).pow(&z(wv)));
            let want = oexp(mul(wv, c(z(other).ln())));
            ensure!(nrel(o, want) <= FWD * 10.0, "pow({:?}, {:?}) = {:?} right after pow({:?}, .): expected {:?}", other, wv, o, p, want);
        }
        if wv.1 == 0.0 {
            let first = c(zz.powf(wv.0));
            let _ = z((p.0, -p.1)).powf(wv.0);
            let o = c(z((-p.0, -p.1)).powf(wv.0));
            let want = oexp(mul(wv, c(z((-p.0, -p.1)).ln())));
            ensure!(nrel(o, want) <= FWD * 10.0, "powf({:?}, {}) = {:?} after calls with bases of equal modulus: expected {:?}", (-p.0, -p.1), wv.0, o, want);
            let again = c(zz.powf(wv.0));
            ensure!(again.0.to_bits() == first.0.to_bits() && again.1.to_bits() == first.1.to_bits(), "powf changed between identical calls");
        }
    }
    for (name, f) in [("sqrt", Cmplx::sqrt as fn(&Cmplx) -> Cmplx), ("ln", Cmplx::ln), ("exp", Cmplx::exp), ("asin", Cmplx::asin), ("atanh", Cmplx::atanh)] {
        let first = c(f(&zz));
        let _ = f(&z((p.0, -p.1)));
        let _ = f(&z((-p.0, p.1)));
        let again = c(f(&zz));
        ensure!((again.0.to_bits() == first.0.to_bits() && again.1.to_bits() == first.1.to_bits()) || (again.0.is_nan() && first.0.is_nan()), "{} changed between identical calls separated by calls on the conjugate", name);
    }
    // log base b
    // bases in every quadrant and on all four half-axes (a negative real base has ln b = ln|b| + i pi, which a fast path for
    // "real" bases must not drop); ln b from the standard library, not from the crate
    for b in [(2.0f64, 0.0f64), (0.0, 1.0), (-3.0, 0.5), (-2.0, 0.0), (-0.5, 0.0), (0.5, 0.0), (0.0, -2.0), (1.5, -0.25)] {
        let got = c(zz.log(z(b)));
        let lnb = (b.0.hypot(b.1).ln(), b.1.atan2(b.0));
        let want = div(l, lnb);
        // (a result in the subnormal range is allowed its own rounding: one unit of 5e-324)
        ensure!(nrel(got, want) <= 1e-12 || cabs(sub(got, want)) <= 1e-300, "log base {:?} of {:?} = {:?} but ln z / ln b = {:?}", b, p, got, want);
    }
    // ---- reduction to the real functions on the real axis
    if p.1 == 0.0 && p.1.to_bits() == 0 {
        let x = p.0;
        let rr: Vec<(&'static str, C, f64)> = vec![("exp", c(zz.exp()), x.exp()), ("sin", c(zz.sin()), x.sin()), ("cos", c(zz.cos()), x.cos()), ("sinh", c(zz.sinh()), x.sinh()), ("cosh", c(zz.cosh()), x.cosh()), ("tanh", c(zz.tanh()), x.tanh())];
        for (name, got, want) in rr.iter() {
            ensure!(nrel(*got, (*want, 0.0)) <= 1e-13, "{} on the real axis: {:?} vs {}", name, got, want);
        }
        if x > 0.0 {
            ensure!(nrel(c(zz.sqrt()), (x.sqrt(), 0.0)) <= 1e-14 && nrel(l, (x.ln(), 0.0)) <= 1e-14, "sqrt/ln on the positive real axis");
        }
        if x.abs() <= 1.0 {
            ensure!(nrel(c(zz.asin()), (x.asin(), 0.0)) <= 1e-8 && nrel(c(zz.acos()), (x.acos(), 0.0)) <= 1e-8, "asin/acos on [-1,1]: {:?} {:?}", zz.asin(), zz.acos());
        }
        ensure!(nrel(c(zz.atan()), (x.atan(), 0.0)) <= 1e-9, "atan on the real axis");
        acc.hit("real-axis points");
    }
    // ---- acosh on the real axis (either sign of the zero imaginary part): where Re acosh = 0 - the segment (-1, 1) - the right-inverse
    // and range checks above admit w and -w alike; the closed form ln( z + sqrt(z-1) sqrt(z+1) ) does not: it is i acos x on the
    // upper side ( +0 ), acosh|x| + i pi left of -1
    if p.1 == 0.0 {
        let s = if p.1.is_sign_negative() { -1.0 } else { 1.0 };
        let x = p.0;
        let want = if x >= 1.0 { (x.acosh(), 0.0) } else if x > -1.0 { (0.0, s * x.acos()) } else { ((-x).acosh(), s * PI) };
        let got = c(zz.acosh());
        // ( with -0 the value continuous from below - the conjugate, which the crate returns - and the one that ignores the sign of zero are both principal values )
        let d = if s < 0.0 { cabs(sub(got, want)).min(cabs(sub(got, (want.0, -want.1)))) } else { cabs(sub(got, want)) };
        ensure!(d <= 1e-8, "acosh({:?}) = {:?} but the closed form gives {:?} on this side of the real axis", p, got, want);
        if x > -1.0 && x < 0.0 {
            acc.hit("acosh on the segment (-1, 0) of the real axis");
        }
    }
    Ok(())
}

fn main() {
    let ctx = Ctx::from_args("C14");
    ctx.level("exploration");
    ctx.rule("E1: rectangular grid re, im in {0, +-1e-9, +-1e-3, +-1/2, +-1, +-(1+-1e-6), +-2, +-3, +-10} with 1e-3 <= |z| <= 10, polar grid r in {1e-3, 0.1, 1-1e-6, 1, 1+1e-6, 2, 10} x 16 (quick) / 32 (thorough) angles, 1e-6 neighbourhoods of +-1 and +-i, i.e. every quadrant, both axes and both sides (imaginary/real part +-1e-9) of every branch cut; each of the 38 public functions at each point. Oracle: own complex arithmetic with exp by scaling-and-squaring Taylor series and sin/cos/sinh/cosh from it (forward functions, relative 1e-9); every inverse pinned by forward_oracle(inverse(z)) = z (1e-10) and its principal range; reciprocals, Pythagorean identities, z^w = exp(w ln z) for 7 exponents, polar round trip, reduction to f64 functions on the real axis. Non-trivial: points within 1e-9 of a cut, within 1e-6 of a branch point, each quadrant.");
    ctx.assume("which side of a cut is continuous is not prescribed; exactly-on-cut points are judged by right inverse + closed principal range only (the value -pi of Im ln / arg at an imaginary part -0.0, outside the stated half-open range, is carried by two listed inputs as a known finding)");
    ctx.assume("poles of tan/sec/csc/cot/tanh/... are avoided when the oracle's denominator is below 1e-6");
    ctx.threshold("forward_exp", FWD);
    ctx.threshold("forward_trig_hyperbolic", FWD);
    ctx.threshold("inverse_roundtrip", INV);
    ctx.threshold("pow_vs_exp_w_ln_z", POW_TOL);
    ctx.require(&["within 1e-9 of the real axis (both sides of the cuts)", "within 1e-9 of the imaginary axis", "within 1e-5 of a branch point", "quadrant 1", "quadrant 2", "quadrant 3", "quadrant 4", "real-axis points", "acosh on the segment (-1, 0) of the real axis"]);
    let pts = points(ctx.quick());
    ctx.lattice(
        "complex-plane lattice x 38 functions",
        pts.len() as u64,
        |i| format!("{:?}", pts[i as usize]),
        |i, acc| {
            let p = pts[i as usize];
            if p.1.abs() <= 1e-9 && p.1 != 0.0 {
                acc.nontriv("within 1e-9 of the real axis (both sides of the cuts)");
            }
            if p.0.abs() <= 1e-9 && p.0 != 0.0 {
                acc.nontriv("within 1e-9 of the imaginary axis");
            }
            for bp in [(1.0, 0.0), (-1.0, 0.0), (0.0, 1.0), (0.0, -1.0)] {
                let d = cabs(sub(p, bp));
                if d <= 1e-5 && d > 0.0 {
                    acc.nontriv("within 1e-5 of a branch point");
                }
            }
            if p.0 > 0.0 && p.1 > 0.0 {
                acc.nontriv("quadrant 1");
            }
            if p.0 < 0.0 && p.1 > 0.0 {
                acc.nontriv("quadrant 2");
            }
            if p.0 < 0.0 && p.1 < 0.0 {
                acc.nontriv("quadrant 3");
            }
            if p.0 > 0.0 && p.1 < 0.0 {
                acc.nontriv("quadrant 4");
            }
            let mut local = Acc::new("t");
            let res = catch(|| check_point(p, &mut local));
            for (k, v) in std::mem::take(&mut local.hits) {
                *acc.hits.entry(k).or_insert(0) += v;
            }
            acc.merge_worst(local);
            match res {
                Ok(Ok(())) => {}
                Ok(Err(e)) => acc.fail(i, format!("z={:?}", p), e),
                Err(pn) => acc.fail(i, format!("z={:?}", p), format!("unexpected panic: {}", pn)),
            }
        },
    );
    // Known finding (second bug hunt): the statement gives Im ln z in (-pi, pi]. For a negative real number whose imaginary part is
    // -0.0 (produced by negation, conjugation, multiplication by -1) arg() = atan2(-0.0, x) = -pi: the C99 signed-zero convention,
    // continuous from below, but outside the stated half-open range and 2 pi i away from ln of the ==-equal number -x + 0i.
    // Not repaired: a deliberate convention of atan2 that callers working with signed zeros may rely on. The lattice above accepts
    // the closed range on the cut; the two listed inputs carry the finding.
    {
        ctx.known_cases(
            "listed inputs: ln / arg of a negative real number with imaginary part -0.0",
            vec![
                ("signed-zero ln(-1 - 0i)".to_string(), Box::new(|| {
                    let l = Cmplx::new(-1.0, -0.0).ln();
                    ensure!(l.imag > -PI && l.imag <= PI, "ln(-1 - 0i) = {:?}: imaginary part outside (-pi, pi] (ln(-1 + 0i) = {:?})", l, Cmplx::new(-1.0, 0.0).ln());
                    Ok(())
                })),
                ("signed-zero arg(-2 - 0i)".to_string(), Box::new(|| {
                    let a = Cmplx::new(-2.0, -0.0).arg();
                    ensure!(a > -PI && a <= PI, "arg(-2 - 0i) = {} is outside (-pi, pi]", a);
                    Ok(())
                })),
            ],
        );
    }
    std::process::exit(ctx.finish());
}
