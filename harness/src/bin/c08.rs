//! C08 - iterative solvers: reported success means solved to the tolerance.
use mc::it::*;
use mc::*;
use ohsl::Vector;

const EPS: f64 = f64::EPSILON;
const DRIFT_SLACK: f64 = 1e3;

struct Judge<'a> {
    d: &'a D,
    a: &'a ohsl::Sparse<f64>,
    anorm: f64,
}

impl<'a> Judge<'a> {
    /// judge one solver run; returns Err(description) on a violation. `ok_seen` reports whether the run said Ok.
    fn run(&self, s: Solver, b: &[f64], x0: &[f64], budget: usize, tol: f64, acc: &mut Acc) -> Result<(), String> {
        let bv = Vector::create(b.to_vec());
        let mut x = Vector::create(x0.to_vec());
        let res = run(s, self.a, &bv, &mut x, budget, tol);
        acc.hit("solver runs");
        ensure!(bv.vec == b, "{:?}: right-hand side modified", s);
        if budget == 0 {
            let same = x.vec.iter().zip(x0.iter()).all(|(p, q)| p.to_bits() == q.to_bits()) && x.size() == x0.len();
            ensure!(same, "{:?}: budget 0 but x changed from {:?} to {:?} (result {:?})", s, x0, x.vec, res);
        }
        let k = match res {
            Err(_) => {
                acc.hit("Err answers (not judged)");
                return Ok(());
            }
            Ok(k) => k,
        };
        acc.nontriv("Ok answers judged");
        if k > 0 {
            acc.hit("Ok after >= 1 iteration");
        }
        ensure!(k <= budget, "{:?}: Ok({}) exceeds the budget {}", s, k, budget);
        ensure!(x.vec.iter().all(|v| v.is_finite()), "{:?}: Ok({}) but x = {:?} is not finite", s, k, x.vec);
        let bn = norm2(b);
        let den = if bn == 0.0 { 1.0 } else { bn };
        // the ratio is formed from vectors divided by max|b_i| first: ||b|| itself may exceed the f64 range
        let rel = {
            let r = residual(self.d, &x.vec, b);
            let mb = norm_inf(b);
            if mb == 0.0 || !bn.is_finite() && !mb.is_finite() {
                norm2(&r) / den
            } else {
                let rs: Vec<f64> = r.iter().map(|v| v / mb).collect();
                let bs: Vec<f64> = b.iter().map(|v| v / mb).collect();
                norm2(&rs) / norm2(&bs)
            }
        };
        acc.worst("true_residual_over_tol_at_Ok", rel / tol, || format!("{:?} A={:?} b={:?} x0={:?} tol={:e} budget={}", s, self.d, b, x0, tol, budget));
        if rel <= tol * (1.0 + 1e-12) {
            return Ok(());
        }
        // drift allowance: needs the largest iterate actually produced -> re-run with budgets 1..k (deterministic solvers)
        let mut m = norm_inf(x0);
        for j in 1..=k {
            let mut xj = Vector::create(x0.to_vec());
            let _ = run(s, self.a, &bv, &mut xj, j, tol);
            let nj = norm_inf(&xj.vec);
            if nj.is_finite() {
                m = m.max(nj);
            }
        }
        let allowance = tol + DRIFT_SLACK * EPS * (k.max(1) as f64) * (self.anorm * m + norm_inf(b)) / den;
        acc.hit("Ok answers needing the drift allowance");
        ensure!(
            rel <= allowance,
            "{:?}: Ok({}) but the true relative residual is {:e} > tol {:e} (+ drift allowance {:e}, largest iterate {:e}); x = {:?}",
            s,
            k,
            rel,
            tol,
            allowance - tol,
            m,
            x.vec
        );
        Ok(())
    }
}

const L6: [f64; 6] = [0.0, 1.0, -1.0, 2.0, 0.5, -3.0];
const TOLS: [f64; 3] = [1e-12, 1e-6, 1e-2];

fn rhs3(n: usize) -> Vec<Vec<f64>> {
    let g = [1.0, -3.0, 2.0];
    let bad = [1e-8, -3.0, -3.0];
    vec![g[..n].to_vec(), vec![0.0; n], bad[..n].to_vec()]
}
fn guesses(n: usize) -> Vec<Vec<f64>> {
    let g = [1.0, 0.0, -1.0];
    vec![vec![0.0; n], g[..n].to_vec()]
}

fn hostile_case(d: &D, idx: u64, acc: &mut Acc) {
    hostile_case_with(d, idx, acc, &TOLS, &[0, 1, 2, 3, 4, 5, 6, 7, 8]);
}
/// `budgets` must be ascending; an Ok(k) answer is the same for every budget >= k (deterministic solvers), so the
/// largest budget alone already exposes every success within it
fn hostile_case_with(d: &D, idx: u64, acc: &mut Acc, tols: &[f64], budgets: &[usize]) {
    let n = d.len();
    let a = sparse_of(d, 0);
    let j = Judge { d, a: &a, anorm: norm_inf_mat(d) };
    let sym = (0..n).all(|i| (0..n).all(|k| d[i][k] == d[k][i]));
    if !sym {
        acc.hit("nonsymmetric systems");
    }
    for b in rhs3(n).iter() {
        for x0 in guesses(n).iter() {
            for &tol in tols.iter() {
                for &s in SOLVERS.iter() {
                    for &budget in budgets.iter() {
                        let key = || format!("{:?} A={:?} b={:?} x0={:?} tol={:e} budget={}", s, d, b, x0, tol, budget);
                        let mut local = Acc::new("t");
                        let res = catch(|| j.run(s, b, x0, budget, tol, &mut local));
                        for (k, v) in std::mem::take(&mut local.hits) {
                            *acc.hits.entry(k).or_insert(0) += v;
                        }
                        if local.nontrivial > 0 {
                            acc.nontriv("configurations with an Ok answer");
                        }
                        acc.merge_worst(local);
                        match res {
                            Ok(Ok(())) => {}
                            Ok(Err(e)) => acc.fail(idx, key(), e),
                            Err(p) => acc.fail(idx, key(), format!("unexpected panic: {}", p)),
                        }
                    }
                }
            }
        }
    }
}

fn mat_from(idx: u64, n: usize, letters: &[f64]) -> D {
    let mut d = vec![0usize; n * n];
    digits_uniform(idx, letters.len() as u64, &mut d);
    (0..n).map(|i| (0..n).map(|j| letters[d[i * n + j]]).collect()).collect()
}

fn bases() -> Vec<(&'static str, D)> {
    vec![
        ("SPD", vec![vec![2., -1., 0.], vec![-1., 2., -1.], vec![0., -1., 2.]]),
        ("nonsymmetric", vec![vec![2., 1., 0.], vec![-1., 2., 1.], vec![0.5, -1., 2.]]),
        ("indefinite", vec![vec![1., 2., 0.], vec![2., -1., 1.], vec![0., 1., -3.]]),
        ("singular", vec![vec![1., 1., 0.], vec![1., 1., 0.], vec![0., 0., 2.]]),
    ]
}

fn benign_space(ctx: &Ctx, sizes: &[usize]) {
    let mut cases = vec![];
    for &n in sizes {
        for f in FAMILIES.iter() {
            for order in [0usize, 1, 3, 5, 6] {
                cases.push((n, *f, order));
            }
        }
    }
    ctx.lattice(
        &format!("benign families (6 kinds, 5 construction paths incl. explicitly stored zeros) of orders {:?} x 4 rhs x 3 guesses x 3 tolerances x budgets {{0,1,n,10n}} x 5 solvers", sizes),
        cases.len() as u64,
        |i| format!("{:?}", cases[i as usize]),
        |i, acc| {
            let (n, f, order) = cases[i as usize];
            let d = family(f, n);
            let a = sparse_of(&d, order);
            let j = Judge { d: &d, a: &a, anorm: norm_inf_mat(&d) };
            let xs = xstar(n);
            let b1 = matvec(&d, &xs);
            // e_0 excites every eigen-direction: the slowest convergence (long runs) among the right-hand sides
            let e0: Vec<f64> = (0..n).map(|k| if k == 0 { 1.0 } else { 0.0 }).collect();
            let rhs = vec![b1.clone(), vec![0.0; n], b1.iter().map(|v| v * 1e6).collect::<Vec<f64>>(), e0];
            let gs = vec![vec![0.0; n], xs.clone(), (0..n).map(|k| if k % 2 == 0 { 0.5 } else { -2.0 }).collect::<Vec<f64>>()];
            if n >= 13 {
                acc.hit("order >= 13");
            }
            for b in rhs.iter() {
                for x0 in gs.iter() {
                    for &tol in TOLS.iter() {
                        for &s in SOLVERS.iter() {
                            for budget in [0usize, 1, n, 10 * n] {
                                let key = || format!("{:?} family={:?} n={} order={} b[0]={:e} x0[0]={:e} tol={:e} budget={}", s, f, n, order, b[0], x0[0], tol, budget);
                                let mut local = Acc::new("t");
                                let res = catch(|| j.run(s, b, x0, budget, tol, &mut local));
                                for (k, v) in std::mem::take(&mut local.hits) {
                                    *acc.hits.entry(k).or_insert(0) += v;
                                }
                                if local.nontrivial > 0 {
                                    acc.nontriv("configurations with an Ok answer");
                                }
                                acc.merge_worst(local);
                                match res {
                                    Ok(Ok(())) => {}
                                    Ok(Err(e)) => acc.fail(i, key(), e),
                                    Err(p) => acc.fail(i, key(), format!("unexpected panic: {}", p)),
                                }
                            }
                        }
                    }
                }
            }
        },
    );
}

/// the benign families with rows and columns scaled by powers of ten up to 1e+-3 (condition numbers up to ~1e12): long
/// runs in which the recurrence residual has every opportunity to drift away from b - A x
fn scaled_family_space(ctx: &Ctx, sizes: &[usize]) {
    let mut cases = vec![];
    for &n in sizes {
        for f in FAMILIES.iter() {
            for sc in 0..4usize {
                cases.push((n, *f, sc));
            }
        }
    }
    ctx.lattice(
        &format!("row/column-scaled families (D1 A D2, scalings 1e-3..1e3) of orders {:?} x 3 rhs x 2 guesses x 3 tolerances x budgets {{n,10n,40n}} x 5 solvers", sizes),
        cases.len() as u64,
        |i| format!("{:?}", cases[i as usize]),
        |i, acc| {
            let (n, f, sc) = cases[i as usize];
            let mut d = family(f, n);
            let sr = |k: usize| -> f64 { [1.0, 1e3, 1e-3, 10.0, 0.1][(k * (sc + 1) + sc) % 5] };
            let scn = |k: usize| -> f64 { [1.0, 1e-2, 1e2, 1e3, 1e-3][(k * 2 + sc) % 5] };
            for r0 in 0..n {
                for c0 in 0..n {
                    d[r0][c0] *= if sc % 2 == 0 { sr(r0) } else { sr(r0) * scn(c0) };
                }
            }
            let a = sparse_of(&d, sc % 3);
            let j = Judge { d: &d, a: &a, anorm: norm_inf_mat(&d) };
            let xs = xstar(n);
            let b1 = matvec(&d, &xs);
            let e0: Vec<f64> = (0..n).map(|k| if k == 0 { 1.0 } else { 0.0 }).collect();
            let rhs = vec![b1.clone(), e0, (0..n).map(|k| if k % 3 == 0 { 1e3 } else { -1e-3 }).collect::<Vec<f64>>()];
            let gs = vec![vec![0.0; n], (0..n).map(|k| if k % 2 == 0 { 0.5 } else { -2.0 }).collect::<Vec<f64>>()];
            acc.hit("scaled family members");
            for b in rhs.iter() {
                for x0 in gs.iter() {
                    for &tol in TOLS.iter() {
                        for &s in SOLVERS.iter() {
                            for budget in [n, 10 * n, 40 * n] {
                                let key = || format!("{:?} scaled family={:?} n={} scaling#{} b[0]={:e} x0[0]={:e} tol={:e} budget={}", s, f, n, sc, b[0], x0[0], tol, budget);
                                let mut local = Acc::new("t");
                                let res = catch(|| j.run(s, b, x0, budget, tol, &mut local));
                                for (k, v) in std::mem::take(&mut local.hits) {
                                    *acc.hits.entry(k).or_insert(0) += v;
                                }
                                if local.nontrivial > 0 {
                                    acc.nontriv("configurations with an Ok answer");
                                }
                                acc.merge_worst(local);
                                match res {
                                    Ok(Ok(())) => {}
                                    Ok(Err(e)) => acc.fail(i, key(), e),
                                    Err(p) => acc.fail(i, key(), format!("unexpected panic: {}", p)),
                                }
                            }
                        }
                    }
                }
            }
        },
    );
}

/// systems at the edge of the f64 range: A and b scaled independently by 1e-200 .. 1e200, so that steps alpha*p underflow to
/// nothing or overflow to inf while the recurrence residual still "converges"
fn edge_of_range_space(ctx: &Ctx) {
    let sas = [1e200, 1e100, 1.0, 1e-100, 1e-156, 1e-200];
    let sbs = [1e-150, 1e-119, 1e-100, 1.0, 1e100, 1e150, 1.7e308];
    let mut cases = vec![];
    for n in 1..=3usize {
        for kind in 0..2usize {
            for ia in 0..sas.len() {
                for ib in 0..sbs.len() {
                    cases.push((n, kind, ia, ib));
                }
            }
        }
    }
    ctx.lattice(
        "edge of the f64 range: tridiag(-1,2,-1) and diag(1..n) of order 1..3, A scaled by 1e200..1e-200, b by 1e-150..1.7e308, four right-hand-side shapes (one without a positive entry, one with a zero), tol 1e-8 and 1e-10, budget 8, 5 solvers",
        cases.len() as u64,
        |i| format!("{:?}", cases[i as usize]),
        |i, acc| {
            let (n, kind, ia, ib) = cases[i as usize];
            let mut d = vec![vec![0.0f64; n]; n];
            for k in 0..n {
                if kind == 0 {
                    d[k][k] = 2.0 * sas[ia];
                    if k + 1 < n {
                        d[k][k + 1] = -sas[ia];
                        d[k + 1][k] = -sas[ia];
                    }
                } else {
                    d[k][k] = (k + 1) as f64 * sas[ia];
                }
            }
            let a = sparse_of(&d, 0);
            let j = Judge { d: &d, a: &a, anorm: norm_inf_mat(&d) };
            acc.hit("edge-of-range systems");
            // (the third shape has NO positive entry, the fourth none negative but a zero: a norm whose rescaling pass takes the largest ENTRY
            // instead of the largest modulus reads such a right-hand side as 0 below 1e-135 / above 1e135, and every solver answers Ok(0))
            let bs: Vec<Vec<f64>> = vec![
                vec![sbs[ib]; n],
                (0..n).map(|k| d[k][k] * sbs[ib].min(1e300 / sas[ia].max(1.0))).collect(),
                (0..n).map(|k| -sbs[ib].min(1e300) * (1.0 + k as f64 * 0.5)).collect(),
                (0..n).map(|k| if k == 0 { 0.0 } else { sbs[ib].min(1e300) }).collect(),
            ];
            for b in bs.iter() {
                if b.iter().any(|v| !v.is_finite()) {
                    continue;
                }
                for &tol in [1e-8, 1e-10].iter() {
                    for &s in SOLVERS.iter() {
                        let x0 = vec![0.0; n];
                        let key = || format!("{:?} edge A={:?} b={:?} x0=0 tol={:e} budget=8", s, d, b, tol);
                        let mut local = Acc::new("t");
                        let res = catch(|| j.run(s, b, &x0, 8, tol, &mut local));
                        for (k, v) in std::mem::take(&mut local.hits) {
                            *acc.hits.entry(k).or_insert(0) += v;
                        }
                        if local.nontrivial > 0 {
                            acc.nontriv("configurations with an Ok answer");
                        }
                        match res {
                            Ok(Ok(())) => {}
                            Ok(Err(e)) => acc.fail(i, key(), e),
                            Err(p) => acc.fail(i, key(), format!("unexpected panic: {}", p)),
                        }
                    }
                }
            }
        },
    );
}

/// every 2x2 matrix over letters 309 decades apart (structurally empty columns included), right-hand sides up to the
/// top of the range (||b|| itself overflows for the last one), guesses 0, b and (1.5e308, 0)
fn extreme_2x2_space(ctx: &Ctx) {
    let le = [0.0, 1.0, 1e-156, 1e153, -1e-160, 1e150];
    ctx.lattice(
        "extreme 2x2: all matrices over {0,1,1e-156,1e153,-1e-160,1e150} x b in {A(1,1), A(1,0), (1e-10,1e150), (1.5e308,1.5e308)} x guesses {0, (1.5e308,0), b} x tol 1e-8 x budgets {0,10} x 5 solvers",
        pow(6, 4),
        |idx| format!("{:?}", mat_from(idx, 2, &le)),
        |idx, acc| {
            let d = mat_from(idx, 2, &le);
            let a = sparse_of(&d, 0);
            let j = Judge { d: &d, a: &a, anorm: norm_inf_mat(&d) };
            if (0..2).any(|c| d[0][c] == 0.0 && d[1][c] == 0.0) {
                acc.hit("matrices with a structurally empty column");
            }
            let bs: Vec<Vec<f64>> = vec![matvec(&d, &[1.0, 1.0]), matvec(&d, &[1.0, 0.0]), vec![1e-10, 1e150], vec![1.5e308, 1.5e308]];
            for b in bs.iter() {
                if b.iter().any(|v| !v.is_finite()) {
                    continue;
                }
                for x0 in [vec![0.0, 0.0], vec![1.5e308, 0.0], b.clone()].iter() {
                    for &s in SOLVERS.iter() {
                        for &budget in [0usize, 10].iter() {
                            let tol = 1e-8;
                            let key = || format!("{:?} extreme A={:?} b={:?} x0={:?} tol={:e} budget={}", s, d, b, x0, tol, budget);
                            let mut local = Acc::new("t");
                            let res = catch(|| j.run(s, b, x0, budget, tol, &mut local));
                            for (k, v) in std::mem::take(&mut local.hits) {
                                *acc.hits.entry(k).or_insert(0) += v;
                            }
                            if local.nontrivial > 0 {
                                acc.nontriv("configurations with an Ok answer");
                            }
                            match res {
                                Ok(Ok(())) => {}
                                Ok(Err(e)) => acc.fail(idx, key(), e),
                                Err(p) => acc.fail(idx, key(), format!("unexpected panic: {}", p)),
                            }
                        }
                    }
                }
            }
        },
    );
}

fn main() {
    let ctx = Ctx::from_args("C08");
    ctx.level("exploration");
    ctx.rule("E1: hostile lattice - every 2x2 matrix over {0,1,-1,2,1/2,-3}; 3x3: every matrix over {0,1,-1} and every <=2-entry deviation from four bases (SPD, nonsymmetric, indefinite, singular) over 6 letters (quick); <=3-entry deviations and every matrix over {0,1,-1,2} (thorough) - x 3 right-hand sides (general, zero, badly scaled) x 2 guesses x tol in {1e-12,1e-6,1e-2} x EVERY iteration budget 0..8 x 5 solver entry points (CG, BiCG itol 1/2, BiCGSTAB, QMR); benign families of order up to 60 with budgets {0,1,n,10n}. Oracle only on Ok(k): k<=budget, x finite, true relative residual from an independent dense copy (double-double accumulation) <= tol + 1e3*eps*k*(||A||*M+||b||)/||b|| with M the largest iterate actually produced (obtained by re-running with budgets 1..k); budget 0 leaves x bit-identical. Non-trivial: runs answering Ok.");
    ctx.assume("solvers are deterministic (re-running with a smaller budget reproduces the earlier iterates)");
    ctx.assume("||b|| = 0 is judged with the solvers' own convention ||b|| := 1");
    ctx.assume("drift inside a single BiCGSTAB half-step or QMR update is not observable from outside; the 1e3 slack on the drift term covers it on these moderate lattices");
    ctx.threshold("true_residual_over_tol_at_Ok", 1.0);
    ctx.require(&["Ok answers judged", "Ok after >= 1 iteration", "Err answers (not judged)", "nonsymmetric systems"]);

    ctx.lattice(
        "hostile 2x2: all matrices over {0,1,-1,2,1/2,-3}",
        pow(6, 4),
        |idx| format!("{:?}", mat_from(idx, 2, &L6)),
        |idx, acc| {
            let d = mat_from(idx, 2, &L6);
            hostile_case(&d, idx, acc);
        },
    );
    {
        // entries of mixed scale: residual norms span twelve orders of magnitude inside one run
        let lw = [0.0, 1.0, -1.0, 2.0, 1e-6, -1e-6, 1e6, -1e6, 0.5, -3.0];
        ctx.lattice(
            "hostile 2x2, mixed scale: all matrices over {0,1,-1,2,+-1e-6,+-1e6,1/2,-3}",
            pow(10, 4),
            |idx| format!("{:?}", mat_from(idx, 2, &lw)),
            |idx, acc| {
                let d = mat_from(idx, 2, &lw);
                hostile_case(&d, idx, acc);
            },
        );
        let l5 = [0.0, 1.0, -1.0, 1e-6, 1e6];
        if ctx.thorough() {
            ctx.lattice(
                "hostile 3x3, mixed scale: all matrices over {0,1,-1,1e-6,1e6}",
                pow(5, 9),
                |idx| format!("{:?}", mat_from(idx, 3, &l5)),
                |idx, acc| {
                    let d = mat_from(idx, 3, &l5);
                    hostile_case(&d, idx, acc);
                },
            );
        } else {
            // quick: the neighbourhoods (<= 2 changed entries) of three members on which the recurrence residual of
            // BiCGSTAB parts company with the true residual after a near breakdown (found by the full lattice)
            let bases: Vec<D> = vec![
                vec![vec![0.0, 1e6, 1e-6], vec![1e6, 1e-6, 1e6], vec![1e-6, 0.0, 1e6]],
                vec![vec![1e-6, 1e-6, 0.0], vec![1e6, 1e6, 1e6], vec![0.0, 1.0, 0.0]],
                vec![vec![1.0, 0.0, 1e-6], vec![1.0, 1e-6, 1.0], vec![1e-6, 1.0, 0.0]],
            ];
            let devs = deviations(9, 5, 2);
            for (bi, base) in bases.into_iter().enumerate() {
                let devs = devs.clone();
                ctx.lattice(
                    &format!("hostile 3x3, mixed scale: <= 2 deviations over {{0,1,-1,1e-6,1e6}} from near-breakdown member #{}", bi),
                    devs.len() as u64,
                    |idx| format!("{:?}", devs[idx as usize]),
                    |idx, acc| {
                        let mut d = base.clone();
                        for &(p, a) in &devs[idx as usize] {
                            d[p / 3][p % 3] = l5[a];
                        }
                        hostile_case(&d, idx, acc);
                    },
                );
            }
        }
    }
    let dev_d = ctx.pick(2, 3);
    let devs = deviations(9, 6, dev_d);
    for (bname, base) in bases() {
        ctx.lattice(
            &format!("hostile 3x3: <= {} deviations from the {} base over 6 letters", dev_d, bname),
            devs.len() as u64,
            |idx| format!("{:?}", devs[idx as usize]),
            |idx, acc| {
                let mut d = base.clone();
                for &(p, a) in &devs[idx as usize] {
                    if d[p / 3][p % 3] == L6[a] {
                        acc.hit("deviation equal to the base entry (skipped duplicate)");
                        return;
                    }
                    d[p / 3][p % 3] = L6[a];
                }
                hostile_case(&d, idx, acc);
            },
        );
    }
    {
        let l3 = [0.0, 1.0, -1.0];
        ctx.lattice(
            "hostile 3x3: all matrices over {0,1,-1}",
            pow(3, 9),
            |idx| format!("{:?}", mat_from(idx, 3, &l3)),
            |idx, acc| {
                let d = mat_from(idx, 3, &l3);
                hostile_case(&d, idx, acc);
            },
        );
    }
    if ctx.thorough() {
        let l4 = [0.0, 1.0, -1.0, 2.0];
        ctx.lattice(
            "hostile 3x3: all matrices over {0,1,-1,2}",
            pow(4, 9),
            |idx| format!("{:?}", mat_from(idx, 3, &l4)),
            |idx, acc| {
                let d = mat_from(idx, 3, &l4);
                hostile_case(&d, idx, acc);
            },
        );
    }
    edge_of_range_space(&ctx);
    extreme_2x2_space(&ctx);
    scaled_family_space(&ctx, if ctx.quick() { &[2, 3, 5, 8, 13, 21] } else { &[2, 3, 4, 5, 6, 8, 10, 13, 16, 21, 27, 34, 47, 60] });
    if ctx.quick() {
        benign_space(&ctx, &[1, 2, 3, 5, 8, 13, 16, 21, 24, 32, 34, 40, 60]);
    } else {
        benign_space(&ctx, &[1, 2, 3, 4, 5, 6, 7, 8, 13, 21, 34, 47, 60]);
    }
    std::process::exit(ctx.finish());
}
