//! C13 - complex arithmetic is exact field arithmetic; operator variants and ordering agree.
use mc::bfs::*;
use mc::fl::DD;
use mc::model::CQ;
use mc::*;
use ohsl::traits::{One, Zero};
use ohsl::{Cmplx, Complex};

type CR = Complex<Rat>;
fn cr(q: CQ) -> CR {
    Complex::new(q.re, q.im)
}
fn eqq(z: &CR, q: CQ) -> bool {
    z.real == q.re && z.imag == q.im
}
fn q6() -> Vec<Rat> {
    vec![r(0), r(1), r(-1), r(2), rq(1, 2), rq(-3, 2)]
}

fn exact_pair(a: CQ, b: CQ) -> Result<(), String> {
    let (za, zb) = (cr(a), cr(b));
    ensure!(eqq(&(za.clone() + zb.clone()), a.add(b)), "{:?} + {:?} = {:?}", za, zb, za.clone() + zb.clone());
    ensure!(eqq(&(za.clone() - zb.clone()), a.sub(b)), "{:?} - {:?} = {:?}", za, zb, za.clone() - zb.clone());
    ensure!(eqq(&(za.clone() * zb.clone()), a.mul(b)), "{:?} * {:?} = {:?}", za, zb, za.clone() * zb.clone());
    if !b.is_zero() {
        ensure!(eqq(&(za.clone() / zb.clone()), a.div(b)), "{:?} / {:?} = {:?}", za, zb, za.clone() / zb.clone());
        let mut t = za.clone();
        t /= zb.clone();
        ensure!(eqq(&t, a.div(b)), "{:?} /= {:?} gives {:?}", za, zb, t);
    }
    ensure!(eqq(&(-za.clone()), a.neg()), "-{:?}", za);
    ensure!(eqq(&za.conj(), CQ::new(a.re, -a.im)), "conj {:?}", za);
    ensure!(za.abs_sqr() == a.re * a.re + a.im * a.im, "abs_sqr {:?}", za);
    let mut t = za.clone();
    t += zb.clone();
    ensure!(eqq(&t, a.add(b)), "+=");
    let mut t = za.clone();
    t -= zb.clone();
    ensure!(eqq(&t, a.sub(b)), "-=");
    let mut t = za.clone();
    t *= zb.clone();
    ensure!(eqq(&t, a.mul(b)), "{:?} *= {:?} gives {:?} expected ({},{})", za, zb, t, a.mul(b).re, a.mul(b).im);
    // mixed complex/real forms with the real scalar b.re
    let s = b.re;
    let sq = CQ::new(s, r(0));
    ensure!(eqq(&(za.clone() + s), a.add(sq)), "z + r");
    ensure!(eqq(&(za.clone() - s), a.sub(sq)), "z - r");
    ensure!(eqq(&(za.clone() * s), a.mul(sq)), "z * r");
    let mut t = za.clone();
    t += s;
    ensure!(eqq(&t, a.add(sq)), "z += r");
    let mut t = za.clone();
    t -= s;
    ensure!(eqq(&t, a.sub(sq)), "z -= r");
    let mut t = za.clone();
    t *= s;
    ensure!(eqq(&t, a.mul(sq)), "z *= r");
    if !s.is_zero() {
        ensure!(eqq(&(za.clone() / s), a.div(sq)), "z / r");
        let mut t = za.clone();
        t /= s;
        ensure!(eqq(&t, a.div(sq)), "z /= r");
    }
    // identities
    ensure!(eqq(&(za.clone() + CR::zero()), a) && eqq(&(CR::zero() + za.clone()), a), "0 is not an additive identity");
    ensure!(eqq(&(za.clone() * CR::one()), a) && eqq(&(CR::one() * za.clone()), a), "1 is not a multiplicative identity");
    ensure!(eqq(&(za.clone() * CR::zero()), CQ::zero()), "z * 0 != 0");
    // equality and ordering
    ensure!((za == zb) == (a == b), "== disagrees with componentwise equality");
    let lt = za < zb;
    let gt = za > zb;
    let eq = za == zb;
    ensure!((lt as u8 + gt as u8 + eq as u8) == 1, "trichotomy fails for {:?}, {:?}: lt={} eq={} gt={}", za, zb, lt, eq, gt);
    let lex = if a.re != b.re { a.re < b.re } else { a.im < b.im };
    ensure!(lt == lex, "< is not the lexicographic order on {:?}, {:?}", za, zb);
    // every comparison operator and partial_cmp tell the same story (an implementation may override lt / le / gt / ge one by one)
    ensure!((za <= zb) == (lt || eq) && (za >= zb) == (gt || eq) && (za != zb) == !eq, "<= / >= / != disagree with < / > / == on {:?}, {:?}: le={} ge={} ne={}", za, zb, za <= zb, za >= zb, za != zb);
    let want = if eq { std::cmp::Ordering::Equal } else if lt { std::cmp::Ordering::Less } else { std::cmp::Ordering::Greater };
    ensure!(za.partial_cmp(&zb) == Some(want), "partial_cmp({:?}, {:?}) = {:?} but the operators say {:?}", za, zb, za.partial_cmp(&zb), want);
    ensure!(za.clone() == za, "clone != original");
    Ok(())
}

// --- f64 ---------------------------------------------------------------------------------------------
fn fcomp() -> Vec<f64> {
    vec![0.0, -0.0, 1.0, -1.0, 3.0, 1.0 / 3.0, -7.5, 1e-100, -1e-100, 1e100, -1e100]
}
/// thorough tier: the magnitudes in between as well, a value one ulp above 1 and the classic non-dyadic tenth
fn fcomp_thorough() -> Vec<f64> {
    let mut v = fcomp();
    v.extend([1e-7, -1e40, 1e-40, 0.1, 1.0 + f64::EPSILON, -1e70, 7e-71]);
    v
}
const ULP_BOUND: f64 = 8.0 * f64::EPSILON;

fn dd(x: f64) -> DD {
    DD::from(x)
}
fn nerr(got: Cmplx, re: DD, im: DD) -> f64 {
    let dr = dd(got.real).sub(re).to_f64();
    let di = dd(got.imag).sub(im).to_f64();
    let n = re.to_f64().hypot(im.to_f64());
    if !got.real.is_finite() || !got.imag.is_finite() {
        return f64::INFINITY;
    }
    if n == 0.0 {
        if dr == 0.0 && di == 0.0 {
            0.0
        } else {
            f64::INFINITY
        }
    } else {
        // scale to avoid overflow of hypot on 1e200-sized values
        (dr / n).hypot(di / n)
    }
}
fn bits(z: Cmplx) -> (u64, u64) {
    (z.real.to_bits(), z.imag.to_bits())
}

fn f64_pair(a: Cmplx, b: Cmplx, acc: &mut Acc) -> Result<(), String> {
    let (ar, ai, br, bi) = (dd(a.real), dd(a.imag), dd(b.real), dd(b.imag));
    let at = || format!("a={:?} b={:?}", a, b);
    let e = nerr(a + b, ar.add(br), ai.add(bi));
    acc.worst("f64_add_normwise_error", e, at);
    ensure!(e <= ULP_BOUND, "a + b off by {:e}", e);
    let e = nerr(a - b, ar.sub(br), ai.sub(bi));
    acc.worst("f64_sub_normwise_error", e, at);
    ensure!(e <= ULP_BOUND, "a - b off by {:e}", e);
    let e = nerr(a * b, ar.mul(br).sub(ai.mul(bi)), ar.mul(bi).add(ai.mul(br)));
    acc.worst("f64_mul_normwise_error", e, at);
    ensure!(e <= ULP_BOUND, "a * b = {:?} off by {:e}", a * b, e);
    {
        // the same component-wise demand on the product: a part whose two partial products do not cancel is exact to two roundings
        let p = a * b;
        let same_sign = |x: f64, y: f64| x == 0.0 || y == 0.0 || (x > 0.0) == (y > 0.0);
        let (re, im) = (ar.mul(br).sub(ai.mul(bi)), ar.mul(bi).add(ai.mul(br)));
        if same_sign(a.real * b.real, -(a.imag * b.imag)) && re.to_f64().abs() > 1e-280 && re.to_f64().abs() < 1e280 {
            let e = (dd(p.real).sub(re).to_f64() / re.to_f64()).abs();
            acc.worst("f64_mul_componentwise_error_without_cancellation", e, at);
            ensure!(e <= ULP_BOUND, "Re(a * b) = {:e} but a.re b.re - a.im b.im = {:e} (no cancellation; relative error {:e})", p.real, re.to_f64(), e);
        }
        if same_sign(a.real * b.imag, a.imag * b.real) && im.to_f64().abs() > 1e-280 && im.to_f64().abs() < 1e280 {
            let e = (dd(p.imag).sub(im).to_f64() / im.to_f64()).abs();
            acc.worst("f64_mul_componentwise_error_without_cancellation", e, at);
            ensure!(e <= ULP_BOUND, "Im(a * b) = {:e} but a.re b.im + a.im b.re = {:e} (no cancellation; relative error {:e})", p.imag, im.to_f64(), e);
        }
    }
    let nonzero = b.real != 0.0 || b.imag != 0.0;
    if nonzero {
        let den = br.mul(br).add(bi.mul(bi));
        let re = ar.mul(br).add(ai.mul(bi)).div(den);
        let im = ai.mul(br).sub(ar.mul(bi)).div(den);
        let e = nerr(a / b, re, im);
        acc.worst("f64_div_normwise_error", e, at);
        ensure!(e <= ULP_BOUND, "a / b = {:?} off by {:e}", a / b, e);
        let mut t = a;
        t /= b;
        ensure!(bits(t) == bits(a / b), "/= is not bit-identical to /: {:?} vs {:?}", t, a / b);
        // component-wise, where the component involves no cancellation (its two partial products have the same sign or one of them
        // vanishes): each part of (a c + b d, b c - a d) / (c^2 + d^2) then carries a few roundings only, however small it is
        // next to the other part - a shortcut that drops a partial product because the divisor is "numerically real" is 1 ulp
        // off normwise and 100% off in that component
        let q = a / b;
        let same_sign = |x: f64, y: f64| x == 0.0 || y == 0.0 || (x > 0.0) == (y > 0.0);
        let (t1, t2) = (a.real * b.real, a.imag * b.imag);
        if same_sign(t1, t2) && re.to_f64().abs() > 1e-280 && re.to_f64().abs() < 1e280 {
            let e = (dd(q.real).sub(re).to_f64() / re.to_f64()).abs();
            acc.worst("f64_div_componentwise_error_without_cancellation", e, at);
            ensure!(e <= 2.0 * ULP_BOUND, "Re(a / b) = {:e} but (a.re b.re + a.im b.im) / |b|^2 = {:e} (no cancellation; relative error {:e})", q.real, re.to_f64(), e);
        }
        let (t1, t2) = (a.imag * b.real, -(a.real * b.imag));
        if same_sign(t1, t2) && im.to_f64().abs() > 1e-280 && im.to_f64().abs() < 1e280 {
            let e = (dd(q.imag).sub(im).to_f64() / im.to_f64()).abs();
            acc.worst("f64_div_componentwise_error_without_cancellation", e, at);
            ensure!(e <= 2.0 * ULP_BOUND, "Im(a / b) = {:e} but (a.im b.re - a.re b.im) / |b|^2 = {:e} (no cancellation; relative error {:e})", q.imag, im.to_f64(), e);
        }
    }
    // compound forms are bit-identical to the binary forms
    let mut t = a;
    t += b;
    ensure!(bits(t) == bits(a + b), "+= differs from +");
    let mut t = a;
    t -= b;
    ensure!(bits(t) == bits(a - b), "-= differs from -");
    let mut t = a;
    t *= b;
    ensure!(bits(t) == bits(a * b), "*= is not bit-identical to *: {:?} vs {:?}", t, a * b);
    // mixed real forms
    let s = b.real;
    ensure!(bits(a + s) == bits(Cmplx::new(a.real + s, a.imag)), "z + r");
    ensure!(bits(a - s) == bits(Cmplx::new(a.real - s, a.imag)), "z - r");
    ensure!(bits(a * s) == bits(Cmplx::new(a.real * s, a.imag * s)), "z * r");
    ensure!(bits(s * a) == bits(a * s), "r * z != z * r");
    let mut t = a;
    t += s;
    ensure!(bits(t) == bits(a + s), "z += r");
    let mut t = a;
    t -= s;
    ensure!(bits(t) == bits(a - s), "z -= r");
    let mut t = a;
    t *= s;
    ensure!(bits(t) == bits(a * s), "z *= r");
    if s != 0.0 {
        ensure!(bits(a / s) == bits(Cmplx::new(a.real / s, a.imag / s)), "z / r");
        let mut t = a;
        t /= s;
        ensure!(bits(t) == bits(a / s), "z /= r");
    }
    ensure!(a + Cmplx::zero() == a && a * Cmplx::one() == a, "identities");
    ensure!(bits(-a) == bits(Cmplx::new(-a.real, -a.imag)) && bits(a.conj()) == bits(Cmplx::new(a.real, -a.imag)), "neg/conj");
    ensure!(a.abs_sqr() == a.real * a.real + a.imag * a.imag, "abs_sqr");
    let lt = a < b;
    let gt = a > b;
    let eq = a == b;
    ensure!((lt as u8 + gt as u8 + eq as u8) == 1, "trichotomy fails for {:?}, {:?}", a, b);
    ensure!((a <= b) == (lt || eq) && (a >= b) == (gt || eq) && (a != b) == !eq, "<= / >= / != disagree with < / > / == on {:?}, {:?}", a, b);
    let want = if eq { std::cmp::Ordering::Equal } else if lt { std::cmp::Ordering::Less } else { std::cmp::Ordering::Greater };
    ensure!(a.partial_cmp(&b) == Some(want), "partial_cmp({:?}, {:?}) = {:?} but the operators say {:?}", a, b, a.partial_cmp(&b), want);
    Ok(())
}

// --- E2: sequences of compound assignments on one Complex<Rat> -------------------------------------------
#[derive(Clone)]
struct St {
    z: CR,
    m: CQ,
}
#[derive(Clone, Debug)]
enum Act {
    Add(usize),
    Sub(usize),
    Mul(usize),
    Div(usize),
    AddR(usize),
    MulR(usize),
    DivR(usize),
    Neg,
    Conj,
}
fn letters() -> Vec<CQ> {
    vec![CQ::new(r(1), r(1)), CQ::new(r(0), r(-1)), CQ::new(rq(1, 2), r(2)), CQ::new(r(-3), r(0))]
}
fn rletters() -> Vec<Rat> {
    vec![r(2), rq(-1, 2), r(0)]
}
impl Sut for St {
    type Act = Act;
    fn key(&self) -> Key {
        vec![self.m.re.n, self.m.re.d, self.m.im.n, self.m.im.d]
    }
    fn actions(&self) -> Vec<Act> {
        let small = self.m.re.n.abs() < 200 && self.m.re.d < 200 && self.m.im.n.abs() < 200 && self.m.im.d < 200;
        let mut a = vec![Act::Neg, Act::Conj];
        if !small {
            return a;
        }
        for i in 0..letters().len() {
            a.push(Act::Add(i));
            a.push(Act::Sub(i));
            a.push(Act::Mul(i));
            a.push(Act::Div(i));
        }
        for i in 0..rletters().len() {
            a.push(Act::AddR(i));
            a.push(Act::MulR(i));
            if !rletters()[i].is_zero() {
                a.push(Act::DivR(i));
            }
        }
        a
    }
    fn step(&mut self, a: &Act, hits: &mut Vec<&'static str>) -> Result<(), String> {
        let l = letters();
        let rl = rletters();
        match a.clone() {
            Act::Add(i) => {
                self.z += cr(l[i]);
                self.m = self.m.add(l[i]);
            }
            Act::Sub(i) => {
                self.z -= cr(l[i]);
                self.m = self.m.sub(l[i]);
            }
            Act::Mul(i) => {
                self.z *= cr(l[i]);
                self.m = self.m.mul(l[i]);
                hits.push("in-place complex multiply");
            }
            Act::Div(i) => {
                self.z /= cr(l[i]);
                self.m = self.m.div(l[i]);
                hits.push("in-place complex divide");
            }
            Act::AddR(i) => {
                self.z += rl[i];
                self.m = self.m.add(CQ::new(rl[i], r(0)));
            }
            Act::MulR(i) => {
                self.z *= rl[i];
                self.m = self.m.mul(CQ::new(rl[i], r(0)));
            }
            Act::DivR(i) => {
                self.z /= rl[i];
                self.m = self.m.div(CQ::new(rl[i], r(0)));
            }
            Act::Neg => {
                self.z = -self.z.clone();
                self.m = self.m.neg();
            }
            Act::Conj => {
                self.z = self.z.conj();
                self.m = CQ::new(self.m.re, -self.m.im);
            }
        }
        self.check()
    }
    fn check(&self) -> Result<(), String> {
        ensure!(eqq(&self.z, self.m), "value {:?} expected ({}, {})", self.z, self.m.re, self.m.im);
        Ok(())
    }
    fn classes(&self, hits: &mut Vec<&'static str>) {
        if !self.m.re.is_zero() && !self.m.im.is_zero() {
            hits.push("state with both parts non-zero");
        }
    }
    fn show(&self) -> String {
        format!("({}, {})", self.m.re, self.m.im)
    }
}

fn main() {
    let ctx = Ctx::from_args("C13");
    ctx.level("model_checking");
    ctx.rule("E1: all 1296 ordered pairs of Complex<Rat> with components in {0,1,-1,2,1/2,-3/2}: + - * / neg conj abs_sqr, the mixed real forms and every compound assignment against independently coded field formulae (exact); identities; equality and lexicographic order (trichotomy; <, <=, >, >=, != and partial_cmp mutually consistent; transitivity on all triples of 25 values). Complex<f64>: all 11^4 pairs with components in {0,-0,+-1,3,1/3,-7.5,+-1e-100,+-1e100}: double-double reference, normwise error <= 8 eps, each part of a product / quotient whose two partial products do not cancel to 8 / 16 eps relative to itself, every compound / mixed form bit-identical to its binary form. E2: BFS over sequences of compound assignments (complex and real operands), negation and conjugation on one Complex<Rat>. Non-trivial: pairs with all four components non-zero, purely real/imaginary operands, in-place multiply/divide.");
    ctx.assume("f64 components stay inside 1e-100..1e100 so that no intermediate overflows or underflows");
    for n in ["f64_add_normwise_error", "f64_sub_normwise_error", "f64_mul_normwise_error", "f64_div_normwise_error"] {
        ctx.threshold(n, ULP_BOUND);
    }
    ctx.threshold("f64_div_componentwise_error_without_cancellation", 2.0 * ULP_BOUND);
    ctx.threshold("f64_mul_componentwise_error_without_cancellation", ULP_BOUND);
    ctx.require(&["all four components non-zero", "purely real or imaginary operand", "in-place complex multiply", "in-place complex divide", "transitivity triples"]);
    let comps = q6();
    let vals: Vec<CQ> = comps.iter().flat_map(|a| comps.iter().map(move |b| CQ::new(*a, *b))).collect();
    let n = vals.len() as u64;
    ctx.lattice(
        "Complex<Rat>: all ordered pairs with components over {0,1,-1,2,1/2,-3/2}",
        n * n,
        |idx| format!("a={:?} b={:?}", vals[(idx / n) as usize], vals[(idx % n) as usize]),
        |idx, acc| {
            let (a, b) = (vals[(idx / n) as usize], vals[(idx % n) as usize]);
            if !a.re.is_zero() && !a.im.is_zero() && !b.re.is_zero() && !b.im.is_zero() {
                acc.nontriv("all four components non-zero");
            }
            if a.re.is_zero() || a.im.is_zero() || b.re.is_zero() || b.im.is_zero() {
                acc.nontriv("purely real or imaginary operand");
            }
            judge(acc, idx, || format!("Rat a=({},{}) b=({},{})", a.re, a.im, b.re, b.im), || exact_pair(a, b));
        },
    );
    let fc = if ctx.quick() { fcomp() } else { fcomp_thorough() };
    let fv: Vec<Cmplx> = fc.iter().flat_map(|a| fc.iter().map(move |b| Cmplx::new(*a, *b))).collect();
    let nf = fv.len() as u64;
    ctx.lattice(
        if ctx.quick() { "Complex<f64>: all ordered pairs with components over {0,-0,+-1,3,1/3,-7.5,+-1e-100,+-1e100}" } else { "Complex<f64>: all ordered pairs with components over {0,-0,+-1,3,1/3,-7.5,+-1e-100,+-1e100,1e-7,-1e40,1e-40,0.1,1+eps,-1e70,7e-71}" },
        nf * nf,
        |idx| format!("a={:?} b={:?}", fv[(idx / nf) as usize], fv[(idx % nf) as usize]),
        |idx, acc| {
            let (a, b) = (fv[(idx / nf) as usize], fv[(idx % nf) as usize]);
            if a.real != 0.0 && a.imag != 0.0 && b.real != 0.0 && b.imag != 0.0 {
                acc.nontriv("all four components non-zero");
            }
            let mut local = Acc::new("t");
            let res = catch(|| f64_pair(a, b, &mut local));
            acc.merge_worst(local);
            match res {
                Ok(Ok(())) => {}
                Ok(Err(e)) => acc.fail(idx, format!("f64 a={:?} b={:?}", a, b), e),
                Err(p) => acc.fail(idx, format!("f64 a={:?} b={:?}", a, b), format!("unexpected panic: {}", p)),
            }
        },
    );
    // transitivity on all triples of a 25-value set (both element types)
    let tc = [-1.0, 0.0, 0.5, 1.0, 1e100];
    let tv: Vec<Cmplx> = tc.iter().flat_map(|a| tc.iter().map(move |b| Cmplx::new(*a, *b))).collect();
    let nt = tv.len() as u64;
    ctx.lattice(
        "ordering: all triples of 25 Complex<f64> values (and their Complex<Rat> twins where representable)",
        nt * nt * nt,
        |idx| format!("{:?} {:?} {:?}", tv[(idx / (nt * nt)) as usize], tv[((idx / nt) % nt) as usize], tv[(idx % nt) as usize]),
        |idx, acc| {
            let (a, b, c) = (tv[(idx / (nt * nt)) as usize], tv[((idx / nt) % nt) as usize], tv[(idx % nt) as usize]);
            acc.nontriv("transitivity triples");
            judge(acc, idx, || format!("{:?} {:?} {:?}", a, b, c), || {
                if a < b && b < c {
                    ensure!(a < c, "a<b and b<c but not a<c");
                }
                if a == b && b == c {
                    ensure!(a == c, "== not transitive");
                }
                if a < b {
                    ensure!(b > a && !(b < a) && a != b, "< / > inconsistent");
                }
                ensure!((a <= b) == (a < b || a == b) && (a >= b) == (a > b || a == b), "<= / >= inconsistent");
                // Rat twins (skip the 1e100 letter)
                let ok = |z: Cmplx| z.real.abs() < 1e50 && z.imag.abs() < 1e50;
                if ok(a) && ok(b) && ok(c) {
                    let t = |z: Cmplx| Complex::new(Rat::from_f64_exact(z.real).unwrap(), Rat::from_f64_exact(z.imag).unwrap());
                    let (ra, rb, rc) = (t(a), t(b), t(c));
                    ensure!((ra < rb) == (a < b) && (ra == rb) == (a == b), "Complex<Rat> order differs from Complex<f64> order");
                    if ra < rb && rb < rc {
                        ensure!(ra < rc, "Rat: not transitive");
                    }
                }
                Ok(())
            });
        },
    );
    // f64 division histories: the quotient must not depend on the divisions that went before it in the same thread (the divisor is
    // pre-scaled by a power of two - a remembered scale is hidden state of a "stateless" operator). Every word of four divisor
    // magnitudes over eight binades from 2^-332 to 2^332, each word in a thread of its own so that the history is exactly the word;
    // z / w and z /= w with z, w = (1.5 + 2.25 i) 2^e, (3 - 4 i) 2^e: the exact quotient is -0.18 + 0.51 i every time (round 15)
    {
        let exps: [i32; 8] = [-332, -166, -80, 0, 88, 176, 254, 332];
        ctx.lattice(
            "f64 division histories: every word of 4 divisor magnitudes over 8 binades (2^-332..2^332), one fresh thread per word",
            8u64.pow(4),
            |idx| format!("{}", idx),
            |idx, acc| {
                let word: Vec<i32> = (0..4).map(|k| exps[((idx / 8u64.pow(k)) % 8) as usize]).collect();
                acc.nontriv("division history of four magnitudes");
                let w2 = word.clone();
                judge(acc, idx, || format!("divisor magnitudes 2^{:?} in this order", word), move || {
                    let word = w2.clone();
                    let res = std::thread::spawn(move || -> Result<(), String> {
                        for (step, e) in word.iter().enumerate() {
                            let sc = 2f64.powi(*e);
                            let z = Cmplx::new(1.5 * sc, 2.25 * sc);
                            let w = Cmplx::new(3.0 * sc, -4.0 * sc);
                            let q = z / w;
                            let mut q2 = z;
                            q2 /= w;
                            ensure!(q.real.to_bits() == q2.real.to_bits() && q.imag.to_bits() == q2.imag.to_bits(), "step {}: z /= w gives {:?}, z / w gives {:?}", step, q2, q);
                            ensure!((q.real + 0.18).abs() <= 4.0 * f64::EPSILON * 0.18 && (q.imag - 0.51).abs() <= 4.0 * f64::EPSILON * 0.51, "step {} (magnitude 2^{}): z / w = {:?} but the quotient is -0.18 + 0.51 i", step, e, q);
                        }
                        Ok(())
                    })
                    .join();
                    match res {
                        Ok(r) => r,
                        Err(_) => Err("panic in a division".to_string()),
                    }
                });
            },
        );
    }
    let depth = ctx.pick(4, 8);
    let inits = vec![St { z: Complex::new(r(1), r(0)), m: CQ::new(r(1), r(0)) }, St { z: Complex::new(r(0), rq(1, 2)), m: CQ::new(r(0), rq(1, 2)) }];
    explore(&ctx, "compound-assignment histories on Complex<Rat>", inits.clone(), BfsOpts { max_depth: depth, state_cap: ctx.pick(1_000_000, 20_000_000) });
    if ctx.quick() {
        crosscheck_stateright(&ctx, "compound-assignment histories on Complex<Rat>", inits, depth);
    }
    std::process::exit(ctx.finish());
}
