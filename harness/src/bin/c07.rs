//! C07 - sparse products equal dense products; transpose is the adjoint.
use mc::sp::*;
use mc::*;
use ohsl::Sparse;

fn build(rows: usize, cols: usize, cells: &[(usize, usize)], reversed: bool) -> (Sparse<Rat>, SM) {
    let mut m = SM::new();
    let mut trip: Vec<(usize, usize, Rat)> = vec![];
    for &(i, j) in cells {
        m.insert((i, j), cell_value(i, j, cols));
        trip.push((i, j, cell_value(i, j, cols)));
    }
    if reversed {
        trip.reverse();
    }
    (Sparse::from_triplets(rows, cols, &mut trip), m)
}

fn shape_space(ctx: &Ctx, rows: usize, cols: usize) {
    let len = 1u64 << (rows * cols);
    ctx.lattice(
        &format!("products {}x{}: every sparsity pattern x unit/ones/alternating/power-of-two/fractional vectors", rows, cols),
        len,
        |mask| format!("{}x{} cells={:?}", rows, cols, pattern_cells(rows, cols, mask)),
        |mask, acc| {
            let cells = pattern_cells(rows, cols, mask);
            if (0..cols).any(|j| !cells.iter().any(|c| c.1 == j)) {
                acc.nontriv("pattern with an empty column");
            }
            if (0..rows).any(|i| !cells.iter().any(|c| c.0 == i)) {
                acc.nontriv("pattern with an empty row");
            }
            if cells.is_empty() {
                acc.nontriv("empty matrix");
            }
            if rows != cols {
                acc.nontriv("rectangular");
            }
            for rev in [false, true] {
                judge(acc, mask, || format!("{}x{} cells={:?} reversed={}", rows, cols, cells, rev), || {
                    let (s, m) = build(rows, cols, &cells, rev);
                    products_check(&s, rows, cols, &m, true)
                });
            }
            // raw compressed-column arrays with rows stored in descending order inside each column
            judge(acc, mask, || format!("{}x{} cells={:?} from_vecs descending", rows, cols, cells), || {
                let mut sorted = cells.clone();
                sorted.sort_by_key(|c| (c.1, usize::MAX - c.0));
                let mut m = SM::new();
                let (mut val, mut ri, mut cs) = (vec![], vec![], vec![0usize; cols + 1]);
                for &(i, j) in &sorted {
                    m.insert((i, j), cell_value(i, j, cols));
                    val.push(cell_value(i, j, cols));
                    ri.push(i);
                    cs[j + 1] += 1;
                }
                for j in 0..cols {
                    cs[j + 1] += cs[j];
                }
                let s = Sparse::from_vecs(rows, cols, val, ri, cs);
                products_check(&s, rows, cols, &m, false)
            });
        },
    );
}

/// Sparse<f64> with columns (for transpose_multiply) or rows (for multiply) of very different scale: A_ij = k_ij 2^(e_j) (resp.
/// 2^(e_i)) with small integers k_ij, vectors of small integers. Every component of the product is then a small integer times ONE
/// power of two - exact in f64 whatever the other components are - and must come out bit for bit. A product that accumulates
/// across components (one running sum over all stored entries with differences taken per column) absorbs the small columns.
fn scaled_space(ctx: &Ctx, rows: usize, cols: usize) {
    let len = 1u64 << (rows * cols);
    let exps: [i32; 6] = [40, -17, 0, 25, -40, 52];
    ctx.lattice(
        &format!("Sparse<f64> {}x{} with columns / rows scaled by 2^{{40,-17,0,25,-40,52}}: every sparsity pattern x 2 triplet orders: transpose_multiply, multiply, transpose().multiply bit for bit", rows, cols),
        len,
        |mask| format!("{}x{} cells={:?}", rows, cols, pattern_cells(rows, cols, mask)),
        |mask, acc| {
            let cells = pattern_cells(rows, cols, mask);
            if cells.len() >= 2 {
                acc.nontriv("scaled sparse product");
            }
            let k = |i: usize, j: usize| ((i * 5 + j * 3) % 7) as i64 - 3 + if (i * 5 + j * 3) % 7 == 3 { 4 } else { 0 };
            for rev in [false, true] {
                judge(acc, mask, || format!("scaled {}x{} cells={:?} reversed={}", rows, cols, cells, rev), || {
                    // column scaled
                    let mut t: Vec<(usize, usize, f64)> = cells.iter().map(|&(i, j)| (i, j, k(i, j) as f64 * 2f64.powi(exps[j % 6]))).collect();
                    if rev {
                        t.reverse();
                    }
                    let a = Sparse::<f64>::from_triplets(rows, cols, &mut t);
                    let y: Vec<i64> = (0..rows).map(|i| [2, -1, 3, 1, -2][i % 5]).collect();
                    let yv = ohsl::Vector::create(y.iter().map(|v| *v as f64).collect());
                    let aty = a.transpose_multiply(&yv);
                    let aty2 = a.transpose().multiply(&yv);
                    ensure!(aty.size() == cols && aty2.size() == cols, "size of A^T y");
                    for j in 0..cols {
                        let e: i64 = cells.iter().filter(|c| c.1 == j).map(|&(i, _)| k(i, j) * y[i]).sum();
                        let want = e as f64 * 2f64.powi(exps[j % 6]);
                        ensure!(aty[j] == want && aty2[j] == want, "column-scaled A: (A^T y)[{}] = {:e} (transpose().multiply: {:e}), exact {:e}", j, aty[j], aty2[j], want);
                    }
                    // row scaled
                    let mut t: Vec<(usize, usize, f64)> = cells.iter().map(|&(i, j)| (i, j, k(i, j) as f64 * 2f64.powi(exps[i % 6]))).collect();
                    if rev {
                        t.reverse();
                    }
                    let a = Sparse::<f64>::from_triplets(rows, cols, &mut t);
                    let x: Vec<i64> = (0..cols).map(|j| [1, -3, 2, -1, 4][j % 5]).collect();
                    let xv = ohsl::Vector::create(x.iter().map(|v| *v as f64).collect());
                    let ax = a.multiply(&xv);
                    let ax2 = a.transpose().transpose_multiply(&xv);
                    ensure!(ax.size() == rows && ax2.size() == rows, "size of A x");
                    for i in 0..rows {
                        let e: i64 = cells.iter().filter(|c| c.0 == i).map(|&(_, j)| k(i, j) * x[j]).sum();
                        let want = e as f64 * 2f64.powi(exps[i % 6]);
                        ensure!(ax[i] == want && ax2[i] == want, "row-scaled A: (A x)[{}] = {:e} (transpose().transpose_multiply: {:e}), exact {:e}", i, ax[i], ax2[i], want);
                    }
                    Ok(())
                });
            }
        },
    );
}

fn family_cells(rows: usize, cols: usize, f: usize) -> Vec<(usize, usize)> {
    let mut v = vec![];
    for i in 0..rows {
        for j in 0..cols {
            let on = match f {
                0 => false,
                1 => true,
                2 => i == j,
                3 => i + j + 1 == rows.max(cols),
                4 => i == 0,
                5 => j + 1 == cols,
                6 => (i + j) % 2 == 0,
                7 => i == 0 || j == 0 || i == j,
                8 => i > 0 && j > 0 && i + 1 < rows && j + 1 < cols,
                9 => (i * 3 + j * 5) % 7 < 2,
                _ => i == rows - 1 && j == 0,
            };
            if on {
                v.push((i, j));
            }
        }
    }
    v
}

fn main() {
    let ctx = Ctx::from_args("C07");
    ctx.level("model_checking");
    ctx.rule("E1: every sparsity pattern for all shapes with r*c <= 12 (quick) / r*c <= 20 (thorough), two triplet orders, against the dense products over exact rationals with EVERY unit vector plus all-ones, alternating, powers of two and fractional vectors: multiply, transpose_multiply, transpose().multiply, <y,Ax>=<A^T y,x>, scale; shapes up to 10x10 and nine larger ones (up to 64 rows/columns) through 11 pattern families. E2: the same oracles on every state of the BFS over insert/overwrite/scale/transpose histories (storage orders that from_triplets alone does not produce). Non-trivial: empty rows/columns, empty matrix, rectangular shapes, unsorted storage.");
    ctx.require(&["pattern with an empty column", "pattern with an empty row", "empty matrix", "rectangular", "state with unsorted rows inside a column", "large shape", "typed sparse case (f64, Complex<f64>)"]);
    let lim = ctx.pick(12, 20);
    for r in 0..=5usize {
        for c in 0..=5usize {
            if r * c <= lim && (r <= 4 || c <= 4) {
                shape_space(&ctx, r, c);
            }
        }
    }
    for (r, c) in [(2usize, 2usize), (3, 3), (4, 3), (2, 6), (5, 2)] {
        scaled_space(&ctx, r, c);
    }
    let mut cases = vec![];
    for r in 1..=10usize {
        for c in 1..=10usize {
            if r * c > lim {
                for f in 0..11 {
                    cases.push((r, c, f));
                }
            }
        }
    }
    // shapes well beyond 10x10: block / unrolling boundaries of the column loops
    for (r, c) in [(17usize, 20usize), (20, 17), (33, 16), (16, 33), (40, 5), (5, 40), (25, 25), (64, 3), (3, 64)] {
        for f in 1..11 {
            cases.push((r, c, f));
        }
    }
    ctx.lattice(
        "products, shapes up to 10x10 and nine shapes up to 64 rows/columns through 11 structured pattern families",
        cases.len() as u64,
        |i| format!("{:?}", cases[i as usize]),
        |i, acc| {
            let (r, c, f) = cases[i as usize];
            let cells = family_cells(r, c, f);
            acc.nontriv("large shape");
            for rev in [false, true] {
                judge(acc, i, || format!("{}x{} family {} reversed={}", r, c, f, rev), || {
                    let (s, m) = build(r, c, &cells, rev);
                    products_check(&s, r, c, &m, true)
                });
            }
        },
    );
    let depth = ctx.pick(5, 6);
    run_bfs(&ctx, "products on insert/scale/transpose histories", &[(2, 3), (3, 3), (1, 4)], Mode::Products, depth, ctx.pick(1_500_000, 30_000_000), false);
    typed_spaces(&ctx, &[(2, 2), (2, 3), (3, 2), (1, 4), (3, 3)], true);
    std::process::exit(ctx.finish());
}
