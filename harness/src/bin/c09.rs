//! C09 - iterative solvers converge on well-posed systems and never corrupt a correct x.
use mc::it::*;
use mc::*;
use ohsl::Vector;

const TOLS: [f64; 3] = [1e-12, 1e-8, 1e-3];
const EPS: f64 = f64::EPSILON;

fn iteration_cap(n: usize) -> usize {
    6 * n + 30
}

fn applicable(s: Solver, f: Family) -> bool {
    match s {
        Solver::Cg => f.spd(),
        _ => f.strictly_dominant(),
    }
}

/// the one member of the generic-real lattice (thorough letters) on which BiCG stalled at 2e-10 until 46fe628: a near breakdown (p~.Ap
/// passes close to zero on this indefinite system) amplifies rounding, the recurrences never recovered. Listed input.
fn floor_member() -> D {
    let mut d = vec![vec![1.085, 0.55, 0.0], vec![0.123, -0.9199, -0.3], vec![0.55, 0.55, 0.0]];
    d[0][0] = 1.3 * 0.55 + 0.37;
    d[1][1] = -(1.3 * (0.123 + 0.3) + 0.37);
    d[2][2] = 1.3 * (0.55 + 0.55) + 0.37;
    d
}

/// members of the generic-real 4x4 lattice (thorough tier) on which BiCG stalled above tol = 1e-12 or diverged until 46fe628 (same class as
/// `floor_member`): off-diagonal parts, the diagonal follows from the lattice rule with the (+,-,+,+) sign pattern; right-hand side index
fn floor_members_4() -> Vec<(D, usize)> {
    let offs: Vec<([[f64; 4]; 4], usize)> = vec![
        ([[0.0, -0.3, 0.7, 0.0], [0.0, 0.0, -0.3, -0.3], [0.7, 0.7, 0.0, 0.7], [-0.3, 0.7, 0.0, 0.0]], 0),
        ([[0.0, 0.7, 0.7, 0.0], [0.0, 0.0, 0.7, 0.0], [0.0, 0.0, 0.0, 0.7], [0.7, 0.0, 0.7, 0.0]], 0),
        ([[0.0, -0.3, -0.3, -0.3], [-0.3, 0.0, -0.3, -0.3], [0.0, 0.7, 0.0, 0.0], [0.0, 0.0, 0.7, 0.0]], 1),
        ([[0.0, 0.7, 0.0, -0.3], [-0.3, 0.0, -0.3, 0.7], [0.7, 0.0, 0.0, -0.3], [0.0, -0.3, 0.7, 0.0]], 0),
        ([[0.0, 0.0, -0.3, 0.7], [0.0, 0.0, -0.3, 0.0], [0.7, 0.7, 0.0, 0.7], [-0.3, -0.3, -0.3, 0.0]], 0),
    ];
    offs.into_iter()
        .map(|(o, ri)| {
            let mut d: D = o.iter().map(|r| r.to_vec()).collect();
            for i in 0..4 {
                let s: f64 = (0..4).filter(|&j| j != i).map(|j| d[i][j].abs()).sum();
                d[i][i] = (1.3 * s + 0.37) * if i == 1 { -1.0 } else { 1.0 };
            }
            (d, ri)
        })
        .collect()
}

/// strictly dominant nonsymmetric 3x3 systems whose entries are NOT dyadic (every operation rounds, so no step is an exact
/// Lanczos breakdown and the recurrence residuals drift): every off-diagonal word over the letters, two diagonal sign patterns,
/// two right-hand sides, zero guess, the non-CG solvers at tol 1e-12 and 1e-8
fn generic_real_space(ctx: &Ctx, letters: &[f64], words: Option<(String, Vec<Vec<usize>>)>) {
    generic_real_space_n(ctx, 3, letters, words)
}
fn generic_real_space_n(ctx: &Ctx, n: usize, letters: &[f64], words: Option<(String, Vec<Vec<usize>>)>) {
    let l = letters.len() as u64;
    let lt = letters.to_vec();
    let (wname, wlist) = match words {
        Some((nm, w)) => (nm, Some(w)),
        None => ("every off-diagonal word".to_string(), None),
    };
    let nwords = match &wlist {
        Some(w) => w.len() as u64,
        None => pow(l, (n * (n - 1)) as u32),
    };
    ctx.lattice(
        &format!("generic-real strictly dominant {n}x{n}: {} over {:?}, diagonal = +-(1.3 row sum + 0.37) with signs (+,+,+) / (+,-,+); 2 rhs x tol {{1e-12,1e-8}} x BiCG (itol 1, 2), BiCGSTAB, QMR, plus 2 rhs with zero entries x BiCGSTAB", wname, letters),
        nwords * 2,
        |idx| format!("offdiag#{} signs#{}", idx / 2, idx % 2),
        |idx, acc| {
            let mut dg = vec![0usize; n * (n - 1)];
            match &wlist {
                Some(w) => dg = w[(idx / 2) as usize].clone(),
                None => digits_uniform(idx / 2, l, &mut dg),
            }
            let mut d = vec![vec![0.0f64; n]; n];
            let mut k = 0;
            for i in 0..n {
                for j in 0..n {
                    if i != j {
                        d[i][j] = lt[dg[k]];
                        k += 1;
                    }
                }
            }
            for i in 0..n {
                let s: f64 = (0..n).filter(|&j| j != i).map(|j| d[i][j].abs()).sum();
                d[i][i] = (1.3 * s + 0.37) * if idx % 2 == 1 && i == 1 { -1.0 } else { 1.0 };
            }
            acc.nontriv("generic-real dominant system");
            if (0..n).any(|i| (0..n).any(|j| d[i][j] != d[j][i])) {
                acc.hit("nonsymmetric system");
            }
            let a = sparse_of(&d, (idx % 7) as usize);
            let kappa = cond_inf(&d);
            let ainv = kappa / norm_inf_mat(&d);
            let bs: Vec<Vec<f64>> = vec![[0.9184622128670501, 0.006907651164131723, 0.5234778673726308, -0.3318250634131724][..n].to_vec(), matvec(&d, &[1.0, -0.5, 2.0, 0.75][..n])];
            // right-hand sides with zero entries (rhs#2, rhs#3): on reducible members they give exact breakdowns. BiCGSTAB restarts
            // from them since 4b9bf32 and solves every member; BiCG and QMR (look-ahead-free Lanczos) still stagnate or diverge on
            // thousands of members after such a breakdown - the known-finding class, see the representatives below - so these two
            // right-hand sides are judged for BiCGSTAB only
            let mut bs = bs;
            bs.push([0.9184622128670501, 0.0, 0.5234778673726308, -0.3318250634131724][..n].to_vec());
            bs.push([0.0, 0.006907651164131723, 0.0, -0.3318250634131724][..n].to_vec());
            for (ri, b) in bs.iter().enumerate() {
                let exact = match lu_solve(&d, &[b.clone()]) {
                    Some(v) => v[0].clone(),
                    None => return,
                };
                let bn = norm2(b);
                for &tol in [1e-12, 1e-8].iter() {
                    for &s in [Solver::Bicg1, Solver::Bicg2, Solver::Bicgstab, Solver::Qmr].iter() {
                        if ri >= 2 && s != Solver::Bicgstab {
                            continue;
                        }
                        acc.hit("solver runs");
                        let key = || format!("generic {:?} A={:?} rhs#{} tol={:e}", s, d, ri, tol);
                        let res = catch(|| -> Result<(f64, f64), String> {
                            let bv = Vector::create(b.clone());
                            let mut x = Vector::create(vec![0.0; n]);
                            let cap = iteration_cap(n);
                            let k = match run(s, &a, &bv, &mut x, cap, tol) {
                                Ok(k) => k,
                                Err(e) => return Err(format!("no success within {} iterations (Err({:e})); x = {:?}", cap, e, x.vec)),
                            };
                            ensure!(x.vec.iter().all(|v| v.is_finite()), "Ok({}) but x = {:?}", k, x.vec);
                            let err = (0..n).map(|i| (x[i] - exact[i]).abs()).fold(0.0, f64::max);
                            let bound = 10.0 * tol * ainv * bn + 100.0 * kappa * EPS * norm_inf(&exact) + 1e-300;
                            ensure!(err <= bound, "Ok({}) but ||x - x*||_inf = {:e} > {:e}", k, err, bound);
                            Ok((k as f64 / cap as f64, err / bound))
                        });
                        match res {
                            Ok(Ok((kk, eb))) => {
                                acc.worst("iterations_over_cap", kk, key);
                                acc.worst("error_over_bound", eb, key);
                            }
                            Ok(Err(e)) => acc.fail(idx, key(), e),
                            Err(p) => acc.fail(idx, key(), format!("unexpected panic: {}", p)),
                        }
                    }
                }
            }
        },
    );
}

/// Reducible dyadic strictly dominant systems whose right-hand side has a zero entry: the Krylov space of (A, b) is exhausted before
/// tol = 1e-12 is reached and solve_qmr has to restart from b - A x and carry on. Three systems delivered by a sub-agent in round 5 of
/// the seeded changes. They are listed, not enumerated: of the 18 333 systems within two entries of them over {0, +-1/4, 1/2, -3/4},
/// 5 993 fail on the unchanged tree (exact and near-exact Lanczos breakdowns of the look-ahead-free QMR - the known-finding class),
/// so the neighbourhood cannot be demanded and the property cannot be decided there by enumeration.
fn qmr_restart_cases(ctx: &Ctx) {
    let bases: Vec<(D, Vec<f64>)> = vec![
        (vec![vec![1.0, -0.25, 0.0, 0.0, -0.5], vec![-0.5, 1.75, 0.0, 0.0, 0.75], vec![1.5, 0.75, 5.75, -1.5, 1.0], vec![0.0, -0.75, 0.0, 1.5, 0.0], vec![2.0, -0.75, 0.0, 0.0, 4.5]], vec![0.75, 1.75, 0.0, -1.25, -1.0]),
        (vec![vec![0.75, 0.0, -0.25, 0.0, 0.0], vec![0.0, 1.0, 0.0, 0.0, 0.75], vec![-1.5, 0.0, 4.5, 0.0, -1.75], vec![-1.0, -1.0, 1.75, 6.25, 1.25], vec![0.0, -0.25, 0.0, 0.0, 2.25]], vec![-1.25, 1.25, -1.25, 0.0, 1.75]),
        (vec![vec![1.0, 0.0, 0.0, 0.0], vec![-1.75, 4.0, 0.0, 1.5], vec![1.0, 0.0, 2.5, 1.25], vec![0.25, 0.0, 0.0, 0.75]], vec![-1.25, 0.0, 0.75, -0.25]),
    ];
    let mut cases: Vec<(String, Box<dyn Fn() -> Result<(), String> + Sync + Send>)> = vec![];
    for (bi, (d, b)) in bases.into_iter().enumerate() {
        let n = d.len();
        cases.push((
            format!("qmr-restart base #{} (order {})", bi, n),
            Box::new(move || {
                let exact = lu_solve(&d, &[b.clone()]).ok_or("singular")?[0].clone();
                let a = sparse_of(&d, 0);
                let mut x = Vector::create(vec![0.0; n]);
                // these systems stagnate at a residual of 0.2..0.3 until the step stops changing x (55..78 iterations), restart and
                // then converge at once: beyond the 6n + 30 demanded elsewhere, so the bound here is 20 n
                let cap = 20 * n;
                match run(Solver::Qmr, &a, &Vector::create(b.clone()), &mut x, cap, 1e-12) {
                    Ok(k) => {
                        let err = (0..n).map(|i| (x[i] - exact[i]).abs()).fold(0.0, f64::max);
                        ensure!(err <= 1e-9 * cond_inf(&d) * norm_inf(&exact), "Ok({}) but ||x - x*||_inf = {:e}", k, err);
                        Ok(())
                    }
                    Err(e) => Err(format!("no success within {} iterations (Err({:e})); x = {:?}", cap, e, x.vec)),
                }
            }),
        ));
    }
    ctx.listed_cases("listed inputs: reducible dyadic systems on which QMR restarts after exhausting the Krylov space (sub-agent, round 5)", cases);
}

/// a guess that solves the system to rounding (the direct solution of a generic-real SPD system, so b - A x0 is rounding noise, not an
/// exact zero) at right-hand-side scales 1, 2^600 and 2^-600: accepted at once (the noise is 1e-16 of ||b|| at every scale), x untouched
fn near_exact_guess_space(ctx: &Ctx) {
    let letters = [0.0, 0.7, -0.3, 0.55];
    let l = letters.len() as u64;
    let scales = [1.0, 2f64.powi(600), 2f64.powi(-600)];
    ctx.lattice(
        "generic-real SPD 3x3 (symmetric off-diagonals over {0,0.7,-0.3,0.55}, diagonal = row sum + 0.37), guess = direct solution, right-hand side scaled by {1,2^600,2^-600}: all five solvers accept it",
        pow(l, 3) * scales.len() as u64,
        |idx| format!("offdiag#{} scale#{}", idx / 3, idx % 3),
        |idx, acc| {
            let mut dg = vec![0usize; 3];
            digits_uniform(idx / 3, l, &mut dg);
            let sc = scales[(idx % 3) as usize];
            let n = 3;
            let mut d = vec![vec![0.0f64; n]; n];
            let mut k = 0;
            for i in 0..n {
                for j in i + 1..n {
                    d[i][j] = letters[dg[k]];
                    d[j][i] = letters[dg[k]];
                    k += 1;
                }
            }
            for i in 0..n {
                let s: f64 = (0..n).filter(|&j| j != i).map(|j| d[i][j].abs()).sum();
                d[i][i] = s + 0.37;
            }
            let b0 = vec![0.9184622128670501, 0.006907651164131723, 0.5234778673726308];
            let x0 = match lu_solve(&d, &[b0.clone()]) {
                Some(v) => v[0].clone(),
                None => return,
            };
            acc.nontriv("near-exact guess");
            let b: Vec<f64> = b0.iter().map(|v| v * sc).collect();
            let g: Vec<f64> = x0.iter().map(|v| v * sc).collect();
            let a = sparse_of(&d, (idx % 7) as usize);
            for &s in SOLVERS.iter() {
                let key = || format!("near-exact guess {:?} A={:?} scale={:e}", s, d, sc);
                let res = catch(|| -> Result<(), String> {
                    let mut x = Vector::create(g.clone());
                    match run(s, &a, &Vector::create(b.clone()), &mut x, iteration_cap(n), 1e-10) {
                        Ok(k) => {
                            ensure!(x.vec.iter().all(|v| v.is_finite()), "Ok({}) but x = {:?}", k, x.vec);
                            let err = (0..n).map(|i| (x[i] - g[i]).abs()).fold(0.0, f64::max);
                            ensure!(err <= 1e-9 * norm_inf(&g), "Ok({}) but x moved away from the solution by {:e}", k, err);
                            Ok(())
                        }
                        Err(e) => Err(format!("a guess that solves the system to rounding was not accepted: Err({:e}); x = {:?}", e, x.vec)),
                    }
                });
                match res {
                    Ok(Ok(())) => {}
                    Ok(Err(e)) => acc.fail(idx, key(), e),
                    Err(p) => acc.fail(idx, key(), format!("unexpected panic: {}", p)),
                }
            }
        },
    );
}

/// Guesses that are LARGER than the solution (the third bug hunt: with a guess 80 times the solution the recurrence residual and the
/// true residual part by about eps cond |x0| / |x|, the confirmation with the true residual fails once, and until 46fe628 CG and BiCG
/// carried on with directions that belonged to the old residual and diverged - a correct x was driven to 1e9 / NaN).
/// Systems: the symmetric 2x2 [[a,c],[c,a]] with a = 0.714 and c over {0.7,0.5,-0.3,0.66} (condition 101, 5.7, 2.4, 25) and every
/// generic-real SPD 3x3 (symmetric off-diagonals over 4 letters, diagonal = row sum + 0.37) for all five solvers; every generic-real
/// strictly dominant 3x3 with positive diagonal over 4 letters for BiCG / BiCGSTAB / QMR. Guess = factor x ||x*||_inf x direction with
/// factor = c tol / (eps cond), c in {0.1, 0.3, 1, 3}: the critical region, where the rounding of the first residual b - A x0 is of the
/// order of tol ||b|| and the first confirmation fails; three directions, two right-hand sides, tol 1e-12 and 1e-8.
fn large_guess_space(ctx: &Ctx, letters: &[f64]) {
    let letters = letters.to_vec();
    let l = letters.len() as u64;
    let dirs: [[f64; 3]; 3] = [[1.0, 1.0, 1.0], [1.0, -1.0, 1.0], [0.3, -0.8, 0.5]];
    let nsym = 4 + pow(l, 3);
    let ngen = pow(l, 6);
    ctx.lattice(
        &format!("guesses larger than the solution: 4 symmetric 2x2 (cond up to 101) + every generic-real SPD 3x3 over {:?} (all five solvers) + every generic-real strictly dominant 3x3 with positive diagonal over the same letters (BiCG, BiCGSTAB, QMR) x 2 rhs x 3 guess directions x tol {{1e-12,1e-8}} x guess size = c tol / (eps cond) times the solution, c in {{0.1,0.3,1,3}}", letters),
        nsym + ngen,
        |idx| if idx < 4 { format!("2x2 #{}", idx) } else if idx < nsym { format!("spd3 #{}", idx - 4) } else { format!("dominant3 #{}", idx - nsym) },
        |idx, acc| {
            let (d, spd): (D, bool) = if idx < 4 {
                let c = [0.7, 0.5, -0.3, 0.66][idx as usize];
                (vec![vec![0.714, c], vec![c, 0.714]], true)
            } else if idx < nsym {
                let mut dg = vec![0usize; 3];
                digits_uniform(idx - 4, l, &mut dg);
                let mut d = vec![vec![0.0f64; 3]; 3];
                let mut k = 0;
                for i in 0..3 {
                    for j in i + 1..3 {
                        d[i][j] = letters[dg[k]];
                        d[j][i] = letters[dg[k]];
                        k += 1;
                    }
                }
                for i in 0..3 {
                    let s: f64 = (0..3).filter(|&j| j != i).map(|j| d[i][j].abs()).sum();
                    d[i][i] = s + 0.37;
                }
                (d, true)
            } else {
                let mut dg = vec![0usize; 6];
                digits_uniform(idx - nsym, l, &mut dg);
                let mut d = vec![vec![0.0f64; 3]; 3];
                let mut k = 0;
                for i in 0..3 {
                    for j in 0..3 {
                        if i != j {
                            d[i][j] = letters[dg[k]];
                            k += 1;
                        }
                    }
                }
                for i in 0..3 {
                    let s: f64 = (0..3).filter(|&j| j != i).map(|j| d[i][j].abs()).sum();
                    d[i][i] = 1.3 * s + 0.37;
                }
                (d, false)
            };
            let n = d.len();
            acc.nontriv("guess larger than the solution");
            let a = sparse_of(&d, (idx % 7) as usize);
            let kappa = cond_inf(&d);
            let ainv = kappa / norm_inf_mat(&d);
            let bs: Vec<Vec<f64>> = vec![[-0.000148, 0.0002, 0.000113][..n].to_vec(), matvec(&d, &[1.0, -0.5, 2.0][..n])];
            for (ri, b) in bs.iter().enumerate() {
                let exact = match lu_solve(&d, &[b.clone()]) {
                    Some(v) => v[0].clone(),
                    None => return,
                };
                let bn = norm2(b);
                let xn = norm_inf(&exact);
                for tol in [1e-12, 1e-8] {
                    // the critical region: eps cond |x0| / |x*| of the order of tol (there the first confirmation fails)
                    for c in [0.1, 0.3, 1.0, 3.0] {
                        let fac = c * tol / (EPS * kappa);
                        if fac < 2.0 {
                            continue;
                        }
                        for (di, dir) in dirs.iter().enumerate() {
                            let g: Vec<f64> = (0..n).map(|i| fac * xn * dir[i]).collect();
                            for &s in SOLVERS.iter() {
                                if s == Solver::Cg && !spd {
                                    continue;
                                }
                                // QMR is judged up to c = 1: at c = 3 one member of the quick lattice stagnates after the Krylov space
                                // is exhausted (steps too small to lower the residual, large enough to change x, so the restart on
                                // `!moved` never fires) - listed as a known finding in its own space
                                if s == Solver::Qmr && c > 1.0 {
                                    continue;
                                }
                                acc.hit("solver runs");
                                let key = || format!("large guess {:?} A={:?} rhs#{} tol={:e} factor={} dir#{}", s, d, ri, tol, fac, di);
                                let res = catch(|| -> Result<(f64, f64), String> {
                                    let mut x = Vector::create(g.clone());
                                    let cap = iteration_cap(n);
                                    let k = match run(s, &a, &Vector::create(b.clone()), &mut x, cap, tol) {
                                        Ok(k) => k,
                                        Err(e) => return Err(format!("no success within {} iterations (Err({:e})); x = {:?}, solution {:?}", cap, e, x.vec, exact)),
                                    };
                                    ensure!(x.vec.iter().all(|v| v.is_finite()), "Ok({}) but x = {:?}", k, x.vec);
                                    let err = (0..n).map(|i| (x[i] - exact[i]).abs()).fold(0.0, f64::max);
                                    let bound = 10.0 * tol * ainv * bn + 100.0 * kappa * EPS * xn + 1e-300;
                                    ensure!(err <= bound, "Ok({}) but ||x - x*||_inf = {:e} > {:e}", k, err, bound);
                                    Ok((k as f64 / cap as f64, err / bound))
                                });
                                match res {
                                    Ok(Ok((kk, eb))) => {
                                        acc.worst("iterations_over_cap", kk, key);
                                        acc.worst("error_over_bound", eb, key);
                                    }
                                    Ok(Err(e)) => acc.fail(idx, key(), e),
                                    Err(p) => acc.fail(idx, key(), format!("unexpected panic: {}", p)),
                                }
                            }
                        }
                    }
                }
            }
        },
    );
}

fn main() {
    let ctx = Ctx::from_args("C09");
    ctx.level("exploration");
    ctx.rule("E1: six families (1-D Laplacian, arrowhead SPD, symmetric indefinite dominant, nonsymmetric dominant with mixed-sign diagonal, upwind convection-diffusion, scattered dominant) x orders {1,2,3,5,8,13,21,34,60} (quick: 18 orders up to 34 covering every residue mod 8) x 7 construction paths of the sparse matrix (3 triplet orders, entry-by-entry inserts, double transpose, overwrite + scale, explicitly stored zeros) x right-hand sides {A x*, 0, 1e6 A x*, 2^332 A x*, 2^-332 A x*} x guesses {0, exact solution, fixed non-zero} x tol {1e-12,1e-8,1e-3} x solvers (CG on the SPD families; BiCG itol 1/2, BiCGSTAB, QMR on the strictly diagonally dominant ones), every combination. Oracle: Ok(k) with k <= 6n+30; ||x - x_direct||_inf <= 10 tol ||A^-1||_inf ||b||_2 + 100 cond eps ||x|| with x_direct and the inverse from an independent dense LU; exact guess and zero/zero start => Ok with finite x. Plus every symmetric strictly dominant matrix with positive diagonal (SPD) of order 4 over 3 letters (quick) / order 4 over 5, order 5 over 3, order 6 over 2 letters (thorough), each through one of the 7 construction paths, 3 rhs x 3 guesses x 2 tolerances, all five solvers. Non-trivial: nonsymmetric systems, exact-guess starts, zero right-hand sides, orders >= 13.");
    ctx.assume("all matrix and vector data are small dyadic rationals, so the exact guess has an exactly zero residual in f64");
    ctx.assume("the iteration bound 6n+30 and the accuracy slack are calibrated on the repaired tree (worst observed values are recorded)");
    ctx.threshold("iterations_over_cap", 1.0);
    ctx.threshold("error_over_bound", 1.0);
    ctx.require(&["nonsymmetric system", "exact initial guess", "zero right-hand side with zero guess", "order >= 13", "n = 1"]);
    let sizes: Vec<usize> = if ctx.quick() { vec![1, 2, 3, 4, 5, 6, 7, 8, 9, 12, 13, 16, 17, 20, 21, 24, 32, 34] } else { vec![1, 2, 3, 4, 5, 6, 7, 8, 10, 13, 16, 21, 27, 34, 47, 60] };
    let mut cases = vec![];
    for &n in &sizes {
        for f in FAMILIES.iter() {
            for order in 0..7usize {
                for rhs in 0..5usize {
                    for g in 0..3usize {
                        cases.push((n, *f, order, rhs, g));
                    }
                }
            }
        }
    }
    ctx.lattice(
        &format!("well-posed families: orders {:?} x 6 families x 7 construction paths (3 triplet orders, insert by insert, double transpose, overwrite + scale, explicitly stored zeros) x 5 rhs x 3 guesses (x 3 tolerances x applicable solvers inside)", sizes),
        cases.len() as u64,
        |i| format!("{:?}", cases[i as usize]),
        |i, acc| {
            let (n, f, order, rhs, g) = cases[i as usize];
            let d = family(f, n);
            let a = sparse_of(&d, order);
            let xs = xstar(n);
            // right-hand sides of any scale: 1, 0, 1e6 and the powers of two next to 1e100 and 1e-100
            let scale = match rhs { 2 => 1e6, 3 => 2.0f64.powi(332), 4 => 2.0f64.powi(-332), _ => 1.0 };
            let exact: Vec<f64> = if rhs == 1 { vec![0.0; n] } else { xs.iter().map(|v| v * scale).collect() };
            let b: Vec<f64> = matvec(&d, &exact);
            let x0: Vec<f64> = match g {
                0 => vec![0.0; n],
                1 => exact.clone(),
                // a generic guess of the problem's own scale (a guess 1e100 times larger than the solution makes the relative
                // residual criterion unattainable: forming b - A x0 already loses b entirely)
                _ => (0..n).map(|k| (if k % 2 == 0 { 0.5 } else { -2.0 }) * if rhs >= 3 { scale } else { 1.0 }).collect(),
            };
            if f.nonsymmetric() {
                acc.nontriv("nonsymmetric system");
            }
            if g == 1 {
                acc.nontriv("exact initial guess");
            }
            if rhs == 1 && g == 0 {
                acc.nontriv("zero right-hand side with zero guess");
            }
            if n >= 13 {
                acc.nontriv("order >= 13");
            }
            if n == 1 {
                acc.nontriv("n = 1");
            }
            let direct = match lu_solve(&d, &[b.clone()]) {
                Some(v) => v[0].clone(),
                None => {
                    acc.machinery(format!("family {:?} n={} is singular to working precision", f, n));
                    return;
                }
            };
            let kappa = cond_inf(&d);
            let ainv = kappa / norm_inf_mat(&d);
            let bn = {
                let t = norm2(&b);
                if t == 0.0 {
                    1.0
                } else {
                    t
                }
            };
            for &tol in TOLS.iter() {
                for &s in SOLVERS.iter() {
                    if !applicable(s, f) {
                        continue;
                    }
                    acc.hit("solver runs");
                    let key = || format!("{:?} family={:?} n={} order={} rhs#{} guess#{} tol={:e}", s, f, n, order, rhs, g, tol);
                    let res = catch(|| -> Result<(f64, f64), String> {
                        let bv = Vector::create(b.clone());
                        let mut x = Vector::create(x0.clone());
                        let cap = iteration_cap(n);
                        let out = run(s, &a, &bv, &mut x, cap, tol);
                        let k = match out {
                            Ok(k) => k,
                            Err(e) => return Err(format!("no success within {} iterations on a well-posed system (Err({:e})); x = {:?}", cap, e, &x.vec[..n.min(6)])),
                        };
                        ensure!(k <= cap, "Ok({}) exceeds the iteration cap {}", k, cap);
                        ensure!(x.vec.iter().all(|v| v.is_finite()), "Ok({}) but x is not finite: {:?}", k, &x.vec[..n.min(6)]);
                        let err = (0..n).map(|i| (x[i] - direct[i]).abs()).fold(0.0, f64::max);
                        // forming b - A x0 already costs eps |A| |x0|: a guess far larger than the solution limits the attainable accuracy
                        let bound = 10.0 * tol * ainv * bn + 100.0 * kappa * EPS * (norm_inf(&direct) + norm_inf(&x0)) + 1e-300 * scale.min(1.0);
                        ensure!(err <= bound, "Ok({}) but ||x - x_direct||_inf = {:e} > {:e} (tol {:e}, cond {:e})", k, err, bound, tol, kappa);
                        if g == 1 {
                            ensure!(k == 0 || err <= bound, "exact guess was degraded");
                        }
                        Ok((k as f64 / cap as f64, err / bound))
                    });
                    match res {
                        Ok(Ok((kk, eb))) => {
                            acc.worst("iterations_over_cap", kk, key);
                            acc.worst("error_over_bound", eb, key);
                        }
                        Ok(Err(e)) => acc.fail(i, key(), e),
                        Err(p) => acc.fail(i, key(), format!("unexpected panic: {}", p)),
                    }
                }
            }
        },
    );
    // small exhaustive lattice: every strictly diagonally dominant matrix with off-diagonal entries over the alphabet
    // and diagonal = +-(row sum of magnitudes + 1)
    for (n, letters) in [(2usize, vec![0.0, 1.0, -1.0, 0.5, -0.5]), (3usize, if ctx.quick() { vec![0.0, 1.0, -0.5] } else { vec![0.0, 1.0, -1.0, 0.5, -0.5] })] {
        let noff = n * n - n;
        let l = letters.len() as u64;
        let len = pow(l, noff as u32) * (1u64 << n);
        ctx.lattice(
            &format!("exhaustive strictly dominant {}x{} (all five solvers on the SPD members): off-diagonals over {:?} x every diagonal sign pattern", n, n, letters),
            len,
            |idx| format!("offdiag#{} signs={:b}", idx >> n, idx & ((1 << n) - 1)),
            |idx, acc| {
                let signs = idx & ((1u64 << n) - 1);
                let mut dg = vec![0usize; noff];
                digits_uniform(idx >> n, l, &mut dg);
                let mut d = vec![vec![0.0f64; n]; n];
                let mut k = 0;
                for i in 0..n {
                    for j in 0..n {
                        if i != j {
                            d[i][j] = letters[dg[k]];
                            k += 1;
                        }
                    }
                }
                for i in 0..n {
                    let s: f64 = (0..n).filter(|&j| j != i).map(|j| d[i][j].abs()).sum();
                    d[i][i] = (s + 1.0) * if (signs >> i) & 1 == 1 { -1.0 } else { 1.0 };
                }
                let sym = (0..n).all(|i| (0..n).all(|j| d[i][j] == d[j][i]));
                let spd = sym && signs == 0;
                if !sym {
                    acc.nontriv("nonsymmetric system");
                }
                if signs != 0 {
                    acc.nontriv("negative diagonal entries");
                }
                let a = sparse_of(&d, 0);
                let xs: Vec<f64> = [1.0, -0.5, 2.0][..n].to_vec();
                let b = matvec(&d, &xs);
                let kappa = cond_inf(&d);
                let ainv = kappa / norm_inf_mat(&d);
                let bn = norm2(&b);
                for (gi, x0) in [vec![0.0; n], xs.clone(), [0.5, -2.0, 1.0][..n].to_vec()].iter().enumerate() {
                    for &tol in [1e-12, 1e-6].iter() {
                        for &s in SOLVERS.iter() {
                            if s == Solver::Cg && !spd {
                                continue;
                            }
                            // Only the SPD members are judged on this lattice (all five solvers: there BiCG coincides with
                            // CG and no breakdown occurs on any member): the other members meet exact Lanczos
                            // breakdowns of BiCG / BiCGSTAB / QMR far too often (5 256 irreducible and 5 800 reducible
                            // failing runs), see DESIGN.md section 6, C09 and the representative known findings below.
                            if s != Solver::Cg && !spd {
                                continue;
                            }
                            acc.hit("solver runs");
                            let irreducible = {
                                // strongly connected digraph of the non-zero pattern (n <= 3)
                                let mut reach = vec![vec![false; n]; n];
                                for i in 0..n { for j in 0..n { reach[i][j] = i == j || d[i][j] != 0.0; } }
                                for k in 0..n { for i in 0..n { for j in 0..n { if reach[i][k] && reach[k][j] { reach[i][j] = true; } } } }
                                (0..n).all(|i| (0..n).all(|j| reach[i][j]))
                            };
                            let key = || format!("{} {:?} A={:?} b={:?} x0={:?} tol={:e}", if irreducible { "IRREDUCIBLE" } else { "reducible" }, s, d, b, x0, tol);
                            let res = catch(|| -> Result<(f64, f64), String> {
                                let bv = Vector::create(b.clone());
                                let mut x = Vector::create(x0.clone());
                                let cap = iteration_cap(n);
                                let k = match run(s, &a, &bv, &mut x, cap, tol) {
                                    Ok(k) => k,
                                    Err(e) => return Err(format!("no success within {} iterations (Err({:e})); x = {:?}", cap, e, x.vec)),
                                };
                                ensure!(x.vec.iter().all(|v| v.is_finite()), "Ok({}) but x = {:?}", k, x.vec);
                                let err = (0..n).map(|i| (x[i] - xs[i]).abs()).fold(0.0, f64::max);
                                let bound = 10.0 * tol * ainv * bn + 100.0 * kappa * EPS * norm_inf(&xs);
                                ensure!(err <= bound, "Ok({}) but ||x - x*||_inf = {:e} > {:e}", k, err, bound);
                                if gi == 1 {
                                    ensure!(k == 0, "exact guess but {} iterations were performed", k);
                                }
                                Ok((k as f64 / cap as f64, err / bound))
                            });
                            match res {
                                Ok(Ok((kk, eb))) => {
                                    acc.worst("iterations_over_cap", kk, key);
                                    acc.worst("error_over_bound", eb, key);
                                }
                                Ok(Err(e)) => acc.fail(idx, key(), e),
                                Err(p) => acc.fail(idx, key(), format!("unexpected panic: {}", p)),
                            }
                        }
                    }
                }
            },
        );
    }
    // symmetric strictly dominant matrices with a positive diagonal (SPD), every off-diagonal pattern: all five solvers
    for (n, letters) in if ctx.quick() { vec![(4usize, vec![0.0, 1.0, -0.5])] } else { vec![(4usize, vec![0.0, 1.0, -1.0, 0.5, -0.5]), (5usize, vec![0.0, 1.0, -0.5]), (6usize, vec![0.0, -1.0])] } {
        let noff = n * (n - 1) / 2;
        let l = letters.len() as u64;
        ctx.lattice(
            &format!("exhaustive SPD strictly dominant {}x{}: symmetric off-diagonals over {:?}, diagonal = row sum + 1; 3 rhs x 3 guesses x 2 tolerances x 5 solvers", n, n, letters),
            pow(l, noff as u32),
            |idx| format!("offdiag#{}", idx),
            |idx, acc| {
                let mut dg = vec![0usize; noff];
                digits_uniform(idx, l, &mut dg);
                let mut d = vec![vec![0.0f64; n]; n];
                let mut k = 0;
                for i in 0..n {
                    for j in i + 1..n {
                        d[i][j] = letters[dg[k]];
                        d[j][i] = letters[dg[k]];
                        k += 1;
                    }
                }
                for i in 0..n {
                    let s: f64 = (0..n).filter(|&j| j != i).map(|j| d[i][j].abs()).sum();
                    d[i][i] = s + 1.0;
                }
                acc.nontriv("SPD lattice member");
                let a = sparse_of(&d, (idx % 7) as usize);
                let xs: Vec<f64> = [1.0, -0.5, 2.0, 0.25, -1.5, 3.0][..n].to_vec();
                let kappa = cond_inf(&d);
                let ainv = kappa / norm_inf_mat(&d);
                for (ri, exact) in [xs.clone(), vec![0.0; n], xs.iter().map(|v| v * 1e6).collect::<Vec<f64>>()].iter().enumerate() {
                    let b = matvec(&d, exact);
                    let bn = if norm2(&b) == 0.0 { 1.0 } else { norm2(&b) };
                    for (gi, x0) in [vec![0.0; n], exact.clone(), [0.5, -2.0, 1.0, 4.0, -0.125, 2.0][..n].to_vec()].iter().enumerate() {
                        for &tol in [1e-12, 1e-6].iter() {
                            for &s in SOLVERS.iter() {
                                acc.hit("solver runs");
                                let key = || format!("SPD {:?} A={:?} rhs#{} guess#{} tol={:e}", s, d, ri, gi, tol);
                                let res = catch(|| -> Result<(f64, f64), String> {
                                    let bv = Vector::create(b.clone());
                                    let mut x = Vector::create(x0.clone());
                                    let cap = iteration_cap(n);
                                    let k = match run(s, &a, &bv, &mut x, cap, tol) {
                                        Ok(k) => k,
                                        Err(e) => return Err(format!("no success within {} iterations (Err({:e})); x = {:?}", cap, e, x.vec)),
                                    };
                                    ensure!(x.vec.iter().all(|v| v.is_finite()), "Ok({}) but x = {:?}", k, x.vec);
                                    let err = (0..n).map(|i| (x[i] - exact[i]).abs()).fold(0.0, f64::max);
                                    let bound = 10.0 * tol * ainv * bn + 100.0 * kappa * EPS * norm_inf(exact) + 1e-300;
                                    ensure!(err <= bound, "Ok({}) but ||x - x*||_inf = {:e} > {:e}", k, err, bound);
                                    if gi == 1 {
                                        ensure!(k == 0, "exact guess but {} iterations were performed", k);
                                    }
                                    Ok((k as f64 / cap as f64, err / bound))
                                });
                                match res {
                                    Ok(Ok((kk, eb))) => {
                                        acc.worst("iterations_over_cap", kk, key);
                                        acc.worst("error_over_bound", eb, key);
                                    }
                                    Ok(Err(e)) => acc.fail(idx, key(), e),
                                    Err(p) => acc.fail(idx, key(), format!("unexpected panic: {}", p)),
                                }
                            }
                        }
                    }
                }
            },
        );
    }
    {
        let g6 = [0.0, 0.7, -0.3, 0.55, -0.9, 0.123];
        if ctx.quick() {
            generic_real_space(&ctx, &g6[..4], None);
            // plus the <= 2-letter neighbourhoods of three members of the full 6-letter lattice on which QMR's recurrence residual
            // used to freeze just above tol (letter indices of the off-diagonals, row by row)
            let mut words: Vec<Vec<usize>> = vec![];
            for base in [[2usize, 4, 2, 5, 0, 0], [0, 0, 1, 4, 2, 3], [1, 4, 5, 1, 2, 2]] {
                for dv in deviations(6, 6, 2) {
                    let mut w = base.to_vec();
                    for &(p, a) in &dv {
                        w[p] = a;
                    }
                    words.push(w);
                }
            }
            words.sort();
            words.dedup();
            generic_real_space(&ctx, &g6, Some(("<= 2 deviations from three former QMR-stagnation members".to_string(), words)));
        } else {
            generic_real_space(&ctx, &g6, None);
            generic_real_space_n(&ctx, 4, &[0.0, 0.7, -0.3], None);
        }
    }
    qmr_restart_cases(&ctx);
    near_exact_guess_space(&ctx);
    large_guess_space(&ctx, if ctx.quick() { &[0.123, 0.7, -0.3, 0.55] } else { &[0.123, 0.7, -0.3, 0.55, -0.9] });
    // Right-hand sides beyond 1e155 in norm: r.r overflows (below 1e-155: underflows) in CG, BiCG and BiCGSTAB, which then
    // fail on a perfectly conditioned system; QMR normalises its vectors and survives. The property says "right-hand
    // sides of any scale": genuine, not repaired (it needs scaled inner products throughout three solvers), listed.
    {
        let reps: Vec<(Solver, i32)> = vec![(Solver::Cg, 532), (Solver::Cg, -532), (Solver::Bicg1, 532), (Solver::Bicg1, -532), (Solver::Bicgstab, 532), (Solver::Bicgstab, -532)];
        let space = "right-hand sides beyond the range of r.r (scale 2^+-532 ~ 1e+-160)";
        ctx.known_finding_space(space);
        let rp = reps.clone();
        ctx.lattice(
            space,
            reps.len() as u64 + 2,
            |i| format!("{}", i),
            |i, acc| {
                acc.nontriv("extreme right-hand-side scale");
                // tridiag(-1, 4, -1) of order 5: SPD and strictly diagonally dominant, condition number < 3
                let n = 5;
                let mut d = vec![vec![0.0f64; n]; n];
                for k in 0..n {
                    d[k][k] = 4.0;
                    if k + 1 < n {
                        d[k][k + 1] = -1.0;
                        d[k + 1][k] = -1.0;
                    }
                }
                let (s, e) = if (i as usize) < rp.len() { rp[i as usize] } else { (Solver::Qmr, if i as usize == rp.len() { 532 } else { -532 }) };
                let sc = 2.0f64.powi(e);
                let xs: Vec<f64> = vec![1.0, -2.0, 0.5, 3.0, -1.0];
                let b: Vec<f64> = matvec(&d, &xs).iter().map(|v| v * sc).collect();
                let a = sparse_of(&d, 0);
                let key = || format!("scale-overflow {:?} tridiag(-1,4,-1) n=5 b = 2^{} * A*(1,-2,0.5,3,-1) x0=0 tol=1e-10", s, e);
                let res = catch(|| -> Result<(), String> {
                    let bv = Vector::create(b.clone());
                    let mut x = Vector::create(vec![0.0; n]);
                    match run(s, &a, &bv, &mut x, iteration_cap(n), 1e-10) {
                        Ok(_) => {
                            let err = (0..n).map(|k| (x[k] / sc - xs[k]).abs()).fold(0.0, f64::max);
                            ensure!(err <= 1e-8, "Ok but x / 2^{} differs from the solution by {:e}", e, err);
                            Ok(())
                        }
                        Err(r) => Err(format!("no success within {} iterations on a well-conditioned SPD system (Err({:e})); x = {:?}", iteration_cap(n), r, x.vec)),
                    }
                });
                match res {
                    Ok(Ok(())) => {}
                    Ok(Err(e)) => acc.fail(i, key(), e),
                    Err(p) => acc.fail(i, key(), format!("unexpected panic: {}", p)),
                }
            },
        );
    }
    // Representative exact Lanczos breakdowns on strictly diagonally dominant systems (genuine violations of the
    // statement "every strictly diagonally dominant system", inherent to look-ahead-free Lanczos methods; listed in
    // known_findings.txt, reported as KNOWN-FINDING by the driver).
    // (the last five come from the fourth bug hunt, hunt/C09/round4: breakdowns that are exact in real arithmetic and perturbed by rounding -
    // the `== 0.0` tests miss them, the noise is normalised and used - and near breakdowns on an irreducible upwind stencil; on all
    // 104 976 strictly dominant 2x2 systems with entries in -9..9 and four right-hand sides BiCG, QMR and BiCGSTAB fail 2.0%, 2.0% and 3.5% of
    // the time, nearly all of them exact breakdowns at the first step, which no restart can cure)
    let upwind: D = (0..40).map(|i| (0..40).map(|j| if i == j { 1.0 } else if j + 1 == i { -0.1 } else if j == i + 1 { -0.8 } else { 0.0 }).collect()).collect();
    let reps: Vec<(Solver, D, Vec<f64>, Vec<f64>)> = vec![
        (Solver::Bicgstab, vec![vec![2.0, 1.0, 0.0], vec![0.0, 1.0, 0.0], vec![0.0, 0.0, -1.0]], vec![1.5, -0.5, -2.0], vec![0.0, 0.0, 0.0]),
        (Solver::Qmr, vec![vec![5.0, 4.0], vec![6.0, 7.0]], vec![3.0, 3.0], vec![0.0, 0.0]),
        (Solver::Bicg1, vec![vec![7.0, -2.0, -1.0], vec![-2.0, 7.0, -3.0], vec![-3.0, -3.0, 7.0]], vec![1.0, 1.0, 1.0], vec![0.0, 0.0, 0.0]),
        (Solver::Bicgstab, vec![vec![2.0, -1.0], vec![-4.0, -7.0]], vec![1.0, 1.0], vec![0.0, 0.0]),
        (Solver::Bicg1, upwind.clone(), vec![1.0; 40], vec![0.0; 40]),
        (Solver::Qmr, upwind, vec![1.0; 40], vec![0.0; 40]),
        // eighth hunt: sparse right-hand sides on sparse dominant matrices with a positive diagonal - a breakdown that is exact in real
        // arithmetic comes out as 1e-33, passes the `== 0.0` tests and is divided by (BiCG diverges to 1e21; QMR stagnates at 0.2)
        (Solver::Bicg1, vec![vec![0.9, 0.0, -0.5], vec![-0.6, 2.5, 0.0], vec![0.0, -0.1, 2.3]], vec![0.0, 0.0, 1.2], vec![0.0, 0.0, 0.0]),
        (Solver::Qmr, vec![vec![0.8, 0.0, -0.3, 0.0], vec![0.6, 1.2, 0.0, 0.0], vec![0.0, 0.0, 0.9, -0.2], vec![0.0, -0.4, 0.0, 1.4]], vec![0.0, 0.0, 3.1, 0.0], vec![0.0, 0.0, 0.0, 0.0]),
    ];
    ctx.known_finding_space("representative exact Lanczos breakdowns (strictly dominant systems)");
    ctx.lattice(
        "representative exact Lanczos breakdowns (strictly dominant systems)",
        reps.len() as u64,
        |i| format!("{:?} n={} b={:?}", reps[i as usize].0, reps[i as usize].1.len(), &reps[i as usize].2[..2]),
        |i, acc| {
            let (s, d, b, x0) = &reps[i as usize];
            let n = d.len();
            acc.nontriv("breakdown representative");
            let a = sparse_of(d, 0);
            let key = || if n <= 4 { format!("breakdown {:?} A={:?} b={:?} x0={:?} tol=1e-6", s, d, b, x0) } else { format!("breakdown {:?} tridiag(-0.1,1,-0.8) n={} b=ones x0=0 tol=1e-6", s, n) };
            let res = catch(|| -> Result<(), String> {
                let bv = Vector::create(b.clone());
                let mut x = Vector::create(x0.clone());
                match run(*s, &a, &bv, &mut x, iteration_cap(n), 1e-6) {
                    Ok(_) => Ok(()),
                    Err(e) => Err(format!("no success within {} iterations on a strictly diagonally dominant system (Err({:e})); x = {:?}", iteration_cap(n), e, x.vec)),
                }
            });
            match res {
                Ok(Ok(())) => {}
                Ok(Err(e)) => acc.fail(i, key(), e),
                Err(p) => acc.fail(i, key(), format!("unexpected panic: {}", p)),
            }
        },
    );
    // BiCG's accuracy floor after a near breakdown (the second bug hunt found the same on random 6x6 and 16x16 systems with a
    // mixed-sign diagonal, about 1 in 2500): the residual stalled at 1e-11..1e-10 and tol = 1e-12 was never reported. Repaired by
    // 46fe628 (restart from the true residual after a failed confirmation); the former known-finding inputs stay listed.
    {
        let floor = |itol: usize| -> Result<(), String> {
            let d = floor_member();
            let a = sparse_of(&d, 0);
            let b = matvec(&d, &[1.0, -0.5, 2.0]);
            let mut x = Vector::create(vec![0.0; 3]);
            match a.solve_bicg(&Vector::create(b), &mut x, iteration_cap(3), 1e-12, itol) {
                Ok(_) => Ok(()),
                Err(e) => Err(format!("no success within {} iterations (Err({:e})); x = {:?}", iteration_cap(3), e, x.vec)),
            }
        };
        let mut cases: Vec<(String, Box<dyn Fn() -> Result<(), String> + Sync + Send>)> = vec![
            ("bicg-floor itol=1 A=[[1.085,0.55,0],[0.123,-0.9199,-0.3],[0.55,0.55,1.8]] b=A(1,-0.5,2) tol=1e-12".to_string(), Box::new(move || floor(1))),
            ("bicg-floor itol=2 A=[[1.085,0.55,0],[0.123,-0.9199,-0.3],[0.55,0.55,1.8]] b=A(1,-0.5,2) tol=1e-12".to_string(), Box::new(move || floor(2))),
        ];
        // the five members of the generic-real 4x4 lattice (thorough tier), both error measures
        for (k, (d, ri)) in floor_members_4().into_iter().enumerate() {
            for itol in [1usize, 2] {
                let d = d.clone();
                cases.push((
                    format!("bicg-floor-4x4 #{} itol={}", k, itol),
                    Box::new(move || {
                        let a = sparse_of(&d, 0);
                        let b = if ri == 0 { vec![0.9184622128670501, 0.006907651164131723, 0.5234778673726308, -0.3318250634131724] } else { matvec(&d, &[1.0, -0.5, 2.0, 0.75]) };
                        let mut x = Vector::create(vec![0.0; 4]);
                        match a.solve_bicg(&Vector::create(b), &mut x, iteration_cap(4), 1e-12, itol) {
                            Ok(_) => Ok(()),
                            Err(e) => Err(format!("A = {:?}: no success within {} iterations (Err({:e})); x = {:?}", d, iteration_cap(4), e, x.vec)),
                        }
                    }),
                ));
            }
        }
        // solve_qmr on [[1.5,0.5],[0,1]], b = (1.25,-0.5), x0 = (0.5,-2): exact Lanczos breakdown after one step (a known finding until
        // 56da0da: Err(0.498) for every budget; now confirmed with the true residual and restarted)
        cases.push((
            "qmr-breakdown-restart A=[[1.5,0.5],[0,1]] b=(1.25,-0.5) x0=(0.5,-2) tol=1e-6".to_string(),
            Box::new(|| {
                let d: D = vec![vec![1.5, 0.5], vec![0.0, 1.0]];
                let a = sparse_of(&d, 0);
                let mut x = Vector::create(vec![0.5, -2.0]);
                match a.solve_qmr(&Vector::create(vec![1.25, -0.5]), &mut x, iteration_cap(2), 1e-6) {
                    Ok(_) => {
                        ensure!((x[0] - 1.0).abs() <= 1e-5 && (x[1] + 0.5).abs() <= 1e-5, "Ok but x = {:?}, solution (1,-0.5)", x.vec);
                        Ok(())
                    }
                    Err(e) => Err(format!("no success within {} iterations (Err({:e})); x = {:?}", iteration_cap(2), e, x.vec)),
                }
            }),
        ));
        // solve_bicg on [[2,1],[0,-1]] x = (1.5,0.5), x0 = 0: exact breakdown (rho = 0) after one step, alpha = 0/0, x = NaN, Err(NaN) -
        // a known finding until 3292790
        for itol in [1usize, 2] {
            cases.push((
                format!("bicg-breakdown-restart itol={} A=[[2,1],[0,-1]] b=(1.5,0.5) x0=0 tol=1e-6", itol),
                Box::new(move || {
                    let d: D = vec![vec![2.0, 1.0], vec![0.0, -1.0]];
                    let a = sparse_of(&d, 0);
                    let mut x = Vector::create(vec![0.0, 0.0]);
                    match a.solve_bicg(&Vector::create(vec![1.5, 0.5]), &mut x, iteration_cap(2), 1e-6, itol) {
                        Ok(_) => {
                            ensure!((x[0] - 1.0).abs() <= 1e-5 && (x[1] + 0.5).abs() <= 1e-5, "Ok but x = {:?}, solution (1,-0.5)", x.vec);
                            Ok(())
                        }
                        Err(e) => Err(format!("no success within {} iterations (Err({:e})); x = {:?}", iteration_cap(2), e, x.vec)),
                    }
                }),
            ));
        }
        // third bug hunt: the Lanczos process of solve_qmr ends regularly at step n + 1 with delta = z.y exactly 0 on rounding noise
        // (guess 100 times the solution, residual 1.5e-12 just above tol): Err for every budget until 56da0da
        cases.push((
            "qmr-exhaustion 3x3 cond 5.9 guess 100x tol=1e-12 (hunt/C09/round3/finding_3)".to_string(),
            Box::new(|| {
                let d: D = vec![vec![1.0198065292742915, -0.7, -0.29981032281793296], vec![-0.000847764335680712, 0.3060423680774476, -0.29919377299515026], vec![-0.0007039252239734968, 0.42288885255076414, 0.5590330469606977]];
                let b = vec![-0.371998175901338, 0.3940674164018261, -0.48237085426562465];
                let exact = lu_solve(&d, &[b.clone()]).ok_or("singular")?[0].clone();
                let a = sparse_of(&d, 0);
                let mut x = Vector::create(vec![85.7288875560973, -51.326566352947, -65.68742061302648]);
                match a.solve_qmr(&Vector::create(b.clone()), &mut x, iteration_cap(3), 1e-12) {
                    Ok(k) => {
                        let err = (0..3).map(|i| (x[i] - exact[i]).abs()).fold(0.0, f64::max);
                        ensure!(err <= 1e-10 * norm_inf(&exact), "Ok({}) but ||x - x*||_inf = {:e}", k, err);
                        Ok(())
                    }
                    Err(e) => Err(format!("no success within {} iterations (Err({:e})); x = {:?}", iteration_cap(3), e, x.vec)),
                }
            }),
        ));
        ctx.listed_cases("listed inputs (known findings until 46fe628 / 56da0da / 3292790): BiCG's accuracy floor after a near breakdown, exact breakdowns of QMR and BiCG after one step", cases);
    }
    // QMR, guess 5e7 times the solution (c = 3 of the large-guess lattice, tol 1e-8): after the Krylov space is exhausted the iteration
    // creeps (Err(1.5e-8) for every budget). Genuine, listed.
    {
        let cases: Vec<(String, Box<dyn Fn() -> Result<(), String> + Sync + Send>)> = vec![(
            "qmr-creep A=[[1.15,-0.3,-0.3],[-0.3,1.15,-0.3],[0.123,0.7,1.4399]] b=(-0.000148,0.0002,0.000113) x0=5.05e7 |x*| (1,-1,1) tol=1e-8".to_string(),
            Box::new(|| {
                let d: D = vec![vec![1.15, -0.3, -0.3], vec![-0.3, 1.15, -0.3], vec![0.123, 0.7, 1.4399000000000002]];
                let b = vec![-0.000148, 0.0002, 0.000113];
                let exact = lu_solve(&d, &[b.clone()]).ok_or("singular")?[0].clone();
                let xn = norm_inf(&exact);
                let g: Vec<f64> = [1.0, -1.0, 1.0].iter().map(|u| 50471873.86398817 * xn * u).collect();
                let a = sparse_of(&d, 0);
                let mut x = Vector::create(g);
                match a.solve_qmr(&Vector::create(b), &mut x, iteration_cap(3), 1e-8) {
                    Ok(_) => Ok(()),
                    Err(e) => Err(format!("no success within {} iterations (Err({:e})); x = {:?}", iteration_cap(3), e, x.vec)),
                }
            }),
        )];
        ctx.known_cases("listed input: QMR creeping after the Krylov space is exhausted (guess 5e7 times the solution)", cases);
    }
    std::process::exit(ctx.finish());
}
