//! C06 - all views of a sparse matrix agree; the compressed-column form stays well-formed.
use mc::sp::*;
use mc::*;
use ohsl::Sparse;

fn fixed_orders(k: usize, cells: &[(usize, usize)]) -> Vec<Vec<usize>> {
    let id: Vec<usize> = (0..k).collect();
    let mut out = vec![id.clone()];
    let mut rev = id.clone();
    rev.reverse();
    out.push(rev);
    let mut cm = id.clone();
    cm.sort_by_key(|&i| (cells[i].1, cells[i].0));
    out.push(cm.clone());
    cm.reverse();
    out.push(cm);
    for rot in [k / 3, 2 * k / 3] {
        let mut v = id.clone();
        v.rotate_left(rot.min(k));
        out.push(v);
    }
    let mut inter: Vec<usize> = (0..k).filter(|i| i % 2 == 0).collect();
    inter.extend((0..k).filter(|i| i % 2 == 1));
    out.push(inter);
    let mut rd = id.clone();
    rd.sort_by_key(|&i| (cells[i].1, usize::MAX - cells[i].0));
    out.push(rd);
    out
}

fn build_and_check(rows: usize, cols: usize, cells: &[(usize, usize)], order: &[usize]) -> Result<(), String> {
    let mut m = SM::new();
    for &(i, j) in cells {
        m.insert((i, j), cell_value(i, j, cols));
    }
    let mut trip: Vec<(usize, usize, Rat)> = order.iter().map(|&k| (cells[k].0, cells[k].1, cell_value(cells[k].0, cells[k].1, cols))).collect();
    let mut s = Sparse::from_triplets(rows, cols, &mut trip);
    views_check(&s, rows, cols, &m).map_err(|e| format!("from_triplets order {:?}: {}", order, e))?;
    // modify what was just built (in whatever storage order the construction left): overwrite every entry, then add every absent one
    if rows * cols <= 9 {
        for (n, &(i, j)) in cells.iter().enumerate() {
            let v = Rat::int(100 + n as i64);
            s.insert(i, j, v);
            m.insert((i, j), v);
            views_check(&s, rows, cols, &m).map_err(|e| format!("from_triplets order {:?}, then overwrite ({},{}): {}", order, i, j, e))?;
        }
        for i in 0..rows {
            for j in 0..cols {
                if !m.contains_key(&(i, j)) {
                    s.insert(i, j, Rat::int(-7));
                    m.insert((i, j), Rat::int(-7));
                    views_check(&s, rows, cols, &m).map_err(|e| format!("from_triplets order {:?}, then insert ({},{}): {}", order, i, j, e))?;
                }
            }
        }
        // overwrite every other entry with ZERO (the entry stays stored and reads as 0: "explicit zeros are not stored" would keep the old value)
        for i in 0..rows {
            for j in 0..cols {
                if (i + j) % 2 == 0 {
                    s.insert(i, j, Rat::int(0));
                    m.insert((i, j), Rat::int(0));
                    views_check(&s, rows, cols, &m).map_err(|e| format!("from_triplets order {:?}, then overwrite ({},{}) with zero: {}", order, i, j, e))?;
                }
            }
        }
    }
    Ok(())
}
fn from_vecs_check(rows: usize, cols: usize, cells: &[(usize, usize)]) -> Result<(), String> {
    from_vecs_variant(rows, cols, cells, false)?;
    from_vecs_variant(rows, cols, cells, true)
}
fn from_vecs_variant(rows: usize, cols: usize, cells: &[(usize, usize)], descending: bool) -> Result<(), String> {
    let mut m = SM::new();
    let mut val = vec![];
    let mut ri = vec![];
    let mut cs = vec![0usize; cols + 1];
    let mut sorted: Vec<(usize, usize)> = cells.to_vec();
    // a valid compressed-column form does not need ascending rows inside a column
    sorted.sort_by_key(|c| (c.1, if descending { usize::MAX - c.0 } else { c.0 }));
    for &(i, j) in &sorted {
        m.insert((i, j), cell_value(i, j, cols));
        val.push(cell_value(i, j, cols));
        ri.push(i);
        cs[j + 1] += 1;
    }
    for j in 0..cols {
        cs[j + 1] += cs[j];
    }
    let mut s = Sparse::from_vecs(rows, cols, val, ri, cs);
    views_check(&s, rows, cols, &m).map_err(|e| format!("from_vecs (descending rows: {}): {}", descending, e))?;
    if rows * cols <= 9 {
        for (n, &(i, j)) in cells.iter().enumerate() {
            let v = Rat::int(200 + n as i64);
            s.insert(i, j, v);
            m.insert((i, j), v);
            views_check(&s, rows, cols, &m).map_err(|e| format!("from_vecs (descending rows: {}), then overwrite ({},{}): {}", descending, i, j, e))?;
        }
        let t = s.transpose();
        let mt: SM = m.iter().map(|(k, v)| ((k.1, k.0), *v)).collect();
        views_check(&t, cols, rows, &mt).map_err(|e| format!("from_vecs (descending rows: {}), then transpose: {}", descending, e))?;
    }
    Ok(())
}

fn shape_space(ctx: &Ctx, rows: usize, cols: usize) {
    let perms: Vec<Vec<Vec<usize>>> = (0..=5).map(|k| permutations(k)).collect();
    let len = 1u64 << (rows * cols);
    ctx.lattice(
        &format!("construction {}x{}: every sparsity pattern x every triplet order (nnz<=5) / 8 fixed orders", rows, cols),
        len,
        |mask| format!("{}x{} cells={:?}", rows, cols, pattern_cells(rows, cols, mask)),
        |mask, acc| {
            let cells = pattern_cells(rows, cols, mask);
            let k = cells.len();
            if (0..cols).any(|j| !cells.iter().any(|c| c.1 == j)) {
                acc.nontriv("pattern with an empty column");
            }
            if (0..rows).any(|i| !cells.iter().any(|c| c.0 == i)) {
                acc.nontriv("pattern with an empty row");
            }
            if k == 0 {
                acc.nontriv("empty matrix");
            }
            if rows != cols {
                acc.nontriv("rectangular");
            }
            let key = || format!("{}x{} cells={:?}", rows, cols, cells);
            let orders: Vec<Vec<usize>> = if k <= 5 { perms[k].clone() } else { fixed_orders(k, &cells) };
            for o in orders.iter() {
                acc.hit("from_triplets constructions");
                if o.windows(2).any(|w| cells[w[0]].1 > cells[w[1]].1) {
                    acc.hit("triplet list not in column order");
                }
                judge(acc, mask, key, || build_and_check(rows, cols, &cells, o));
            }
            acc.hit("from_vecs constructions");
            judge(acc, mask, key, || from_vecs_check(rows, cols, &cells));
        },
    );
}

fn family_mask(rows: usize, cols: usize, f: usize) -> Vec<(usize, usize)> {
    let mut v = vec![];
    for i in 0..rows {
        for j in 0..cols {
            let on = match f {
                0 => false,
                1 => true,
                2 => i == j,
                3 => i + j + 1 == rows.max(cols),
                4 => i == 0,
                5 => j + 1 == cols,
                6 => (i + j) % 2 == 0,
                7 => i == 0 || j == 0 || i == j,
                8 => i > 0 && j > 0 && i + 1 < rows && j + 1 < cols,
                9 => (i * 3 + j * 5) % 7 < 2,
                _ => i == rows - 1 && j == 0,
            };
            if on {
                v.push((i, j));
            }
        }
    }
    v
}
fn family_space(ctx: &Ctx, max: usize) {
    let mut cases = vec![];
    for r in 0..=max {
        for c in 0..=max {
            if r * c <= 16 && r <= 4 && c <= 4 {
                continue;
            }
            for f in 0..11 {
                cases.push((r, c, f));
            }
        }
    }
    ctx.lattice(
        &format!("construction, shapes up to {}x{} through 11 structured pattern families x 8 triplet orders", max, max),
        cases.len() as u64,
        |i| format!("{:?}", cases[i as usize]),
        |i, acc| {
            let (r, c, f) = cases[i as usize];
            if r == 0 || c == 0 {
                return;
            }
            let cells = family_mask(r, c, f);
            acc.nontriv("large shape");
            let key = || format!("{}x{} family {} cells={:?}", r, c, f, cells);
            for o in fixed_orders(cells.len(), &cells) {
                judge(acc, i, key, || build_and_check(r, c, &cells, &o));
            }
            judge(acc, i, key, || from_vecs_check(r, c, &cells));
        },
    );
}

/// shapes well beyond 8x8 (entry counts in the hundreds): any size-gated path of construction or lookup is crossed
fn large_family_space(ctx: &Ctx) {
    let shapes: Vec<(usize, usize)> = vec![(9, 9), (12, 7), (7, 12), (17, 20), (20, 17), (33, 16), (16, 33), (40, 5), (5, 40), (25, 25)];
    let mut cases = vec![];
    for &(r, c) in &shapes {
        for f in 1..11 {
            cases.push((r, c, f));
        }
    }
    ctx.lattice(
        &format!("construction, shapes {:?} through 10 structured pattern families x 8 triplet orders + from_vecs", shapes),
        cases.len() as u64,
        |i| format!("{:?}", cases[i as usize]),
        |i, acc| {
            let (r, c, f) = cases[i as usize];
            let cells = family_mask(r, c, f);
            if cells.len() > 16 {
                acc.nontriv("more than 16 entries");
            }
            if cells.len() > 64 {
                acc.nontriv("more than 64 entries");
            }
            let key = || format!("{}x{} family {} ({} entries)", r, c, f, cells.len());
            for o in fixed_orders(cells.len(), &cells) {
                judge(acc, i, key, || build_and_check(r, c, &cells, &o));
            }
            judge(acc, i, key, || from_vecs_check(r, c, &cells));
        },
    );
}

fn main() {
    let ctx = Ctx::from_args("C06");
    ctx.level("model_checking");
    ctx.rule("E1: every shape r x c with r*c <= 12 (quick) / r,c <= 4 (thorough) and EVERY sparsity pattern, built by from_triplets in every permutation of the triplet list (nnz <= 5) or 8 fixed orders, and by from_vecs; shapes up to 8x8 through 11 pattern families and ten shapes up to 40 rows/columns (entry counts to 625); all views (get for every (i,j), to_triplets, to_dense, col_index) and the CSC invariants against a BTreeMap. E2: BFS over histories of insert (fresh and overwriting) / scale / transpose on real Sparse<Rat> objects starting from empty 2x3, 3x3, 1x4 matrices, state = the complete public CSC arrays. Non-trivial: empty rows/columns, empty matrix, rectangular shapes, triplet lists out of column order, overwrites, unsorted rows inside a column.");
    ctx.assume("duplicate triplets are outside the claim (the property speaks of duplicate-free entry sets)");
    ctx.require(&["pattern with an empty column", "pattern with an empty row", "empty matrix", "rectangular", "triplet list not in column order", "overwrite of an existing entry", "fresh insert", "transpose in a history", "state with unsorted rows inside a column", "large shape", "more than 64 entries", "typed sparse case (f64, Complex<f64>)"]);
    let lim = ctx.pick(12, 16);
    for r in 0..=4usize {
        for c in 0..=4usize {
            if r * c <= lim {
                shape_space(&ctx, r, c);
            }
        }
    }
    family_space(&ctx, 8);
    large_family_space(&ctx);
    let depth = ctx.pick(5, 7);
    run_bfs(&ctx, "insert/scale/transpose histories", &[(2, 3), (3, 3), (1, 4)], Mode::Views, depth, ctx.pick(1_500_000, 30_000_000), ctx.quick());
    typed_spaces(&ctx, &[(2, 2), (2, 3), (3, 2), (1, 4), (3, 3)], false);
    std::process::exit(ctx.finish());
}
