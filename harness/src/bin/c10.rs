//! C10 - the root finder returns n finite values that are roots, for every degree-n input.
use mc::*;
use ohsl::{Cmplx, Polynomial};

type C = (f64, f64);
fn cmul(a: C, b: C) -> C {
    (a.0 * b.0 - a.1 * b.1, a.0 * b.1 + a.1 * b.0)
}
fn cadd(a: C, b: C) -> C {
    (a.0 + b.0, a.1 + b.1)
}
fn csub(a: C, b: C) -> C {
    (a.0 - b.0, a.1 - b.1)
}
fn cabs(a: C) -> f64 {
    a.0.hypot(a.1)
}
/// coefficients (ascending) of lead * prod (x - r_i)
fn expand(lead: C, roots: &[C]) -> Vec<C> {
    let mut c = vec![lead];
    for &rt in roots {
        let mut n = vec![(0.0, 0.0); c.len() + 1];
        for k in 0..c.len() {
            n[k + 1] = cadd(n[k + 1], c[k]);
            n[k] = csub(n[k], cmul(c[k], rt));
        }
        c = n;
    }
    c
}
fn horner(c: &[C], z: C) -> C {
    let mut p = c[c.len() - 1];
    for k in (0..c.len() - 1).rev() {
        p = cadd(cmul(p, z), c[k]);
    }
    p
}
/// the measure named by the property: |p(z)| / (max|a_k| * max(1,|z|)^n)
fn backward_error(c: &[C], z: C) -> f64 {
    let n = (c.len() - 1) as i32;
    let amax = c.iter().map(|a| cabs(*a)).fold(0.0, f64::max);
    let e = cabs(horner(c, z)) / (amax * cabs(z).max(1.0).powi(n));
    if e.is_nan() {
        f64::INFINITY
    } else {
        e
    }
}

const BE_REFINED: f64 = 1e-9;
const BE_UNREFINED_SMALL: f64 = 1e-9;
const BE_UNREFINED_LARGE: f64 = 1e-2;
const MATCH_TOL: f64 = 1e-6;

fn judge_roots(coef: &[C], got: &[C], refine: bool, has_large: bool, acc: &mut Acc, tag: &'static str) -> Result<(), String> {
    let n = coef.len() - 1;
    ensure!(got.len() == n, "{} values returned for a degree-{} polynomial", got.len(), n);
    ensure!(got.iter().all(|z| z.0.is_finite() && z.1.is_finite()), "non-finite value among the returned roots: {:?}", got);
    let thr = if refine { BE_REFINED } else if has_large { BE_UNREFINED_LARGE } else { BE_UNREFINED_SMALL };
    let mut worst = 0.0f64;
    for &z in got {
        worst = worst.max(backward_error(coef, z));
    }
    let name = match (refine, has_large) {
        (true, _) => "backward_error_refined",
        (false, false) => "backward_error_unrefined_roots_below_10",
        (false, true) => "backward_error_unrefined_with_root_1e3",
    };
    acc.worst(name, worst, || format!("{} coeffs={:?}", tag, coef));
    ensure!(worst <= thr, "a returned value is not a root: backward error {:e} > {:e}; returned {:?}", worst, thr, got);
    Ok(())
}

fn to_poly(c: &[C]) -> Polynomial<Cmplx> {
    Polynomial::new(c.iter().map(|z| Cmplx::new(z.0, z.1)).collect())
}
fn run_cmplx(c: &[C], refine: bool) -> Vec<C> {
    let v = to_poly(c).roots(refine);
    v.vec.iter().map(|z| (z.real, z.imag)).collect()
}

fn alphabet() -> Vec<C> {
    vec![(0., 0.), (1., 0.), (-1., 0.), (0., 1.), (0., -1.), (2., 0.), (0.5, 0.), (1., 1.), (1., -1.), (-3., 0.), (1e3, 0.), (1e-3, 0.)]
}
fn leads() -> Vec<C> {
    vec![(1., 0.), (-2., 0.), (0., 3.), (1e3, 0.)]
}

fn multiset_space(ctx: &Ctx, k: usize) {
    let al = alphabet();
    let ms = multisets(al.len(), k);
    let ld = leads();
    let per = (ld.len() * 2) as u64;
    ctx.lattice(
        &format!("root multisets of size {} over 12 letters x 4 leading coefficients x refine", k),
        ms.len() as u64 * per,
        |idx| format!("roots={:?} lead={:?} refine={}", ms[(idx / per) as usize].iter().map(|&i| al[i]).collect::<Vec<C>>(), ld[((idx % per) / 2) as usize], idx % 2 == 1),
        |idx, acc| {
            let m = &ms[(idx / per) as usize];
            let lead = ld[((idx % per) / 2) as usize];
            let refine = idx % 2 == 1;
            // inside the claim: coefficient ratio up to ~1e6 -> at most one root of modulus 1e3 and one of 1e-3
            if m.iter().filter(|&&i| i == 10).count() > 1 || m.iter().filter(|&&i| i == 11).count() > 1 {
                acc.hit("multiset with repeated 1e3 / 1e-3 (coefficient ratio beyond the claim; skipped)");
                return;
            }
            let roots: Vec<C> = m.iter().map(|&i| al[i]).collect();
            let coef = expand(lead, &roots);
            let has_large = m.contains(&10);
            let repeated = m.windows(2).any(|w| w[0] == w[1]);
            if repeated {
                acc.nontriv("repeated root");
            }
            if m.contains(&0) {
                acc.nontriv("root at zero");
            }
            if m.iter().any(|&i| al[i].1 != 0.0) {
                acc.nontriv("non-real root");
            }
            if k >= 4 {
                acc.nontriv("iterative path (degree >= 4)");
            } else {
                acc.hit("closed-form path (degree <= 3)");
            }
            let key = || format!("roots={:?} lead={:?} refine={}", roots, lead, refine);
            let mut local = Acc::new("t");
            let res = catch(|| -> Result<(), String> {
                let got = run_cmplx(&coef, refine);
                judge_roots(&coef, &got, refine, has_large, &mut local, "multiset")?;
                // one-to-one correspondence for simple, well separated roots (refined)
                let mut sep = f64::INFINITY;
                for i in 0..roots.len() {
                    for j in i + 1..roots.len() {
                        sep = sep.min(cabs(csub(roots[i], roots[j])));
                    }
                }
                if refine && sep >= 0.5 {
                    local.hit("matched against the true roots");
                    let mut used = vec![false; got.len()];
                    for &t in roots.iter() {
                        let mut best = None;
                        for (gi, &g) in got.iter().enumerate() {
                            if !used[gi] && cabs(csub(g, t)) <= MATCH_TOL * cabs(t).max(1.0) {
                                best = Some(gi);
                                break;
                            }
                        }
                        match best {
                            Some(gi) => used[gi] = true,
                            None => return Err(format!("no returned value within 1e-6 of the true root {:?}; returned {:?}", t, got)),
                        }
                    }
                }
                Ok(())
            });
            for (k2, v) in std::mem::take(&mut local.hits) {
                *acc.hits.entry(k2).or_insert(0) += v;
            }
            acc.merge_worst(local);
            match res {
                Ok(Ok(())) => {}
                Ok(Err(e)) => acc.fail(idx, key(), e),
                Err(p) => acc.fail(idx, key(), format!("unexpected panic: {}", p)),
            }
        },
    );
}

/// conjugate-closed multisets through Polynomial<f64>::roots
fn real_space(ctx: &Ctx, kmax: usize) {
    let reals = [0.0, 1.0, -1.0, 2.0, 0.5, -3.0, 1e3, 1e-3];
    let pairs: [C; 3] = [(0., 1.), (1., 1.), (-0.5, 2.)];
    // a case = (#real letters chosen as multiset, #pairs chosen as multiset) with total degree <= kmax
    let mut cases: Vec<(Vec<usize>, Vec<usize>)> = vec![];
    for nr in 0..=kmax {
        for np in 0..=(kmax - nr) / 2 {
            if nr + 2 * np == 0 {
                continue;
            }
            for a in multisets(reals.len(), nr) {
                if a.iter().filter(|&&i| i == 6).count() > 1 || a.iter().filter(|&&i| i == 7).count() > 1 {
                    continue;
                }
                for b in multisets(pairs.len(), np) {
                    cases.push((a.clone(), b));
                }
            }
        }
    }
    ctx.lattice(
        &format!("real-coefficient polynomials (Polynomial<f64>::roots): conjugate-closed root multisets up to degree {} x lead {{1,-2}} x refine", kmax),
        cases.len() as u64 * 4,
        |idx| format!("{:?} lead#{} refine={}", cases[(idx / 4) as usize], (idx / 2) % 2, idx % 2),
        |idx, acc| {
            let (a, b) = &cases[(idx / 4) as usize];
            let lead = if (idx / 2) % 2 == 0 { 1.0 } else { -2.0 };
            let refine = idx % 2 == 1;
            // real coefficients from real linear and quadratic factors
            let mut c = vec![lead];
            for &i in a {
                let mut n = vec![0.0; c.len() + 1];
                for k in 0..c.len() {
                    n[k + 1] += c[k];
                    n[k] -= c[k] * reals[i];
                }
                c = n;
            }
            for &j in b {
                let (re, im) = pairs[j];
                let (p1, p0) = (-2.0 * re, re * re + im * im);
                let mut n = vec![0.0; c.len() + 2];
                for k in 0..c.len() {
                    n[k + 2] += c[k];
                    n[k + 1] += c[k] * p1;
                    n[k] += c[k] * p0;
                }
                c = n;
            }
            let deg = c.len() - 1;
            if !b.is_empty() {
                acc.nontriv("conjugate pair");
            }
            if deg >= 4 {
                acc.nontriv("iterative path (degree >= 4)");
            }
            if a.contains(&0) {
                acc.nontriv("root at zero");
            }
            let cc: Vec<C> = c.iter().map(|x| (*x, 0.0)).collect();
            let key = || format!("real coeffs={:?} refine={}", c, refine);
            let mut local = Acc::new("t");
            let res = catch(|| -> Result<(), String> {
                let got = Polynomial::new(c.clone()).roots(refine);
                let g: Vec<C> = got.vec.iter().map(|z| (z.real, z.imag)).collect();
                judge_roots(&cc, &g, refine, a.contains(&6), &mut local, "real")
            });
            acc.merge_worst(local);
            match res {
                Ok(Ok(())) => {}
                Ok(Err(e)) => acc.fail(idx, key(), e),
                Err(p) => acc.fail(idx, key(), format!("unexpected panic: {}", p)),
            }
        },
    );
}

fn coeff_space(ctx: &Ctx, deg: usize, complex: bool) {
    let letters: Vec<C> = if complex { vec![(0., 0.), (1., 0.), (-1., 0.), (0., 1.), (1., 1.)] } else { vec![(0., 0.), (1., 0.), (-1., 0.), (2., 0.), (-2., 0.)] };
    let nl = letters.len() as u64;
    let len = pow(nl, deg as u32) * (nl - 1) * 2;
    ctx.lattice(
        &format!("{} coefficient lattice degree {}: all coefficient vectors over 5 letters with non-zero lead x refine", if complex { "Gaussian-integer" } else { "real-integer" }, deg),
        len,
        |idx| format!("{}", idx),
        |idx, acc| {
            let refine = idx % 2 == 1;
            let mut rest = idx / 2;
            let lead = letters[1 + (rest % (nl - 1)) as usize];
            rest /= nl - 1;
            let mut c: Vec<C> = vec![];
            for _ in 0..deg {
                c.push(letters[(rest % nl) as usize]);
                rest /= nl;
            }
            c.push(lead);
            if c[0] == (0., 0.) {
                acc.nontriv("vanishing constant coefficient (root at zero)");
            }
            if c[1..deg].iter().any(|z| *z == (0., 0.)) {
                acc.nontriv("vanishing inner coefficient");
            }
            if deg >= 4 {
                acc.nontriv("iterative path (degree >= 4)");
            }
            let key = || format!("coeffs={:?} refine={} via {}", c, refine, if complex { "Polynomial<Cmplx>" } else { "Polynomial<f64>" });
            let mut local = Acc::new("t");
            let res = catch(|| -> Result<(), String> {
                let g: Vec<C> = if complex {
                    run_cmplx(&c, refine)
                } else {
                    Polynomial::new(c.iter().map(|z| z.0).collect::<Vec<f64>>()).roots(refine).vec.iter().map(|z| (z.real, z.imag)).collect()
                };
                judge_roots(&c, &g, refine, false, &mut local, "lattice")
            });
            acc.merge_worst(local);
            match res {
                Ok(Ok(())) => {}
                Ok(Err(e)) => acc.fail(idx, key(), e),
                Err(p) => acc.fail(idx, key(), format!("unexpected panic: {}", p)),
            }
        },
    );
}

fn high_degree_space(ctx: &Ctx, maxbase: usize) {
    // (base polynomial of degree d over {0,1,-1,2,-2} with non-zero lead) * (x^k - 1), total degree 8..12
    let letters: Vec<f64> = vec![0., 1., -1., 2., -2.];
    let mut cases = vec![];
    for d in 1..=maxbase {
        for b in 0..pow(5, d as u32) * 4 {
            for total in 8..=12usize {
                cases.push((d, b, total - d));
            }
        }
    }
    ctx.lattice(
        &format!("degree 8..12: (every integer polynomial of degree <= {} over 5 letters) * (x^k - 1) x refine", maxbase),
        cases.len() as u64 * 2,
        |idx| format!("{:?} refine={}", cases[(idx / 2) as usize], idx % 2),
        |idx, acc| {
            let (d, b, k) = cases[(idx / 2) as usize];
            let refine = idx % 2 == 1;
            let mut rest = b;
            let lead = letters[1 + (rest % 4) as usize];
            rest /= 4;
            let mut base = vec![];
            for _ in 0..d {
                base.push(letters[(rest % 5) as usize]);
                rest /= 5;
            }
            base.push(lead);
            let mut c = vec![0.0; d + k + 1];
            for i in 0..=d {
                c[i + k] += base[i];
                c[i] -= base[i];
            }
            acc.nontriv("degree 8..12");
            let cc: Vec<C> = c.iter().map(|x| (*x, 0.0)).collect();
            let key = || format!("coeffs={:?} refine={}", c, refine);
            let mut local = Acc::new("t");
            let res = catch(|| -> Result<(), String> {
                let got = Polynomial::new(c.clone()).roots(refine);
                let g: Vec<C> = got.vec.iter().map(|z| (z.real, z.imag)).collect();
                judge_roots(&cc, &g, refine, false, &mut local, "high degree")
            });
            acc.merge_worst(local);
            match res {
                Ok(Ok(())) => {}
                Ok(Err(e)) => acc.fail(idx, key(), e),
                Err(p) => acc.fail(idx, key(), format!("unexpected panic: {}", p)),
            }
        },
    );
}

fn main() {
    let ctx = Ctx::from_args("C10");
    ctx.level("exploration");
    ctx.rule("E1: (a) every multiset of 1..5 (quick) / 1..7 (thorough) roots from {0,+-1,+-i,2,1/2,1+-i,-3,1e3,1e-3} x leading coefficient {1,-2,3i,1e3} x refine, through Polynomial<Cmplx>::roots; conjugate-closed multisets through Polynomial<f64>::roots; (b) every coefficient vector over 5 integer / Gaussian-integer letters with non-zero lead for degree 1..4 (thorough 5); (c) degree 8..12 products with x^k-1. Oracle: exactly n finite values; |p(z)|/(max|a_k| max(1,|z|)^n) <= 1e-9 (refined, and unrefined when all roots are below 10 in modulus; 1e-2 unrefined with a root 1e3); simple roots separated by >= 1/2 are matched one-to-one within 1e-6 (refined); degree 0 is rejected. Non-trivial: roots at zero, repeated roots, non-real roots, vanishing inner coefficients, iterative path.");
    ctx.assume("multisets with more than one root of modulus 1e3 or 1e-3 are skipped: their coefficient ratio exceeds the 1e6 of the property's domain");
    ctx.threshold("backward_error_refined", BE_REFINED);
    ctx.threshold("backward_error_unrefined_roots_below_10", BE_UNREFINED_SMALL);
    ctx.threshold("backward_error_unrefined_with_root_1e3", BE_UNREFINED_LARGE);
    ctx.require(&["repeated root", "root at zero", "non-real root", "iterative path (degree >= 4)", "closed-form path (degree <= 3)", "vanishing inner coefficient", "conjugate pair", "matched against the true roots", "degree 8..12"]);
    for k in 1..=ctx.pick(5, 7) {
        multiset_space(&ctx, k);
    }
    real_space(&ctx, ctx.pick(5, 7));
    for d in 1..=ctx.pick(4, 5) {
        coeff_space(&ctx, d, false);
        coeff_space(&ctx, d, true);
    }
    high_degree_space(&ctx, ctx.pick(2, 4));
    // degree 0 is rejected
    ctx.lattice(
        "degree-0 polynomials are rejected",
        4,
        |i| format!("constant #{}", i),
        |i, acc| {
            acc.nontriv("degree 0");
            let c = [1.0, -2.0, 0.0, 1e3][i as usize];
            for refine in [false, true] {
                let r1 = catch(|| Polynomial::new(vec![c]).roots(refine));
                let r2 = catch(|| Polynomial::new(vec![Cmplx::new(c, 1.0)]).roots(refine));
                if r1.is_ok() || r2.is_ok() {
                    acc.fail(i, format!("constant polynomial {}", c), "roots() of a degree-0 polynomial returned instead of rejecting".to_string());
                }
            }
        },
    );
    std::process::exit(ctx.finish());
}
