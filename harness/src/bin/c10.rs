//! C10 - the root finder returns n finite values that are roots, for every degree-n input.
use mc::*;
use ohsl::{Cmplx, Polynomial};

type C = (f64, f64);
fn cmul(a: C, b: C) -> C {
    (a.0 * b.0 - a.1 * b.1, a.0 * b.1 + a.1 * b.0)
}
fn cadd(a: C, b: C) -> C {
    (a.0 + b.0, a.1 + b.1)
}
fn csub(a: C, b: C) -> C {
    (a.0 - b.0, a.1 - b.1)
}
fn cabs(a: C) -> f64 {
    a.0.hypot(a.1)
}
/// coefficients (ascending) of lead * prod (x - r_i)
fn expand(lead: C, roots: &[C]) -> Vec<C> {
    let mut c = vec![lead];
    for &rt in roots {
        let mut n = vec![(0.0, 0.0); c.len() + 1];
        for k in 0..c.len() {
            n[k + 1] = cadd(n[k + 1], c[k]);
            n[k] = csub(n[k], cmul(c[k], rt));
        }
        c = n;
    }
    c
}
fn horner(c: &[C], z: C) -> C {
    let mut p = c[c.len() - 1];
    for k in (0..c.len() - 1).rev() {
        p = cadd(cmul(p, z), c[k]);
    }
    p
}
/// the measure named by the property: |p(z)| / (max|a_k| * max(1,|z|)^n)
fn backward_error(c: &[C], z: C) -> f64 {
    let n = (c.len() - 1) as i32;
    let amax = c.iter().map(|a| cabs(*a)).fold(0.0, f64::max);
    let e = cabs(horner(c, z)) / (amax * cabs(z).max(1.0).powi(n));
    if e.is_nan() {
        f64::INFINITY
    } else {
        e
    }
}

const BE_REFINED: f64 = 1e-9;
const BE_UNREFINED_SMALL: f64 = 1e-9;
/// since the deflation fix (e47d5b8) a large root costs nothing: worst observed 1.2e-14 over 2e7 polynomials
const BE_UNREFINED_LARGE: f64 = 1e-9;
/// linear / quadratic closed forms are backward stable: rounding level
const BE_QUADRATIC: f64 = 1e-12;
/// Cardano's formula alone loses up to half the digits (7.7e-10 on the wide-scale lattice, 5e-9 on a clustered cubic found by the
/// second bug hunt); since 956dbce its values are always polished, so the cubic is held to the same standard as the other degrees
const BE_CARDANO: f64 = 1e-12;
const MATCH_TOL: f64 = 1e-6;

fn judge_roots(coef: &[C], got: &[C], refine: bool, has_large: bool, acc: &mut Acc, tag: &'static str) -> Result<(), String> {
    let n = coef.len() - 1;
    ensure!(got.len() == n, "{} values returned for a degree-{} polynomial", got.len(), n);
    ensure!(got.iter().all(|z| z.0.is_finite() && z.1.is_finite()), "non-finite value among the returned roots: {:?}", got);
    // the closed-form paths (degree <= 3) involve no deflation: no allowance for large roots there
    let has_large = has_large && n >= 4;
    let thr = if refine { BE_REFINED } else if has_large { BE_UNREFINED_LARGE } else { BE_UNREFINED_SMALL };
    let mut worst = 0.0f64;
    for &z in got {
        worst = worst.max(backward_error(coef, z));
    }
    let name = match (refine, has_large, n) {
        (true, _, _) => "backward_error_refined",
        (false, _, 1) | (false, _, 2) => "backward_error_unrefined_closed_form_degree_1_2",
        (false, _, 3) => "backward_error_unrefined_cardano_degree_3",
        (false, false, _) => "backward_error_unrefined_roots_below_10",
        (false, true, _) => "backward_error_unrefined_with_root_1e3",
    };
    let thr = if !refine && n <= 2 { BE_QUADRATIC } else if !refine && n == 3 { BE_CARDANO } else { thr };
    acc.worst(name, worst, || format!("{} coeffs={:?}", tag, coef));
    ensure!(worst <= thr, "a returned value is not a root: backward error {:e} > {:e}; returned {:?}", worst, thr, got);
    // counted with multiplicity, without a list of the roots: when EVERY returned value is a well-conditioned simple root
    // ( pointwise condition number sum|a_k||z|^k / ( |z| |p'(z)| ) <= 1e4 ), none of them can stand twice for a root that is
    // missing, so the polynomial rebuilt from the values must be the given one. A value next to a multiple or clustered root has a
    // small p' and switches the test off.
    if n >= 2 && coef[n] != (0.0, 0.0) {
        let amax = coef.iter().map(|a| cabs(*a)).fold(0.0, f64::max);
        let der: Vec<C> = (1..=n).map(|k| cmul((k as f64, 0.0), coef[k])).collect();
        let well = got.iter().all(|&z| {
            let m = cabs(z);
            if m == 0.0 {
                return coef[1] != (0.0, 0.0) && cabs(coef[1]) >= 1e-4 * amax;
            }
            let mut sum = 0.0;
            let mut pw = 1.0;
            for a in coef.iter() {
                sum += cabs(*a) * pw;
                pw *= m;
            }
            sum.is_finite() && sum <= 1e4 * m * cabs(horner(&der, z))
        });
        if well {
            let back = expand(coef[n], got);
            let e = (0..=n).map(|i| cabs(csub(back[i], coef[i]))).fold(0.0, f64::max) / amax;
            acc.hit("rebuilt polynomial compared (all returned values well-conditioned simple roots)");
            acc.worst("rebuilt_polynomial_error_well_conditioned", e, || format!("{} coeffs={:?}", tag, coef));
            ensure!(e <= 1e-6, "every returned value is a well-conditioned simple root, yet the polynomial rebuilt from them differs from the given one by {:e} (a root is missing, another stands twice): returned {:?}", e, got);
        }
    }
    Ok(())
}

fn to_poly(c: &[C]) -> Polynomial<Cmplx> {
    Polynomial::new(c.iter().map(|z| Cmplx::new(z.0, z.1)).collect())
}
fn run_cmplx(c: &[C], refine: bool) -> Vec<C> {
    let v = to_poly(c).roots(refine);
    v.vec.iter().map(|z| (z.real, z.imag)).collect()
}

fn alphabet() -> Vec<C> {
    vec![(0., 0.), (1., 0.), (-1., 0.), (0., 1.), (0., -1.), (2., 0.), (0.5, 0.), (1., 1.), (1., -1.), (-3., 0.), (1e3, 0.), (1e-3, 0.)]
}
fn leads() -> Vec<C> {
    vec![(1., 0.), (-2., 0.), (0., 3.), (1e3, 0.)]
}

fn multiset_space(ctx: &Ctx, k: usize) {
    let al = alphabet();
    let ms = multisets(al.len(), k);
    let ld = leads();
    let per = (ld.len() * 2) as u64;
    ctx.lattice(
        &format!("root multisets of size {} over 12 letters x 4 leading coefficients x refine", k),
        ms.len() as u64 * per,
        |idx| format!("roots={:?} lead={:?} refine={}", ms[(idx / per) as usize].iter().map(|&i| al[i]).collect::<Vec<C>>(), ld[((idx % per) / 2) as usize], idx % 2 == 1),
        |idx, acc| {
            let m = &ms[(idx / per) as usize];
            let lead = ld[((idx % per) / 2) as usize];
            let refine = idx % 2 == 1;
            // inside the claim: coefficient ratio up to ~1e6 -> at most one root of modulus 1e3 and one of 1e-3
            if m.iter().filter(|&&i| i == 10).count() > 1 || m.iter().filter(|&&i| i == 11).count() > 1 {
                acc.hit("multiset with repeated 1e3 / 1e-3 (coefficient ratio beyond the claim; skipped)");
                return;
            }
            let roots: Vec<C> = m.iter().map(|&i| al[i]).collect();
            let coef = expand(lead, &roots);
            let has_large = m.contains(&10);
            let repeated = m.windows(2).any(|w| w[0] == w[1]);
            if repeated {
                acc.nontriv("repeated root");
            }
            if m.contains(&0) {
                acc.nontriv("root at zero");
            }
            if m.iter().any(|&i| al[i].1 != 0.0) {
                acc.nontriv("non-real root");
            }
            if k >= 4 {
                acc.nontriv("iterative path (degree >= 4)");
            } else {
                acc.hit("closed-form path (degree <= 3)");
            }
            let key = || format!("roots={:?} lead={:?} refine={}", roots, lead, refine);
            let mut local = Acc::new("t");
            let res = catch(|| -> Result<(), String> {
                let got = run_cmplx(&coef, refine);
                judge_roots(&coef, &got, refine, has_large, &mut local, "multiset")?;
                // one-to-one correspondence for simple, well separated roots (refined)
                let mut sep = f64::INFINITY;
                for i in 0..roots.len() {
                    for j in i + 1..roots.len() {
                        sep = sep.min(cabs(csub(roots[i], roots[j])));
                    }
                }
                // multiplicities: every distinct root that is at least 1/2 away from every other distinct root is returned exactly as often
                // as it occurs (values within 0.2 of it: a cluster of multiplicity m spreads by eps^(1/m), 0.04 for m = 11) - a multiple
                // root must not swallow a simple one. Polished values only (refined, or the always polished cubic)
                if refine || roots.len() == 3 {
                    let mut distinct: Vec<(C, usize)> = vec![];
                    for &t in roots.iter() {
                        match distinct.iter_mut().find(|d| d.0 == t) {
                            Some(d) => d.1 += 1,
                            None => distinct.push((t, 1)),
                        }
                    }
                    for &(t, mult) in distinct.iter() {
                        if distinct.iter().all(|d| d.0 == t || cabs(csub(d.0, t)) >= 0.5) {
                            let near = got.iter().filter(|g| cabs(csub(**g, t)) <= 0.2).count();
                            local.hit("multiplicity of a separated root checked");
                            ensure!(near == mult, "the root {:?} of multiplicity {} is returned {} times; returned {:?}", t, mult, near, got);
                        }
                    }
                }
                if refine && sep >= 0.5 {
                    local.hit("matched against the true roots");
                    let mut used = vec![false; got.len()];
                    for &t in roots.iter() {
                        let mut best = None;
                        for (gi, &g) in got.iter().enumerate() {
                            if !used[gi] && cabs(csub(g, t)) <= MATCH_TOL * cabs(t).max(1.0) {
                                best = Some(gi);
                                break;
                            }
                        }
                        match best {
                            Some(gi) => used[gi] = true,
                            None => return Err(format!("no returned value within 1e-6 of the true root {:?}; returned {:?}", t, got)),
                        }
                    }
                }
                Ok(())
            });
            for (k2, v) in std::mem::take(&mut local.hits) {
                *acc.hits.entry(k2).or_insert(0) += v;
            }
            acc.merge_worst(local);
            match res {
                Ok(Ok(())) => {}
                Ok(Err(e)) => acc.fail(idx, key(), e),
                Err(p) => acc.fail(idx, key(), format!("unexpected panic: {}", p)),
            }
        },
    );
}

/// conjugate-closed multisets through Polynomial<f64>::roots
fn real_space(ctx: &Ctx, kmax: usize) {
    let reals = [0.0, 1.0, -1.0, 2.0, 0.5, -3.0, 1e3, 1e-3];
    let pairs: [C; 3] = [(0., 1.), (1., 1.), (-0.5, 2.)];
    // a case = (#real letters chosen as multiset, #pairs chosen as multiset) with total degree <= kmax
    let mut cases: Vec<(Vec<usize>, Vec<usize>)> = vec![];
    for nr in 0..=kmax {
        for np in 0..=(kmax - nr) / 2 {
            if nr + 2 * np == 0 {
                continue;
            }
            for a in multisets(reals.len(), nr) {
                if a.iter().filter(|&&i| i == 6).count() > 1 || a.iter().filter(|&&i| i == 7).count() > 1 {
                    continue;
                }
                for b in multisets(pairs.len(), np) {
                    cases.push((a.clone(), b));
                }
            }
        }
    }
    ctx.lattice(
        &format!("real-coefficient polynomials (Polynomial<f64>::roots): conjugate-closed root multisets up to degree {} x lead {{1,-2}} x refine", kmax),
        cases.len() as u64 * 4,
        |idx| format!("{:?} lead#{} refine={}", cases[(idx / 4) as usize], (idx / 2) % 2, idx % 2),
        |idx, acc| {
            let (a, b) = &cases[(idx / 4) as usize];
            let lead = if (idx / 2) % 2 == 0 { 1.0 } else { -2.0 };
            let refine = idx % 2 == 1;
            // real coefficients from real linear and quadratic factors
            let mut c = vec![lead];
            for &i in a {
                let mut n = vec![0.0; c.len() + 1];
                for k in 0..c.len() {
                    n[k + 1] += c[k];
                    n[k] -= c[k] * reals[i];
                }
                c = n;
            }
            for &j in b {
                let (re, im) = pairs[j];
                let (p1, p0) = (-2.0 * re, re * re + im * im);
                let mut n = vec![0.0; c.len() + 2];
                for k in 0..c.len() {
                    n[k + 2] += c[k];
                    n[k + 1] += c[k] * p1;
                    n[k] += c[k] * p0;
                }
                c = n;
            }
            let deg = c.len() - 1;
            if !b.is_empty() {
                acc.nontriv("conjugate pair");
            }
            if deg >= 4 {
                acc.nontriv("iterative path (degree >= 4)");
            }
            if a.contains(&0) {
                acc.nontriv("root at zero");
            }
            let cc: Vec<C> = c.iter().map(|x| (*x, 0.0)).collect();
            let key = || format!("real coeffs={:?} refine={}", c, refine);
            let mut local = Acc::new("t");
            let res = catch(|| -> Result<(), String> {
                let got = Polynomial::new(c.clone()).roots(refine);
                let g: Vec<C> = got.vec.iter().map(|z| (z.real, z.imag)).collect();
                judge_roots(&cc, &g, refine, a.contains(&6), &mut local, "real")
            });
            acc.merge_worst(local);
            match res {
                Ok(Ok(())) => {}
                Ok(Err(e)) => acc.fail(idx, key(), e),
                Err(p) => acc.fail(idx, key(), format!("unexpected panic: {}", p)),
            }
        },
    );
}

fn coeff_space(ctx: &Ctx, deg: usize, complex: bool) {
    let letters: Vec<C> = if complex { vec![(0., 0.), (1., 0.), (-1., 0.), (0., 1.), (1., 1.)] } else { vec![(0., 0.), (1., 0.), (-1., 0.), (2., 0.), (-2., 0.)] };
    let nl = letters.len() as u64;
    let len = pow(nl, deg as u32) * (nl - 1) * 2;
    ctx.lattice(
        &format!("{} coefficient lattice degree {}: all coefficient vectors over 5 letters with non-zero lead x refine", if complex { "Gaussian-integer" } else { "real-integer" }, deg),
        len,
        |idx| format!("{}", idx),
        |idx, acc| {
            let refine = idx % 2 == 1;
            let mut rest = idx / 2;
            let lead = letters[1 + (rest % (nl - 1)) as usize];
            rest /= nl - 1;
            let mut c: Vec<C> = vec![];
            for _ in 0..deg {
                c.push(letters[(rest % nl) as usize]);
                rest /= nl;
            }
            c.push(lead);
            if c[0] == (0., 0.) {
                acc.nontriv("vanishing constant coefficient (root at zero)");
            }
            if c[1..deg].iter().any(|z| *z == (0., 0.)) {
                acc.nontriv("vanishing inner coefficient");
            }
            if deg >= 4 {
                acc.nontriv("iterative path (degree >= 4)");
            }
            let key = || format!("coeffs={:?} refine={} via {}", c, refine, if complex { "Polynomial<Cmplx>" } else { "Polynomial<f64>" });
            let mut local = Acc::new("t");
            let res = catch(|| -> Result<(), String> {
                let g: Vec<C> = if complex {
                    run_cmplx(&c, refine)
                } else {
                    Polynomial::new(c.iter().map(|z| z.0).collect::<Vec<f64>>()).roots(refine).vec.iter().map(|z| (z.real, z.imag)).collect()
                };
                judge_roots(&c, &g, refine, false, &mut local, "lattice")
            });
            acc.merge_worst(local);
            match res {
                Ok(Ok(())) => {}
                Ok(Err(e)) => acc.fail(idx, key(), e),
                Err(p) => acc.fail(idx, key(), format!("unexpected panic: {}", p)),
            }
        },
    );
}

fn high_degree_space(ctx: &Ctx, maxbase: usize) {
    // (base polynomial of degree d over {0,1,-1,2,-2} with non-zero lead) * (x^k - 1), total degree 8..12
    let letters: Vec<f64> = vec![0., 1., -1., 2., -2.];
    let mut cases = vec![];
    for d in 1..=maxbase {
        for b in 0..pow(5, d as u32) * 4 {
            for total in 8..=12usize {
                cases.push((d, b, total - d));
            }
        }
    }
    ctx.lattice(
        &format!("degree 8..12: (every integer polynomial of degree <= {} over 5 letters) * (x^k - 1) x refine", maxbase),
        cases.len() as u64 * 2,
        |idx| format!("{:?} refine={}", cases[(idx / 2) as usize], idx % 2),
        |idx, acc| {
            let (d, b, k) = cases[(idx / 2) as usize];
            let refine = idx % 2 == 1;
            let mut rest = b;
            let lead = letters[1 + (rest % 4) as usize];
            rest /= 4;
            let mut base = vec![];
            for _ in 0..d {
                base.push(letters[(rest % 5) as usize]);
                rest /= 5;
            }
            base.push(lead);
            let mut c = vec![0.0; d + k + 1];
            for i in 0..=d {
                c[i + k] += base[i];
                c[i] -= base[i];
            }
            acc.nontriv("degree 8..12");
            let cc: Vec<C> = c.iter().map(|x| (*x, 0.0)).collect();
            let key = || format!("coeffs={:?} refine={}", c, refine);
            let mut local = Acc::new("t");
            let res = catch(|| -> Result<(), String> {
                let got = Polynomial::new(c.clone()).roots(refine);
                let g: Vec<C> = got.vec.iter().map(|z| (z.real, z.imag)).collect();
                judge_roots(&cc, &g, refine, false, &mut local, "high degree")
            });
            acc.merge_worst(local);
            match res {
                Ok(Ok(())) => {}
                Ok(Err(e)) => acc.fail(idx, key(), e),
                Err(p) => acc.fail(idx, key(), format!("unexpected panic: {}", p)),
            }
        },
    );
}

/// nearly binomial polynomials lead*x^n + a*x^k + c: from the start value 0 Laguerre's step lands far outside the roots
/// (on -c/a) and the step from there returns to the centroid, a two-cycle unless the step is bounded by the root radius
fn near_binomial_space(ctx: &Ctx, nmax: usize) {
    let cs: Vec<C> = vec![(10., 0.), (-50., 0.), (1e3, 0.), (-1e3, 0.), (0., 1e3), (1e4, 0.), (0., -1e5), (1e6, 0.), (2., 0.), (1e-3, 0.)];
    let aa: Vec<C> = vec![(0., 0.), (1., 0.), (-1., 0.), (0., 1.), (1e-3, 0.), (0., -1e-3), (3., 0.)];
    let ld: Vec<C> = vec![(1., 0.), (-2., 0.), (0., 1.)];
    let mut cases = vec![];
    for n in 4..=nmax {
        for k in [1usize, 2, n - 1] {
            for ci in 0..cs.len() {
                for ai in 0..aa.len() {
                    for li in 0..ld.len() {
                        cases.push((n, k, ci, ai, li));
                    }
                }
            }
        }
    }
    ctx.lattice(
        &format!("nearly binomial lead*x^n + a*x^k + c: n in 4..{}, k in {{1,2,n-1}}, 10 constants up to 1e6, 7 middle coefficients, 3 leads x refine", nmax),
        cases.len() as u64 * 2,
        |idx| format!("{:?} refine={}", cases[(idx / 2) as usize], idx % 2 == 1),
        |idx, acc| {
            let (n, k, ci, ai, li) = cases[(idx / 2) as usize];
            let refine = idx % 2 == 1;
            let mut c: Vec<C> = vec![(0., 0.); n + 1];
            c[0] = cs[ci];
            c[k] = aa[ai];
            c[n] = ld[li];
            acc.nontriv("nearly binomial polynomial");
            let key = || format!("near-binomial coeffs={:?} refine={}", c, refine);
            let mut local = Acc::new("t");
            let res = catch(|| -> Result<(), String> {
                let g = run_cmplx(&c, refine);
                judge_roots(&c, &g, refine, true, &mut local, "near-binomial")?;
                // real coefficients: the f64 entry point must agree bit for bit
                if c.iter().all(|z| z.1 == 0.0) {
                    let pr = Polynomial::<f64>::new(c.iter().map(|z| z.0).collect());
                    let gr: Vec<C> = pr.roots(refine).vec.iter().map(|z| (z.real, z.imag)).collect();
                    judge_roots(&c, &gr, refine, true, &mut local, "near-binomial (f64 entry)")?;
                }
                Ok(())
            });
            acc.merge_worst(local);
            match res {
                Ok(Ok(())) => {}
                Ok(Err(e)) => acc.fail(idx, key(), e),
                Err(p) => acc.fail(idx, key(), format!("unexpected panic: {}", p)),
            }
        },
    );
}

/// clustered roots (the property names them): products lead * prod (x - r_j) with the r_j a cluster r + {-w, 0, w} (degree 3),
/// r + {-w, w} or a triple / double root expanded in f64 (so the coefficients are inexact), plus a far root for degree 4..5.
/// The coefficients are what they are after rounding; the oracle is the backward error with respect to THEM.
fn clustered_space(ctx: &Ctx) {
    let centres = [2.66, -2.36, 0.62, -0.62, 1.0, -3.0, 0.1, 1e-2, 30.0];
    let widths = [0.0, 1e-4, 1e-3, 1e-2, 2e-2, 0.1];
    let leads = [1.0, 3.0, 5.0, -0.25];
    let shapes = 6usize; // 0: (r-w, r, r+w)  1: (r, r, r+w)  2: (r-w, r+w)  3: (r-w, r, r+w, 10 r + 7)  4: (r-w, r, r+w, -1, 4)  5: (r-w, r, r+w) times (x^2+1)
    let total = (centres.len() * widths.len() * leads.len() * shapes * 2) as u64;
    ctx.lattice(
        "clustered roots: 9 centres x widths {0,1e-4,1e-3,1e-2,2e-2,0.1} x 4 leads x 6 cluster shapes (degree 2..5) x refine, through both entry points",
        total,
        |idx| format!("{}", idx),
        |idx, acc| {
            let refine = idx % 2 == 1;
            let mut r0 = idx / 2;
            let sh = (r0 % shapes as u64) as usize;
            r0 /= shapes as u64;
            let lead = leads[(r0 % 4) as usize];
            r0 /= 4;
            let w = widths[(r0 % widths.len() as u64) as usize];
            r0 /= widths.len() as u64;
            let r = centres[r0 as usize];
            let mut roots: Vec<f64> = match sh {
                0 | 3 | 4 | 5 => vec![r - w, r, r + w],
                1 => vec![r, r, r + w],
                _ => vec![r - w, r + w],
            };
            if sh == 3 {
                roots.push(10.0 * r + 7.0);
            }
            if sh == 4 {
                roots.push(-1.0);
                roots.push(4.0);
            }
            let mut c = vec![lead];
            for &z in &roots {
                let mut n = vec![0.0; c.len() + 1];
                for k in 0..c.len() {
                    n[k + 1] += c[k];
                    n[k] -= c[k] * z;
                }
                c = n;
            }
            if sh == 5 {
                let mut n = vec![0.0; c.len() + 2];
                for k in 0..c.len() {
                    n[k + 2] += c[k];
                    n[k] += c[k];
                }
                c = n;
            }
            let cc: Vec<C> = c.iter().map(|x| (*x, 0.0)).collect();
            acc.nontriv("clustered roots");
            if w == 0.0 {
                acc.nontriv("multiple root with inexact coefficients");
            }
            let key = || format!("clustered coeffs={:?} (centre {} width {} shape#{}) refine={}", c, r, w, sh, refine);
            let mut local = Acc::new("t");
            let res = catch(|| -> Result<(), String> {
                let g = run_cmplx(&cc, refine);
                judge_roots(&cc, &g, refine, false, &mut local, "clustered")?;
                let gr: Vec<C> = Polynomial::<f64>::new(c.clone()).roots(refine).vec.iter().map(|z| (z.real, z.imag)).collect();
                judge_roots(&cc, &gr, refine, false, &mut local, "clustered (f64 entry)")?;
                // a cluster of SIMPLE roots that f64 can resolve: each member is returned exactly once (polished values)
                if (refine || roots.len() == 3) && w > 0.0 && sh != 1 {
                    // resolvable: a perturbation of 100 rounding errors of Horner's rule moves each member by less than w / 16
                    let mut all: Vec<C> = roots.iter().map(|t| (*t, 0.0)).collect();
                    if sh == 5 {
                        all.push((0.0, 1.0));
                        all.push((0.0, -1.0));
                    }
                    let resolvable = roots.iter().all(|&t| {
                        let sum: f64 = c.iter().enumerate().map(|(k, a)| a.abs() * t.abs().powi(k as i32)).sum();
                        let dp: f64 = lead.abs() * all.iter().filter(|z| **z != (t, 0.0)).map(|z| cabs(csub(*z, (t, 0.0)))).product::<f64>();
                        100.0 * f64::EPSILON * sum / dp <= w / 16.0
                    });
                    if resolvable {
                        local.nontriv("resolvable cluster matched one-to-one");
                        for got in [&g, &gr] {
                            for &t in roots.iter() {
                                let near = got.iter().filter(|z| cabs(csub(**z, (t, 0.0))) <= 0.25 * w).count();
                                ensure!(near == 1, "the simple root {} of a cluster of width {} is returned {} times; returned {:?}", t, w, near, got);
                            }
                        }
                    }
                }
                Ok(())
            });
            for (k2, v) in std::mem::take(&mut local.hits) {
                *acc.hits.entry(k2).or_insert(0) += v;
            }
            acc.merge_worst(local);
            match res {
                Ok(Ok(())) => {}
                Ok(Err(e)) => acc.fail(idx, key(), e),
                Err(p) => acc.fail(idx, key(), format!("unexpected panic: {}", p)),
            }
        },
    );
}

/// polynomials whose roots are all small (x^n + small lower-order terms): the root disc has radius < 1, so a fallback step of
/// modulus >= 1 leaves it again
fn small_root_space(ctx: &Ctx) {
    let eps = [8e-6, 5e-6, 1e-6, 6e-4, 1e-2, 1e-1];
    let mut cases = vec![];
    for n in 4..=12usize {
        for pat in 0..6usize {
            for ie in 0..eps.len() {
                for lead in 0..2usize {
                    cases.push((n, pat, ie, lead));
                }
            }
        }
    }
    ctx.lattice(
        "small roots: x^n + small lower-order terms (6 patterns x 6 sizes 1e-6..1e-1) for n = 4..12, real and imaginary variants x refine",
        cases.len() as u64 * 2,
        |idx| format!("{:?} refine={}", cases[(idx / 2) as usize], idx % 2 == 1),
        |idx, acc| {
            let (n, pat, ie, lead) = cases[(idx / 2) as usize];
            let refine = idx % 2 == 1;
            let e = eps[ie];
            let unit: C = if lead == 0 { (1.0, 0.0) } else { (0.0, -1.0) };
            let mul = |x: f64| -> C { (unit.0 * x, unit.1 * x) };
            let mut c: Vec<C> = vec![(0.0, 0.0); n + 1];
            c[n] = (1.0, 0.0);
            match pat {
                0 => {
                    c[0] = mul(e);
                    c[1] = mul(e);
                }
                1 => {
                    c[0] = mul(e);
                    c[1] = mul(e);
                    c[2] = mul(e);
                }
                2 => {
                    c[0] = mul(e);
                    c[1] = mul(e);
                    c[n / 2 + 1] = mul(75.0 * e);
                }
                3 => {
                    c[0] = mul(-e);
                    c[1] = mul(e * 0.5);
                }
                4 => {
                    for k in 0..n {
                        c[k] = mul(e * (1.0 + k as f64));
                    }
                }
                _ => {
                    c[0] = mul(e);
                    c[n - 1] = mul(e);
                }
            }
            acc.nontriv("all roots small");
            let key = || format!("small-roots coeffs={:?} refine={}", c, refine);
            let mut local = Acc::new("t");
            let res = catch(|| -> Result<(), String> {
                let g = run_cmplx(&c, refine);
                judge_roots(&c, &g, refine, false, &mut local, "small-roots")?;
                if lead == 0 {
                    let cr: Vec<f64> = c.iter().map(|z| z.0).collect();
                    let gr: Vec<C> = Polynomial::<f64>::new(cr).roots(refine).vec.iter().map(|z| (z.real, z.imag)).collect();
                    judge_roots(&c, &gr, refine, false, &mut local, "small-roots (f64 entry)")?;
                }
                Ok(())
            });
            acc.merge_worst(local);
            match res {
                Ok(Ok(())) => {}
                Ok(Err(e)) => acc.fail(idx, key(), e),
                Err(p) => acc.fail(idx, key(), format!("unexpected panic: {}", p)),
            }
        },
    );
}

/// wide-scale complex coefficient lattice: mixed scale (1e-3 .. 1e3) and purely imaginary coefficients
/// polynomials with a vanishing constant term and GENERIC (non-dyadic) complex coefficients above it: the closed forms and the
/// deflation return the root 0 only to rounding (1e-14, not exactly 0), so its polish runs x -> 1e-30 -> .. -> 1e-155 .. and passes
/// through the magnitudes where (p'/p)^2 is on the verge of overflow. Exactly one returned value may lie at 0 (the other roots are
/// bounded away from it by Cauchy's lower bound), whatever the refinement setting
fn zero_constant_space(ctx: &Ctx, deg: usize) {
    let gl: Vec<C> = vec![(45.24339293946149, -0.001061492808960908), (0.014140438686290125, 94.278834521876), (-0.3172387511586921, 0.0176799890260945), (0.7, 0.0), (-0.3, 0.55), (1.0 / 3.0, -2.1), (12.9, 7.3), (-0.061, 0.0)];
    let l = gl.len() as u64;
    ctx.lattice(
        &format!("degree {} with zero constant term, coefficients a_1..a_{} over 8 generic complex letters, both refinement settings: exactly one value at 0", deg, deg),
        pow(l, deg as u32) * 2,
        |idx| format!("coeffs#{} refine={}", idx / 2, idx % 2 == 1),
        |idx, acc| {
            let mut d = vec![0usize; deg];
            digits_uniform(idx / 2, l, &mut d);
            let mut coef: Vec<C> = vec![(0.0, 0.0)];
            coef.extend(d.iter().map(|&k| gl[k]));
            let refine = idx % 2 == 1;
            acc.nontriv("generic polynomial with a root at 0");
            let key = || format!("zero-constant coeffs={:?} refine={}", coef, refine);
            let mut local = Acc::new("t");
            let res = catch(|| -> Result<(), String> {
                let got = run_cmplx(&coef, refine);
                judge_roots(&coef, &got, refine, false, &mut local, "zero-constant")?;
                // Cauchy: every non-zero root z of a_1 + a_2 x + .. has |z| >= |a_1| / (|a_1| + max |a_k|) >= 1e-4 on this alphabet
                let a1 = coef[1].0.hypot(coef[1].1);
                let amax = coef[2..].iter().map(|z| z.0.hypot(z.1)).fold(0.0, f64::max);
                let low = a1 / (a1 + amax);
                let at_zero = got.iter().filter(|z| z.0.hypot(z.1) <= 1e-6 * low).count();
                ensure!(at_zero == 1, "{} returned values lie at the root 0 (the other roots have modulus >= {:e}): {:?}", at_zero, low, got);
                Ok(())
            });
            acc.merge_worst(local);
            match res {
                Ok(Ok(())) => {}
                Ok(Err(e)) => acc.fail(idx, key(), e),
                Err(p) => acc.fail(idx, key(), format!("unexpected panic: {}", p)),
            }
        },
    );
}

/// a leading coefficient 1e6 times smaller than the next one (one huge root, the root disc is very large, Laguerre needs well over a dozen
/// steps from 0): lead x^n + c x^(n-1) + (one middle term) + a x + b, degree 7..12
fn tiny_lead_space(ctx: &Ctx) {
    let leads: Vec<C> = vec![(1e-3, 0.0), (1e-3, 1e-3), (-2e-3, 0.0)];
    let c1s: Vec<C> = vec![(-1000.0, 0.0), (0.0, 1000.0), (700.0, -700.0)];
    let mids: Vec<C> = vec![(0.0, 0.0), (3.0, 0.0), (0.0, -40.0)];
    let a1s: Vec<C> = vec![(400.0, 0.0), (-3.0, 2.0), (0.0, 0.0)];
    let a0s: Vec<C> = vec![(1.0, 0.0), (0.0, -0.5), (25.0, 0.0)];
    let per = (3 * 3 * 3 * 3 * 3 * 2) as u64;
    ctx.lattice(
        "tiny leading coefficient: degree 7..12, lead in {1e-3, 1e-3(1+i), -2e-3} x next in {-1e3, 1e3 i, 700(1-i)} x middle term x a_1 x a_0 (3 letters each), both refinement settings",
        6 * per,
        |idx| format!("n={} case#{}", 7 + idx / per, idx % per),
        |idx, acc| {
            let n = 7 + (idx / per) as usize;
            let mut r = idx % per;
            let refine = r % 2 == 1;
            r /= 2;
            let mut pick = |v: &Vec<C>| {
                let z = v[(r % 3) as usize];
                r /= 3;
                z
            };
            let (lead, c1, mid, a1, a0) = (pick(&leads), pick(&c1s), pick(&mids), pick(&a1s), pick(&a0s));
            let mut coef: Vec<C> = vec![(0.0, 0.0); n + 1];
            coef[n] = lead;
            coef[n - 1] = c1;
            coef[n / 2] = mid;
            coef[1] = a1;
            coef[0] = a0;
            acc.nontriv("polynomial with a leading coefficient 1e6 below the next");
            let key = || format!("tiny-lead coeffs={:?} refine={}", coef, refine);
            let mut local = Acc::new("t");
            let res = catch(|| -> Result<(), String> {
                let got = run_cmplx(&coef, refine);
                judge_roots(&coef, &got, refine, true, &mut local, "tiny-lead")
            });
            acc.merge_worst(local);
            match res {
                Ok(Ok(())) => {}
                Ok(Err(e)) => acc.fail(idx, key(), e),
                Err(p) => acc.fail(idx, key(), format!("unexpected panic: {}", p)),
            }
        },
    );
}

fn wide_scale_space(ctx: &Ctx, deg: usize) {
    let letters: Vec<C> = vec![(1., 0.), (0., 1.), (1e3, 0.), (-1e3, 0.), (0., 1e3), (0., -1e3), (1e-3, 0.), (-1e-3, 0.), (0., 1e-3), (0., -1e-3)];
    let nl = letters.len() as u64;
    let len = pow(nl, (deg + 1) as u32) * 2;
    ctx.lattice(
        &format!("wide-scale coefficient lattice degree {}: all coefficient vectors over {{1, i, +-1e3, +-1e3 i, +-1e-3, +-1e-3 i}} x refine", deg),
        len,
        |idx| format!("{}", idx),
        |idx, acc| {
            let refine = idx % 2 == 1;
            let mut rest = idx / 2;
            let mut c: Vec<C> = vec![];
            for _ in 0..=deg {
                c.push(letters[(rest % nl) as usize]);
                rest /= nl;
            }
            acc.nontriv("coefficients of mixed scale (ratio up to 1e6)");
            if c[1..].iter().any(|z| z.0 == 0.0) {
                acc.hit("purely imaginary inner or leading coefficient");
            }
            let key = || format!("wide-scale coeffs={:?} refine={}", c, refine);
            let mut local = Acc::new("t");
            let res = catch(|| -> Result<(), String> {
                let g = run_cmplx(&c, refine);
                // roots can be as large as 1e6 here: the unrefined bound of the large-root class applies
                judge_roots(&c, &g, refine, true, &mut local, "wide-scale")
            });
            acc.merge_worst(local);
            match res {
                Ok(Ok(())) => {}
                Ok(Err(e)) => acc.fail(idx, key(), e),
                Err(p) => acc.fail(idx, key(), format!("unexpected panic: {}", p)),
            }
        },
    );
}

// --- E2: a polynomial object that is queried, edited and queried again ------------------------------------------
#[derive(Clone)]
struct St {
    p: Polynomial<Cmplx>,
    pr: Polynomial<f64>,
    m: Vec<f64>,
}
#[derive(Clone, Debug)]
enum Act {
    SetIdx(usize, i64),
    SetViaCoeffs(usize, i64),
    Push(i64),
    TrimPush0Trim,
    Pop,
    Trim,
}
/// Rings of roots about a non-zero centre: lead (x - r)^n + e. Laguerre's step is exact for (x - r)^n, so from any far point it lands
/// next to the centre r, where p', .., p^(n-1) all vanish and the next step is huge. Until 6337919 the restart for a step leaving the
/// root disc went to the circle of radius bound/2 - far away again -, the iteration alternated between the two for all 79 iterations
/// and all n returned values were copies of the centre (third bug hunt, 1186 of about 4000 scanned (n, r, e)).
/// Oracle: n finite values, backward error w.r.t. the expanded (rounded) coefficients; where the ring is well conditioned (estimated
/// displacement of a root under a perturbation of 1e-12 max|a_k| max(1,|z|)^n of p - a thousand times the noise of Horner's rule, far
/// below the 1e-9 of the backward-error oracle - under 5% of the spacing) each root r + rho w^k is matched by exactly one returned
/// value (refined). Rings with e of 1e-13 .. 1e-11 are clusters that f64 cannot resolve: any point next to the centre is a root to 1e-14.
fn ring_space(ctx: &Ctx, nmax: usize) {
    let centres: Vec<C> = vec![(1., 0.), (-1., 0.), (0., 1.), (1., 1.), (0.5, 0.), (0.7, 0.), (2., 0.), (-0.3, 0.55), (0., -2.), (3., -1.)];
    let es: Vec<C> = vec![(1e-13, 0.), (2e-11, 0.), (5e-9, 0.), (1e-6, 0.), (2e-5, 0.), (1e-4, 0.), (2e-4, 0.), (1e-3, 0.), (5e-2, 0.), (1e-1, 0.), (-1e-4, 0.), (0., 2e-4), (1., 0.)];
    let ld: Vec<C> = vec![(1., 0.), (-2., 0.), (0., 3.)];
    let mut cases = vec![];
    for n in 4..=nmax {
        for ci in 0..centres.len() {
            for ei in 0..es.len() {
                for li in 0..ld.len() {
                    cases.push((n, ci, ei, li));
                }
            }
        }
    }
    ctx.lattice(
        &format!("rings about a non-zero centre lead (x - r)^n + e: n in 4..{}, 10 centres, 13 offsets e from 1e-13 to 1, 3 leads x refine", nmax),
        cases.len() as u64 * 2,
        |idx| format!("{:?} refine={}", cases[(idx / 2) as usize], idx % 2 == 1),
        |idx, acc| {
            let (n, ci, ei, li) = cases[(idx / 2) as usize];
            let refine = idx % 2 == 1;
            let (r, e, lead) = (centres[ci], es[ei], ld[li]);
            let mut c = expand(lead, &vec![r; n]);
            c[0] = cadd(c[0], e);
            acc.nontriv("ring of roots about a non-zero centre");
            let key = || format!("ring n={} centre={:?} e={:?} lead={:?} refine={}", n, r, e, lead, refine);
            let mut local = Acc::new("t");
            let res = catch(|| -> Result<(), String> {
                let g = run_cmplx(&c, refine);
                judge_roots(&c, &g, refine, false, &mut local, "ring")?;
                if c.iter().all(|z| z.1 == 0.0) {
                    let pr = Polynomial::<f64>::new(c.iter().map(|z| z.0).collect());
                    let gr: Vec<C> = pr.roots(refine).vec.iter().map(|z| (z.real, z.imag)).collect();
                    judge_roots(&c, &gr, refine, false, &mut local, "ring (f64 entry)")?;
                }
                // the ring: (x - r)^n = -e / lead
                let q = {
                    let d = lead.0 * lead.0 + lead.1 * lead.1;
                    (-(e.0 * lead.0 + e.1 * lead.1) / d, -(e.1 * lead.0 - e.0 * lead.1) / d)
                };
                let rho = cabs(q).powf(1.0 / n as f64);
                let th = q.1.atan2(q.0) / n as f64;
                let spacing = 2.0 * rho * (std::f64::consts::PI / n as f64).sin();
                let amax = c.iter().map(|a| cabs(*a)).fold(0.0, f64::max);
                let zmax = (cabs(r) + rho).max(1.0);
                let pert = 1e-12 * amax * zmax.powi(n as i32) / (cabs(lead) * n as f64 * rho.powi(n as i32 - 1));
                if refine && pert <= 0.05 * spacing {
                    local.nontriv("ring matched against the true roots");
                    for k in 0..n {
                        let a = th + 2.0 * std::f64::consts::PI * k as f64 / n as f64;
                        let t = (r.0 + rho * a.cos(), r.1 + rho * a.sin());
                        let hits = g.iter().filter(|z| cabs(csub(**z, t)) <= 0.25 * spacing).count();
                        ensure!(hits == 1, "the simple root {:?} of the ring (spacing {:e}) is returned {} times; returned {:?}", t, spacing, hits, g);
                    }
                }
                Ok(())
            });
            for (k, v) in std::mem::take(&mut local.hits) {
                *acc.hits.entry(k).or_insert(0) += v;
            }
            acc.merge_worst(local);
            match res {
                Ok(Ok(())) => {}
                Ok(Err(e)) => acc.fail(idx, key(), e),
                Err(p) => acc.fail(idx, key(), format!("unexpected panic: {}", p)),
            }
        },
    );
}

/// A ring of k >= 5 roots next to OTHER roots: lead ((x - c)^k - d^k) prod (x - s_j). From afar Laguerre's step lands on the centre c of the ring,
/// where p', p'' vanish; the next step is huge but - the other roots make the root disc large - stays inside the disc, so the replacement of
/// row 43 never fired and the iteration alternated between the centre and a far point; the centre was deflated with and the polish threw
/// several values onto one root (fourth bug hunt: ((x+8)^6 - 0.5^6)(x+1) returned -1 twice and missed -8.5). Oracle: backward error, and - where every
/// root is resolvable - every true root matched by exactly one returned value (both settings: the unrefined values of a resolvable
/// configuration are within a small fraction of the separation too).
fn ring_with_others_space(ctx: &Ctx) {
    let centres: Vec<C> = vec![(-8., 0.), (0.75, 0.), (4., 0.), (-1., 0.), (0., 2.), (1.5, -1.)];
    let ks = [5usize, 6, 7, 8, 9];
    let ds = [0.5, 0.05, 0.4];
    // extra roots relative to nothing: absolute positions; sets that would collide with the ring are skipped
    let extras: Vec<Vec<C>> = vec![vec![(-1., 0.)], vec![(0.25, 0.)], vec![(1., 0.), (2., 0.), (2.5, 0.)], vec![(0., 0.)], vec![(3., 1.), (3., -1.)], vec![(-2.4, 0.), (-2.4, 0.)]];
    let ld: Vec<C> = vec![(1., 0.), (7., 0.), (0., -2.)];
    let mut cases = vec![];
    for ci in 0..centres.len() {
        for &k in &ks {
            for di in 0..ds.len() {
                for ei in 0..extras.len() {
                    if k + extras[ei].len() > 12 {
                        continue;
                    }
                    if extras[ei].iter().any(|e| cabs(csub(*e, centres[ci])) < ds[di] + 0.3) {
                        continue;
                    }
                    for li in 0..ld.len() {
                        cases.push((ci, k, di, ei, li));
                    }
                }
            }
        }
    }
    ctx.lattice(
        "a ring of 5..9 roots next to other roots: 6 centres x 5 ring sizes x radii {0.5,0.05,0.4} x 6 sets of other roots (simple, conjugate pair, double) x 3 leads x refine",
        cases.len() as u64 * 2,
        |idx| format!("{:?} refine={}", cases[(idx / 2) as usize], idx % 2 == 1),
        |idx, acc| {
            let (ci, k, di, ei, li) = cases[(idx / 2) as usize];
            let refine = idx % 2 == 1;
            let (c, d, lead) = (centres[ci], ds[di], ld[li]);
            let mut ring = expand((1., 0.), &vec![c; k]);
            ring[0] = csub(ring[0], (d.powi(k as i32), 0.0));
            // multiply by the other factors and the lead
            let mut coef = ring;
            for &e in &extras[ei] {
                let mut n = vec![(0.0, 0.0); coef.len() + 1];
                for t in 0..coef.len() {
                    n[t + 1] = cadd(n[t + 1], coef[t]);
                    n[t] = csub(n[t], cmul(coef[t], e));
                }
                coef = n;
            }
            for z in coef.iter_mut() {
                *z = cmul(*z, lead);
            }
            acc.nontriv("ring next to other roots");
            let key = || format!("ring+others centre={:?} k={} radius={} others={:?} lead={:?} refine={}", c, k, d, extras[ei], lead, refine);
            let mut local = Acc::new("t");
            let res = catch(|| -> Result<(), String> {
                let g = run_cmplx(&coef, refine);
                judge_roots(&coef, &g, refine, false, &mut local, "ring+others")?;
                let mut outs = vec![g.clone()];
                if coef.iter().all(|z| z.1 == 0.0) {
                    let pr = Polynomial::<f64>::new(coef.iter().map(|z| z.0).collect());
                    let gr: Vec<C> = pr.roots(refine).vec.iter().map(|z| (z.real, z.imag)).collect();
                    judge_roots(&coef, &gr, refine, false, &mut local, "ring+others (f64 entry)")?;
                    outs.push(gr);
                }
                // true roots: the ring and the others (a double root among the others counts twice)
                let mut truth: Vec<C> = (0..k).map(|j| { let a = 2.0 * std::f64::consts::PI * j as f64 / k as f64; (c.0 + d * a.cos(), c.1 + d * a.sin()) }).collect();
                let simple_others = extras[ei].len() < 2 || extras[ei][0] != extras[ei][1];
                truth.extend(extras[ei].iter().cloned());
                let n = truth.len();
                let sum = |t: C| -> f64 { coef.iter().enumerate().map(|(q, a)| cabs(*a) * cabs(t).powi(q as i32)).sum() };
                let mut resolvable = simple_others;
                let mut seps = vec![0.0; n];
                for i in 0..n {
                    let sep = (0..n).filter(|&j| j != i).map(|j| cabs(csub(truth[i], truth[j]))).fold(f64::INFINITY, f64::min);
                    let dp: f64 = cabs(lead) * (0..n).filter(|&j| j != i).map(|j| cabs(csub(truth[i], truth[j]))).product::<f64>();
                    seps[i] = sep;
                    if !(1000.0 * f64::EPSILON * sum(truth[i]) / dp <= sep / 16.0) {
                        resolvable = false;
                    }
                }
                if resolvable {
                    local.nontriv("ring next to other roots matched one-to-one");
                    for got in outs.iter() {
                        for i in 0..n {
                            let near = got.iter().filter(|z| cabs(csub(**z, truth[i])) <= 0.25 * seps[i]).count();
                            ensure!(near == 1, "the simple root {:?} (nearest other root {:e} away) is returned {} times; returned {:?}", truth[i], seps[i], near, got);
                        }
                    }
                }
                Ok(())
            });
            for (k2, v) in std::mem::take(&mut local.hits) {
                *acc.hits.entry(k2).or_insert(0) += v;
            }
            acc.merge_worst(local);
            match res {
                Ok(Ok(())) => {}
                Ok(Err(e)) => acc.fail(idx, key(), e),
                Err(p) => acc.fail(idx, key(), format!("unexpected panic: {}", p)),
            }
        },
    );
}

/// the one member of `ring_with_others_space` that still failed after the step cap (until the deflation direction was repaired): 7 ((x+8)^7 - 0.4^7)(x-1)(x-2)(x-2.5). The unrefined
/// values of the ring are 0.1 off (their normwise backward error is 1e-18: max|a_k| max(1,|z|)^10 is 1e19 here, so that measure says nothing),
/// and the polish then takes one of them to a neighbour's root. Listed, not repaired: it is the accuracy of deflation on a polynomial whose
/// coefficients span ten orders of magnitude, not a cycle.
fn ring_known_case(ctx: &Ctx) {
    let mut cases: Vec<(String, Box<dyn Fn() -> Result<(), String> + Sync + Send>)> = vec![];
    for refine in [false, true] {
        cases.push((
            format!("ring-of-7 radius 0.4 about -8 times (x-1)(x-2)(x-2.5), lead 7, refine={}", refine),
            Box::new(move || {
                let c: C = (-8.0, 0.0);
                let mut coef = expand((1., 0.), &vec![c; 7]);
                coef[0] = csub(coef[0], (0.4f64.powi(7), 0.0));
                for e in [(1.0, 0.0), (2.0, 0.0), (2.5, 0.0)] {
                    let mut n = vec![(0.0, 0.0); coef.len() + 1];
                    for t in 0..coef.len() {
                        n[t + 1] = cadd(n[t + 1], coef[t]);
                        n[t] = csub(n[t], cmul(coef[t], e));
                    }
                    coef = n;
                }
                for z in coef.iter_mut() {
                    *z = cmul(*z, (7.0, 0.0));
                }
                let g = run_cmplx(&coef, refine);
                for j in 0..7 {
                    let a = 2.0 * std::f64::consts::PI * j as f64 / 7.0;
                    let t = (c.0 + 0.4 * a.cos(), 0.4 * a.sin());
                    let near = g.iter().filter(|z| cabs(csub(**z, t)) <= 0.08).count();
                    ensure!(near == 1, "the ring root {:?} is returned {} times; returned {:?}", t, near, g);
                }
                Ok(())
            }),
        ));
    }
    // (a known finding for two hours: repaired by the deflation-direction fix of the fifth hunt)
    ctx.listed_cases("listed input: a ring of seven about -8 next to three more roots (deflation direction)", cases);
    // fifth hunt: a close pair far from the origin next to a small root (repaired), and a cubic with three roots within 2% (known finding)
    let mut cases: Vec<(String, Box<dyn Fn() -> Result<(), String> + Sync + Send>)> = vec![];
    for refine in [false, true] {
        cases.push((
            format!("close pair near 64 next to 1.25 and 65, refine={}", refine),
            Box::new(move || {
                let coef = expand((1., 0.), &[(1.25, 0.), (64., 0.), (64.00390625, 0.), (65., 0.)]);
                for got in [run_cmplx(&coef, refine), Polynomial::<f64>::new(coef.iter().map(|z| z.0).collect()).roots(refine).vec.iter().map(|z| (z.real, z.imag)).collect::<Vec<C>>()] {
                    for t in [(1.25, 0.), (64., 0.), (64.00390625, 0.), (65., 0.)] {
                        let near = got.iter().filter(|z| cabs(csub(**z, t)) <= 1e-3).count();
                        ensure!(near == 1, "the root {:?} is returned {} times; returned {:?}", t, near, got);
                    }
                }
                Ok(())
            }),
        ));
    }
    ctx.listed_cases("listed input of the fifth bug hunt: a close pair far from the origin (deflation direction)", cases);
    let mut cases: Vec<(String, Box<dyn Fn() -> Result<(), String> + Sync + Send>)> = vec![];
    for refine in [false, true] {
        cases.push((
            format!("clustered cubic (x-2)(x-2.00048828125)(x-2.03125) refine={}", refine),
            Box::new(move || {
                let coef = expand((1., 0.), &[(2., 0.), (2.00048828125, 0.), (2.03125, 0.)]);
                let got = run_cmplx(&coef, refine);
                for t in [(2., 0.), (2.00048828125, 0.), (2.03125, 0.)] {
                    let near = got.iter().filter(|z| cabs(csub(**z, t)) <= 1e-4).count();
                    ensure!(near == 1, "the root {:?} is returned {} times; returned {:?}", t, near, got);
                }
                Ok(())
            }),
        ));
    }
    ctx.known_cases("listed input: a cubic with three roots within two per cent (Cardano's expanded discriminant)", cases);
}

/// listed inputs of the fourth bug hunt (hunt/C10/round4), repaired by 4299543: counts of returned values near each root
fn hunt4_cases(ctx: &Ctx) {
    fn polymul(a: &[f64], b: &[f64]) -> Vec<f64> {
        let mut r = vec![0.0; a.len() + b.len() - 1];
        for i in 0..a.len() {
            for j in 0..b.len() {
                r[i + j] += a[i] * b[j];
            }
        }
        r
    }
    fn ring(a: f64, k: usize, delta: f64) -> Vec<f64> {
        let mut f = vec![1.0];
        for _ in 0..k {
            f = polymul(&f, &[-a, 1.0]);
        }
        f[0] -= delta.powi(k as i32);
        f
    }
    // (coefficients, refine settings, [(point, radius, expected count)])
    let items: Vec<(&'static str, Vec<f64>, Vec<bool>, Vec<(C, f64, usize)>)> = vec![
        ("((x+8)^6 - 0.5^6)(x+1)", polymul(&ring(-8.0, 6, 0.5), &[1.0, 1.0]), vec![false, true], vec![((-1.0, 0.0), 0.1, 1), ((-8.5, 0.0), 0.1, 1), ((-7.5, 0.0), 0.1, 1), ((-8.0, 0.0), 0.7, 6)]),
        ("((x-0.75)^9 - 0.05^9)(x-0.25)", polymul(&ring(0.75, 9, 0.05), &[-0.25, 1.0]), vec![false, true], vec![((0.25, 0.0), 0.1, 1), ((0.75, 0.0), 0.1, 9)]),
        ("((x-4)^7 - 0.5^7)(x-1)(x-2)(x-2.5)", polymul(&polymul(&polymul(&ring(4.0, 7, 0.5), &[-1.0, 1.0]), &[-2.0, 1.0]), &[-2.5, 1.0]), vec![false, true], vec![((1.0, 0.0), 0.05, 1), ((2.0, 0.0), 0.05, 1), ((2.5, 0.0), 0.05, 1), ((4.5, 0.0), 0.1, 1), ((4.0, 0.0), 0.7, 7)]),
        ("(x-3.3)^5 (x-1.3) in f64", vec![508.76010899999994, -1162.20258, 1060.1414999999997, -500.93999999999994, 130.34999999999997, -17.8, 1.0], vec![false, true], vec![((1.3, 0.0), 0.5, 1), ((3.3, 0.0), 0.5, 5)]),
        ("1000 x (x+4.5)^6 perturbed", vec![0.0, 8303765.624999908, 11071687.5, 6150937.5, 1822500.0, 303750.0, 27000.0, 1000.0], vec![false, true], vec![((0.0, 0.0), 0.5, 1), ((-4.5, 0.0), 0.5, 6)]),
    ];
    let mut cases: Vec<(String, Box<dyn Fn() -> Result<(), String> + Sync + Send>)> = vec![];
    for (name, co, refs, wants) in items {
        for refine in refs {
            let (co, wants) = (co.clone(), wants.clone());
            cases.push((
                format!("hunt4 {} refine={}", name, refine),
                Box::new(move || {
                    let cc: Vec<C> = co.iter().map(|x| (*x, 0.0)).collect();
                    let mut local = Acc::new("t");
                    for got in [run_cmplx(&cc, refine), Polynomial::<f64>::new(co.clone()).roots(refine).vec.iter().map(|z| (z.real, z.imag)).collect::<Vec<C>>()] {
                        judge_roots(&cc, &got, refine, false, &mut local, "hunt4")?;
                        for &(t, rad, cnt) in wants.iter() {
                            let near = got.iter().filter(|z| cabs(csub(**z, t)) <= rad).count();
                            ensure!(near == cnt, "{} values within {} of {:?}, expected {}; returned {:?}", near, rad, t, cnt, got);
                        }
                    }
                    Ok(())
                }),
            ));
        }
    }
    ctx.listed_cases("listed inputs of the fourth bug hunt: rings and multiple roots next to other roots (repaired by 4299543)", cases);
}

/// Cubics with a triple root whose perturbation is a tiny part (1e-131 .. 1e-320) of ONE coefficient: (x - r)^3 expanded exactly for
/// r in {1, -2, 1+i, i/2} with a tiny real or imaginary part added to one of the four coefficients. Until e840274 the cube root in
/// Cardano's formula went through the squared modulus (underflow -> k = 0 -> d0 / k = NaN): three NaN roots, both settings.
fn tiny_part_cubic_space(ctx: &Ctx) {
    let centres: Vec<C> = vec![(1., 0.), (-2., 0.), (1., 1.), (0., 0.5)];
    let tiny: Vec<f64> = vec![1e-131, 4.242645593799271e-131, 1e-150, 1e-162, 1e-165, 1e-170, 1e-200, 1e-250, 1e-300, 1e-310, 1e-320, -1e-200];
    ctx.lattice(
        "cubics (x - r)^3 with a tiny part (1e-131..1e-320) added to one coefficient: 4 centres x 4 coefficients x re/im x 12 sizes x refine",
        (centres.len() * 4 * 2 * tiny.len() * 2) as u64,
        |idx| format!("#{}", idx),
        |idx, acc| {
            let refine = idx % 2 == 1;
            let mut k = (idx / 2) as usize;
            let ti = k % tiny.len();
            k /= tiny.len();
            let im = k % 2 == 1;
            k /= 2;
            let cj = k % 4;
            let ci = k / 4;
            let r = centres[ci];
            let mut c = expand((1., 0.), &vec![r; 3]);
            if im {
                c[cj].1 += tiny[ti];
            } else {
                c[cj].0 += tiny[ti];
            }
            acc.nontriv("triple root with a tiny part in one coefficient");
            let key = || format!("tiny-part cubic coeffs={:?} refine={}", c, refine);
            let mut local = Acc::new("t");
            let res = catch(|| -> Result<(), String> {
                let g = run_cmplx(&c, refine);
                judge_roots(&c, &g, refine, false, &mut local, "tiny-part cubic")?;
                for z in &g {
                    ensure!(cabs(csub(*z, r)) <= 1e-4 * cabs(r).max(1.0), "returned value {:?} is not next to the triple root {:?}", z, r);
                }
                Ok(())
            });
            acc.merge_worst(local);
            match res {
                Ok(Ok(())) => {}
                Ok(Err(e)) => acc.fail(idx, key(), e),
                Err(p) => acc.fail(idx, key(), format!("unexpected panic: {}", p)),
            }
        },
    );
}

/// cubics a ( ( x + s )^3 + t ): b^2 = 3 a c holds exactly ( the first Cardano discriminant vanishes ) while the second does not -
/// three simple roots on a circle around -s, an equilateral triangle, which no multiset over the root alphabet contains. The coefficients
/// are products of small integers / dyadics and exact. Oracle: the root oracle, and the polynomial rebuilt from the returned values
/// must be the given one ( one-to-one correspondence without knowing the roots: a value returned twice leaves another root out )
fn equilateral_cubic_space(ctx: &Ctx) {
    let leads: Vec<C> = vec![(1., 0.), (-2., 0.), (0., 1.), (0.5, 0.5)];
    let shifts: Vec<C> = vec![(0., 0.), (1., 0.), (-1., 0.), (2., 0.), (0., 1.), (0.5, 0.), (1., -1.), (-3., 0.)];
    let ts: Vec<C> = vec![(1., 0.), (-1., 0.), (8., 0.), (2., 0.), (0., 1.), (0., 27.), (-0.125, 0.), (1000., 0.), (3., -4.), (1., 1.)];
    ctx.lattice(
        "cubics a((x+s)^3 + t) with exactly vanishing first Cardano discriminant: 4 leads x 8 shifts x 10 constants x refine x entry point",
        (leads.len() * shifts.len() * ts.len() * 4) as u64,
        |idx| format!("#{}", idx),
        |idx, acc| {
            let refine = idx % 2 == 1;
            let real_entry = (idx / 2) % 2 == 1;
            let mut k = (idx / 4) as usize;
            let t = ts[k % ts.len()];
            k /= ts.len();
            let s = shifts[k % shifts.len()];
            let a = leads[k / shifts.len()];
            let s2 = cmul(s, s);
            let c: Vec<C> = vec![cmul(a, cadd(cmul(s2, s), t)), cmul(a, cmul((3., 0.), s2)), cmul(a, cmul((3., 0.), s)), a];
            let all_real = c.iter().all(|z| z.1 == 0.0);
            if real_entry && !all_real {
                return;
            }
            acc.nontriv("cubic with b^2 = 3ac exactly and three simple roots");
            let key = || format!("equilateral cubic coeffs={:?} refine={} via {}", c, refine, if real_entry { "Polynomial<f64>" } else { "Polynomial<Cmplx>" });
            let mut local = Acc::new("t");
            let res = catch(|| -> Result<(), String> {
                let g: Vec<C> = if real_entry {
                    Polynomial::new(c.iter().map(|z| z.0).collect::<Vec<f64>>()).roots(refine).vec.iter().map(|z| (z.real, z.imag)).collect()
                } else {
                    run_cmplx(&c, refine)
                };
                judge_roots(&c, &g, refine, false, &mut local, "equilateral cubic")?;
                let back = expand(a, &g);
                let amax = c.iter().map(|z| cabs(*z)).fold(0.0, f64::max);
                let e = (0..4).map(|i| cabs(csub(back[i], c[i]))).fold(0.0, f64::max) / amax;
                local.worst("rebuilt_polynomial_error_simple_roots", e, || format!("{:?}", c));
                ensure!(e <= 1e-9, "the polynomial rebuilt from the returned values differs from the given one by {:e}: returned {:?}", e, g);
                Ok(())
            });
            acc.merge_worst(local);
            match res {
                Ok(Ok(())) => {}
                Ok(Err(e)) => acc.fail(idx, key(), e),
                Err(p) => acc.fail(idx, key(), format!("unexpected panic: {}", p)),
            }
        },
    );
}

/// listed inputs of the third bug hunt (hunt/C10/round3): Laguerre cycles that used up the iterations and left a non-root, which was
/// accepted, deflated with and - with refinement - polished from the same start into the same cycle. Repaired by 6337919 / 6b77f24.
fn hunt3_cases(ctx: &Ctx) {
    let p_int: Vec<f64> = vec![4.0, -1100.0, -76.0, 29.0, -70.0, -82.0, -280.0, -4.0, 270.0, -2.0, 160.0, -60.0, 15.0];
    let p_dec: Vec<f64> = vec![2.0, -1000.0, -77.0, 29.0, -68.0, -84.0, -270.0, -1.5, 290.0, -2.1, 170.0, -58.0, 15.0];
    let p_real: Vec<f64> = vec![4.996221309787883, 1.1057363746250348, 0.0, 0.0, 0.0, 0.0, 0.0, -2.492198747596697, 1.7540019226640604, -2.4775113058397698, 1.030917771032082];
    let p_cplx: Vec<C> = vec![(0.4809867521981873, 0.8391377544488422), (0.7805861874146378, 0.6524832627751617), (0.0, 0.0), (0.0, 0.0), (0.0, 0.0), (0.0, 0.0), (-0.210830191931375, -0.7821951135183722), (-0.41370915575171874, 0.9365357446424026), (0.0, 0.0), (-0.4504660786811291, -0.809994318306869), (0.7909215375545932, 0.6112843323268623)];
    let mut cases: Vec<(String, Box<dyn Fn() -> Result<(), String> + Sync + Send>)> = vec![];
    let mut polys: Vec<(&'static str, Vec<C>, bool)> = vec![
        ("degree 12, integer coefficients (real-axis hopping)", p_int.iter().map(|a| (*a, 0.0)).collect(), true),
        ("degree 12, two-digit decimal neighbour", p_dec.iter().map(|a| (*a, 0.0)).collect(), true),
        ("degree 10, real sparse (2-cycle between the flat region and -a0/a1)", p_real.iter().map(|a| (*a, 0.0)).collect(), true),
        ("degree 10, complex sparse", p_cplx, false),
    ];
    for (name, c, real) in polys.drain(..) {
        for refine in [false, true] {
            let c = c.clone();
            cases.push((
                format!("hunt3 {} refine={}", name, refine),
                Box::new(move || {
                    let mut local = Acc::new("t");
                    let g = run_cmplx(&c, refine);
                    judge_roots(&c, &g, refine, false, &mut local, "hunt3")?;
                    if real {
                        let pr = Polynomial::<f64>::new(c.iter().map(|z| z.0).collect());
                        let gr: Vec<C> = pr.roots(refine).vec.iter().map(|z| (z.real, z.imag)).collect();
                        judge_roots(&c, &gr, refine, false, &mut local, "hunt3 (f64 entry)")?;
                    }
                    // the roots of all four polynomials are simple and at least 0.3 max(|r_i|,|r_j|) apart: no two returned values
                    // may coincide (refined)
                    if refine {
                        for i in 0..g.len() {
                            for j in 0..i {
                                ensure!(cabs(csub(g[i], g[j])) >= 0.1 * cabs(g[i]).max(cabs(g[j])), "the returned values {:?} and {:?} coincide although all roots are well separated; returned {:?}", g[i], g[j], g);
                            }
                        }
                    }
                    Ok(())
                }),
            ));
        }
    }
    ctx.listed_cases("listed inputs of the third bug hunt: Laguerre cycles that used up the iterations (repaired by 6337919 / 6b77f24)", cases);
}

fn bits_of(v: &[C]) -> Vec<(u64, u64)> {
    v.iter().map(|z| (z.0.to_bits(), z.1.to_bits())).collect()
}
impl mc::bfs::Sut for St {
    type Act = Act;
    fn key(&self) -> mc::bfs::Key {
        let mut k = vec![self.m.len() as i128];
        for x in &self.m {
            k.push(x.to_bits() as i128);
        }
        k
    }
    fn actions(&self) -> Vec<Act> {
        let n = self.m.len();
        let mut a = vec![];
        for i in 0..n {
            for v in [0, 1, -2] {
                a.push(Act::SetIdx(i, v));
            }
            a.push(Act::SetViaCoeffs(i, 3));
        }
        if n < 6 {
            a.push(Act::Push(1));
            a.push(Act::Push(-1));
            // a zero pushed through coeffs(): the next trim() has something to remove (a remembered "already trimmed" must not survive the handle)
            a.push(Act::Push(0));
        }
        if n > 2 {
            a.push(Act::Pop);
        }
        a.push(Act::Trim);
        // trim() of a trimmed polynomial changes nothing observable, so the search (which merges states of equal content) never goes on from
        // it: the history "trim, push a zero through coeffs(), trim" as one transition (round 16)
        a.push(Act::TrimPush0Trim);
        a
    }
    fn warm(&self) {
        // a one-entry memo keeps only the LAST query: end the warm-up with the flag the check will ask for first
        let f = self.m.len() % 2 == 0;
        let _ = catch(|| self.p.roots(!f));
        let _ = catch(|| self.p.roots(f));
        let _ = catch(|| self.pr.roots(!f));
        let _ = catch(|| self.pr.roots(f));
    }
    fn step(&mut self, a: &Act, hits: &mut Vec<&'static str>) -> Result<(), String> {
        match a.clone() {
            Act::SetIdx(i, v) => {
                self.p[i] = Cmplx::new(v as f64, 0.0);
                self.pr[i] = v as f64;
                self.m[i] = v as f64;
                hits.push("coefficient written through IndexMut after a roots() call");
            }
            Act::SetViaCoeffs(i, v) => {
                self.p.coeffs()[i] = Cmplx::new(v as f64, 0.0);
                self.pr.coeffs()[i] = v as f64;
                self.m[i] = v as f64;
            }
            Act::Push(v) => {
                self.p.coeffs().push(Cmplx::new(v as f64, 0.0));
                self.pr.coeffs().push(v as f64);
                self.m.push(v as f64);
            }
            Act::Pop => {
                self.p.coeffs().pop();
                self.pr.coeffs().pop();
                self.m.pop();
            }
            Act::TrimPush0Trim => {
                for _ in 0..2 {
                    self.p.trim();
                    self.pr.trim();
                    while self.m.len() > 1 && *self.m.last().unwrap() == 0.0 {
                        self.m.pop();
                    }
                    self.p.coeffs().push(Cmplx::new(0.0, 0.0));
                    self.pr.coeffs().push(0.0);
                    self.p.trim();
                    self.pr.trim();
                }
            }
            Act::Trim => {
                self.p.trim();
                self.pr.trim();
                while self.m.len() > 1 && *self.m.last().unwrap() == 0.0 {
                    self.m.pop();
                }
            }
        }
        self.check()
    }
    fn check(&self) -> Result<(), String> {
        ensure!(self.p.size() == self.m.len() && self.pr.size() == self.m.len(), "size {} / {} expected {}", self.p.size(), self.pr.size(), self.m.len());
        for i in 0..self.m.len() {
            ensure!(self.p[i] == Cmplx::new(self.m[i], 0.0) && self.pr[i] == self.m[i], "coefficient {}", i);
        }
        let lead = *self.m.last().unwrap();
        if self.m.len() < 2 || lead == 0.0 {
            return Ok(()); // degree 0 or zero leading coefficient: outside the claim
        }
        let c: Vec<C> = self.m.iter().map(|x| (*x, 0.0)).collect();
        let f0 = self.m.len() % 2 == 0;
        for refine in [f0, !f0] {
            // differential oracle: the object with a history must answer exactly like a freshly built one
            let fresh = run_cmplx(&c, refine);
            let hist: Vec<C> = self.p.roots(refine).vec.iter().map(|z| (z.real, z.imag)).collect();
            ensure!(bits_of(&fresh) == bits_of(&hist), "roots({}) of the edited object {:?} differ from those of a fresh polynomial {:?} (coefficients {:?})", refine, hist, fresh, self.m);
            let freshr: Vec<C> = Polynomial::new(self.m.clone()).roots(refine).vec.iter().map(|z| (z.real, z.imag)).collect();
            let histr: Vec<C> = self.pr.roots(refine).vec.iter().map(|z| (z.real, z.imag)).collect();
            ensure!(bits_of(&freshr) == bits_of(&histr), "Polynomial<f64>::roots({}) of the edited object differs from a fresh one (coefficients {:?})", refine, self.m);
            let mut local = Acc::new("t");
            judge_roots(&c, &hist, refine, false, &mut local, "history")?;
        }
        Ok(())
    }
    fn classes(&self, hits: &mut Vec<&'static str>) {
        if self.m.len() >= 5 {
            hits.push("history state of degree >= 4");
        }
    }
    fn show(&self) -> String {
        format!("{:?}", self.m)
    }
}

fn main() {
    let ctx = Ctx::from_args("C10");
    ctx.level("model_checking");
    ctx.rule("E2: BFS over histories in which a polynomial object is queried for its roots, edited (index writes, coeffs() writes / push / pop, trim) and queried again: the answers must be bit-identical to those of a freshly built polynomial and pass the root oracle. E1: (a) every multiset of 1..7 (quick) / 1..11 (thorough) roots from {0,+-1,+-i,2,1/2,1+-i,-3,1e3,1e-3} x leading coefficient {1,-2,3i,1e3} x refine, through Polynomial<Cmplx>::roots; conjugate-closed multisets up to degree 7 / 12 through Polynomial<f64>::roots; (b) every coefficient vector over 5 integer / Gaussian-integer letters with non-zero lead for degree 1..6 (thorough 9); (c) degree 8..12 products of every integer polynomial of degree <= 4 (thorough 7) with x^k-1; (d) nearly binomial polynomials lead x^n + a x^k + c, n = 4..12, |c| up to 1e6; (e) EVERY coefficient vector over the wide-scale complex letters {1, i, +-1e3, +-1e3 i, +-1e-3, +-1e-3 i} for degree 2..5 (thorough 6). Oracle: exactly n finite values; |p(z)|/(max|a_k| max(1,|z|)^n) <= 1e-9 with and without refinement (1e-12 for the linear/quadratic closed forms, 1e-7 for Cardano); simple roots separated by >= 1/2 are matched one-to-one within 1e-6 (refined); degree 0 is rejected. Non-trivial: roots at zero, repeated roots, non-real roots, vanishing inner coefficients, iterative path, root ratio up to 1e6.");
    ctx.assume("multisets with more than one root of modulus 1e3 or 1e-3 are skipped: their coefficient ratio exceeds the 1e6 of the property's domain");
    ctx.threshold("backward_error_refined", BE_REFINED);
    ctx.threshold("backward_error_unrefined_roots_below_10", BE_UNREFINED_SMALL);
    ctx.threshold("backward_error_unrefined_with_root_1e3", BE_UNREFINED_LARGE);
    ctx.threshold("backward_error_unrefined_closed_form_degree_1_2", BE_QUADRATIC);
    ctx.threshold("backward_error_unrefined_cardano_degree_3", BE_CARDANO);
    ctx.threshold("rebuilt_polynomial_error_simple_roots", 1e-9);
    ctx.threshold("rebuilt_polynomial_error_well_conditioned", 1e-6);
    ctx.require(&["repeated root", "root at zero", "non-real root", "iterative path (degree >= 4)", "closed-form path (degree <= 3)", "vanishing inner coefficient", "conjugate pair", "matched against the true roots", "degree 8..12", "coefficients of mixed scale (ratio up to 1e6)", "coefficient written through IndexMut after a roots() call", "history state of degree >= 4", "nearly binomial polynomial", "clustered roots", "multiple root with inexact coefficients", "all roots small", "cubic with b^2 = 3ac exactly and three simple roots"]);
    for k in 1..=ctx.pick(7, 11) {
        multiset_space(&ctx, k);
    }
    real_space(&ctx, ctx.pick(7, 12));
    for d in 1..=ctx.pick(6, 9) {
        coeff_space(&ctx, d, false);
        coeff_space(&ctx, d, true);
    }
    high_degree_space(&ctx, ctx.pick(4, 7));
    near_binomial_space(&ctx, 12);
    clustered_space(&ctx);
    small_root_space(&ctx);
    for d in 2..=ctx.pick(5, 6) {
        wide_scale_space(&ctx, d);
    }
    for d in 2..=ctx.pick(5, 6) {
        zero_constant_space(&ctx, d);
    }
    tiny_lead_space(&ctx);
    ring_space(&ctx, ctx.pick(9, 12));
    ring_with_others_space(&ctx);
    ring_known_case(&ctx);
    hunt4_cases(&ctx);
    tiny_part_cubic_space(&ctx);
    equilateral_cubic_space(&ctx);
    hunt3_cases(&ctx);
    {
        let depth = ctx.pick(3, 4);
        let mk = |m: Vec<f64>| St { p: Polynomial::new(m.iter().map(|x| Cmplx::new(*x, 0.0)).collect()), pr: Polynomial::new(m.clone()), m };
        let inits = vec![mk(vec![-4.0, -3.0, 1.0]), mk(vec![2.0, 0.0, -3.0, 1.0]), mk(vec![-1.0, 0.0, 0.0, 0.0, 1.0])];
        mc::bfs::explore(&ctx, "query / edit / query histories on one polynomial object", inits.clone(), mc::bfs::BfsOpts { max_depth: depth, state_cap: ctx.pick(300_000, 5_000_000) });
        if ctx.quick() {
            mc::bfs::crosscheck_stateright(&ctx, "query / edit / query histories on one polynomial object", inits, depth);
        }
    }
    // degree 0 is rejected
    ctx.lattice(
        "degree-0 polynomials are rejected",
        4,
        |i| format!("constant #{}", i),
        |i, acc| {
            acc.nontriv("degree 0");
            let c = [1.0, -2.0, 0.0, 1e3][i as usize];
            for refine in [false, true] {
                let r1 = catch(|| Polynomial::new(vec![c]).roots(refine));
                let r2 = catch(|| Polynomial::new(vec![Cmplx::new(c, 1.0)]).roots(refine));
                if r1.is_ok() || r2.is_ok() {
                    acc.fail(i, format!("constant polynomial {}", c), "roots() of a degree-0 polynomial returned instead of rejecting".to_string());
                }
            }
        },
    );
    std::process::exit(ctx.finish());
}
