//! C15 - vector arithmetic, reductions, norms and edits match their definitions under any history.
use mc::bfs::*;
use mc::fl::ulps;
use mc::*;
use ohsl::{Cmplx, Complex, Vector};

fn letters() -> Vec<Rat> {
    vec![r(0), r(1), r(-1), r(2), rq(1, 2)]
}
fn vec_of(mut idx: u64, len: usize, l: &[Rat]) -> Vec<Rat> {
    (0..len)
        .map(|_| {
            let v = l[(idx % l.len() as u64) as usize];
            idx /= l.len() as u64;
            v
        })
        .collect()
}
fn sh(v: &[Rat]) -> String {
    mc::model::showv(v)
}
fn eqv(got: &Vector<Rat>, want: &[Rat], what: &str) -> Result<(), String> {
    ensure!(got.vec == want, "{}: {} expected {}", what, sh(&got.vec), sh(want));
    ensure!(got.size() == want.len(), "{}: size", what);
    Ok(())
}
fn abs(x: Rat) -> Rat {
    if x < r(0) {
        -x
    } else {
        x
    }
}

fn pair_case(a: &[Rat], b: &[Rat]) -> Result<(), String> {
    let n = a.len();
    let (va, vb) = (Vector::create(a.to_vec()), Vector::create(b.to_vec()));
    let sum: Vec<Rat> = (0..n).map(|i| a[i] + b[i]).collect();
    let dif: Vec<Rat> = (0..n).map(|i| a[i] - b[i]).collect();
    eqv(&(&va + &vb), &sum, "&a + &b")?;
    eqv(&(va.clone() + &vb), &sum, "a + &b")?;
    eqv(&(va.clone() + vb.clone()), &sum, "a + b")?;
    eqv(&(&va - &vb), &dif, "&a - &b")?;
    eqv(&(va.clone() - &vb), &dif, "a - &b")?;
    eqv(&(va.clone() - vb.clone()), &dif, "a - b")?;
    let mut t = va.clone();
    t += vb.clone();
    eqv(&t, &sum, "a += b")?;
    let mut t = va.clone();
    t -= vb.clone();
    eqv(&t, &dif, "a -= b")?;
    let d = (0..n).fold(r(0), |s, i| s + a[i] * b[i]);
    ensure!(va.dot(&vb) == d, "dot = {} expected {}", va.dot(&vb), d);
    ensure!(vb.dot(&va) == d, "dot not symmetric");
    eqv(&va, a, "a untouched")?;
    eqv(&vb, b, "b untouched")?;
    Ok(())
}

fn single_case(a: &[Rat]) -> Result<(), String> {
    let n = a.len();
    let va = Vector::create(a.to_vec());
    ensure!(va.size() == n, "size");
    eqv(&va.clone(), a, "clone")?;
    eqv(&(-va.clone()), &a.iter().map(|x| -*x).collect::<Vec<_>>(), "-a")?;
    for s in [r(2), rq(-3, 2), r(0)] {
        eqv(&(va.clone() * s), &a.iter().map(|x| *x * s).collect::<Vec<_>>(), "a * s")?;
        let mut t = va.clone();
        t *= s;
        eqv(&t, &a.iter().map(|x| *x * s).collect::<Vec<_>>(), "a *= s")?;
        let mut t = va.clone();
        t += s;
        eqv(&t, &a.iter().map(|x| *x + s).collect::<Vec<_>>(), "a += s")?;
        let mut t = va.clone();
        t -= s;
        eqv(&t, &a.iter().map(|x| *x - s).collect::<Vec<_>>(), "a -= s")?;
        if !s.is_zero() {
            eqv(&(va.clone() / s), &a.iter().map(|x| *x / s).collect::<Vec<_>>(), "a / s")?;
            let mut t = va.clone();
            t /= s;
            eqv(&t, &a.iter().map(|x| *x / s).collect::<Vec<_>>(), "a /= s")?;
        }
    }
    eqv(&va.abs(), &a.iter().map(|x| abs(*x)).collect::<Vec<_>>(), "abs")?;
    ensure!(va.norm_1() == a.iter().fold(r(0), |s, x| s + abs(*x)), "norm_1");
    // range reductions for every (start, end)
    for s in 0..n {
        for e in s..n {
            let want = (s..=e).fold(r(0), |acc, i| acc + a[i]);
            ensure!(va.sum_slice(s, e) == want, "sum_slice({},{}) = {} expected {}", s, e, va.sum_slice(s, e), want);
            let wantp = (s..=e).fold(r(1), |acc, i| acc * a[i]);
            ensure!(va.product_slice(s, e) == wantp, "product_slice({},{}) = {} expected {}", s, e, va.product_slice(s, e), wantp);
        }
    }
    if n > 0 {
        ensure!(va.sum() == a.iter().fold(r(0), |s, x| s + *x), "sum");
        ensure!(va.product() == a.iter().fold(r(1), |s, x| s * *x), "product");
    } else {
        // the empty sum is 0 and the empty product 1 (their definitions); a search in nothing has no index: a panic is accepted,
        // a returned index is not
        let es = catch(|| va.sum()).map_err(|p| format!("sum() of the empty vector panicked: {}", p))?;
        ensure!(es == r(0), "sum() of the empty vector = {}", es);
        let ep = catch(|| va.product()).map_err(|p| format!("product() of the empty vector panicked: {}", p))?;
        ensure!(ep == r(1), "product() of the empty vector = {}", ep);
        ensure!(catch(|| va.find(r(1))).is_err(), "find in an empty vector returned an index");
    }
    // find: first match, else last index
    for v in [r(0), r(1), r(7)] {
        if n > 0 {
            let want = a.iter().position(|x| *x == v).unwrap_or(n - 1);
            ensure!(va.find(v) == want, "find({}) = {} expected {}", v, va.find(v), want);
        }
    }
    // sort
    let mut t = va.clone();
    t.sort();
    let mut w = a.to_vec();
    w.sort();
    eqv(&t, &w, "sort")?;
    let mut t = va.clone();
    t.sort_by(|x, y| y.cmp(x));
    w.reverse();
    eqv(&t, &w, "sort_by descending")?;
    // constructors
    eqv(&Vector::<Rat>::zeros(n), &vec![r(0); n], "zeros")?;
    eqv(&Vector::<Rat>::ones(n), &vec![r(1); n], "ones")?;
    eqv(&Vector::<Rat>::new(n, r(5)), &vec![r(5); n], "new")?;
    ensure!(Vector::<Rat>::empty().size() == 0, "empty");
    // complex companions: conj / real
    let vc: Vector<Complex<Rat>> = Vector::create(a.iter().enumerate().map(|(i, x)| Complex::new(*x, r(i as i64 - 1))).collect());
    let cj = vc.conj();
    let re = vc.real();
    for i in 0..n {
        ensure!(cj[i].real == a[i] && cj[i].imag == -r(i as i64 - 1), "conj[{}]", i);
        ensure!(re[i] == a[i], "real[{}]", i);
    }
    ensure!(cj.size() == n && re.size() == n, "conj/real sizes");
    Ok(())
}

fn norms_case(x: &[f64]) -> Result<(), String> {
    let n = x.len();
    let v = Vector::create(x.to_vec());
    // integer-valued data: exact reference values
    let n1: f64 = x.iter().map(|t| t.abs()).sum();
    let ninf = x.iter().fold(0.0f64, |m, t| m.max(t.abs()));
    let sq: f64 = x.iter().map(|t| t * t).sum();
    ensure!(v.norm_1() == n1, "norm_1 {} expected {}", v.norm_1(), n1);
    ensure!(ulps(v.norm_2(), sq.sqrt()) <= 2, "norm_2 {} expected {}", v.norm_2(), sq.sqrt());
    if n > 0 {
        ensure!(v.norm_inf() == ninf, "norm_inf {} expected {}", v.norm_inf(), ninf);
    } else {
        let e = catch(|| v.norm_inf()).map_err(|p| format!("norm_inf() of the empty vector panicked: {}", p))?;
        ensure!(e == 0.0, "norm_inf() of the empty vector = {} (every other norm of it is 0)", e);
    }
    for p in [1.0, 1.5, 2.0, 3.0, 8.0] {
        let want = x.iter().map(|t| t.abs().powf(p)).sum::<f64>().powf(1.0 / p);
        let got = v.norm_p(p);
        ensure!(got >= 0.0 || n == 0, "norm_p negative");
        ensure!(mc::fl::rel(got, want) <= 1e-14 || (got == 0.0 && want == 0.0), "norm_p({}) = {} expected {}", p, got, want);
        if n > 0 {
            // inf-norm <= p-norm <= 1-norm
            ensure!(ninf <= got * (1.0 + 1e-14) && got <= n1 * (1.0 + 1e-14), "norm_inf <= norm_p({}) <= norm_1 violated: {} {} {}", p, ninf, got, n1);
        }
    }
    if n > 0 {
        ensure!(ninf <= v.norm_2() * (1.0 + 4.0 * f64::EPSILON) && v.norm_2() <= n1 * (1.0 + 4.0 * f64::EPSILON), "norm_inf <= norm_2 <= norm_1 violated");
    }
    // homogeneity
    for al in [-2.0, 0.5, 3.0] {
        let s = v.clone() * al;
        ensure!(s.norm_1() == al.abs() * n1, "homogeneity norm_1");
        ensure!(ulps(s.norm_2(), al.abs() * v.norm_2()) <= 4, "homogeneity norm_2");
        let l = al * v.clone();
        ensure!(l.vec == s.vec, "f64 * Vector != Vector * f64");
    }
    // scalar operations over f64: each element is the correctly rounded x op s, compound forms bit-identical to binary forms
    for sc in [3.0, 7.0, 49.0, 0.1, -1.5] {
        let d = v.clone() / sc;
        let mt = v.clone() * sc;
        let mut da = v.clone();
        da /= sc;
        let mut ma = v.clone();
        ma *= sc;
        let mut aa = v.clone();
        aa += sc;
        let mut sa = v.clone();
        sa -= sc;
        for i in 0..n {
            ensure!(d[i].to_bits() == (x[i] / sc).to_bits(), "v / {}: element {} = {} expected {}", sc, i, d[i], x[i] / sc);
            ensure!(da[i].to_bits() == d[i].to_bits(), "v /= {} differs from v / {}: {} vs {}", sc, sc, da[i], d[i]);
            ensure!(mt[i].to_bits() == (x[i] * sc).to_bits() && ma[i].to_bits() == mt[i].to_bits(), "v * {} / v *= {}", sc, sc);
            ensure!(aa[i].to_bits() == (x[i] + sc).to_bits() && sa[i].to_bits() == (x[i] - sc).to_bits(), "v += {} / v -= {}", sc, sc);
        }
    }
    // triangle inequality against a shifted copy
    let y: Vec<f64> = (0..n).map(|i| x[(i + 1) % n.max(1)] * -1.0 + 1.0).collect();
    let w = Vector::create(y.clone());
    let s = &v + &w;
    ensure!(s.norm_1() <= v.norm_1() + w.norm_1(), "triangle norm_1");
    ensure!(s.norm_2() <= (v.norm_2() + w.norm_2()) * (1.0 + 4.0 * f64::EPSILON), "triangle norm_2");
    if n > 0 {
        ensure!(s.norm_inf() <= v.norm_inf() + w.norm_inf(), "triangle norm_inf");
    }
    // complex inf-norm
    if n > 0 {
        let vc: Vector<Cmplx> = Vector::create(x.iter().map(|t| Cmplx::new(3.0 * t, 4.0 * t)).collect());
        ensure!(ulps(vc.norm_inf(), 5.0 * ninf) <= 2, "complex norm_inf {} expected {}", vc.norm_inf(), 5.0 * ninf);
    }
    Ok(())
}

fn spacing_case(n: usize, a: f64, b: f64, p: f64) -> Result<(), String> {
    let chk = |v: &Vector<f64>, what: &str| -> Result<(), String> {
        ensure!(v.size() == n, "{}: {} elements expected {}", what, v.size(), n);
        ensure!(v[0] == a, "{}: first element {} != a = {}", what, v[0], a);
        ensure!(ulps(v[n - 1], b) <= 4, "{}: last element {} is not within 4 ulp of b = {}", what, v[n - 1], b);
        for i in 1..n {
            if a < b {
                ensure!(v[i] > v[i - 1], "{}: not increasing at {} ({} then {})", what, i, v[i - 1], v[i]);
            } else {
                ensure!(v[i] < v[i - 1], "{}: not decreasing at {}", what, i);
            }
        }
        Ok(())
    };
    chk(&Vector::linspace(a, b, n), "linspace")?;
    chk(&Vector::powspace(a, b, n, p), &format!("powspace(p={})", p))?;
    if p == 1.0 {
        let l = Vector::linspace(a, b, n);
        let q = Vector::powspace(a, b, n, 1.0);
        for i in 0..n {
            ensure!((l[i] - q[i]).abs() <= 8.0 * f64::EPSILON * a.abs().max(b.abs()), "powspace(p=1) differs from linspace at {}: {} vs {}", i, l[i], q[i]);
        }
    }
    Ok(())
}

// --- Vector<Complex<f64>> and Vector<f64> on exactly representable data, against exact Gaussian-rational arithmetic ---------
use mc::model::CQ;
fn cq(re: i64, im: i64) -> CQ {
    CQ::new(r(re), r(im))
}
/// letters with integer moduli (Pythagorean), on both axes and in all quadrants
fn cletters() -> Vec<CQ> {
    vec![cq(0, 0), cq(1, 0), cq(-2, 0), cq(0, 1), cq(0, -2), cq(3, 4), cq(-4, 3), cq(5, -12), cq(-3, -4)]
}
fn modulus(z: CQ) -> f64 {
    // exact for the letters above (and their products): sqrt of a perfect square
    let s = (z.re * z.re + z.im * z.im).to_f64();
    s.sqrt()
}
fn c_eq(got: Cmplx, want: CQ) -> bool {
    got.real == want.re.to_f64() && got.imag == want.im.to_f64()
}
fn c_of(z: CQ) -> Cmplx {
    Cmplx::new(z.re.to_f64(), z.im.to_f64())
}
fn shc(v: &[CQ]) -> String {
    format!("[{}]", v.iter().map(|z| format!("{}{:+}i", z.re, z.im.to_f64())).collect::<Vec<_>>().join(", "))
}
fn cvec_eq(got: &Vector<Cmplx>, want: &[CQ], what: &str) -> Result<(), String> {
    ensure!(got.size() == want.len(), "{}: size {} expected {}", what, got.size(), want.len());
    for i in 0..want.len() {
        ensure!(c_eq(got[i], want[i]), "{}: element {} = {} expected {}", what, i, got[i], shc(&want[i..=i]));
    }
    Ok(())
}
fn complex_case(a: &[CQ], b: &[CQ]) -> Result<(), String> {
    let n = a.len();
    let va: Vector<Cmplx> = Vector::create(a.iter().map(|z| c_of(*z)).collect());
    let vb: Vector<Cmplx> = Vector::create(b.iter().map(|z| c_of(*z)).collect());
    let sum: Vec<CQ> = (0..n).map(|i| a[i].add(b[i])).collect();
    let dif: Vec<CQ> = (0..n).map(|i| a[i].sub(b[i])).collect();
    cvec_eq(&(&va + &vb), &sum, "&a + &b")?;
    cvec_eq(&(va.clone() + vb.clone()), &sum, "a + b")?;
    cvec_eq(&(&va - &vb), &dif, "&a - &b")?;
    cvec_eq(&(va.clone() - &vb), &dif, "a - &b")?;
    let mut t = va.clone();
    t += vb.clone();
    cvec_eq(&t, &sum, "a += b")?;
    let mut t = va.clone();
    t -= vb.clone();
    cvec_eq(&t, &dif, "a -= b")?;
    cvec_eq(&(-va.clone()), &a.iter().map(|z| z.neg()).collect::<Vec<_>>(), "-a")?;
    let d = (0..n).fold(CQ::zero(), |s, i| s.add(a[i].mul(b[i])));
    ensure!(c_eq(va.dot(&vb), d), "dot = {} expected {}", va.dot(&vb), shc(&[d]));
    ensure!(c_eq(vb.dot(&va), d), "dot not symmetric");
    // scalar forms with scalars on both axes and off them
    for s in [cq(2, 0), cq(0, 1), cq(0, -2), cq(1, 1), cq(-3, 4)] {
        let sc = c_of(s);
        let prod: Vec<CQ> = a.iter().map(|z| z.mul(s)).collect();
        cvec_eq(&(va.clone() * sc), &prod, &format!("a * ({})", sc))?;
        let mut t = va.clone();
        t *= sc;
        cvec_eq(&t, &prod, &format!("a *= ({})", sc))?;
        let mut t = va.clone();
        t += sc;
        cvec_eq(&t, &a.iter().map(|z| z.add(s)).collect::<Vec<_>>(), "a += s")?;
        let mut t = va.clone();
        t -= sc;
        cvec_eq(&t, &a.iter().map(|z| z.sub(s)).collect::<Vec<_>>(), "a -= s")?;
        // quotient: exact value is a Gaussian rational; each part must be within 2 ulp (exact when representable)
        let q = va.clone() / sc;
        let mut qa = va.clone();
        qa /= sc;
        for i in 0..n {
            let w = a[i].div(s);
            ensure!(ulps(q[i].real, w.re.to_f64()) <= 2 && ulps(q[i].imag, w.im.to_f64()) <= 2, "a / ({}): element {} = {} expected {}", sc, i, q[i], shc(&[w]));
            ensure!(ulps(qa[i].real, w.re.to_f64()) <= 2 && ulps(qa[i].imag, w.im.to_f64()) <= 2, "a /= ({}): element {} = {} expected {}", sc, i, qa[i], shc(&[w]));
        }
    }
    // moduli: abs() element-wise (modulus in the real part), 1-norm = sum of moduli, inf-norm = largest modulus
    let ab = va.abs();
    ensure!(ab.size() == n, "abs size");
    let mut n1 = 0.0;
    let mut ninf = 0.0f64;
    for i in 0..n {
        let m = modulus(a[i]);
        ensure!(ab[i].real == m && ab[i].imag == 0.0, "abs(): element {} = {} expected {} (|{}|)", i, ab[i], m, shc(&a[i..=i]));
        n1 += m;
        ninf = ninf.max(m);
    }
    let g1 = va.norm_1();
    ensure!(g1.real == n1 && g1.imag == 0.0, "norm_1 = {} expected {}", g1, n1);
    if n > 0 {
        ensure!(va.norm_inf() == ninf, "norm_inf = {} expected {}", va.norm_inf(), ninf);
        ensure!(ninf <= n1, "norm_inf <= norm_1");
        // homogeneity and invariance under multiplication by a unit
        for s in [cq(-1, 0), cq(0, 1), cq(0, -1)] {
            let w = va.clone() * c_of(s);
            ensure!(w.norm_1().real == n1 && w.norm_inf() == ninf, "norms changed under multiplication by the unit {}", c_of(s));
        }
        let w = va.clone() * c_of(cq(3, -4));
        ensure!(w.norm_1().real == 5.0 * n1 && w.norm_inf() == 5.0 * ninf, "homogeneity under (3-4i)");
        let s = &va + &vb;
        ensure!(s.norm_1().real <= n1 + vb.norm_1().real && s.norm_inf() <= ninf + vb.norm_inf(), "triangle inequality");
        let (sm, pr) = (va.sum(), va.product());
        ensure!(c_eq(sm, a.iter().fold(CQ::zero(), |s, z| s.add(*z))), "sum = {}", sm);
        ensure!(c_eq(pr, a.iter().fold(cq(1, 0), |s, z| s.mul(*z))), "product = {}", pr);
    } else {
        let e = catch(|| va.norm_inf()).map_err(|p| format!("norm_inf() of the empty complex vector panicked: {}", p))?;
        ensure!(e == 0.0, "norm_inf() of the empty complex vector = {}", e);
    }
    let cj = va.conj();
    let re = va.real();
    for i in 0..n {
        ensure!(c_eq(cj[i], CQ::new(a[i].re, -a[i].im)), "conj[{}] = {}", i, cj[i]);
        ensure!(re[i] == a[i].re.to_f64(), "real[{}] = {}", i, re[i]);
    }
    // operands untouched
    cvec_eq(&va, a, "a untouched")?;
    cvec_eq(&vb, b, "b untouched")?;
    Ok(())
}

/// limits that coincide or lie a few ulp apart: strict monotonicity is impossible, the sequence must still be monotone and stay inside [a, b]
fn close_spacing_case(n: usize, a: f64, k: u64, p: f64) -> Result<(), String> {
    let b = f64::from_bits(if a >= 0.0 { a.to_bits() + k } else { a.to_bits() - k }); // k ulp above a
    let chk = |v: &Vector<f64>, what: &str| -> Result<(), String> {
        ensure!(v.size() == n, "{}: {} elements expected {}", what, v.size(), n);
        ensure!(v[0] == a, "{}: first element {:e} != a = {:e}", what, v[0], a);
        ensure!(ulps(v[n - 1], b) <= 4, "{}: last element is not within 4 ulp of b", what);
        for i in 0..n {
            ensure!(v[i] >= a && (v[i] <= b || ulps(v[i], b) <= 4), "{}: element {} = {:e} lies outside [a, b] = [{:e}, {:e}]", what, i, v[i], a, b);
            if i > 0 {
                ensure!(v[i] >= v[i - 1], "{}: not monotone at {} ({:e} then {:e}) for a = {:e}, b = a + {} ulp", what, i, v[i - 1], v[i], a, k);
            }
        }
        Ok(())
    };
    chk(&Vector::linspace(a, b, n), "linspace")?;
    chk(&Vector::powspace(a, b, n, p), &format!("powspace(p={})", p))?;
    Ok(())
}

/// norms on data of extreme magnitude (squares overflow above 1.3e154 and underflow below 1.5e-162): the laws are stated
/// for all data, so they must survive; reference 2-norm through an exact power-of-two rescaling
fn extreme_norms_case(x: &[f64]) -> Result<(), String> {
    let n = x.len();
    let v = Vector::create(x.to_vec());
    let ninf = x.iter().fold(0.0f64, |m, t| m.max(t.abs()));
    let n1: f64 = x.iter().map(|t| t.abs()).sum();
    // 2^k >= max |x_i|: dividing by it is exact, the scaled squares are in [0, 1]
    let want2 = if ninf == 0.0 {
        0.0
    } else {
        let k = ninf.log2().ceil() as i32;
        let (h1, h2) = (2.0f64.powi(k / 2), 2.0f64.powi(k - k / 2));
        let s: f64 = x.iter().map(|t| (t / h1 / h2) * (t / h1 / h2)).sum();
        s.sqrt() * h1 * h2
    };
    let g2 = v.norm_2();
    ensure!(g2 >= 0.0 && g2.is_finite(), "norm_2 = {:e} for finite data {:?}", g2, x);
    ensure!(ulps(g2, want2) <= 8, "norm_2 = {:e} expected {:e} for {:?}", g2, want2, x);
    ensure!(v.norm_inf() == ninf, "norm_inf = {:e} expected {:e}", v.norm_inf(), ninf);
    ensure!(v.norm_1() == n1, "norm_1 = {:e} expected {:e}", v.norm_1(), n1);
    let slack = 1.0 + 8.0 * f64::EPSILON;
    ensure!(ninf <= g2 * slack && g2 <= n1 * slack, "inf-norm <= 2-norm <= 1-norm violated: {:e} {:e} {:e} for {:?}", ninf, g2, n1, x);
    for p in [1.5, 3.0, 8.0] {
        let gp = v.norm_p(p);
        ensure!(gp.is_finite() && gp >= 0.0, "norm_p({}) = {:e} for finite data {:?}", p, gp, x);
        ensure!(ninf <= gp * (1.0 + 1e-13) && gp <= n1 * (1.0 + 1e-13), "inf-norm <= {}-norm <= 1-norm violated: {:e} {:e} {:e} for {:?}", p, ninf, gp, n1, x);
        // the value itself, through the same exact power-of-two rescaling as the 2-norm reference
        if ninf > 0.0 {
            let k = ninf.log2().ceil() as i32;
            let (h1, h2) = (2.0f64.powi(k / 2), 2.0f64.powi(k - k / 2));
            let sp: f64 = x.iter().map(|t| (t.abs() / h1 / h2).powf(p)).sum();
            let want = sp.powf(1.0 / p) * h1 * h2;
            ensure!((gp - want).abs() <= 1e-12 * want + 2e-323, "norm_p({}) = {:e} expected {:e} for {:?}", p, gp, want, x);
        }
    }
    // homogeneity under exact scalings that neither overflow nor underflow the data
    for al in [0.5, -4.0] {
        if x.iter().all(|t| *t == 0.0 || ((t * al).abs() < 1e300 && (t * al).abs() > 1e-300)) {
            let s = v.clone() * al;
            ensure!(s.norm_2() == al.abs() * g2, "norm_2({} x) = {:e} but |{}| norm_2(x) = {:e}", al, s.norm_2(), al, al.abs() * g2);
        }
    }
    // triangle inequality against the reversed vector
    let w: Vec<f64> = x.iter().rev().map(|t| -t * 0.5).collect();
    let vw = Vector::create(w);
    let sum = &v + &vw;
    ensure!(sum.norm_2() <= (g2 + vw.norm_2()) * slack, "triangle inequality norm_2");
    let _ = n;
    Ok(())
}

// --- E2 ---------------------------------------------------------------------------------------------------
#[derive(Clone)]
struct St {
    v: Vector<Rat>,
    m: Vec<Rat>,
}
#[derive(Clone, Debug)]
enum Act {
    Push(i64),
    PushFront(i64),
    Insert(usize, i64),
    Pop,
    Swap(usize, usize),
    Resize(usize),
    Assign(i64),
    Clear,
    Sort,
    SetIdx(usize, i64),
}
const CAP: usize = 5;
impl Sut for St {
    type Act = Act;
    fn key(&self) -> Key {
        let mut k = vec![self.m.len() as i128];
        for x in &self.m {
            k.push(x.n);
            k.push(x.d);
        }
        k
    }
    fn actions(&self) -> Vec<Act> {
        let n = self.m.len();
        let mut a = vec![];
        if n < CAP {
            for v in [1, 2, 3] {
                a.push(Act::Push(v));
                a.push(Act::PushFront(v));
            }
            for p in 0..=n {
                a.push(Act::Insert(p, 2));
            }
        }
        if n > 0 {
            a.push(Act::Pop);
            a.push(Act::Assign(3));
            a.push(Act::SetIdx(n - 1, 1));
        }
        for i in 0..n {
            for j in i + 1..n {
                a.push(Act::Swap(i, j));
            }
        }
        for k in 0..=CAP {
            if k != n {
                a.push(Act::Resize(k));
            }
        }
        a.push(Act::Clear);
        a.push(Act::Sort);
        a
    }
    fn step(&mut self, a: &Act, hits: &mut Vec<&'static str>) -> Result<(), String> {
        match a.clone() {
            Act::Push(v) => {
                self.v.push(r(v));
                self.m.push(r(v));
            }
            Act::PushFront(v) => {
                self.v.push_front(r(v));
                self.m.insert(0, r(v));
            }
            Act::Insert(p, v) => {
                self.v.insert(p, r(v));
                self.m.insert(p, r(v));
                if p > 0 && p < self.m.len() - 1 {
                    hits.push("insert in the middle");
                }
            }
            Act::Pop => {
                let got = self.v.pop();
                let want = self.m.pop().unwrap();
                ensure!(got == want, "pop returned {} expected {}", got, want);
            }
            Act::Swap(i, j) => {
                self.v.swap(i, j);
                self.m.swap(i, j);
            }
            Act::Resize(k) => {
                self.v.resize(k);
                self.m.resize(k, r(0));
                hits.push("resize");
            }
            Act::Assign(v) => {
                self.v.assign(r(v));
                for x in self.m.iter_mut() {
                    *x = r(v);
                }
            }
            Act::Clear => {
                self.v.clear();
                self.m.clear();
            }
            Act::Sort => {
                self.v.sort();
                self.m.sort();
            }
            Act::SetIdx(i, v) => {
                self.v[i] = r(v);
                self.m[i] = r(v);
            }
        }
        self.check()
    }
    fn warm(&self) {
        let _ = catch(|| self.v.sum());
        let _ = catch(|| self.v.product());
        let _ = catch(|| self.v.dot(&self.v));
        let _ = catch(|| self.v.norm_1());
        let _ = catch(|| self.v.find(r(2)));
        let _ = catch(|| self.v.abs());
    }
    fn check(&self) -> Result<(), String> {
        eqv(&self.v, &self.m, "state")?;
        let n = self.m.len();
        for i in 0..n {
            ensure!(self.v[i] == self.m[i], "index {}", i);
        }
        if n > 0 {
            ensure!(self.v.sum() == self.m.iter().fold(r(0), |s, x| s + *x), "sum");
            ensure!(self.v.product() == self.m.iter().fold(r(1), |s, x| s * *x), "product");
            for v in [1, 2, 3, 9] {
                let want = self.m.iter().position(|x| *x == r(v)).unwrap_or(n - 1);
                ensure!(self.v.find(r(v)) == want, "find({}) = {} expected {}", v, self.v.find(r(v)), want);
            }
            for s in 0..n {
                for e in s..n {
                    ensure!(self.v.sum_slice(s, e) == (s..=e).fold(r(0), |a, i| a + self.m[i]), "sum_slice({},{})", s, e);
                }
            }
        }
        ensure!(self.v.dot(&self.v) == self.m.iter().fold(r(0), |s, x| s + *x * *x), "dot");
        ensure!(self.v.norm_1() == self.m.iter().fold(r(0), |s, x| s + abs(*x)), "norm_1");
        Ok(())
    }
    fn classes(&self, hits: &mut Vec<&'static str>) {
        if self.m.is_empty() {
            hits.push("empty vector state");
        }
        if self.m.len() == CAP {
            hits.push("full-length state");
        }
    }
    fn show(&self) -> String {
        sh(&self.m)
    }
}

fn main() {
    let ctx = Ctx::from_args("C15");
    ctx.level("model_checking");
    ctx.rule("E1: all vectors of length 0..4 over {0,1,-1,2,1/2} (every same-length pair for +, -, dot and the assignment forms; every (start,end) for range sums/products; scalar forms, abs, norm_1, find, sort, constructors, conj/real); a family of lengths 5..64; integer-valued f64 vectors of length 0..6 over {0,1,-2,3} for norm_1/2/p/inf against exact values with the norm inequalities, homogeneity and triangle inequality; linspace/powspace for every n in 2..64, 4 (a,b) pairs, p in {1/2,1,2,3}. E2: BFS over histories of push/push_front/insert(every position)/pop/swap/resize/assign/clear/sort/index writes on a real Vector<Rat> of length <= 5 against a Vec model, every reduction re-checked in every state. Non-trivial: empty vectors, length-1 vectors, partial ranges, descending spacings, middle inserts.");
    ctx.assume("norm checks use integer-valued data so that the reference values are exact");
    ctx.require(&["empty vector", "pairs of length 4", "long vector (>= 16)", "descending sequence", "power spacing p != 1", "complex entry on the negative imaginary axis", "coinciding limits", "limits a few ulp apart", "entries whose squares overflow", "entries whose squares underflow", "empty vector state", "full-length state", "insert in the middle", "resize"]);
    let l = letters();
    // singles
    let smax = ctx.pick(4u32, 6u32);
    let total: u64 = (0..=smax).map(|k| 5u64.pow(k)).sum();
    ctx.lattice(
        &format!("Vector<Rat>: all vectors of length 0..{} over {{0,1,-1,2,1/2}} (unary operators, reductions, every range)", smax),
        total,
        |idx| {
            let mut i = idx;
            let mut len = 0;
            while i >= 5u64.pow(len) {
                i -= 5u64.pow(len);
                len += 1;
            }
            sh(&vec_of(i, len as usize, &l))
        },
        |idx, acc| {
            let mut i = idx;
            let mut len = 0u32;
            while i >= 5u64.pow(len) {
                i -= 5u64.pow(len);
                len += 1;
            }
            let a = vec_of(i, len as usize, &l);
            if a.is_empty() {
                acc.nontriv("empty vector");
            }
            if a.len() == 1 {
                acc.nontriv("length-1 vector");
            }
            if a.len() >= 2 {
                acc.nontriv("vector with partial ranges");
            }
            judge(acc, idx, || sh(&a), || single_case(&a));
        },
    );
    for len in 0..=ctx.pick(4usize, 5usize) {
        let cnt = 5u64.pow(len as u32);
        ctx.lattice(
            &format!("Vector<Rat>: all ordered pairs of length {} over 5 letters (+, -, dot, assignment forms)", len),
            cnt * cnt,
            |idx| format!("{} {}", sh(&vec_of(idx / cnt, len, &l)), sh(&vec_of(idx % cnt, len, &l))),
            |idx, acc| {
                let a = vec_of(idx / cnt, len, &l);
                let b = vec_of(idx % cnt, len, &l);
                if len >= 4 {
                    acc.nontriv("pairs of length 4");
                }
                if len == 0 {
                    acc.nontriv("empty vector");
                }
                judge(acc, idx, || format!("a={} b={}", sh(&a), sh(&b)), || pair_case(&a, &b));
            },
        );
    }
    // long family
    let lens: Vec<usize> = vec![5, 6, 7, 8, 9, 12, 16, 17, 31, 32, 33, 48, 63, 64];
    ctx.lattice(
        "Vector<Rat>: family of lengths 5..64 x 3 fillings",
        lens.len() as u64 * 3,
        |i| format!("len={} filling#{}", lens[(i / 3) as usize], i % 3),
        |i, acc| {
            let n = lens[(i / 3) as usize];
            let f = i % 3;
            let a: Vec<Rat> = (0..n).map(|k| match f { 0 => r(k as i64 % 5 - 2), 1 => rq(k as i64 % 7 - 3, 2), _ => r(if k % 2 == 0 { 1 } else { -1 }) }).collect();
            let b: Vec<Rat> = (0..n).map(|k| r((k as i64 * 3) % 4 - 1)).collect();
            if n >= 16 {
                acc.nontriv("long vector (>= 16)");
            }
            judge(acc, i, || format!("len={} filling#{}", n, f), || {
                // products of long vectors overflow nothing here (entries in -3..3, zeros included)
                let va = Vector::create(a.clone());
                for s in (0..n).step_by(7) {
                    for e in (s..n).step_by(5) {
                        ensure!(va.sum_slice(s, e) == (s..=e).fold(r(0), |t, k| t + a[k]), "sum_slice({},{})", s, e);
                    }
                }
                ensure!(va.sum() == a.iter().fold(r(0), |s, x| s + *x), "sum");
                ensure!(va.norm_1() == a.iter().fold(r(0), |s, x| s + abs(*x)), "norm_1");
                // every unary / scalar form, every (start, end) range, find, sort, constructors on the long vectors too
                single_case(&a)?;
                single_case(&b)?;
                pair_case(&a, &b)
            });
        },
    );
    // f64 norms
    let fl = [0.0, 1.0, -2.0, 3.0];
    let fmax = ctx.pick(6u32, 9u32);
    let totalf: u64 = (0..=fmax).map(|k| 4u64.pow(k)).sum();
    ctx.lattice(
        &format!("Vector<f64>: all integer-valued vectors of length 0..{} over {{0,1,-2,3}}: norms, inequalities, homogeneity, triangle inequality", fmax),
        totalf,
        |idx| format!("{}", idx),
        |idx, acc| {
            let mut i = idx;
            let mut len = 0u32;
            while i >= 4u64.pow(len) {
                i -= 4u64.pow(len);
                len += 1;
            }
            let x: Vec<f64> = (0..len).map(|_| {
                let v = fl[(i % 4) as usize];
                i /= 4;
                v
            }).collect();
            if x.is_empty() {
                acc.nontriv("empty vector");
            } else {
                acc.nontriv("norm case");
            }
            judge(acc, idx, || format!("{:?}", x), || norms_case(&x));
        },
    );
    {
        // sums and products over SPECIAL values, bit for bit against the left-to-right fold: a factor 0 does not end a product (what follows
        // decides its sign, and 0 * inf = NaN), an infinite term does not end a sum (inf - inf = NaN)
        let sl = [0.0f64, -0.0, 1.0, -2.0, 3.0, f64::INFINITY, f64::NEG_INFINITY, f64::NAN, 0.5];
        let smax = 4u32;
        let total: u64 = (0..=smax).map(|k| (sl.len() as u64).pow(k)).sum();
        ctx.lattice(
            "Vector<f64> sum / product / sum_slice / product_slice over {0,-0,1,-2,3,inf,-inf,NaN,1/2}: all vectors of length 0..4, every range, bit for bit (NaN for NaN)",
            total,
            |idx| format!("{}", idx),
            |idx, acc| {
                let mut i = idx;
                let mut len = 0u32;
                while i >= (sl.len() as u64).pow(len) {
                    i -= (sl.len() as u64).pow(len);
                    len += 1;
                }
                let x: Vec<f64> = (0..len).map(|_| {
                    let v = sl[(i % sl.len() as u64) as usize];
                    i /= sl.len() as u64;
                    v
                }).collect();
                if x.iter().any(|t| *t == 0.0) && x.iter().any(|t| !t.is_finite() || *t < 0.0) {
                    acc.nontriv("zero factor next to a negative / non-finite one");
                } else {
                    acc.nontriv("special-value sum / product");
                }
                judge(acc, idx, || format!("sum/product {:?}", x), || {
                    let v = Vector::create(x.clone());
                    let same = |got: f64, want: f64| got.to_bits() == want.to_bits() || (got.is_nan() && want.is_nan());
                    if !x.is_empty() {
                        let (ws, wp) = (x.iter().fold(0.0f64, |s, t| s + *t), x.iter().fold(1.0f64, |s, t| s * *t));
                        ensure!(same(v.sum(), ws), "sum() = {:?} but the terms add up to {:?}", v.sum(), ws);
                        ensure!(same(v.product(), wp), "product() = {:?} but the factors multiply to {:?}", v.product(), wp);
                    }
                    for st in 0..x.len() {
                        for en in st..x.len() {
                            let (ws, wp) = (x[st..=en].iter().fold(0.0f64, |s, t| s + *t), x[st..=en].iter().fold(1.0f64, |s, t| s * *t));
                            ensure!(same(v.sum_slice(st, en), ws), "sum_slice({},{}) = {:?} expected {:?}", st, en, v.sum_slice(st, en), ws);
                            ensure!(same(v.product_slice(st, en), wp), "product_slice({},{}) = {:?} expected {:?}", st, en, v.product_slice(st, en), wp);
                        }
                    }
                    Ok(())
                });
            },
        );
    }
    {
        // absolute value, bit for bit: |x| has a clear sign bit for every x, signed zeros included ("if x < 0 { -x } else { x }" hands -0.0 back)
        let al = [0.0f64, -0.0, 1.0, -2.0, 5e-324, -5e-324, -1e300, f64::MIN_POSITIVE];
        let amax = 4u32;
        let total: u64 = (0..=amax).map(|k| (al.len() as u64).pow(k)).sum();
        ctx.lattice(
            "Vector<f64> / Vector<f32>::abs bit for bit: all vectors of length 0..4 over {0,-0,1,-2,+-5e-324,-1e300,MIN_POSITIVE}",
            total,
            |idx| format!("{}", idx),
            |idx, acc| {
                let mut i = idx;
                let mut len = 0u32;
                while i >= (al.len() as u64).pow(len) {
                    i -= (al.len() as u64).pow(len);
                    len += 1;
                }
                let x: Vec<f64> = (0..len).map(|_| {
                    let v = al[(i % al.len() as u64) as usize];
                    i /= al.len() as u64;
                    v
                }).collect();
                if x.iter().any(|t| *t == 0.0 && t.is_sign_negative()) {
                    acc.nontriv("vector holding -0.0");
                }
                judge(acc, idx, || format!("abs {:?}", x), || {
                    let got = Vector::create(x.clone()).abs();
                    ensure!(got.size() == x.len(), "abs(): size {}", got.size());
                    for k in 0..x.len() {
                        ensure!(got[k].to_bits() == (x[k].to_bits() & !(1u64 << 63)), "abs(): element {} of {:?} is {:e} (bits {:#x}): the sign bit must be clear", k, x, got[k], got[k].to_bits());
                    }
                    let xf: Vec<f32> = x.iter().map(|t| *t as f32).collect();
                    let gotf = Vector::create(xf.clone()).abs();
                    for k in 0..xf.len() {
                        ensure!(gotf[k].to_bits() == (xf[k].to_bits() & !(1u32 << 31)), "Vector<f32>::abs(): element {} of {:?} is {:e}: the sign bit must be clear", k, xf, gotf[k]);
                    }
                    Ok(())
                });
            },
        );
    }
    {
        let b = 2.0f64;
        let xl = [0.0, 1.0, -3.0, b.powi(600), -3.0 * b.powi(600), b.powi(-600), 5.0 * b.powi(-620), -b.powi(520), 1e200, -1e-200];
        let emax = ctx.pick(4u32, 6u32);
        let total: u64 = (1..=emax).map(|k| 10u64.pow(k)).sum();
        ctx.lattice(
            "Vector<f64> norms on data of extreme magnitude: all vectors of length 1..4 (thorough 1..6) over {0,1,-3,+-2^600 multiples,2^-600,5*2^-620,-2^520,1e200,-1e-200}",
            total,
            |idx| format!("{}", idx),
            |idx, acc| {
                let mut i = idx;
                let mut len = 1u32;
                while i >= 10u64.pow(len) {
                    i -= 10u64.pow(len);
                    len += 1;
                }
                let x: Vec<f64> = (0..len).map(|_| {
                    let v = xl[(i % 10) as usize];
                    i /= 10;
                    v
                }).collect();
                if x.iter().any(|t| t.abs() > 1e160) {
                    acc.nontriv("entries whose squares overflow");
                } else if x.iter().all(|t| t.abs() < 1e-160) && x.iter().any(|t| *t != 0.0) {
                    acc.nontriv("entries whose squares underflow");
                }
                judge(acc, idx, || format!("extreme {:?}", x), || extreme_norms_case(&x));
            },
        );
    }
    {
        // magnitudes at which squares / cubes are SUBNORMAL (neither lost nor accurate), subnormal entries themselves (the reciprocal of
        // the largest entry overflows) and entries just below the overflow of the square
        let b = 2.0f64;
        let xb = [0.0, b.powi(-530), 3.0 * b.powi(-530), -b.powi(-515), b.powi(-352), 3e-310, -4e-310, 5e-324, b.powi(511)];
        let bmax = ctx.pick(3u32, 5u32);
        let total: u64 = (1..=bmax).map(|k| 9u64.pow(k)).sum();
        ctx.lattice(
            "Vector<f64> norms in the subnormal band: all vectors of length 1..3 (thorough 1..5) over {0,2^-530,3*2^-530,-2^-515,2^-352,3e-310,-4e-310,5e-324,2^511}",
            total,
            |idx| format!("{}", idx),
            |idx, acc| {
                let mut i = idx;
                let mut len = 1u32;
                while i >= 9u64.pow(len) {
                    i -= 9u64.pow(len);
                    len += 1;
                }
                let x: Vec<f64> = (0..len).map(|_| {
                    let v = xb[(i % 9) as usize];
                    i /= 9;
                    v
                }).collect();
                if x.iter().all(|t| t.abs() < 1e-308) && x.iter().any(|t| *t != 0.0) {
                    acc.nontriv("largest entry subnormal");
                } else {
                    acc.nontriv("powers in the subnormal band");
                }
                judge(acc, idx, || format!("band {:?}", x), || extreme_norms_case(&x));
            },
        );
        // magnitudes at which a single p-th power is still finite (or still non-zero) while the SUM of two or three of them is not:
        // (MAX / n)^(1/p) .. MAX^(1/p) for the exponents p = 1.5, 3, 8 used by the value check, and the mirror image at the underflow end
        // (3.9e-41, 1e-107, -2e-107, 1e-210: the p-th power is SUBNORMAL - neither zero nor accurate - for p = 8, 3, 3, 1.5)
        let xp = [0.0, 1.0, 5e102, -5e102, 3.2e38, 3e205, 1e-108, -1e-41, 1e-216, -4.6e102, 3.9e-41, 1e-107, -2e-107, 1e-210];
        const NP: u64 = 14;
        let pmax = ctx.pick(3u32, 4u32);
        let totalp: u64 = (1..=pmax).map(|k| NP.pow(k)).sum();
        ctx.lattice(
            "Vector<f64> norms where one p-th power fits but the sum of the powers does not: all vectors of length 1..3 (thorough 1..4) over {0,1,+-5e102,-4.6e102,3.2e38,3e205,1e-108,-1e-41,1e-216,3.9e-41,1e-107,-2e-107,1e-210}",
            totalp,
            |idx| format!("{}", idx),
            |idx, acc| {
                let mut i = idx;
                let mut len = 1u32;
                while i >= NP.pow(len) {
                    i -= NP.pow(len);
                    len += 1;
                }
                let x: Vec<f64> = (0..len).map(|_| {
                    let v = xp[(i % NP) as usize];
                    i /= NP;
                    v
                }).collect();
                if x.iter().filter(|t| t.abs() > 1e100).count() >= 2 {
                    acc.nontriv("sum of p-th powers overflows while each power is finite");
                } else {
                    acc.nontriv("p-th powers at the edge of the range");
                }
                judge(acc, idx, || format!("p-band {:?}", x), || extreme_norms_case(&x));
            },
        );
        // Complex<f64> vectors of extreme modulus, the largest entry at every position
        let c = |re: f64, im: f64| Cmplx::new(re, im);
        let cl = [c(0.0, 0.0), c(1.0, 0.0), c(1e200, 0.0), c(3e200, -4e200), c(0.0, 2e200), c(1e-200, 0.0), c(-3e-200, 4e-200), c(b.powi(-530), b.powi(-530))];
        let cmax = ctx.pick(3u32, 4u32);
        let totalc: u64 = (1..=cmax).map(|k| 8u64.pow(k)).sum();
        ctx.lattice(
            "Vector<Complex<f64>> norm_inf / norm_1 at extreme modulus: all vectors of length 1..3 (thorough 1..4) over {0,1,1e200,(3-4i)e200,2e200i,1e-200,(-3+4i)e-200,2^-530(1+i)}",
            totalc,
            |idx| format!("{}", idx),
            |idx, acc| {
                let mut i = idx;
                let mut len = 1u32;
                while i >= 8u64.pow(len) {
                    i -= 8u64.pow(len);
                    len += 1;
                }
                let x: Vec<Cmplx> = (0..len).map(|_| {
                    let v = cl[(i % 8) as usize];
                    i /= 8;
                    v
                }).collect();
                acc.nontriv("complex vector of extreme modulus");
                judge(acc, idx, || format!("complex extreme {:?}", x), || {
                    let v = Vector::create(x.clone());
                    let mods: Vec<f64> = x.iter().map(|z| z.real.hypot(z.imag)).collect();
                    let want_inf = mods.iter().fold(0.0f64, |m, t| m.max(*t));
                    let got = v.norm_inf();
                    ensure!((got - want_inf).abs() <= 4.0 * f64::EPSILON * want_inf, "norm_inf = {:e} but the largest modulus is {:e}", got, want_inf);
                    let want_1: f64 = mods.iter().sum();
                    if want_1.is_finite() {
                        let g1 = v.norm_1();
                        ensure!((g1.real - want_1).abs() <= 8.0 * f64::EPSILON * want_1 && g1.imag == 0.0, "norm_1 = {:?} but the sum of moduli is {:e}", g1, want_1);
                    }
                    Ok(())
                });
            },
        );
    }
    {
        // Complex<f64> entries of NEARLY EQUAL modulus (1e-6 .. 1e-3 apart, on the axes and next to the diagonal), in every order: the
        // largest modulus must win wherever it stands - a shortcut that skips an entry after comparing its parts with the running
        // maximum through a truncated sqrt(2) skips the near-diagonal one
        let c = |re: f64, im: f64| Cmplx::new(re, im);
        let nl = [c(0.0, 0.0), c(128.0, 128.0), c(181.0185546875, 0.0), c(0.0, -181.0193), c(-128.0003, 127.9996), c(181.01934, 0.0), c(90.5, 156.75), c(-127.99, -128.01), c(3.0, 4.0)];
        let nmax = ctx.pick(4u32, 5u32);
        let totaln: u64 = (1..=nmax).map(|k| 9u64.pow(k)).sum();
        ctx.lattice(
            "Vector<Complex<f64>> norm_inf / norm_1 on entries of nearly equal modulus (181.0 .. 181.02: on the axes, next to the diagonal, at 60 degrees): all vectors of length 1..4 (thorough 1..5) over 9 letters",
            totaln,
            |idx| format!("{}", idx),
            |idx, acc| {
                let mut i = idx;
                let mut len = 1u32;
                while i >= 9u64.pow(len) {
                    i -= 9u64.pow(len);
                    len += 1;
                }
                let x: Vec<Cmplx> = (0..len).map(|_| {
                    let v = nl[(i % 9) as usize];
                    i /= 9;
                    v
                }).collect();
                acc.nontriv("complex vector with entries of nearly equal modulus");
                judge(acc, idx, || format!("complex near-equal {:?}", x), || {
                    let v = Vector::create(x.clone());
                    let mods: Vec<f64> = x.iter().map(|z| z.real.hypot(z.imag)).collect();
                    let want_inf = mods.iter().fold(0.0f64, |m, t| m.max(*t));
                    let got = v.norm_inf();
                    ensure!((got - want_inf).abs() <= 4.0 * f64::EPSILON * want_inf, "norm_inf = {:?} but the largest modulus is {:?}", got, want_inf);
                    let want_1: f64 = mods.iter().sum();
                    let g1 = v.norm_1();
                    ensure!((g1.real - want_1).abs() <= 8.0 * f64::EPSILON * want_1 && g1.imag == 0.0, "norm_1 = {:?} but the sum of moduli is {:e}", g1, want_1);
                    Ok(())
                });
            },
        );
    }
    // f64 scalar operations on data where x / s and x * (1/s) differ
    let sl = [49.0, 5.0, 7.0, 10.0, 3.0, 1.0, -0.3];
    let sd = [3.0, 7.0, 49.0, 10.0, 0.1, -1.5];
    ctx.lattice(
        "Vector<f64> scalar operations: vectors of length 1..3 over {49,5,7,10,3,1,-0.3} x scalars {3,7,49,10,0.1,-1.5}",
        (7 + 49 + 343) * 6,
        |idx| format!("{}", idx),
        |idx, acc| {
            let sc = sd[(idx % 6) as usize];
            let mut i = idx / 6;
            let mut len = 1u32;
            while i >= 7u64.pow(len) {
                i -= 7u64.pow(len);
                len += 1;
            }
            let x: Vec<f64> = (0..len).map(|_| {
                let v = sl[(i % 7) as usize];
                i /= 7;
                v
            }).collect();
            acc.nontriv("f64 scalar operation case");
            judge(acc, idx, || format!("{:?} with scalar {}", x, sc), || {
                let v = Vector::create(x.clone());
                let d = v.clone() / sc;
                let mt = v.clone() * sc;
                let (mut da, mut ma, mut aa, mut sa) = (v.clone(), v.clone(), v.clone(), v.clone());
                da /= sc;
                ma *= sc;
                aa += sc;
                sa -= sc;
                for k in 0..x.len() {
                    ensure!(d[k].to_bits() == (x[k] / sc).to_bits(), "v / {}: element {} = {} expected {}", sc, k, d[k], x[k] / sc);
                    ensure!(da[k].to_bits() == d[k].to_bits(), "v /= {} gives {} but v / {} gives {}", sc, da[k], sc, d[k]);
                    ensure!(mt[k].to_bits() == (x[k] * sc).to_bits() && ma[k].to_bits() == mt[k].to_bits(), "v * {} / v *= {}", sc, sc);
                    ensure!(aa[k].to_bits() == (x[k] + sc).to_bits() && sa[k].to_bits() == (x[k] - sc).to_bits(), "v += {} / v -= {}", sc, sc);
                }
                let l = sc * v.clone();
                ensure!(l.vec.iter().zip(mt.vec.iter()).all(|(a, b)| a.to_bits() == b.to_bits()), "f64 * Vector differs from Vector * f64");
                Ok(())
            });
        },
    );
    // Complex<f64>: all ordered pairs of vectors of length 0..2 over 9 Gaussian integers, then a longer family
    {
        let cl = cletters();
        let k = cl.len() as u64;
        for len in 0..=ctx.pick(2usize, 3usize) {
            let cnt = k.pow(len as u32);
            let cl = cl.clone();
            ctx.lattice(
                &format!("Vector<Complex<f64>>: all ordered pairs of length {} over 9 Gaussian integers (axes, all quadrants): operators, scalar forms, dot, abs, norms, conj/real", len),
                cnt * cnt,
                |idx| format!("{}", idx),
                |idx, acc| {
                    let pick = |mut i: u64| -> Vec<CQ> {
                        (0..len).map(|_| {
                            let z = cl[(i % k) as usize];
                            i /= k;
                            z
                        }).collect()
                    };
                    let (a, b) = (pick(idx / cnt), pick(idx % cnt));
                    if a.iter().any(|z| z.re.is_zero() && z.im < r(0)) {
                        acc.nontriv("complex entry on the negative imaginary axis");
                    }
                    judge(acc, idx, || format!("a={} b={}", shc(&a), shc(&b)), || complex_case(&a, &b));
                },
            );
        }
        let cl2 = cl.clone();
        ctx.lattice(
            "Vector<Complex<f64>>: lengths {3,4,7,16,33,64} x 9 rotations of the letter sequence",
            6 * 9,
            |i| format!("{}", i),
            |i, acc| {
                let n = [3usize, 4, 7, 16, 33, 64][(i / 9) as usize];
                let rot = (i % 9) as usize;
                let a: Vec<CQ> = (0..n).map(|t| cl2[(t + rot) % 9]).collect();
                let b: Vec<CQ> = (0..n).map(|t| cl2[(2 * t + rot + 1) % 9]).collect();
                judge(acc, i, || format!("n={} rot={}", n, rot), || {
                    // products over long vectors overflow the exact model: drop zero letters only from the product check by using short prefixes
                    complex_case(&a[..n.min(6)], &b[..n.min(6)])?;
                    let va: Vector<Cmplx> = Vector::create(a.iter().map(|z| c_of(*z)).collect());
                    let vb: Vector<Cmplx> = Vector::create(b.iter().map(|z| c_of(*z)).collect());
                    let d = (0..n).fold(CQ::zero(), |s, i| s.add(a[i].mul(b[i])));
                    ensure!(c_eq(va.dot(&vb), d), "dot (n={})", n);
                    let n1: f64 = a.iter().map(|z| modulus(*z)).sum();
                    ensure!(va.norm_1().real == n1 && va.norm_1().imag == 0.0, "norm_1 (n={}) = {} expected {}", n, va.norm_1(), n1);
                    let ninf = a.iter().fold(0.0f64, |m, z| m.max(modulus(*z)));
                    ensure!(va.norm_inf() == ninf, "norm_inf (n={})", n);
                    cvec_eq(&(&va + &vb), &(0..n).map(|i| a[i].add(b[i])).collect::<Vec<_>>(), "&a + &b")?;
                    Ok(())
                });
            },
        );
    }
    // sequences
    let ab = [(0.0, 1.0), (-2.5, 7.25), (1.0, -3.0), (1e-3, 1e3)];
    let ps = [0.5, 1.0, 2.0, 3.0];
    ctx.lattice(
        "linspace / powspace: n in 2..64 x 4 (a,b) pairs x p in {1/2,1,2,3}",
        63 * 16,
        |i| format!("n={} ab={:?} p={}", 2 + i / 16, ab[((i / 4) % 4) as usize], ps[(i % 4) as usize]),
        |i, acc| {
            let n = 2 + (i / 16) as usize;
            let (a, b) = ab[((i / 4) % 4) as usize];
            let p = ps[(i % 4) as usize];
            if a > b {
                acc.nontriv("descending sequence");
            }
            if p != 1.0 {
                acc.nontriv("power spacing p != 1");
            }
            judge(acc, i, || format!("n={} a={} b={} p={}", n, a, b, p), || spacing_case(n, a, b, p));
        },
    );
    {
        // very short intervals next to the origin, many points, high exponents: every element a + (b - a) t^p is representable to
        // rounding, a factor (b - a) / (n - 1)^p formed on its own is subnormal. Limits well inside the normal range.
        let tiny: [(f64, f64); 4] = [(0.0, 1e-300), (1e-307, 3e-307), (-2e-305, 0.0), (0.0, 4e-290)];
        let tps = [1.0, 4.0, 8.0];
        let tns = [2usize, 17, 33, 64];
        ctx.lattice(
            "linspace / powspace on intervals of length 1e-300 .. 4e-290 next to 0: n in {2,17,33,64} x 4 intervals x p in {1,4,8}",
            (tns.len() * tiny.len() * tps.len()) as u64,
            |i| format!("{}", i),
            |i, acc| {
                let p = tps[(i % 3) as usize];
                let (a, b) = tiny[((i / 3) % 4) as usize];
                let n = tns[(i / 12) as usize];
                acc.nontriv("interval of subnormal-adjacent length");
                judge(acc, i, || format!("tiny interval n={} a={:e} b={:e} p={}", n, a, b, p), || {
                    for (what, v) in [("linspace", Vector::linspace(a, b, n)), ("powspace", Vector::powspace(a, b, n, p))] {
                        ensure!(v.size() == n && v[0] == a, "{}: size / first element", what);
                        // "ends at b to within rounding": a few ulp of b (or of a when b = 0), plus one subnormal unit per operation
                        let scale = a.abs().max(b.abs());
                        ensure!((v[n - 1] - b).abs() <= 8.0 * f64::EPSILON * scale + 4e-323, "{}({:e}, {:e}, {}{}): last element {:e} is {:e} away from b", what, a, b, n, if what == "powspace" { format!(", {}", p) } else { String::new() }, v[n - 1], (v[n - 1] - b).abs());
                        for k in 1..n {
                            ensure!(v[k] >= v[k - 1], "{}: not monotone at {}", what, k);
                        }
                    }
                    Ok(())
                });
            },
        );
    }
    {
        let aa = [0.1, 1.7, -31.0, 3.0e-300, 1.5, -0.3, 1e10]; // normal range only: with subnormal spacing h = (b-a)/(n-1) itself rounds by whole units
        let ks = [0u64, 1, 2, 3, 5, 17, 80];
        ctx.lattice(
            "linspace / powspace with coinciding or nearly coinciding limits: n in 2..64 x 7 a x b = a + {0,1,2,3,5,17,80} ulp x p in {1,2}",
            63 * 7 * 7 * 2,
            |i| format!("{}", i),
            |i, acc| {
                let p = [1.0, 2.0][(i % 2) as usize];
                let k = ks[((i / 2) % 7) as usize];
                let a = aa[((i / 14) % 7) as usize];
                let n = 2 + (i / 98) as usize;
                if k == 0 {
                    acc.nontriv("coinciding limits");
                } else {
                    acc.nontriv("limits a few ulp apart");
                }
                judge(acc, i, || format!("n={} a={:e} b=a+{}ulp p={}", n, a, k, p), || close_spacing_case(n, a, k, p));
            },
        );
    }
    {
        // limits that are finite while their difference ( or ( b - a ) / ( n - 1 ) * i ) is not: every point of [a, b] is representable
        let m = f64::MAX;
        let wide: [(f64, f64); 10] = [(-1e308, 1e308), (1e308, -1e308), (-m, m), (m, -m), (-1.5e308, 1e308), (0.0, m), (m, 0.0), (-m, 0.0), (-1e308, 1.7e308), (-m, 3.0)];
        let wps = [1.0, 0.5, 2.0, 3.0];
        ctx.lattice(
            "linspace / powspace with finite limits whose difference overflows (or touches f64::MAX): n in 2..64 x 10 (a,b) pairs x p in {1,1/2,2,3}",
            63 * 10 * 4,
            |i| format!("{}", i),
            |i, acc| {
                let p = wps[(i % 4) as usize];
                let (a, b) = wide[((i / 4) % 10) as usize];
                let n = 2 + (i / 40) as usize;
                if !(b - a).is_finite() {
                    acc.nontriv("limits whose difference overflows");
                } else {
                    acc.nontriv("limit at f64::MAX");
                }
                judge(acc, i, || format!("wide interval n={} a={:e} b={:e} p={}", n, a, b, p), || {
                    for (what, v) in [("linspace", Vector::linspace(a, b, n)), ("powspace", Vector::powspace(a, b, n, p))] {
                        ensure!(v.size() == n, "{}: size", what);
                        ensure!(v[0] == a, "{}({:e}, {:e}, {}): first element {:e} is not a", what, a, b, n, v[0]);
                        ensure!(v.vec.iter().all(|x| x.is_finite()), "{}({:e}, {:e}, {}): non-finite element, {:?}...", what, a, b, n, &v.vec[..n.min(4)]);
                        let scale = a.abs().max(b.abs());
                        ensure!((v[n - 1] / 4.0 - b / 4.0).abs() <= 2.0 * f64::EPSILON * scale, "{}({:e}, {:e}, {}): last element {:e} is not b to within rounding", what, a, b, n, v[n - 1]);
                        for k in 1..n {
                            ensure!(if b >= a { v[k] >= v[k - 1] } else { v[k] <= v[k - 1] }, "{}: not monotone at {}", what, k);
                        }
                    }
                    Ok(())
                });
            },
        );
    }
    // random(): size and range only (values are not under the harness' control)
    ctx.lattice(
        "random(n): length and range [0,1)",
        20,
        |i| format!("n={}", i),
        |i, acc| {
            judge(acc, i, || format!("random({})", i), || {
                let v = Vector::<f64>::random(i as usize);
                ensure!(v.size() == i as usize && v.vec.iter().all(|x| *x >= 0.0 && *x < 1.0), "random: size or range");
                Ok(())
            });
        },
    );
    let depth = ctx.pick(8, 10);
    let inits = vec![St { v: Vector::empty(), m: vec![] }, St { v: Vector::create(vec![r(3), r(1), r(2)]), m: vec![r(3), r(1), r(2)] }];
    explore(&ctx, "editing histories on Vector<Rat> (length <= 5)", inits.clone(), BfsOpts { max_depth: depth, state_cap: ctx.pick(1_000_000, 20_000_000) });
    if ctx.quick() {
        crosscheck_stateright(&ctx, "editing histories on Vector<Rat> (length <= 5)", inits, depth);
    }
    {
        let inits = vec![St { v: Vector::empty(), m: vec![] }, St { v: Vector::create(vec![r(3), r(1), r(2)]), m: vec![r(3), r(1), r(2)] }];
        explore_replayed(&ctx, "clone-free editing histories on one Vector<Rat>", inits, BfsOpts { max_depth: ctx.pick(6, 7), state_cap: 2_000_000 });
    }
    // regression inputs of fix (Complex::abs by the scaled form outside the ordinary range): the norms of Vector<Complex<f64>>
    // go through Complex::abs, which was inf beyond 1.34e154 and 0 below 1.5e-162
    {
        ctx.listed_cases(
            "listed inputs: Vector<Complex<f64>> norms at extreme magnitude",
            vec![
                ("extreme-complex norm_inf [2^600 + 0i]".to_string(), Box::new(|| {
                    let v = Vector::create(vec![Cmplx::new(2f64.powi(600), 0.0)]);
                    ensure!(v.norm_inf() == 2f64.powi(600), "norm_inf = {:e} but the modulus is 2^600", v.norm_inf());
                    Ok(())
                })),
                ("extreme-complex norm_1 [3*2^-600 + 4*2^-600 i]".to_string(), Box::new(|| {
                    let s = 2f64.powi(-600);
                    let v = Vector::create(vec![Cmplx::new(3.0 * s, 4.0 * s)]);
                    ensure!(v.norm_1().real == 5.0 * s, "norm_1 = {:e} but the modulus is 5 * 2^-600", v.norm_1().real);
                    Ok(())
                })),
            ],
        );
    }
    std::process::exit(ctx.finish());
}
