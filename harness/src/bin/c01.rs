//! C01 - dense direct solvers solve Ax = b for every nonsingular system.
use mc::model::{self, CQ, F, M};
use mc::*;
use ohsl::{Cmplx, Matrix, Vector};

fn z3() -> Vec<Rat> {
    vec![r(0), r(1), r(-1)]
}
fn z5() -> Vec<Rat> {
    vec![r(0), r(1), r(-1), r(2), r(-2)]
}

fn rhs_set(n: usize) -> Vec<Vec<Rat>> {
    if n <= 3 {
        let l = z3();
        (0..pow(3, n as u32)).map(|i| model::vec_from_idx(i, n, &l)).collect()
    } else {
        let mut v = vec![];
        for i in 0..n {
            let mut e = vec![r(0); n];
            e[i] = r(1);
            v.push(e);
        }
        v.push(vec![r(1); n]);
        v.push((0..n).map(|i| if i % 2 == 0 { r(i as i64 + 1) } else { r(-(i as i64) - 1) }).collect());
        v
    }
}

fn check_exact(a: &M, b: &[Rat]) -> Result<(), String> {
    let n = a.len();
    let bv = model::to_vector(b);
    let mut a1 = model::to_matrix(a, n);
    let x1 = a1.solve_basic(&bv);
    ensure!(x1.size() == n, "solve_basic: length {} expected {}", x1.size(), n);
    let ax = model::matvec(a, &x1.vec);
    ensure!(ax == b, "solve_basic: A*x = {} but b = {} (x = {})", model::showv(&ax), model::showv(b), model::showv(&x1.vec));
    let mut a2 = model::to_matrix(a, n);
    let x2 = a2.solve_lu(&bv);
    ensure!(x2.size() == n, "solve_lu: length {} expected {}", x2.size(), n);
    let ax2 = model::matvec(a, &x2.vec);
    ensure!(ax2 == b, "solve_lu: A*x = {} but b = {} (x = {})", model::showv(&ax2), model::showv(b), model::showv(&x2.vec));
    ensure!(x1.vec == x2.vec, "solvers disagree: basic {} lu {}", model::showv(&x1.vec), model::showv(&x2.vec));
    ensure!(bv.vec == b, "right-hand side was modified");
    Ok(())
}

fn classify(a: &M, acc: &mut Acc) {
    let n = a.len();
    let ex = model::exchanges(a);
    if ex >= 1 {
        acc.nontriv("needs >=1 row exchange");
    }
    if ex >= 2 {
        acc.nontriv("needs >=2 row exchanges");
    }
    if a[0][0].is_zero() {
        acc.nontriv("zero leading pivot");
    }
    if n >= 3 {
        acc.hit("n>=3");
    }
}

fn exact_space(ctx: &Ctx, n: usize, letters: Vec<Rat>, lname: &str) {
    let rhs = rhs_set(n);
    let len = pow(letters.len() as u64, (n * n) as u32);
    let name = format!("exact n={} entries over {} x {} right-hand sides", n, lname, rhs.len());
    ctx.lattice(
        &name,
        len,
        |idx| model::show(&model::mat_from_idx(idx, n, &letters)),
        |idx, acc| {
            let a = model::mat_from_idx(idx, n, &letters);
            if model::det(&a).is_zero() {
                acc.hit("singular (skipped: outside the claim)");
                return;
            }
            classify(&a, acc);
            for b in rhs.iter() {
                acc.hit("exact solves (x2 solvers)");
                judge(acc, idx, || format!("A={} b={}", model::show(&a), model::showv(b)), || check_exact(&a, b));
            }
        },
    );
}

// --- P*L*U family ---------------------------------------------------------------------------------
fn plu(n: usize, perm: &[usize], lp: usize, up: usize) -> M {
    let mut l = model::identity(n);
    for i in 0..n {
        for j in 0..i {
            l[i][j] = match lp {
                0 => rq(1, 2),
                1 => {
                    if (i + j) % 2 == 0 {
                        rq(-1, 3)
                    } else {
                        rq(1, 4)
                    }
                }
                _ => {
                    if j + 1 == i {
                        rq(-1, 2)
                    } else {
                        r(0)
                    }
                }
            };
        }
    }
    let mut u = model::zeros(n, n);
    for i in 0..n {
        for j in i..n {
            u[i][j] = match up {
                0 => r(if i == j { 2 } else { 1 }),
                1 => {
                    if i == j {
                        r(if i % 2 == 0 { 3 } else { -2 })
                    } else {
                        r(-1)
                    }
                }
                _ => {
                    if i == j {
                        rq(if i % 2 == 0 { -1 } else { 5 }, 2)
                    } else {
                        r(((i + 2 * j) % 3) as i64 - 1)
                    }
                }
            };
        }
    }
    let lu = model::matmul(&l, n, &u, n);
    // (P*LU)[i] = LU[perm[i]]
    (0..n).map(|i| lu[perm[i]].clone()).collect()
}

fn plu_space(ctx: &Ctx, n: usize) {
    let perms = permutations(n);
    let len = perms.len() as u64 * 9;
    ctx.lattice(
        &format!("P*L*U family n={} (all {} permutations x 3 L x 3 U patterns)", n, perms.len()),
        len,
        |idx| format!("perm={:?} L#{} U#{}", perms[(idx / 9) as usize], (idx / 3) % 3, idx % 3),
        |idx, acc| {
            let p = &perms[(idx / 9) as usize];
            let a = plu(n, p, ((idx / 3) % 3) as usize, (idx % 3) as usize);
            classify(&a, acc);
            let b1 = vec![r(1); n];
            let b2: Vec<Rat> = (0..n).map(|i| if i % 2 == 0 { r(i as i64 + 1) } else { r(-(i as i64) - 1) }).collect();
            for b in [b1, b2] {
                judge(acc, idx, || format!("n={} perm={:?} A={} b={}", n, p, model::show(&a), model::showv(&b)), || check_exact(&a, &b));
            }
            // same systems in f64 (entries are small dyadic/third fractions -> conditioning is moderate)
            let af = model::to_f(&a);
            let bf: Vec<f64> = (0..n).map(|i| (i as f64) - 1.5).collect();
            judge(acc, idx, || format!("f64 n={} perm={:?} A={}", n, p, model::show(&a)), || check_f64(&af, &bf, true, None));
        },
    );
}

// --- floating point -------------------------------------------------------------------------------
const BE_THRESHOLD: f64 = 1e-12;
const FWD_THRESHOLD: f64 = 1e-9;

fn check_f64(a: &F, b: &[f64], forward: bool, acc: Option<&mut Acc>) -> Result<(), String> {
    let n = a.len();
    let bv = Vector::create(b.to_vec());
    let mut a1 = model::to_mat64(a);
    let x1 = a1.solve_basic(&bv);
    let mut a2 = model::to_mat64(a);
    let x2 = a2.solve_lu(&bv);
    ensure!(x1.size() == n && x2.size() == n, "wrong length");
    let e1 = model::backward_error(a, &x1.vec, b);
    let e2 = model::backward_error(a, &x2.vec, b);
    let mut fw = 0.0;
    if forward {
        let nx = model::norm_inf_vec(&x1.vec).max(model::norm_inf_vec(&x2.vec));
        let d: Vec<f64> = x1.vec.iter().zip(x2.vec.iter()).map(|(p, q)| p - q).collect();
        fw = if nx == 0.0 { 0.0 } else { model::norm_inf_vec(&d) / nx };
    }
    if let Some(acc) = acc {
        acc.worst("backward_error_solve_basic", e1, || format!("A={:?} b={:?}", a, b));
        acc.worst("backward_error_solve_lu", e2, || format!("A={:?} b={:?}", a, b));
        if forward {
            acc.worst("forward_disagreement_basic_vs_lu", fw, || format!("A={:?} b={:?}", a, b));
        }
    }
    ensure!(e1 <= BE_THRESHOLD, "solve_basic: normwise backward error {:e} > {:e}; x = {:?}", e1, BE_THRESHOLD, x1.vec);
    ensure!(e2 <= BE_THRESHOLD, "solve_lu: normwise backward error {:e} > {:e}; x = {:?}", e2, BE_THRESHOLD, x2.vec);
    ensure!(!forward || fw <= FWD_THRESHOLD, "solvers disagree: relative difference {:e}; basic {:?} lu {:?}", fw, x1.vec, x2.vec);
    Ok(())
}

fn f64_int_space(ctx: &Ctx, n: usize, letters: Vec<Rat>, lname: &str) {
    let len = pow(letters.len() as u64, (n * n) as u32);
    let rhs: Vec<Vec<f64>> = vec![vec![1.0; n], (0..n).map(|i| if i % 2 == 0 { 1.0 + i as f64 } else { -3.0 * i as f64 }).collect(), (0..n).map(|i| if i == n - 1 { 1.0 } else { 0.0 }).collect()];
    ctx.lattice(
        &format!("f64 n={} integer entries over {} x 3 right-hand sides", n, lname),
        len,
        |idx| model::show(&model::mat_from_idx(idx, n, &letters)),
        |idx, acc| {
            let a = model::mat_from_idx(idx, n, &letters);
            if model::det(&a).is_zero() {
                acc.hit("singular (skipped: outside the claim)");
                return;
            }
            classify(&a, acc);
            let af = model::to_f(&a);
            for b in rhs.iter() {
                acc.hit("f64 solves (x2 solvers)");
                let mut local = Acc::new("tmp");
                let res = catch(|| check_f64(&af, b, true, Some(&mut local)));
                acc.merge_worst(local);
                match res {
                    Ok(Ok(())) => {}
                    Ok(Err(e)) => acc.fail(idx, format!("f64 A={} b={:?}", model::show(&a), b), e),
                    Err(p) => acc.fail(idx, format!("f64 A={} b={:?}", model::show(&a), b), format!("unexpected panic: {}", p)),
                }
            }
        },
    );
}

const TINY: f64 = 1e-20;
/// letters of the tiny-pivot lattice; the exact twin replaces +-tiny by 0 (see DESIGN: the matrix is a
/// perturbation far below machine epsilon of a small-integer matrix, so it is well conditioned iff that is nonsingular)
fn tiny_letters() -> Vec<(f64, Rat, bool)> {
    vec![(0.0, r(0), false), (1.0, r(1), false), (-1.0, r(-1), false), (2.0, r(2), false), (TINY, r(0), true), (-TINY, r(0), true)]
}

fn tiny_space(ctx: &Ctx, n: usize, max_tiny: usize) {
    let letters = tiny_letters();
    let l = letters.len() as u64;
    let len = pow(l, (n * n) as u32);
    let rhs: Vec<Vec<f64>> = vec![vec![1.0; n], (0..n).map(|i| if i % 2 == 0 { 1.0 + i as f64 } else { -2.0 }).collect(), (0..n).map(|i| if i == 0 { 1.0 } else { 0.0 }).collect()];
    ctx.lattice(
        &format!("f64 n={} tiny-pivot lattice {{0,1,-1,2,+-1e-20}} (<= {} tiny entries)", n, max_tiny),
        len,
        |idx| {
            let mut d = vec![0usize; n * n];
            digits_uniform(idx, l, &mut d);
            format!("{:?}", d.iter().map(|&k| letters[k].0).collect::<Vec<f64>>())
        },
        |idx, acc| {
            let mut d = vec![0usize; n * n];
            digits_uniform(idx, l, &mut d);
            let ntiny = d.iter().filter(|&&k| letters[k].2).count();
            if ntiny > max_tiny {
                return;
            }
            let a0: M = (0..n).map(|i| (0..n).map(|j| letters[d[i * n + j]].1).collect()).collect();
            if model::det(&a0).is_zero() {
                acc.hit("numerically singular (tiny -> 0 twin singular; skipped)");
                return;
            }
            let af: F = (0..n).map(|i| (0..n).map(|j| letters[d[i * n + j]].0).collect()).collect();
            if ntiny > 0 {
                acc.nontriv("has 1e-20 entries");
            }
            if af[0][0].abs() < 1e-10 {
                acc.nontriv("zero or tiny leading pivot");
            }
            // a tiny or zero pivot candidate appearing at the second elimination step
            if n >= 3 && ntiny > 0 && letters[d[n + 1]].2 {
                acc.nontriv("tiny (1,1) entry");
            }
            for b in rhs.iter() {
                acc.hit("f64 solves (x2 solvers)");
                let mut local = Acc::new("tmp");
                let res = catch(|| check_f64(&af, b, false, Some(&mut local)));
                acc.merge_worst(local);
                match res {
                    Ok(Ok(())) => {}
                    Ok(Err(e)) => acc.fail(idx, format!("tiny A={:?} b={:?}", af, b), e),
                    Err(p) => acc.fail(idx, format!("tiny A={:?} b={:?}", af, b), format!("unexpected panic: {}", p)),
                }
            }
        },
    );
}

/// entries of mixed magnitude (2^20 and 2^-20 next to +-1 and 0), every matrix; dyadic, so the exact determinant decides
/// which members are nonsingular. Partial pivoting must keep the normwise backward error at rounding level whatever the
/// magnitudes.
fn mixed_space(ctx: &Ctx, n: usize) {
    let big = (1u64 << 20) as f64;
    let lf = [0.0, 1.0, -1.0, big, 1.0 / big];
    // entries times 2^20 are integers: the determinant of the scaled matrix is an exact i128 (|.| < 2^123)
    let li: [i128; 5] = [0, 1 << 20, -(1 << 20), 1 << 40, 1];
    let len = pow(5, (n * n) as u32);
    let rhs: Vec<Vec<f64>> = vec![vec![1.0; n], (0..n).map(|i| if i % 2 == 0 { 1.0 + i as f64 } else { -2.0 }).collect(), (0..n).map(|i| if i == 0 { big } else { 1.0 / big }).collect()];
    ctx.lattice(
        &format!("f64 n={} mixed-magnitude lattice: all matrices over {{0,1,-1,2^20,2^-20}} x 3 right-hand sides", n),
        len,
        |idx| {
            let mut d = vec![0usize; n * n];
            digits_uniform(idx, 5, &mut d);
            format!("{:?}", d.iter().map(|&k| lf[k]).collect::<Vec<f64>>())
        },
        |idx, acc| {
            let mut d = vec![0usize; n * n];
            digits_uniform(idx, 5, &mut d);
            let e = |i: usize, j: usize| li[d[i * n + j]];
            let det: i128 = if n == 2 {
                e(0, 0) * e(1, 1) - e(0, 1) * e(1, 0)
            } else {
                e(0, 0) * (e(1, 1) * e(2, 2) - e(1, 2) * e(2, 1)) - e(0, 1) * (e(1, 0) * e(2, 2) - e(1, 2) * e(2, 0)) + e(0, 2) * (e(1, 0) * e(2, 1) - e(1, 1) * e(2, 0))
            };
            if det == 0 {
                return;
            }
            // exact infinity-norm condition number from the adjugate: members beyond 2^44 are singular to working precision
            // (elimination meets an exactly zero pivot in f64) and are outside the claim, like exactly singular ones
            let adj = |i: usize, j: usize| -> i128 {
                // cofactor C_ji (adjugate entry (i, j)) of the scaled integer matrix
                if n == 2 {
                    let v = e(1 - j, 1 - i);
                    if (i + j) % 2 == 0 { v } else { -v }
                } else {
                    let rs: Vec<usize> = (0..3).filter(|&r0| r0 != j).collect();
                    let cs: Vec<usize> = (0..3).filter(|&c0| c0 != i).collect();
                    let m = e(rs[0], cs[0]) * e(rs[1], cs[1]) - e(rs[0], cs[1]) * e(rs[1], cs[0]);
                    if (i + j) % 2 == 0 { m } else { -m }
                }
            };
            let norm_a = (0..n).map(|i| (0..n).map(|j| (e(i, j) as f64).abs()).sum::<f64>()).fold(0.0, f64::max);
            let norm_adj = (0..n).map(|i| (0..n).map(|j| (adj(i, j) as f64).abs()).sum::<f64>()).fold(0.0, f64::max);
            let cond = norm_a * norm_adj / (det as f64).abs();
            if cond > (1u64 << 44) as f64 {
                acc.hit("condition number beyond 2^44 (singular to working precision; skipped)");
                return;
            }
            let af: F = (0..n).map(|i| (0..n).map(|j| lf[d[i * n + j]]).collect()).collect();
            if d.iter().any(|&k| k == 3) && d.iter().any(|&k| k == 4) {
                acc.nontriv("entries 2^40 apart in one matrix");
            } else {
                acc.nontriv("nonsingular member");
            }
            for b in rhs.iter() {
                acc.hit("f64 solves (x2 solvers)");
                let mut local = Acc::new("tmp");
                let res = catch(|| check_f64(&af, b, false, Some(&mut local)));
                acc.merge_worst(local);
                match res {
                    Ok(Ok(())) => {}
                    Ok(Err(e)) => acc.fail(idx, format!("mixed A={:?} b={:?}", af, b), e),
                    Err(p) => acc.fail(idx, format!("mixed A={:?} b={:?}", af, b), format!("unexpected panic: {}", p)),
                }
            }
        },
    );
}

/// orders beyond the exhaustive lattices: P*L*U products of small integers (exact in f64), dominant dense and Hessenberg
/// matrices of order 7..65 - every block size, unrolling factor or size-gated path a solver might have is crossed
fn large_order_space(ctx: &Ctx) {
    let orders: Vec<usize> = vec![7, 8, 9, 10, 11, 12, 13, 15, 16, 17, 20, 24, 31, 32, 33, 40, 48, 63, 64, 65];
    let kinds = 7usize;
    let no = orders.len() as u64;
    ctx.lattice(
        &format!("f64 orders {:?}: P*L*U with 4 permutation kinds, dominant dense, Hessenberg, unit diagonal over a lower part of -1.55..-1.95 with a full last column x 3 right-hand sides", orders),
        no * kinds as u64,
        |idx| format!("n={} kind#{}", orders[(idx / kinds as u64) as usize], idx % kinds as u64),
        |idx, acc| {
            let n = orders[(idx / kinds as u64) as usize];
            let kind = (idx % kinds as u64) as usize;
            let mut a: F = vec![vec![0.0; n]; n];
            if kind < 4 {
                // L unit lower with entries in {-1,0,1}, U upper with diagonal +-1/+-2 and entries in {-1,0,1,2}: L*U exact
                let mut l = vec![vec![0.0f64; n]; n];
                let mut u = vec![vec![0.0f64; n]; n];
                for i in 0..n {
                    l[i][i] = 1.0;
                    u[i][i] = [1.0, -2.0, 2.0, -1.0][(i * 3 + kind) % 4];
                    for j in 0..i {
                        l[i][j] = [0.0, 1.0, -1.0, 0.0, 1.0][(i * 7 + j * 3 + kind) % 5] * if i - j <= 3 { 1.0 } else { 0.0 };
                    }
                    for j in i + 1..n {
                        u[i][j] = [1.0, 0.0, -1.0, 2.0, 0.0, 0.0][(i * 5 + j * 11 + kind) % 6] * if j - i <= 4 { 1.0 } else { 0.0 };
                    }
                }
                let perm: Vec<usize> = match kind {
                    0 => (0..n).collect(),
                    1 => (0..n).rev().collect(),
                    2 => (0..n).map(|i| (i + n / 3) % n).collect(),
                    _ => (0..n).map(|i| if i % 2 == 0 && i + 1 < n { i + 1 } else if i % 2 == 1 { i - 1 } else { i }).collect(),
                };
                for i in 0..n {
                    for j in 0..n {
                        let mut sum = 0.0;
                        for k in 0..n {
                            sum += l[i][k] * u[k][j];
                        }
                        a[perm[i]][j] = sum;
                    }
                }
            } else if kind == 6 {
                // unit diagonal, strictly lower part between -1.95 and -1.55, full last column: with true partial pivoting every step
                // exchanges (1.9 > 1) and the multipliers stay below 1; a pivot search that tolerates a diagonal within a factor two
                // of the largest candidate keeps multipliers of 1.9 and grows the entries like 2.9^n
                for i in 0..n {
                    for j in 0..i {
                        a[i][j] = -(1.55 + 0.1 * ((i * 7 + j * 3) % 5) as f64);
                    }
                    a[i][i] = 1.0;
                    a[i][n - 1] = 1.0;
                }
            } else if kind == 4 {
                for i in 0..n {
                    for j in 0..n {
                        a[i][j] = (((i * 13 + j * 7) % 9) as f64 - 4.0) * 0.25;
                    }
                    let s: f64 = a[i].iter().map(|x| x.abs()).sum();
                    a[i][(i + n / 2) % n] = (s + 1.0) * if i % 2 == 0 { 1.0 } else { -1.0 }; // one dominant entry per row and per column
                }
            } else {
                for i in 0..n {
                    for j in 0..n {
                        if j + 1 >= i {
                            a[i][j] = ((i * 3 + j * 5) % 7) as f64 - 3.0;
                        }
                    }
                    a[i][i] += if a[i][i] >= 0.0 { n as f64 } else { -(n as f64) };
                    if i > 0 {
                        a[i][i - 1] = [2.0, -1.0, 0.0][i % 3];
                    }
                }
            }
            acc.nontriv("order >= 7");
            let xs: Vec<f64> = (0..n).map(|i| ((i % 5) as f64) - 2.0).collect();
            let b0: Vec<f64> = (0..n).map(|i| (0..n).map(|j| a[i][j] * xs[j]).sum()).collect();
            let rhs = vec![b0, vec![1.0; n], (0..n).map(|i| if i == n - 1 { 1.0 } else { 0.0 }).collect::<Vec<f64>>()];
            for b in rhs.iter() {
                acc.hit("f64 solves (x2 solvers)");
                let mut local = Acc::new("tmp");
                let res = catch(|| check_f64(&a, b, kind == 4 || kind == 5, Some(&mut local)));
                acc.merge_worst(local);
                let key = || format!("large n={} kind#{} b[0]={}", n, kind, b[0]);
                match res {
                    Ok(Ok(())) => {}
                    Ok(Err(e)) => acc.fail(idx, key(), e),
                    Err(p) => acc.fail(idx, key(), format!("unexpected panic: {}", p)),
                }
            }
        },
    );
}

// --- complex ---------------------------------------------------------------------------------------
fn cletters(full: bool) -> Vec<(Cmplx, CQ)> {
    let c = |a: f64, b: f64| Cmplx::new(a, b);
    let q = |a: i64, b: i64| CQ::new(r(a), r(b));
    let mut v = vec![(c(0., 0.), q(0, 0)), (c(1., 0.), q(1, 0)), (c(0., 1.), q(0, 1)), (c(-1., 0.), q(-1, 0))];
    if full {
        v.push((c(0., -1.), q(0, -1)));
        v.push((c(1., 1.), q(1, 1)));
        v.push((c(TINY, 0.), q(0, 0)));
    }
    v
}
fn cabs(z: Cmplx) -> f64 {
    z.real.hypot(z.imag)
}
fn check_cmplx(a: &Vec<Vec<Cmplx>>, b: &[Cmplx], acc: &mut Acc) -> Result<(), String> {
    let n = a.len();
    let mk = || {
        let mut m = Matrix::<Cmplx>::new(n, n, Cmplx::new(0.0, 0.0));
        for i in 0..n {
            for j in 0..n {
                m[(i, j)] = a[i][j];
            }
        }
        m
    };
    let bv = Vector::create(b.to_vec());
    let x1 = mk().solve_basic(&bv);
    let x2 = mk().solve_lu(&bv);
    ensure!(x1.size() == n && x2.size() == n, "wrong length");
    let an = a.iter().map(|r| r.iter().map(|z| cabs(*z)).sum::<f64>()).fold(0.0, f64::max);
    let bn = b.iter().map(|z| cabs(*z)).fold(0.0, f64::max);
    let mut errs = [0.0f64; 2];
    for (s, x) in [&x1, &x2].iter().enumerate() {
        let xn = x.vec.iter().map(|z| cabs(*z)).fold(0.0, f64::max);
        let mut rmax = 0.0f64;
        for i in 0..n {
            let mut re = b[i].real;
            let mut im = b[i].imag;
            for j in 0..n {
                re -= a[i][j].real * x[j].real - a[i][j].imag * x[j].imag;
                im -= a[i][j].real * x[j].imag + a[i][j].imag * x[j].real;
            }
            rmax = rmax.max(re.hypot(im));
        }
        let e = if !xn.is_finite() { f64::INFINITY } else { rmax / (an * xn + bn) };
        errs[s] = e;
    }
    acc.worst("backward_error_complex_solve_basic", errs[0], || format!("A={:?} b={:?}", a, b));
    acc.worst("backward_error_complex_solve_lu", errs[1], || format!("A={:?} b={:?}", a, b));
    ensure!(errs[0] <= BE_THRESHOLD, "complex solve_basic: backward error {:e}; x = {:?}", errs[0], x1.vec);
    ensure!(errs[1] <= BE_THRESHOLD, "complex solve_lu: backward error {:e}; x = {:?}", errs[1], x2.vec);
    Ok(())
}
fn complex_space(ctx: &Ctx, n: usize, full: bool) {
    complex_space_at(ctx, n, full, 1.0);
}
/// the Complex<f64> lattice (tiny letter included) multiplied by a power of two: the pivot search compares moduli beyond the
/// range where re^2 + im^2 is representable, and the backward error is scale invariant
fn complex_space_at(ctx: &Ctx, n: usize, full: bool, scale: f64) {
    let letters = cletters(full);
    let l = letters.len() as u64;
    let len = pow(l, (n * n) as u32);
    ctx.lattice(
        &if scale == 1.0 { format!("Complex<f64> n={} over {} letters", n, l) } else { format!("Complex<f64> n={} over {} letters, every entry times 2^{}", n, l, scale.log2()) },
        len,
        |idx| {
            let mut d = vec![0usize; n * n];
            digits_uniform(idx, l, &mut d);
            format!("{:?}", d.iter().map(|&k| letters[k].0).collect::<Vec<Cmplx>>())
        },
        |idx, acc| {
            let mut d = vec![0usize; n * n];
            digits_uniform(idx, l, &mut d);
            let aq: Vec<Vec<CQ>> = (0..n).map(|i| (0..n).map(|j| letters[d[i * n + j]].1).collect()).collect();
            if model::det_cq(&aq).is_zero() {
                acc.hit("singular / numerically singular (skipped)");
                return;
            }
            let a: Vec<Vec<Cmplx>> = (0..n).map(|i| (0..n).map(|j| Cmplx::new(letters[d[i * n + j]].0.real * scale, letters[d[i * n + j]].0.imag * scale)).collect()).collect();
            if cabs(a[0][0]) < 1e-10 * scale {
                acc.nontriv("zero or tiny leading pivot");
            }
            if a.iter().flatten().any(|z| z.imag != 0.0) {
                acc.nontriv("genuinely complex entries");
            }
            let b1: Vec<Cmplx> = (0..n).map(|i| Cmplx::new(1.0, i as f64)).collect();
            let b2: Vec<Cmplx> = (0..n).map(|i| if i == 0 { Cmplx::new(0.0, 1.0) } else { Cmplx::new(0.0, 0.0) }).collect();
            for b in [b1, b2] {
                let mut local = Acc::new("tmp");
                let res = catch(|| check_cmplx(&a, &b, &mut local));
                acc.merge_worst(local);
                match res {
                    Ok(Ok(())) => {}
                    Ok(Err(e)) => acc.fail(idx, format!("complex A={:?} b={:?}", a, b), e),
                    Err(p) => acc.fail(idx, format!("complex A={:?} b={:?}", a, b), format!("unexpected panic: {}", p)),
                }
            }
        },
    );
}

/// the same nonsingular matrix reached through different construction / editing paths must be solved identically
fn provenance_case(a: &M, b: &[Rat]) -> Result<(), String> {
    let n = a.len();
    let bv = model::to_vector(b);
    let zero = Rat::int(0);
    let filler: Vec<Rat> = (0..n).map(|j| Rat::int(9 + j as i64)).collect();
    for path in 0..6usize {
        let build = || -> Matrix<Rat> {
            match path {
                // an extra row (holding large entries) deleted again, at every position
                0 | 1 | 2 => {
                    let pos = (path * n) / 2; // 0, n/2, n
                    let mut m = Matrix::new(n + 1, n, zero);
                    let mut src = 0;
                    for i in 0..n + 1 {
                        if i == pos.min(n) {
                            for j in 0..n {
                                m[(i, j)] = filler[j];
                            }
                        } else {
                            for j in 0..n {
                                m[(i, j)] = a[src][j];
                            }
                            src += 1;
                        }
                    }
                    m.delete_row(pos.min(n));
                    m
                }
                // shrunk from a larger matrix
                3 => {
                    let mut m = Matrix::new(n + 2, n + 1, Rat::int(7));
                    for i in 0..n {
                        for j in 0..n {
                            m[(i, j)] = a[i][j];
                        }
                    }
                    m.resize(n, n);
                    m
                }
                // transposed twice / built column by column
                4 => {
                    let mut m = Matrix::new(n, n, zero);
                    for j in 0..n {
                        m.set_col(j, Vector::create((0..n).map(|i| a[i][j]).collect()));
                    }
                    m.transpose_in_place();
                    m.transpose_in_place();
                    m
                }
                // grown from the empty matrix, rows swapped into place
                _ => {
                    let mut m = Matrix::<Rat>::empty();
                    m.resize(n, n);
                    for i in 0..n {
                        m.set_row(i, Vector::create(a[(i + 1) % n].clone()));
                    }
                    for i in (1..n).rev() {
                        m.swap_rows(i, i - 1);
                    }
                    m
                }
            }
        };
        let reference = model::to_matrix(a, n);
        let built = build();
        ensure!(built == reference, "construction path {} does not yield the intended matrix (C03's business): {:?}", path, built);
        let x1 = build().solve_basic(&bv);
        ensure!(model::matvec(a, &x1.vec) == b, "path {}: solve_basic: A*x != b (x = {})", path, model::showv(&x1.vec));
        let x2 = build().solve_lu(&bv);
        ensure!(model::matvec(a, &x2.vec) == b, "path {}: solve_lu: A*x != b (x = {})", path, model::showv(&x2.vec));
        // solving twice from the same object: the first call may modify the matrix, a fresh clone must not be affected
        let orig = build();
        let c1 = orig.clone();
        let mut w = orig;
        let _ = w.solve_basic(&bv);
        let mut c = c1.clone();
        let x3 = c.solve_lu(&bv);
        ensure!(model::matvec(a, &x3.vec) == b, "path {}: clone taken before a solve was affected by it", path);
    }
    Ok(())
}

/// Complex<f64> systems whose rows and right-hand side carry power-of-two scales up to 2^+-480 (the quotient a / b of two
/// representable complex numbers must not depend on |b|^2 being representable). A = diag(rho) * A0 with A0 over small
/// Gaussian integers, b = tau * diag(rho) * A0 * x*, so the solution tau * x* is known exactly and is unscaled exactly.
fn complex_scaled_space(ctx: &Ctx, n: usize, nletters: usize) {
    let letters: Vec<(Cmplx, CQ)> = cletters(true).into_iter().filter(|(z, _)| z.real != TINY).take(nletters).collect();
    let l = letters.len() as u64;
    let rhos = [2f64.powi(-480), 2f64.powi(-340), 1.0, 2f64.powi(342), 2f64.powi(480)];
    let taus = [2f64.powi(-400), 1.0, 2f64.powi(400)];
    let nr = pow(rhos.len() as u64, n as u32);
    let per = nr * taus.len() as u64;
    let len = pow(l, (n * n) as u32) * per;
    let xstar: Vec<Cmplx> = [Cmplx::new(1.0, 0.0), Cmplx::new(0.0, 1.0), Cmplx::new(-2.0, 1.0)][..n].to_vec();
    ctx.lattice(
        &format!("Complex<f64> n={} over {} Gaussian-integer letters x row scales {{2^-480,2^-340,1,2^342,2^480}}^{} x solution scales {{2^-400,1,2^400}}", n, l, n),
        len,
        |idx| format!("matrix#{} scales#{}", idx / per, idx % per),
        |idx, acc| {
            let mut d = vec![0usize; n * n];
            digits_uniform(idx / per, l, &mut d);
            let aq: Vec<Vec<CQ>> = (0..n).map(|i| (0..n).map(|j| letters[d[i * n + j]].1).collect()).collect();
            if model::det_cq(&aq).is_zero() {
                acc.hit("singular (skipped)");
                return;
            }
            let mut rd = vec![0usize; n];
            digits_uniform((idx % per) / taus.len() as u64, rhos.len() as u64, &mut rd);
            let tau = taus[(idx % taus.len() as u64) as usize];
            let a0: Vec<Vec<Cmplx>> = (0..n).map(|i| (0..n).map(|j| letters[d[i * n + j]].0).collect()).collect();
            // b0 = A0 x* in small Gaussian integers: exact in f64
            let b0: Vec<Cmplx> = (0..n)
                .map(|i| {
                    let (mut re, mut im) = (0.0, 0.0);
                    for j in 0..n {
                        re += a0[i][j].real * xstar[j].real - a0[i][j].imag * xstar[j].imag;
                        im += a0[i][j].real * xstar[j].imag + a0[i][j].imag * xstar[j].real;
                    }
                    Cmplx::new(re, im)
                })
                .collect();
            let mk = || {
                let mut m = Matrix::<Cmplx>::new(n, n, Cmplx::new(0.0, 0.0));
                for i in 0..n {
                    for j in 0..n {
                        m[(i, j)] = Cmplx::new(a0[i][j].real * rhos[rd[i]], a0[i][j].imag * rhos[rd[i]]);
                    }
                }
                m
            };
            let bv = Vector::create((0..n).map(|i| Cmplx::new(b0[i].real * rhos[rd[i]] * tau, b0[i].imag * rhos[rd[i]] * tau)).collect::<Vec<Cmplx>>());
            if rd.iter().any(|&k| k != 2) || tau != 1.0 {
                acc.nontriv("system with a scale beyond 2^+-340");
            }
            let key = || format!("complex scaled A0={:?} row scales={:?} tau={:e}", a0, rd.iter().map(|&k| rhos[k]).collect::<Vec<f64>>(), tau);
            for basic in [true, false] {
                let name = if basic { "solve_basic" } else { "solve_lu" };
                let res = catch(|| -> Result<(), String> {
                    let x = if basic { mk().solve_basic(&bv) } else { mk().solve_lu(&bv) };
                    ensure!(x.size() == n, "wrong length");
                    let mut err = 0.0f64;
                    for j in 0..n {
                        // unscaling by a power of two is exact
                        let (re, im) = (x[j].real / tau, x[j].imag / tau);
                        ensure!(re.is_finite() && im.is_finite(), "{}: x = {:?} is not finite (solution {:?} * {:e})", name, x.vec, xstar, tau);
                        err = err.max((re - xstar[j].real).abs()).max((im - xstar[j].imag).abs());
                    }
                    ensure!(err <= 1e-12, "{}: x / tau = {:?} but the solution is {:?} (error {:e})", name, x.vec.iter().map(|z| (z.real / tau, z.imag / tau)).collect::<Vec<_>>(), xstar, err);
                    Ok(())
                });
                match res {
                    Ok(Ok(())) => {}
                    Ok(Err(e)) => acc.fail(idx, key(), e),
                    Err(p) => acc.fail(idx, key(), format!("unexpected panic: {}", p)),
                }
            }
        },
    );
}

fn scaled_space(ctx: &Ctx) {
    // uniformly scaled twins of the 2x2 / 3x3 integer lattices: conditioning is scale invariant, so the same threshold applies
    // 2^-1030: every entry is SUBNORMAL (a reciprocal of a pivot overflows although every multiplier is a ratio of small integers);
    // 2^+-1000: close to both ends of the range
    let scales = [2f64.powi(-60), 2f64.powi(-30), 2f64.powi(40), 1e-18, 1e18, 2f64.powi(-1030), 2f64.powi(-1000), 2f64.powi(1000)];
    for (n, letters) in [(2usize, z5()), (3usize, z3())] {
        let len = pow(letters.len() as u64, (n * n) as u32);
        ctx.lattice(
            &format!("f64 n={} uniformly scaled integer lattice x scales {{2^-60,2^-30,2^40,1e-18,1e18,2^-1030,2^-1000,2^1000}}", n),
            len * scales.len() as u64,
            |idx| format!("{} scale {:e}", model::show(&model::mat_from_idx(idx / 8, n, &letters)), scales[(idx % 8) as usize]),
            |idx, acc| {
                let a = model::mat_from_idx(idx / 8, n, &letters);
                if model::det(&a).is_zero() {
                    return;
                }
                let sc = scales[(idx % 8) as usize];
                acc.nontriv("uniformly scaled system");
                let af: F = model::to_f(&a).iter().map(|r| r.iter().map(|x| x * sc).collect()).collect();
                // the right-hand side carries the scale too when the solution would otherwise leave the range
                let bs = if sc < 1e-300 || sc > 1e300 { sc } else { 1.0 };
                let b: Vec<f64> = (0..n).map(|i| (if i % 2 == 0 { 1.0 + i as f64 } else { -2.0 }) * bs).collect();
                let mut local = Acc::new("tmp");
                let res = catch(|| check_f64(&af, &b, false, Some(&mut local)));
                acc.merge_worst(local);
                match res {
                    Ok(Ok(())) => {}
                    Ok(Err(e)) => acc.fail(idx, format!("scaled A={:?} b={:?}", af, b), e),
                    Err(p) => acc.fail(idx, format!("scaled A={:?} b={:?}", af, b), format!("unexpected panic: {}", p)),
                }
            },
        );
    }
}

/// One Matrix object used for two systems in a row: solve A1 x = b (either solver; both overwrite the object with their factors),
/// write A2 into the same object through one of the editors, solve again with either solver: the second answer must solve A2
/// exactly (rationals) - nothing of the first factorisation may survive in the object. A1, A2 range over all nonsingular 2x2
/// matrices over {0,1,-1,2} (thorough: also 3x3 over {0,1,-1} with at most 3 deviations from two bases).
fn reuse_space(ctx: &Ctx) {
    let letters = vec![r(0), r(1), r(-1), r(2)];
    let l = letters.len() as u64;
    let mut mats: Vec<M> = vec![];
    for idx in 0..pow(l, 4) {
        let mut dg = vec![0usize; 4];
        digits_uniform(idx, l, &mut dg);
        let m: M = vec![vec![letters[dg[0]], letters[dg[1]]], vec![letters[dg[2]], letters[dg[3]]]];
        if model::det(&m) != Rat::int(0) {
            mats.push(m);
        }
    }
    let bases3: Vec<M> = vec![
        vec![vec![r(0), r(1), r(2)], vec![r(1), r(0), r(-1)], vec![r(2), r(1), r(1)]],
        vec![vec![r(1), r(1), r(0)], vec![r(-1), r(1), r(1)], vec![r(0), r(2), r(1)]],
        vec![vec![r(2), r(0), r(1)], vec![r(0), r(-1), r(1)], vec![r(1), r(1), r(0)]],
    ];
    for b3 in &bases3 {
        if model::det(b3) != Rat::int(0) {
            mats.push(b3.clone());
        }
    }
    let nm = mats.len() as u64;
    const PATHS: u64 = 6;
    ctx.lattice(
        &format!("one Matrix object, two systems: {} nonsingular matrices (2x2 over {{0,1,-1,2}}, three 3x3) as first and second system of equal order x 2 first solvers x 6 rewriting paths (set_row, set_col, IndexMut, fill + IndexMut, set_row of the transpose + transpose_in_place, resize to 0x0 and back) x 2 second solvers", nm),
        nm * nm,
        |idx| format!("A1#{} A2#{}", idx / nm, idx % nm),
        |idx, acc| {
            let (a1, a2) = (&mats[(idx / nm) as usize], &mats[(idx % nm) as usize]);
            let n = a1.len();
            if a2.len() != n {
                return;
            }
            acc.nontriv("matrix object reused for a second system");
            let b: Vec<Rat> = (0..n).map(|i| r([1, -2, 3][i % 3])).collect();
            let bv = model::to_vector(&b);
            for first in 0..2usize {
                for path in 0..PATHS {
                    for second in 0..2usize {
                        let key = || format!("reuse A1={} A2={} first={} path={} second={}", model::show(a1), model::show(a2), ["solve_basic", "solve_lu"][first], path, ["solve_basic", "solve_lu"][second]);
                        let res = catch(|| -> Result<(), String> {
                            let mut m = model::to_matrix(a1, n);
                            let x1 = if first == 0 { m.solve_basic(&bv) } else { m.solve_lu(&bv) };
                            ensure!(model::matvec(a1, &x1.vec) == b, "first solve wrong: x = {}", model::showv(&x1.vec));
                            match path {
                                0 => {
                                    for i in 0..n {
                                        m.set_row(i, Vector::create(a2[i].clone()));
                                    }
                                }
                                1 => {
                                    for j in 0..n {
                                        m.set_col(j, Vector::create((0..n).map(|i| a2[i][j]).collect()));
                                    }
                                }
                                2 => {
                                    for i in 0..n {
                                        for j in 0..n {
                                            m[(i, j)] = a2[i][j];
                                        }
                                    }
                                }
                                3 => {
                                    m.fill(Rat::int(0));
                                    for i in 0..n {
                                        for j in 0..n {
                                            if a2[i][j] != Rat::int(0) {
                                                m[(i, j)] = a2[i][j];
                                            }
                                        }
                                    }
                                }
                                4 => {
                                    for i in 0..n {
                                        m.set_row(i, Vector::create((0..n).map(|j| a2[j][i]).collect()));
                                    }
                                    m.transpose_in_place();
                                }
                                _ => {
                                    m.resize(0, 0);
                                    m.resize(n, n);
                                    for i in 0..n {
                                        m.set_row(i, Vector::create(a2[i].clone()));
                                    }
                                }
                            }
                            ensure!(m == model::to_matrix(a2, n), "the rewritten object does not hold the second matrix (C03's business): {:?}", m);
                            let x2 = if second == 0 { m.solve_basic(&bv) } else { m.solve_lu(&bv) };
                            ensure!(model::matvec(a2, &x2.vec) == b, "the second solve on the same object does not solve the second system: x = {} (first system's solution {})", model::showv(&x2.vec), model::showv(&x1.vec));
                            Ok(())
                        });
                        match res {
                            Ok(Ok(())) => {}
                            Ok(Err(e)) => acc.fail(idx, key(), e),
                            Err(p) => acc.fail(idx, key(), format!("unexpected panic: {}", p)),
                        }
                    }
                }
            }
        },
    );
}

fn main() {
    let ctx = Ctx::from_args("C01");
    ctx.level("exploration");
    ctx.rule("E1 exhaustive lattices: every n x n matrix over the stated alphabet (n=1,2 over {0,+-1,+-2}; n=3 over {0,+-1} quick / {0,+-1,+-2} thorough; n=4 over {0,+-1} thorough), every nonsingular one (decided by an independent cofactor determinant) with every right-hand side in {0,+-1}^n (n<=3); P*L*U family for every permutation P in S_n, n<=6; f64 twins; tiny-pivot lattice {0,1,-1,2,+-1e-20}; Complex<f64> lattices; structured families (P*L*U of small integers with four permutation kinds, dominant dense, Hessenberg) of order 7..65. Non-trivial: systems that need >=1 / >=2 row exchanges under partial pivoting, zero or tiny leading pivots, genuinely complex entries.");
    ctx.assume("exact verdicts hold for the enumerated alphabets and orders only; n>4 is reached only through the P*L*U family");
    ctx.assume("f64 lattices are restricted to matrices that are tiny (1e-20) perturbations of nonsingular small-integer matrices, i.e. well conditioned: any backward-stable solver must pass, so the 1e-12 threshold cannot alarm on correct code");
    ctx.threshold("backward_error_solve_basic", BE_THRESHOLD);
    ctx.threshold("backward_error_solve_lu", BE_THRESHOLD);
    ctx.threshold("backward_error_complex_solve_basic", BE_THRESHOLD);
    ctx.threshold("backward_error_complex_solve_lu", BE_THRESHOLD);
    ctx.threshold("forward_disagreement_basic_vs_lu", FWD_THRESHOLD);
    ctx.require(&["needs >=1 row exchange", "needs >=2 row exchanges", "zero leading pivot", "zero or tiny leading pivot", "has 1e-20 entries", "genuinely complex entries"]);

    exact_space(&ctx, 1, z5(), "{0,1,-1,2,-2}");
    exact_space(&ctx, 2, z5(), "{0,1,-1,2,-2}");
    exact_space(&ctx, 3, z3(), "{0,1,-1}");
    for n in 2..=ctx.pick(5, 6) {
        plu_space(&ctx, n);
    }
    f64_int_space(&ctx, 1, z5(), "{0,1,-1,2,-2}");
    f64_int_space(&ctx, 2, z5(), "{0,1,-1,2,-2}");
    f64_int_space(&ctx, 3, z3(), "{0,1,-1}");
    tiny_space(&ctx, 2, 4);
    tiny_space(&ctx, 3, ctx.pick(2, 9));
    mixed_space(&ctx, 2);
    mixed_space(&ctx, 3);
    large_order_space(&ctx);
    reuse_space(&ctx);
    scaled_space(&ctx);
    {
        let letters = z3();
        let n = 3usize;
        let rhs = vec![vec![r(1), r(-2), r(3)], vec![r(0), r(0), r(1)]];
        ctx.lattice(
            "exact n=3: every nonsingular matrix over {0,1,-1} reached through 6 construction/editing paths (delete_row, resize, set_col + transposes, grown from empty + swaps)",
            pow(3, 9),
            |idx| model::show(&model::mat_from_idx(idx, n, &letters)),
            |idx, acc| {
                let a = model::mat_from_idx(idx, n, &letters);
                if model::det(&a).is_zero() {
                    return;
                }
                acc.nontriv("system reached through an editing history");
                for b in rhs.iter() {
                    judge(acc, idx, || format!("provenance A={} b={}", model::show(&a), model::showv(b)), || provenance_case(&a, b));
                }
            },
        );
    }
    complex_space(&ctx, 1, true);
    complex_space(&ctx, 2, true);
    complex_space(&ctx, 3, false);
    for e in [-600, -450, 450, 600] {
        complex_space_at(&ctx, 2, true, 2f64.powi(e));
        if ctx.thorough() {
            complex_space_at(&ctx, 3, false, 2f64.powi(e));
        }
    }
    complex_scaled_space(&ctx, 2, 6);
    if ctx.thorough() {
        complex_scaled_space(&ctx, 3, 3);
    }
    if ctx.thorough() {
        exact_space(&ctx, 3, z5(), "{0,1,-1,2,-2}");
        f64_int_space(&ctx, 3, z5(), "{0,1,-1,2,-2}");
        f64_int_space(&ctx, 4, z3(), "{0,1,-1}");
        exact_space(&ctx, 4, z3(), "{0,1,-1}");
    }
    // (1) Complex<f64> beyond |z| ~ 1e154 / below ~ 1e-154: Complex::abs and the complex division formed re^2 + im^2 unscaled,
    // so pivot moduli were inf / 0 and quotients NaN: repaired (9c56103, 8d587e4), the inputs are demanded now.
    // (2) Known finding (known_findings.txt): Wilkinson's matrix - partial pivoting has growth 2^(n-1), the backward error is
    // 3.5e-2 at n = 60 - inherent to the algorithm the crate uses.
    {
        let cplx = |scale: f64, basic: bool| -> Result<(), String> {
            let mut a = Matrix::<Cmplx>::new(2, 2, Cmplx::new(0.0, 0.0));
            a[(0, 0)] = Cmplx::new(scale, scale);
            a[(0, 1)] = Cmplx::new(2.0 * scale, 0.0);
            a[(1, 0)] = Cmplx::new(3.0 * scale, 0.0);
            a[(1, 1)] = Cmplx::new(4.0 * scale, -scale);
            // b = A (1, i)
            let b = Vector::create(vec![Cmplx::new(scale, 3.0 * scale), Cmplx::new(4.0 * scale, 4.0 * scale)]);
            let x = if basic { a.solve_basic(&b) } else { a.solve_lu(&b) };
            let err = (x[0].real - 1.0).abs() + x[0].imag.abs() + x[1].real.abs() + (x[1].imag - 1.0).abs();
            ensure!(err <= 1e-12, "x = {:?} but the solution is (1, i)", x.vec);
            Ok(())
        };
        let wilk = |n: usize, basic: bool| -> Result<(), String> {
            let a: F = (0..n).map(|i| (0..n).map(|j| if j == n - 1 || i == j { 1.0 } else if j < i { -1.0 } else { 0.0 }).collect()).collect();
            let b: Vec<f64> = (0..n).map(|i| ((i % 3) as f64) - 1.0 + 0.5).collect();
            let bv = Vector::create(b.clone());
            let mut m = model::to_mat64(&a);
            let x = if basic { m.solve_basic(&bv) } else { m.solve_lu(&bv) };
            let e = model::backward_error(&a, &x.vec, &b);
            ensure!(e <= BE_THRESHOLD, "normwise backward error {:e}", e);
            Ok(())
        };
        // the inputs of the first and second bug hunts, demanded since the complex division was repaired (8d587e4)
        let hunt2 = || -> Result<(), String> {
            // entries in [1, 1e120] only: the intermediate |a_kk|^2 |x_k| of the old quotient overflowed
            let mut a = Matrix::<Cmplx>::new(2, 2, Cmplx::new(0.0, 0.0));
            a[(0, 0)] = Cmplx::new(1e120, 0.0);
            a[(0, 1)] = Cmplx::new(1e120, 0.0);
            a[(1, 0)] = Cmplx::new(1.0, 0.0);
            a[(1, 1)] = Cmplx::new(-1.0, 0.0);
            let b = Vector::create(vec![Cmplx::new(0.0, 0.0), Cmplx::new(2e70, 0.0)]);
            for basic in [true, false] {
                let mut m = a.clone();
                let x = if basic { m.solve_basic(&b) } else { m.solve_lu(&b) };
                let err = (x[0].real / 1e70 - 1.0).abs() + (x[0].imag / 1e70).abs() + (x[1].real / 1e70 + 1.0).abs() + (x[1].imag / 1e70).abs();
                ensure!(err <= 1e-12, "x = {:?} but the solution is (1e70, -1e70)", x.vec);
            }
            Ok(())
        };
        ctx.listed_cases(
            "listed inputs: Complex<f64> systems of extreme magnitude (bug-hunt inputs, repaired by 8d587e4)",
            vec![
                ("extreme-complex solve_basic 1e200*[[1+i,2],[3,4-i]] x = 1e200*A(1,i)".to_string(), Box::new(move || cplx(1e200, true))),
                ("extreme-complex solve_lu 1e200*[[1+i,2],[3,4-i]] x = 1e200*A(1,i)".to_string(), Box::new(move || cplx(1e200, false))),
                ("extreme-complex solve_basic 1e-200*[[1+i,2],[3,4-i]] x = 1e-200*A(1,i)".to_string(), Box::new(move || cplx(1e-200, true))),
                ("extreme-complex solve_lu 1e-200*[[1+i,2],[3,4-i]] x = 1e-200*A(1,i)".to_string(), Box::new(move || cplx(1e-200, false))),
                ("extreme-complex [[1e120,1e120],[1,-1]] x = (0, 2e70)".to_string(), Box::new(hunt2)),
            ],
        );
        ctx.known_cases(
            "listed inputs: Wilkinson's growth matrix",
            vec![
                ("wilkinson-growth solve_basic n=60".to_string(), Box::new(move || wilk(60, true))),
                ("wilkinson-growth solve_lu n=60".to_string(), Box::new(move || wilk(60, false))),
            ],
        );
    }
    std::process::exit(ctx.finish());
}
