use ohsl::*;
use std::panic::{catch_unwind, AssertUnwindSafe};

fn panics<F: FnOnce() -> R, R>( f: F ) -> bool {
    catch_unwind( AssertUnwindSafe( || { let _ = f(); } ) ).is_err()
}
fn v( n: usize ) -> Vec64 { let mut x = Vec64::zeros( n ); for i in 0..n { x[i] = 1.0 + i as f64; } x }

fn sp( r: usize, c: usize ) -> Sparse<f64> {
    let mut t = vec![];
    for i in 0..r { for j in 0..c { if (i + 2*j) % 3 != 1 || i == j { t.push( ( i, j, 1.0 + (i*c+j) as f64 + if i == j { 50.0 } else { 0.0 } ) ); } } }
    Sparse::from_triplets( r, c, &mut t )
}

#[test]
fn sweep2() {
    std::panic::set_hook( Box::new( |_| {} ) );
    let mut bad: Vec<String> = vec![];
    let d = [0usize,1,2,3,6,7,12];
    for &r in &d { for &c in &d {
        let s = sp( r, c );
        for &n in &[0usize,1,2,3,5,6,7,8,12,13] {
            let x = v(n);
            if panics( || s.multiply( &x ) ) == ( n == c ) { bad.push( format!( "sp multiply {r}x{c} {n}" ) ); }
            if panics( || s.transpose_multiply( &x ) ) == ( n == r ) { bad.push( format!( "sp tmultiply {r}x{c} {n}" ) ); }
            for &nx in &[0usize,1,2,3,6,7,12] {
                let ok = r == c && n == r && nx == r;
                if ok { continue; }
                let mut x0 = v(nx); let snap = x0.clone();
                if !panics( || s.solve_cg( &x, &mut x0, 5, 1e-8 ) ) { bad.push( format!( "sp cg {r}x{c} b{n} x{nx}" ) ); }
                if !panics( || s.solve_bicg( &x, &mut x0, 5, 1e-8, 1 ) ) { bad.push( format!( "sp bicg {r}x{c} b{n} x{nx}" ) ); }
                if !panics( || s.solve_bicg( &x, &mut x0, 5, 1e-8, 2 ) ) { bad.push( format!( "sp bicg2 {r}x{c} b{n} x{nx}" ) ); }
                if !panics( || s.solve_bicgstab( &x, &mut x0, 5, 1e-8 ) ) { bad.push( format!( "sp bicgstab {r}x{c} b{n} x{nx}" ) ); }
                if !panics( || s.solve_qmr( &x, &mut x0, 5, 1e-8 ) ) { bad.push( format!( "sp qmr {r}x{c} b{n} x{nx}" ) ); }
                if x0 != snap { bad.push( format!( "sp solver wrote x on failure {r}x{c} b{n} x{nx}" ) ); }
            }
        }
        for i in 0..r+2 { for j in 0..c+2 {
            if panics( || s.get( i, j ) ) == ( i < r && j < c ) { bad.push( format!( "sp get {r}x{c} {i},{j}" ) ); }
            let mut z = sp( r, c );
            let before = z.to_triplets();
            let pan = panics( || z.insert( i, j, 3.5 ) );
            if pan == ( i < r && j < c ) { bad.push( format!( "sp insert {r}x{c} {i},{j}" ) ); }
            if pan && z.to_triplets() != before { bad.push( format!( "sp insert changed on failure" ) ); }
            let mut t = s.to_triplets(); t.push( ( i, j, 1.0 ) );
            if panics( || Sparse::from_triplets( r, c, &mut t ) ) == ( i < r && j < c ) { bad.push( format!( "sp from_triplets {r}x{c} {i},{j}" ) ); }
            // triplet out of range placed first
            let mut t = s.to_triplets(); t.insert( 0, ( i, j, 1.0 ) );
            if panics( || Sparse::from_triplets( r, c, &mut t ) ) == ( i < r && j < c ) { bad.push( format!( "sp from_triplets first {r}x{c} {i},{j}" ) ); }
        } }
        // from_vecs with wrong dims
        let s2 = sp( r, c );
        for dr in 0..r { // fewer rows than the largest row index?
            let maxrow = s2.row_index.iter().cloned().max();
            if let Some( mr ) = maxrow { if dr <= mr {
                if !panics( || Sparse::from_vecs( dr, c, s2.val.clone(), s2.row_index.clone(), s2.col_start.clone() ) ) { bad.push( format!( "from_vecs rows {r}x{c} {dr}" ) ); }
            } }
        }
        for dc in 0..c+3 { if dc != c {
            if !panics( || Sparse::from_vecs( r, dc, s2.val.clone(), s2.row_index.clone(), s2.col_start.clone() ) ) { bad.push( format!( "from_vecs cols {r}x{c} {dc}" ) ); }
        } }
    } }
    // Mesh1D
    for &nn in &[0usize,1,2,3,6,9] { for &nv in &[0usize,1,2,3,6] {
        let mut me = Mesh1D::<f64,f64>::new( v(nn), nv );
        for node in 0..nn+2 {
            if panics( || me.coord( node ) ) == ( node < nn ) { bad.push( format!( "m1 coord {nn} {node}" ) ); }
            if panics( || me.get_nodes_vars( node ) ) == ( node < nn ) { bad.push( format!( "m1 get {nn} {node}" ) ); }
            for sz in 0..8 {
                let pan = panics( || me.set_nodes_vars( node, v(sz) ) );
                if pan == ( node < nn && sz == nv ) { bad.push( format!( "m1 set {nn} {nv} {node} {sz}" ) ); }
            }
        }
        for var in nv..nv+3 {
            if !panics( || me.trapezium( var ) ) { bad.push( format!( "m1 trapezium nn{nn} nv{nv} var{var}" ) ); }
        }
    } }
    // Mesh2D
    for &nx in &[0usize,1,2,3,6] { for &ny in &[0usize,1,2,3,6] { for &nv in &[0usize,1,2,4] {
        let mut me = Mesh2D::<f64>::new( v(nx), v(ny), nv );
        for i in 0..nx+2 { for j in 0..ny+2 {
            let ok = i < nx && j < ny;
            if panics( || me.coord( i, j ) ) == ok { bad.push( format!( "m2 coord {nx}x{ny} {i},{j}" ) ); }
            if panics( || me.get_nodes_vars( i, j ) ) == ok { bad.push( format!( "m2 get {nx}x{ny} {i},{j}" ) ); }
            for sz in 0..6 {
                if panics( || me.set_nodes_vars( i, j, v(sz) ) ) == ( ok && sz == nv ) { bad.push( format!( "m2 set {nx}x{ny} nv{nv} {i},{j} sz{sz}" ) ); }
            }
        } }
        for i in nx..nx+2 { if !panics( || me.cross_section_xnode( i ) ) { bad.push( format!( "m2 cross_x {nx}x{ny} nv{nv} {i}" ) ); } }
        for j in ny..ny+2 { if !panics( || me.cross_section_ynode( j ) ) { bad.push( format!( "m2 cross_y {nx}x{ny} nv{nv} {j}" ) ); } }
        for var in nv..nv+2 {
            if !panics( || me.var_as_matrix( var ) ) { bad.push( format!( "m2 var_as_matrix {nx}x{ny} nv{nv} {var}" ) ); }
            if !panics( || me.trapezium( var ) ) { bad.push( format!( "m2 trapezium {nx}x{ny} nv{nv} {var}" ) ); }
            if !panics( || me.square_trapezium( var ) ) { bad.push( format!( "m2 sq_trapezium {nx}x{ny} nv{nv} {var}" ) ); }
            if !panics( || me.apply( &|x,y| x+y, var ) ) { bad.push( format!( "m2 apply {nx}x{ny} nv{nv} {var}" ) ); }
        }
    } } }
    // Polynomial index
    for n in 0..8usize {
        let mut p = Polynomial::<f64>::new( v(n).vec );
        for k in 0..n+3 {
            if panics( || p[k] ) == ( k < n ) { bad.push( format!( "poly idx {n} {k}" ) ); }
            if panics( || { p[k] = 2.0; } ) == ( k < n ) { bad.push( format!( "poly idxmut {n} {k}" ) ); }
        }
    }
    // Tridiagonal index
    for n in 1..8usize {
        let mut t = Tridiagonal::<f64>::with_elements( 1.0, 2.0, 3.0, n );
        for i in 0..n+2 { for j in 0..n+2 {
            let ok = i < n && j < n && ( i == j || i == j + 1 || i + 1 == j );
            if panics( || t[(i,j)] ) == ok { bad.push( format!( "tri idx {n} {i},{j}" ) ); }
            if panics( || { t[(i,j)] = 2.0; } ) == ok { bad.push( format!( "tri idxmut {n} {i},{j}" ) ); }
        } }
    }
    // Vector slices
    for n in 0..8usize {
        let x = v(n);
        for s in 0..n+2 { for e in 0..n+2 {
            let ok = s <= e && e < n;
            if panics( || x.sum_slice( s, e ) ) == ok { bad.push( format!( "sum_slice {n} {s} {e}" ) ); }
            if panics( || x.product_slice( s, e ) ) == ok { bad.push( format!( "product_slice {n} {s} {e}" ) ); }
            let mut y = x.clone();
            if panics( || y.swap( s, e ) ) == ( s < n && e < n ) { bad.push( format!( "swap {n} {s} {e}" ) ); }
        } }
    }
    let _ = std::panic::take_hook();
    bad.sort(); bad.dedup();
    assert!( bad.is_empty(), "{} failures: {:#?}", bad.len(), &bad );
}
