use ohsl::*;
fn bits( v: &Vec<f64> ) -> Vec<u64> { v.iter().map( |x| x.to_bits() ).collect() }
fn mbits( m: &Mat64 ) -> Vec<u64> { let mut o = vec![ m.rows() as u64, m.cols() as u64 ]; for i in 0..m.rows() { for j in 0..m.cols() { o.push( m[(i,j)].to_bits() ); } } o }
const SPECIAL: [f64; 12] = [ 0.0, -0.0, 1.0, -1.0, f64::INFINITY, f64::NEG_INFINITY, f64::NAN, 5e-324, -5e-324, 1e300, -1e300, 1.0000000000000002 ];

#[test]
fn forms() {
    let n = SPECIAL.len();
    for shift in 0..n {
        let a = Vector::create( SPECIAL.to_vec() );
        let b = Vector::create( (0..n).map( |i| SPECIAL[(i+shift)%n] ).collect::<Vec<f64>>() );
        let ( sa, sb ) = ( bits( &a.vec ), bits( &b.vec ) );
        let r1 = &a + &b; let r2 = a.clone() + &b; let r3 = a.clone() + b.clone();
        assert_eq!( bits( &r1.vec ), bits( &r2.vec ) ); assert_eq!( bits( &r1.vec ), bits( &r3.vec ) );
        let mut r4 = a.clone(); r4 += b.clone(); assert_eq!( bits( &r1.vec ), bits( &r4.vec ) );
        let r1 = &a - &b; let r2 = a.clone() - &b; let r3 = a.clone() - b.clone();
        assert_eq!( bits( &r1.vec ), bits( &r2.vec ) ); assert_eq!( bits( &r1.vec ), bits( &r3.vec ) );
        let mut r4 = a.clone(); r4 -= b.clone(); assert_eq!( bits( &r1.vec ), bits( &r4.vec ) );
        let _ = a.dot( &b ); let _ = a.dot_f64( &b ); let _ = a.norm_2(); let _ = a.norm_inf(); let _ = a.norm_p( 3.0 ); let _ = a.abs(); let _ = a.sum(); let _ = a.product();
        assert_eq!( bits( &a.vec ), sa ); assert_eq!( bits( &b.vec ), sb );
        // matrices 3x4 * 4x3
        let mut p = Mat64::new( 3, 4, 0.0 ); let mut q = Mat64::new( 4, 3, 0.0 ); let mut p2 = Mat64::new( 3, 4, 0.0 );
        for i in 0..3 { for j in 0..4 { p[(i,j)] = SPECIAL[(i*4+j)%n]; q[(j,i)] = SPECIAL[(i*4+j+shift)%n]; p2[(i,j)] = SPECIAL[(i*4+j+shift)%n]; } }
        let ( sp, sq, sp2 ) = ( mbits( &p ), mbits( &q ), mbits( &p2 ) );
        assert_eq!( mbits( &( &p * &q ) ), mbits( &( p.clone() * q.clone() ) ) );
        assert_eq!( mbits( &( &p + &p2 ) ), mbits( &( p.clone() + p2.clone() ) ) );
        assert_eq!( mbits( &( &p - &p2 ) ), mbits( &( p.clone() - p2.clone() ) ) );
        let mut z = p.clone(); z += &p2; assert_eq!( mbits( &z ), mbits( &( &p + &p2 ) ) );
        let mut z = p.clone(); z += p2.clone(); assert_eq!( mbits( &z ), mbits( &( &p + &p2 ) ) );
        let mut z = p.clone(); z -= &p2; assert_eq!( mbits( &z ), mbits( &( &p - &p2 ) ) );
        assert_eq!( mbits( &( -&p ) ), mbits( &( -p.clone() ) ) );
        for &s in &SPECIAL {
            assert_eq!( mbits( &( &p * s ) ), mbits( &( p.clone() * s ) ) );
            assert_eq!( mbits( &( &p / s ) ), mbits( &( p.clone() / s ) ) );
            let mut z = p.clone(); z *= s; assert_eq!( mbits( &z ), mbits( &( &p * s ) ) );
            let mut z = p.clone(); z /= s; assert_eq!( mbits( &z ), mbits( &( &p / s ) ) );
        }
        let x = Vector::create( SPECIAL[shift%8..shift%8+4].to_vec() ); let sx = bits( &x.vec );
        assert_eq!( bits( &( &p * &x ).vec ), bits( &( p.clone() * x.clone() ).vec ) );
        assert_eq!( bits( &( &p * &x ).vec ), bits( &p.multiply( &x ).vec ) );
        let _ = p.transpose(); let _ = p.norm_1(); let _ = p.norm_inf(); let _ = p.norm_frob(); let _ = p.norm_max(); let _ = p.get_row( 1 ); let _ = p.get_col( 2 );
        assert_eq!( mbits( &p ), sp ); assert_eq!( mbits( &q ), sq ); assert_eq!( mbits( &p2 ), sp2 ); assert_eq!( bits( &x.vec ), sx );
        // polynomial
        let pa = Polynomial::new( SPECIAL[..5].to_vec() ); let pb = Polynomial::new( (0..3).map( |i| SPECIAL[(i+shift)%n] ).collect::<Vec<f64>>() );
        let pv = |p: &Polynomial<f64>| -> Vec<u64> { let mut c = p.clone(); bits( c.coeffs() ) };
        let ( spa, spb ) = ( pv( &pa ), pv( &pb ) );
        assert_eq!( pv( &( &pa + &pb ) ), pv( &( pa.clone() + pb.clone() ) ) );
        assert_eq!( pv( &( &pa - &pb ) ), pv( &( pa.clone() - pb.clone() ) ) );
        assert_eq!( pv( &( &pa * &pb ) ), pv( &( pa.clone() * pb.clone() ) ) );
        assert_eq!( pv( &( -&pa ) ), pv( &( -pa.clone() ) ) );
        assert_eq!( pv( &( &pa * 3.0 ) ), pv( &( pa.clone() * 3.0 ) ) );
        let _ = pa.polydiv( &pb ); let _ = pa.derivative(); let _ = pa.eval( 2.0 ); let _ = pa.is_zero();
        assert_eq!( pv( &pa ), spa ); assert_eq!( pv( &pb ), spb );
        // empty polynomial forms
        let pe = Polynomial::<f64>::empty();
        assert_eq!( pv( &( &pe - &pb ) ), pv( &( pe.clone() - pb.clone() ) ) );
        assert_eq!( pv( &( &pb - &pe ) ), pv( &( pb.clone() - pe.clone() ) ) );
    }
}
