use ohsl::*;
#[test]
fn wide_bands() {
    let mut seed = 12345u64;
    let mut val = || { seed = seed.wrapping_mul( 6364136223846793005 ).wrapping_add( 1442695040888963407 ); ( ( seed >> 33 ) % 19 ) as f64 - 9.0 };
    for n in 1..9usize { for m1 in 0..n+2 { for m2 in 0..n+2 {
        let mut b = Banded::<f64>::new( n, m1, m2, 0.0 );
        let mut d = vec![ vec![ 0.0; n ]; n ];
        for i in 0..n { for j in 0..n { if j <= i + m2 && i <= j + m1 { let x = val(); b[(i,j)] = x; d[i][j] = x; } } }
        let x: Vec<f64> = (0..n).map( |_| val() ).collect();
        let want: Vec<f64> = d.iter().map( |r| { let mut s = 0.0; for (a,c) in r.iter().zip( &x ) { s += a * c; } s } ).collect();
        assert_eq!( ( &b * &Vector::create( x.clone() ) ).vec, want, "n{n} m1 {m1} m2 {m2}" );
        for i in 0..n { for j in 0..n { if j <= i + m2 && i <= j + m1 { assert_eq!( b[(i,j)], d[i][j] ); } } }
    } } }
}
