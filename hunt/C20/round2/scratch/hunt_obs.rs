use ohsl::*;
#[test]
fn obs() {
    // Mesh1D read with mismatched nvars
    let mut a = Mesh1D::<f64,f64>::new( Vector::create( vec![ 0.0, 1.0, 2.0 ] ), 1 );
    for i in 0..3 { a[i][0] = 10.0 + i as f64; }
    let f = "/tmp/wt7/C20/_hunt/m1.dat"; a.output( f, 3 );
    let mut b = Mesh1D::<f64,f64>::new( Vector::create( vec![ 0.0, 1.0 ] ), 2 );
    let r = std::panic::catch_unwind( std::panic::AssertUnwindSafe( || b.read( f ) ) );
    println!( "read mismatched nvars: panicked={} nnodes={} nodes={:?} v0={:?} v1={:?}", r.is_err(), b.nnodes(), b.nodes(), b[0], b[1] );
    std::fs::remove_file( f ).unwrap();
    // Mesh1D IndexMut edit
    let mut m = Mesh1D::<f64,f64>::new( Vector::create( vec![ 0.0, 1.0 ] ), 2 );
    m[1].push( 9.0 );
    println!( "nvars={} get size={}", m.nvars(), m.get_nodes_vars( 1 ).size() );
    // Banded resize
    let mut b = Banded::<f64>::new( 3, 1, 1, 0.0 );
    for i in 0..3 { b[(i,i)] = 5.0; }
    b.resize( 3, 2, 1 );
    println!( "after resize b[(1,1)]={} b[(1,0)]={}", b[(1,1)], b[(1,0)] );
    // Mesh2D trapezium var out of range on 1 x 6
    let m2 = Mesh2D::<f64>::new( Vector::create( vec![ 0.0 ] ), Vec64::linspace( 0.0, 1.0, 6 ), 2 );
    println!( "m2 trapezium(7) on 1x6 = {}", m2.trapezium( 7 ) );
}
