use ohsl::*;
use std::panic::{catch_unwind, AssertUnwindSafe};

fn panics<F: FnOnce() -> R, R>( f: F ) -> bool {
    catch_unwind( AssertUnwindSafe( || { let _ = f(); } ) ).is_err()
}

fn v( n: usize ) -> Vec64 { let mut x = Vec64::zeros( n ); for i in 0..n { x[i] = 1.0 + i as f64; } x }
fn m( r: usize, c: usize ) -> Mat64 { let mut a = Mat64::new( r, c, 0.0 ); for i in 0..r { for j in 0..c { a[(i,j)] = 1.0 + (i*c+j) as f64; } } a }

#[test]
fn sweep() {
    std::panic::set_hook( Box::new( |_| {} ) );
    let mut bad: Vec<String> = vec![];
    let sizes: Vec<usize> = vec![0,1,2,3,5,6,7,8,13,31,64,70];
    for &a in &sizes { for &b in &sizes {
        if a == b { continue; }
        let (x, y) = ( v(a), v(b) );
        if !panics( || &x + &y ) { bad.push( format!( "vec &+& {a} {b}" ) ); }
        if !panics( || x.clone() + &y ) { bad.push( format!( "vec o+& {a} {b}" ) ); }
        if !panics( || x.clone() + y.clone() ) { bad.push( format!( "vec o+o {a} {b}" ) ); }
        if !panics( || &x - &y ) { bad.push( format!( "vec &-& {a} {b}" ) ); }
        if !panics( || x.clone() - &y ) { bad.push( format!( "vec o-& {a} {b}" ) ); }
        if !panics( || x.clone() - y.clone() ) { bad.push( format!( "vec o-o {a} {b}" ) ); }
        if !panics( || { let mut z = x.clone(); z += y.clone(); z } ) { bad.push( format!( "vec += {a} {b}" ) ); }
        if !panics( || { let mut z = x.clone(); z -= y.clone(); z } ) { bad.push( format!( "vec -= {a} {b}" ) ); }
        if !panics( || x.dot( &y ) ) { bad.push( format!( "vec dot {a} {b}" ) ); }
        if !panics( || x.dot_f64( &y ) ) { bad.push( format!( "vec dot_f64 {a} {b}" ) ); }
        // complex / integer
        let xc = Vector::<Cmplx>::new( a, Cmplx::new( 1.0, 2.0 ) ); let yc = Vector::<Cmplx>::new( b, Cmplx::new( 1.0, 2.0 ) );
        if !panics( || &xc + &yc ) { bad.push( format!( "cvec + {a} {b}" ) ); }
        if !panics( || xc.dot( &yc ) ) { bad.push( format!( "cvec dot {a} {b}" ) ); }
        let xi = Vector::<i32>::new( a, 3 ); let yi = Vector::<i32>::new( b, 3 );
        if !panics( || &xi - &yi ) { bad.push( format!( "ivec - {a} {b}" ) ); }
        if !panics( || { let mut z = xi.clone(); z += yi.clone(); z } ) { bad.push( format!( "ivec += {a} {b}" ) ); }
        // tridiagonal
        if a >= 1 && b >= 1 {
            let t = Tridiagonal::<f64>::with_elements( 1.0, 4.0, 1.0, a );
            let u = Tridiagonal::<f64>::with_elements( 1.0, 4.0, 1.0, b );
            if !panics( || t.clone() + u.clone() ) { bad.push( format!( "tri + {a} {b}" ) ); }
            if !panics( || t.clone() - u.clone() ) { bad.push( format!( "tri - {a} {b}" ) ); }
            if !panics( || &t * &y ) { bad.push( format!( "tri &*& {a} {b}" ) ); }
            if !panics( || t.clone() * y.clone() ) { bad.push( format!( "tri o*o {a} {b}" ) ); }
            if !panics( || t.solve( &y ) ) { bad.push( format!( "tri solve {a} {b}" ) ); }
        }
        if a >= 1 {
            // with_vectors wrong sub/sup
            if b != a - 1 {
                if !panics( || Tridiagonal::with_vectors( v(b), v(a), v(a-1) ) ) { bad.push( format!( "tri with_vectors sub {a} {b}" ) ); }
                if !panics( || Tridiagonal::with_vectors( v(a-1), v(a), v(b) ) ) { bad.push( format!( "tri with_vectors sup {a} {b}" ) ); }
                if !panics( || Tridiagonal::with_vecs( v(b).vec, v(a).vec, v(a-1).vec ) ) { bad.push( format!( "tri with_vecs sub {a} {b}" ) ); }
                if !panics( || Tridiagonal::with_vecs( v(a-1).vec, v(a).vec, v(b).vec ) ) { bad.push( format!( "tri with_vecs sup {a} {b}" ) ); }
            }
        }
        // banded n mismatch
        for (m1, m2) in [(0usize,0usize),(1,1),(2,1),(0,3)] {
            let p = Banded::<f64>::new( a, m1, m2, 1.0 );
            let q = Banded::<f64>::new( b, m1, m2, 1.0 );
            if !panics( || &p + &q ) { bad.push( format!( "band + {a} {b}" ) ); }
            if !panics( || &p - &q ) { bad.push( format!( "band - {a} {b}" ) ); }
            if !panics( || p.clone() + q.clone() ) { bad.push( format!( "band o+o {a} {b}" ) ); }
            if !panics( || p.clone() - q.clone() ) { bad.push( format!( "band o-o {a} {b}" ) ); }
            if !panics( || { let mut z = p.clone(); z += &q; z } ) { bad.push( format!( "band += {a} {b}" ) ); }
            if !panics( || { let mut z = p.clone(); z -= &q; z } ) { bad.push( format!( "band -= {a} {b}" ) ); }
            if !panics( || { let mut z = p.clone(); z += q.clone(); z } ) { bad.push( format!( "band +=o {a} {b}" ) ); }
            if !panics( || { let mut z = p.clone(); z -= q.clone(); z } ) { bad.push( format!( "band -=o {a} {b}" ) ); }
            if !panics( || &p * &y ) { bad.push( format!( "band * {a} {b} {m1} {m2}" ) ); }
            if !panics( || p.clone() * y.clone() ) { bad.push( format!( "band o*o {a} {b}" ) ); }
            if !panics( || p.solve( &y ) ) { bad.push( format!( "band solve {a} {b}" ) ); }
        }
    } }
    // banded m1/m2 mismatch same n
    for n in [1usize,2,3,6,9] { for m1 in 0..4usize { for m2 in 0..4usize { for k1 in 0..4usize { for k2 in 0..4usize {
        if (m1,m2) == (k1,k2) { continue; }
        let p = Banded::<f64>::new( n, m1, m2, 1.0 );
        let q = Banded::<f64>::new( n, k1, k2, 1.0 );
        if !panics( || &p + &q ) { bad.push( format!( "band + n{n} {m1}{m2} {k1}{k2}" ) ); }
        if !panics( || &p - &q ) { bad.push( format!( "band - n{n} {m1}{m2} {k1}{k2}" ) ); }
        if !panics( || { let mut z = p.clone(); z += &q; z } ) { bad.push( format!( "band += n{n} {m1}{m2} {k1}{k2}" ) ); }
        if !panics( || { let mut z = p.clone(); z -= &q; z } ) { bad.push( format!( "band -= n{n} {m1}{m2} {k1}{k2}" ) ); }
    } } } } }
    // banded fill_band range
    for n in [1usize,3,6] { for m1 in 0..3usize { for m2 in 0..3usize {
        let mut p = Banded::<f64>::new( n, m1, m2, 1.0 );
        for band in -5isize..=5 {
            let inr = band >= -(m1 as isize) && band <= m2 as isize;
            let before = p.clone();
            let pan = panics( || p.fill_band( band, 7.0 ) );
            if pan == inr { bad.push( format!( "band fill_band n{n} {m1}{m2} band {band} panic={pan}" ) ); }
            if pan && before != p { bad.push( format!( "band fill_band changed on failure" ) ); }
        }
    } } }
    // matrices
    let shapes: Vec<(usize,usize)> = { let d = [0usize,1,2,3,6,7,11]; let mut s = vec![]; for &r in &d { for &c in &d { s.push((r,c)); } } s };
    for &(r1,c1) in &shapes { for &(r2,c2) in &shapes {
        let ( p, q ) = ( m(r1,c1), m(r2,c2) );
        if (r1,c1) != (r2,c2) {
            if !panics( || &p + &q ) { bad.push( format!( "mat + {r1}x{c1} {r2}x{c2}" ) ); }
            if !panics( || &p - &q ) { bad.push( format!( "mat - {r1}x{c1} {r2}x{c2}" ) ); }
            if !panics( || p.clone() + q.clone() ) { bad.push( format!( "mat o+o {r1}x{c1} {r2}x{c2}" ) ); }
            if !panics( || p.clone() - q.clone() ) { bad.push( format!( "mat o-o {r1}x{c1} {r2}x{c2}" ) ); }
            let snap = p.clone();
            let mut z = p.clone();
            if !panics( || { z += &q; } ) { bad.push( format!( "mat += {r1}x{c1} {r2}x{c2}" ) ); }
            if z != snap { bad.push( format!( "mat += changed on failure" ) ); }
            if !panics( || { z -= &q; } ) { bad.push( format!( "mat -= {r1}x{c1} {r2}x{c2}" ) ); }
            if !panics( || { z += q.clone(); } ) { bad.push( format!( "mat +=o {r1}x{c1} {r2}x{c2}" ) ); }
            if !panics( || { z -= q.clone(); } ) { bad.push( format!( "mat -=o {r1}x{c1} {r2}x{c2}" ) ); }
            if z != snap { bad.push( format!( "mat -= changed on failure" ) ); }
        }
        if c1 != r2 {
            if !panics( || &p * &q ) { bad.push( format!( "mat * {r1}x{c1} {r2}x{c2}" ) ); }
            if !panics( || p.clone() * q.clone() ) { bad.push( format!( "mat o*o {r1}x{c1} {r2}x{c2}" ) ); }
        } else {
            // independent reference product
            let pr = &p * &q;
            assert_eq!( ( pr.rows(), pr.cols() ), ( r1, c2 ) );
            for i in 0..r1 { for j in 0..c2 { let mut s = 0.0; for k in 0..c1 { s += p[(i,k)] * q[(k,j)]; } if pr[(i,j)] != s { bad.push( format!( "mat * value" ) ); } } }
        }
    } }
    for &(r,c) in &shapes { for &n in &sizes {
        let p = m(r,c); let x = v(n);
        if n != c {
            if !panics( || p.multiply( &x ) ) { bad.push( format!( "mat multiply {r}x{c} {n}" ) ); }
            if !panics( || &p * &x ) { bad.push( format!( "mat &*&v {r}x{c} {n}" ) ); }
            if !panics( || p.clone() * x.clone() ) { bad.push( format!( "mat o*ov {r}x{c} {n}" ) ); }
        }
        for row in 0..r+2 {
            let ok = n == c && row < r;
            let mut z = p.clone();
            let pan = panics( || z.set_row( row, x.clone() ) );
            if pan == ok { bad.push( format!( "mat set_row {r}x{c} row {row} n {n} pan {pan}" ) ); }
            if pan && z != p { bad.push( format!( "set_row changed on failure" ) ); }
        }
        for col in 0..c+2 {
            let ok = n == r && col < c;
            let mut z = p.clone();
            let pan = panics( || z.set_col( col, x.clone() ) );
            if pan == ok { bad.push( format!( "mat set_col {r}x{c} col {col} n {n} pan {pan}" ) ); }
            if pan && z != p { bad.push( format!( "set_col changed on failure" ) ); }
        }
        if !( r == c && n == r ) {
            let mut z = p.clone();
            if !panics( || z.solve_basic( &x ) ) { bad.push( format!( "mat solve_basic {r}x{c} {n}" ) ); }
            if z != p { bad.push( format!( "solve_basic changed on failure {r}x{c} {n}" ) ); }
            if !panics( || z.solve_lu( &x ) ) { bad.push( format!( "mat solve_lu {r}x{c} {n}" ) ); }
            if z != p { bad.push( format!( "solve_lu changed on failure {r}x{c} {n}" ) ); }
        }
    } }
    for &(r,c) in &shapes {
        let p = m(r,c);
        for k in 0..r.max(c)+3 {
            if panics( || p.get_row( k ) ) == ( k < r ) { bad.push( format!( "get_row {r}x{c} {k}" ) ); }
            if panics( || p.get_col( k ) ) == ( k < c ) { bad.push( format!( "get_col {r}x{c} {k}" ) ); }
            let mut z = p.clone();
            if panics( || z.fill_row( k, 9.0 ) ) == ( k < r ) { bad.push( format!( "fill_row {r}x{c} {k}" ) ); }
            let mut z = p.clone();
            if panics( || z.fill_col( k, 9.0 ) ) == ( k < c ) { bad.push( format!( "fill_col {r}x{c} {k}" ) ); }
            let mut z = p.clone();
            if panics( || z.delete_row( k ) ) == ( k < r ) { bad.push( format!( "delete_row {r}x{c} {k}" ) ); }
            for k2 in 0..r+2 {
                let mut z = p.clone();
                if panics( || z.swap_rows( k, k2 ) ) == ( k < r && k2 < r ) { bad.push( format!( "swap_rows {r}x{c} {k} {k2}" ) ); }
            }
        }
        if r != c {
            if !panics( || p.determinant() ) { bad.push( format!( "determinant {r}x{c}" ) ); }
            if !panics( || p.inverse() ) { bad.push( format!( "inverse {r}x{c}" ) ); }
            let mut z = p.clone();
            if !panics( || z.lu_decomp_in_place() ) { bad.push( format!( "lu {r}x{c}" ) ); }
        }
    }
    let _ = std::panic::take_hook();
    assert!( bad.is_empty(), "{} failures, first: {:?}", bad.len(), &bad[..bad.len().min(40)] );
}
