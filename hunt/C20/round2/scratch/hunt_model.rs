use ohsl::*;

struct Rng(u64);
impl Rng { fn next(&mut self) -> u64 { self.0 ^= self.0 << 13; self.0 ^= self.0 >> 7; self.0 ^= self.0 << 17; self.0 }
           fn below(&mut self, n: usize) -> usize { ( self.next() % n as u64 ) as usize }
           fn val(&mut self) -> f64 { ( self.below( 19 ) as f64 ) - 9.0 } }

#[test]
fn mesh2d_model() {
    let mut g = Rng( 0x1234567 );
    for &(nx, ny, nv) in &[(1usize,1usize,1usize),(1,6,2),(6,1,2),(2,3,1),(3,2,4),(5,7,3),(7,5,3)] {
        let xs = Vec64::linspace( 0.0, 1.0, nx.max(2) ); let ys = Vec64::linspace( 2.0, 5.0, ny.max(2) );
        let mut xn = Vec64::empty(); for i in 0..nx { xn.push( xs[i] ); }
        let mut yn = Vec64::empty(); for j in 0..ny { yn.push( ys[j] ); }
        let mut me = Mesh2D::<f64>::new( xn.clone(), yn.clone(), nv );
        let mut model = vec![ vec![ vec![ 0.0f64; nv ]; ny ]; nx ];
        for step in 0..300 {
            let ( i, j, k ) = ( g.below( nx ), g.below( ny ), g.below( nv ) );
            match step % 4 {
                0 => { let mut w = Vec64::zeros( nv ); for q in 0..nv { w[q] = g.val(); model[i][j][q] = w[q]; } me.set_nodes_vars( i, j, w ); }
                1 => { let x = g.val(); me[(i,j)][k] = x; model[i][j][k] = x; }
                2 => { if step % 40 == 2 { me.apply( &|x, y| 3.0 * x - y, k ); for a in 0..nx { for b in 0..ny { model[a][b][k] = 3.0 * xn[a] - yn[b]; } } } }
                _ => { if step % 100 == 3 { me.assign( 1.5 ); for a in 0..nx { for b in 0..ny { for q in 0..nv { model[a][b][q] = 1.5; } } } } }
            }
            // query via all accessors
            let w = me.get_nodes_vars( i, j ); assert_eq!( w.vec, model[i][j] );
            assert_eq!( me[(i,j)].vec, model[i][j] );
            let cx = me.cross_section_xnode( i ); assert_eq!( cx.nnodes(), ny ); for b in 0..ny { assert_eq!( cx.get_nodes_vars( b ).vec, model[i][b] ); assert_eq!( cx.coord( b ), yn[b] ); }
            let cy = me.cross_section_ynode( j ); assert_eq!( cy.nnodes(), nx ); for a in 0..nx { assert_eq!( cy.get_nodes_vars( a ).vec, model[a][j] ); assert_eq!( cy.coord( a ), xn[a] ); }
            let mm = me.var_as_matrix( k ); assert_eq!( ( mm.rows(), mm.cols() ), ( nx, ny ) ); for a in 0..nx { for b in 0..ny { assert_eq!( mm[(a,b)], model[a][b][k] ); } }
            assert_eq!( me.coord( i, j ), ( xn[i], yn[j] ) );
        }
    }
}

fn dense_mul( d: &Vec<Vec<f64>>, x: &Vec<f64> ) -> Vec<f64> { d.iter().map( |r| { let mut s = 0.0; for (a,b) in r.iter().zip( x ) { s += a * b; } s } ).collect() }

#[test]
fn sparse_model() {
    let mut g = Rng( 0xabcdef1 );
    for &(r, c) in &[(1usize,1usize),(1,7),(7,1),(3,5),(6,6),(9,4),(12,17)] {
        let mut s = Sparse::<f64>::from_triplets( r, c, &mut vec![] );
        let mut model = vec![ vec![ None::<f64>; c ]; r ];
        for step in 0..200 {
            let ( i, j ) = ( g.below( r ), g.below( c ) );
            if step % 17 == 16 { s.scale( &2.0 ); for a in 0..r { for b in 0..c { if let Some( x ) = model[a][b] { model[a][b] = Some( 2.0 * x ); } } } }
            else { let x = g.val(); s.insert( i, j, x ); model[i][j] = Some( x ); }
            for a in 0..r { for b in 0..c { assert_eq!( s.get( a, b ), model[a][b], "get {a},{b} in {r}x{c} step {step}" ); } }
            let d = s.to_dense(); assert_eq!( ( d.rows(), d.cols() ), ( r, c ) );
            let md: Vec<Vec<f64>> = model.iter().map( |row| row.iter().map( |e| e.unwrap_or( 0.0 ) ).collect() ).collect();
            for a in 0..r { for b in 0..c { assert_eq!( d[(a,b)], md[a][b] ); } }
            let t = s.transpose(); assert_eq!( ( t.rows, t.cols ), ( c, r ) );
            for a in 0..r { for b in 0..c { assert_eq!( t.get( b, a ), model[a][b] ); } }
            let x: Vec<f64> = (0..c).map( |_| g.val() ).collect();
            let y = s.multiply( &Vector::create( x.clone() ) );
            // integer-valued data: exact regardless of order
            assert_eq!( y.vec, dense_mul( &md, &x ) );
            let z: Vec<f64> = (0..r).map( |_| g.val() ).collect();
            let mt: Vec<Vec<f64>> = (0..c).map( |b| (0..r).map( |a| md[a][b] ).collect() ).collect();
            assert_eq!( s.transpose_multiply( &Vector::create( z.clone() ) ).vec, dense_mul( &mt, &z ) );
            let nnz = model.iter().flatten().filter( |e| e.is_some() ).count();
            assert_eq!( s.nonzero, nnz ); assert_eq!( s.to_triplets().len(), nnz ); assert_eq!( s.col_index().size(), nnz );
        }
    }
}

#[test]
fn banded_tridiag_model() {
    let mut g = Rng( 0x777 );
    for n in 1..12usize { for m1 in 0..3usize.min(n) { for m2 in 0..3usize.min(n) {
        let mut b = Banded::<f64>::new( n, m1, m2, 0.0 );
        let mut d = vec![ vec![ 0.0; n ]; n ];
        for i in 0..n { for j in 0..n { if j <= i + m2 && i <= j + m1 { let x = g.val(); b[(i,j)] = x; d[i][j] = x; } } }
        let c = b.clone();
        let x: Vec<f64> = (0..n).map( |_| g.val() ).collect();
        let xv = Vector::create( x.clone() );
        assert_eq!( ( &b * &xv ).vec, dense_mul( &d, &x ) );
        assert_eq!( ( b.clone() * xv.clone() ).vec, dense_mul( &d, &x ) );
        assert!( b == c ); assert_eq!( xv.vec, x );
        let s = &b + &c; for i in 0..n { for j in 0..n { if j <= i + m2 && i <= j + m1 { assert_eq!( s[(i,j)], 2.0 * d[i][j] ); } } }
        let mut e = b.clone(); e[(0,0)] = 99.0; assert!( c[(0,0)] == d[0][0] && b[(0,0)] == d[0][0] );
        // band fill then read through index
        for band in -(m1 as isize)..=(m2 as isize) {
            let mut f = b.clone(); f.fill_band( band, 42.0 );
            for i in 0..n { for j in 0..n { if j <= i + m2 && i <= j + m1 {
                let want = if j as isize - i as isize == band { 42.0 } else { d[i][j] };
                assert_eq!( f[(i,j)], want );
            } } }
        }
    } } }
    for n in 1..12usize {
        let mut t = Tridiagonal::<f64>::new( n );
        let mut d = vec![ vec![ 0.0; n ]; n ];
        for i in 0..n { for j in 0..n { if i == j || i == j + 1 || i + 1 == j { let x = g.val(); t[(i,j)] = x; d[i][j] = x; } } }
        let dm = t.convert(); for i in 0..n { for j in 0..n { assert_eq!( dm[(i,j)], d[i][j] ); } }
        let x: Vec<f64> = (0..n).map( |_| g.val() ).collect();
        assert_eq!( ( &t * &Vector::create( x.clone() ) ).vec, dense_mul( &d, &x ) );
        let tt = t.transpose(); for i in 0..n { for j in 0..n { if i == j || i == j + 1 || i + 1 == j { assert_eq!( tt[(j,i)], d[i][j] ); assert_eq!( t[(i,j)], d[i][j] ); } } }
        let mut c = t.clone(); c[(0,0)] = 77.0; c *= 2.0; assert_eq!( t[(0,0)], d[0][0] );
    }
}

#[test]
fn matrix_edit_model() {
    let mut g = Rng( 0x4242 );
    for _case in 0..200 {
        let ( mut r, mut c ) = ( 1 + g.below( 7 ), 1 + g.below( 7 ) );
        let mut a = Mat64::new( r, c, 0.0 ); let mut d = vec![ vec![ 0.0; c ]; r ];
        for i in 0..r { for j in 0..c { let x = g.val(); a[(i,j)] = x; d[i][j] = x; } }
        for _step in 0..12 {
            match g.below( 7 ) {
                0 => { if r > 1 { let k = g.below( r ); a.delete_row( k ); d.remove( k ); r -= 1; } }
                1 => { a.transpose_in_place(); let mut t = vec![ vec![ 0.0; r ]; c ]; for i in 0..r { for j in 0..c { t[j][i] = d[i][j]; } } d = t; std::mem::swap( &mut r, &mut c ); }
                2 => { let ( nr, nc ) = ( 1 + g.below( 7 ), 1 + g.below( 7 ) ); a.resize( nr, nc ); let mut t = vec![ vec![ 0.0; nc ]; nr ]; for i in 0..nr.min(r) { for j in 0..nc.min(c) { t[i][j] = d[i][j]; } } d = t; r = nr; c = nc; }
                3 => { let ( p, q ) = ( g.below( r ), g.below( r ) ); a.swap_rows( p, q ); d.swap( p, q ); }
                4 => { let k = g.below( c ); let col: Vec<f64> = (0..r).map( |_| g.val() ).collect(); a.set_col( k, Vector::create( col.clone() ) ); for i in 0..r { d[i][k] = col[i]; } }
                5 => { let k = g.below( r ); let row: Vec<f64> = (0..c).map( |_| g.val() ).collect(); a.set_row( k, Vector::create( row.clone() ) ); d[k] = row; }
                _ => { let off = g.below( 9 ) as isize - 4; let x = g.val(); a.fill_band( off, x ); for i in 0..r { let j = i as isize + off; if j >= 0 && ( j as usize ) < c { d[i][j as usize] = x; } } }
            }
            assert_eq!( ( a.rows(), a.cols() ), ( r, c ) );
            for i in 0..r { assert_eq!( a.get_row( i ).vec, d[i] ); }
            for j in 0..c { let col: Vec<f64> = (0..r).map( |i| d[i][j] ).collect(); assert_eq!( a.get_col( j ).vec, col ); }
            let x: Vec<f64> = (0..c).map( |_| g.val() ).collect();
            assert_eq!( a.multiply( &Vector::create( x.clone() ) ).vec, dense_mul( &d, &x ) );
        }
    }
}
