// C20 finding 4: Mesh1D::trapezium / Mesh2D::trapezium / Mesh2D::square_trapezium return 0.0 for a
// variable index outside 0..nvars when the mesh has a single node in some direction (on any
// larger mesh the same call panics).
use ohsl::{Mesh1D, Mesh2D, Vector};
use std::panic::{catch_unwind, AssertUnwindSafe};

#[test]
fn mesh1d_trapezium_variable_out_of_range() {
    // reference behaviour on two nodes: panics
    let two = Mesh1D::<f64, f64>::new( Vector::create( vec![ 0.0, 1.0 ] ), 1 );
    assert!( catch_unwind( AssertUnwindSafe( || two.trapezium( 1 ) ) ).is_err() );
    // one node, one variable: variable 1 does not exist
    let one = Mesh1D::<f64, f64>::new( Vector::create( vec![ 0.0 ] ), 1 );
    let r = catch_unwind( AssertUnwindSafe( || one.trapezium( 1 ) ) );
    assert!( r.is_err(), "Mesh1D (1 node, 1 variable) trapezium( 1 ) returned {:?}", r.unwrap() );
}

#[test]
fn mesh2d_trapezium_variable_out_of_range() {
    let big = Mesh2D::<f64>::new( Vector::create( vec![ 0.0, 1.0 ] ), Vector::create( vec![ 0.0, 1.0 ] ), 1 );
    assert!( catch_unwind( AssertUnwindSafe( || big.trapezium( 1 ) ) ).is_err() );
    // 1 x 3 mesh, one variable
    let thin = Mesh2D::<f64>::new( Vector::create( vec![ 0.0 ] ), Vector::create( vec![ 0.0, 1.0, 2.0 ] ), 1 );
    let r = catch_unwind( AssertUnwindSafe( || ( thin.trapezium( 1 ), thin.square_trapezium( 7 ) ) ) );
    assert!( r.is_err(), "Mesh2D (1x3 nodes, 1 variable) trapezium( 1 ), square_trapezium( 7 ) returned {:?}", r.unwrap() );
}
