// C20: Sparse::col_start_from_index( &self, col_index ) takes one column index per stored entry
// ( col_index.size() == nonzero, every index < cols ).  A col_index of another size, or an index
// equal to cols ( out of range by one ), must panic; the crate returns a value instead.
use ohsl::{Sparse, Vector};
use std::panic::{catch_unwind, AssertUnwindSafe};

fn two_by_two() -> Sparse<f64> {
    // [ 1 0 ; 0 2 ] : nonzero = 2, cols = 2
    let mut t = vec![ ( 0usize, 0usize, 1.0f64 ), ( 1, 1, 2.0 ) ];
    Sparse::from_triplets( 2, 2, &mut t )
}

#[test]
fn reference_case_is_right() {
    let s = two_by_two();
    assert_eq!( s.col_start_from_index( &Vector::create( vec![ 0usize, 1 ] ) ), vec![ 0, 1, 2 ] );
}

#[test]
fn too_short_index_vector_panics() {
    // this one holds on the crate as it is ( the slice index panics )
    let s = two_by_two();
    let r = catch_unwind( AssertUnwindSafe( || s.col_start_from_index( &Vector::create( vec![ 0usize ] ) ) ) );
    assert!( r.is_err() );
}

#[test]
fn too_long_index_vector_must_panic() {
    let s = two_by_two();
    for extra in 1..=4usize {
        let mut ci = vec![ 0usize, 1 ];
        for _ in 0..extra { ci.push( 1 ); }
        let ci = Vector::create( ci );
        let r = catch_unwind( AssertUnwindSafe( || s.col_start_from_index( &ci ) ) );
        assert!( r.is_err(), "col_index of size {} for a matrix with 2 entries returned {:?}", 2 + extra, r.unwrap() );
    }
}

#[test]
fn column_index_equal_to_cols_must_panic() {
    let s = two_by_two();
    let ci = Vector::create( vec![ 0usize, 2 ] ); // column 2 of a 2-column matrix
    let r = catch_unwind( AssertUnwindSafe( || s.col_start_from_index( &ci ) ) );
    assert!( r.is_err(), "column index 2 of a 2-column matrix returned {:?}", r.unwrap() );
}
