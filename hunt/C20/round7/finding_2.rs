// C20: the variable index `var` of Mesh1D::trapezium, Mesh2D::trapezium and Mesh2D::square_trapezium
// must lie in 0..nvars.  For meshes with at least two nodes in every direction an out-of-range var
// panics ( Vector index ); on a mesh that is one node wide the crate returns 0.0 for a variable that
// does not exist.
use ohsl::{Mesh1D, Mesh2D, Vec64};
use std::panic::{catch_unwind, AssertUnwindSafe};

#[test]
fn ordinary_meshes_reject_a_missing_variable() {
    // holds on the crate as it is
    let m = Mesh1D::<f64, f64>::new( Vec64::create( vec![ 0.0, 1.0 ] ), 1 );
    assert!( catch_unwind( AssertUnwindSafe( || m.trapezium( 1 ) ) ).is_err() );
    let m = Mesh2D::<f64>::new( Vec64::create( vec![ 0.0, 1.0 ] ), Vec64::create( vec![ 0.0, 1.0 ] ), 1 );
    assert!( catch_unwind( AssertUnwindSafe( || m.trapezium( 1 ) ) ).is_err() );
    assert!( catch_unwind( AssertUnwindSafe( || m.square_trapezium( 1 ) ) ).is_err() );
}

#[test]
fn mesh1d_single_node_trapezium_of_missing_variable_must_panic() {
    let m = Mesh1D::<f64, f64>::new( Vec64::create( vec![ 0.5 ] ), 1 ); // 1 node, 1 variable ( index 0 )
    assert_eq!( m.trapezium( 0 ), 0.0 ); // the existing variable over a domain of zero width
    let r = catch_unwind( AssertUnwindSafe( || m.trapezium( 1 ) ) );
    assert!( r.is_err(), "Mesh1D ( 1 node, 1 variable ).trapezium( 1 ) returned {:?}", r.unwrap() );
}

#[test]
fn mesh2d_one_by_n_trapezium_of_missing_variable_must_panic() {
    // 1 x 4 mesh ( a single x node ), 2 variables ( indices 0 and 1 )
    let m = Mesh2D::<f64>::new( Vec64::create( vec![ 0.5 ] ), Vec64::create( vec![ 0.0, 1.0, 2.0, 3.0 ] ), 2 );
    let r = catch_unwind( AssertUnwindSafe( || m.trapezium( 2 ) ) );
    assert!( r.is_err(), "Mesh2D ( 1 x 4, 2 variables ).trapezium( 2 ) returned {:?}", r.unwrap() );
}

#[test]
fn mesh2d_n_by_one_square_trapezium_of_missing_variable_must_panic() {
    // 3 x 1 mesh ( a single y node ), 1 variable
    let m = Mesh2D::<f64>::new( Vec64::create( vec![ 0.0, 1.0, 2.0 ] ), Vec64::create( vec![ 0.5 ] ), 1 );
    let r = catch_unwind( AssertUnwindSafe( || m.square_trapezium( 5 ) ) );
    assert!( r.is_err(), "Mesh2D ( 3 x 1, 1 variable ).square_trapezium( 5 ) returned {:?}", r.unwrap() );
}
