// C20: node / variable arguments of Mesh2D::cross_section_xnode, cross_section_ynode and apply are
// range-checked only inside loops over the OTHER direction; on a mesh whose other direction has no
// nodes an out-of-range argument returns a value instead of panicking.
use ohsl::{Mesh2D, Vec64};
use std::panic::{catch_unwind, AssertUnwindSafe};

#[test]
fn ordinary_mesh_rejects_out_of_range_arguments() {
    // holds on the crate as it is
    let mut m = Mesh2D::<f64>::new( Vec64::create( vec![ 0.0, 1.0, 2.0 ] ), Vec64::create( vec![ 0.0, 1.0 ] ), 1 );
    assert!( catch_unwind( AssertUnwindSafe( || m.cross_section_xnode( 3 ).nnodes() ) ).is_err() );
    assert!( catch_unwind( AssertUnwindSafe( || m.cross_section_ynode( 2 ).nnodes() ) ).is_err() );
    assert!( catch_unwind( AssertUnwindSafe( || m.apply( &|x, y| x + y, 1 ) ) ).is_err() );
}

#[test]
fn cross_section_xnode_out_of_range_on_3_by_0_mesh_must_panic() {
    let m = Mesh2D::<f64>::new( Vec64::create( vec![ 0.0, 1.0, 2.0 ] ), Vec64::empty(), 1 ); // x nodes 0..3, no y nodes
    let r = catch_unwind( AssertUnwindSafe( || m.cross_section_xnode( 3 ).nnodes() ) );
    assert!( r.is_err(), "cross_section_xnode( 3 ) of a mesh with 3 x-nodes returned a mesh with {:?} nodes", r.unwrap() );
}

#[test]
fn cross_section_ynode_out_of_range_on_0_by_2_mesh_must_panic() {
    let m = Mesh2D::<f64>::new( Vec64::empty(), Vec64::create( vec![ 0.0, 1.0 ] ), 1 );
    let r = catch_unwind( AssertUnwindSafe( || m.cross_section_ynode( 7 ).nnodes() ) );
    assert!( r.is_err(), "cross_section_ynode( 7 ) of a mesh with 2 y-nodes returned a mesh with {:?} nodes", r.unwrap() );
}

#[test]
fn apply_to_missing_variable_on_3_by_0_mesh_must_panic() {
    let mut m = Mesh2D::<f64>::new( Vec64::create( vec![ 0.0, 1.0, 2.0 ] ), Vec64::empty(), 1 );
    let r = catch_unwind( AssertUnwindSafe( || m.apply( &|x, y| x + y, 4 ) ) );
    assert!( r.is_err(), "apply( f, 4 ) on a mesh with 1 variable returned" );
}
