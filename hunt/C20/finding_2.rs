// C20 finding 2: Sparse::from_vecs accepts operands of mismatched size / shape and row indices
// outside 0..rows, and returns a matrix that later answers queries silently.
use ohsl::{Sparse, Vector};
use std::panic::{catch_unwind, AssertUnwindSafe};

#[test]
fn from_vecs_val_and_row_index_of_different_length() {
    // 3 values but only 2 row indices (col_start says 2 entries)
    let r = catch_unwind( AssertUnwindSafe( || {
        let s = Sparse::<f64>::from_vecs( 2, 2, vec![ 1.0, 2.0, 3.0 ], vec![ 0, 1 ], vec![ 0, 1, 2 ] );
        ( s.to_triplets(), s.multiply( &Vector::create( vec![ 1.0, 1.0 ] ) ).vec )
    } ) );
    assert!( r.is_err(), "val.len() = 3, row_index.len() = 2 accepted; matrix answers {:?}", r.unwrap() );
}

#[test]
fn from_vecs_col_start_of_a_wider_matrix() {
    // col_start describes 2 columns, the matrix is declared 2 x 1
    let r = catch_unwind( AssertUnwindSafe( || {
        let s = Sparse::<f64>::from_vecs( 2, 1, vec![ 1.0, 2.0 ], vec![ 0, 1 ], vec![ 0, 1, 2 ] );
        ( s.nonzero, s.to_triplets(), s.multiply( &Vector::create( vec![ 1.0 ] ) ).vec )
    } ) );
    assert!( r.is_err(), "col_start.len() = 3 for cols = 1 accepted; (nonzero, triplets, A*[1]) = {:?}", r.unwrap() );
}

#[test]
fn from_vecs_row_index_equal_to_rows() {
    // row index 2 in a matrix with 2 rows
    let r = catch_unwind( AssertUnwindSafe( || {
        let s = Sparse::<f64>::from_vecs( 2, 2, vec![ 1.0, 2.0 ], vec![ 0, 2 ], vec![ 0, 1, 2 ] );
        ( s.to_triplets(), s.get( 1, 1 ), s.col_index().vec )
    } ) );
    assert!( r.is_err(), "row index 2 of a 2-row matrix accepted; (triplets, get(1,1), col_index) = {:?}", r.unwrap() );
}
