// C20 finding 3: Sparse::col_start_from_index accepts a column index equal to cols (one past the
// last column) and a col_index vector longer than the number of entries, and returns a value.
use ohsl::{Sparse, Vector};
use std::panic::{catch_unwind, AssertUnwindSafe};

fn diag2() -> Sparse<f64> {
    let mut t = vec![ ( 0, 0, 1.0 ), ( 1, 1, 2.0 ) ];
    Sparse::<f64>::from_triplets( 2, 2, &mut t )
}

#[test]
fn column_index_equal_to_cols_must_panic() {
    let s = diag2();
    // sanity: the in-range call
    assert_eq!( s.col_start_from_index( &Vector::create( vec![ 0, 1 ] ) ), vec![ 0, 1, 2 ] );
    // column 3 (two past the end) panics ...
    assert!( catch_unwind( AssertUnwindSafe( || s.col_start_from_index( &Vector::create( vec![ 0, 3 ] ) ) ) ).is_err() );
    // ... column 2 (one past the end) must panic as well
    let r = catch_unwind( AssertUnwindSafe( || s.col_start_from_index( &Vector::create( vec![ 0, 2 ] ) ) ) );
    assert!( r.is_err(), "column index 2 of a 2-column matrix accepted, returned {:?}", r.unwrap() );
}

#[test]
fn col_index_longer_than_nonzero_must_panic() {
    let s = diag2();
    // shorter than nonzero panics ...
    assert!( catch_unwind( AssertUnwindSafe( || s.col_start_from_index( &Vector::create( vec![ 0 ] ) ) ) ).is_err() );
    // ... longer must too
    let r = catch_unwind( AssertUnwindSafe( || s.col_start_from_index( &Vector::create( vec![ 0, 1, 1 ] ) ) ) );
    assert!( r.is_err(), "3 column indices for a matrix with 2 entries accepted, returned {:?}", r.unwrap() );
}
