// C20 finding 1: Matrix::swap_elem accepts a column argument outside 0..cols and silently
// swaps the storage of ANOTHER element instead of panicking.
use ohsl::Matrix;
use std::panic::{catch_unwind, AssertUnwindSafe};

#[test]
fn swap_elem_column_out_of_range_must_panic() {
    // 2 x 1 matrix  [ 10 ]
    //               [ 20 ]
    let mut a = Matrix::<f64>::new( 2, 1, 0.0 );
    a[(0,0)] = 10.0;
    a[(1,0)] = 20.0;
    // column 1 does not exist in a matrix with one column
    let result = catch_unwind( AssertUnwindSafe( || {
        let mut x = a.clone();
        x.swap_elem( 0, 1, 0, 0 );
        ( x[(0,0)], x[(1,0)] )
    } ) );
    assert!( result.is_err(),
        "swap_elem( 0, 1, 0, 0 ) on a 2x1 matrix did not panic; the matrix [10; 20] became {:?} \
         (element (1,0) was overwritten through the out-of-range position (0,1))", result.unwrap() );
}

#[test]
fn swap_elem_column_out_of_range_2x3() {
    let mut a = Matrix::<f64>::new( 2, 3, 0.0 );
    for i in 0..2 { for j in 0..3 { a[(i,j)] = ( 10 * i + j ) as f64; } }
    // (0,3): column 3 is one past the last column; flat index 3 is element (1,0)
    let result = catch_unwind( AssertUnwindSafe( || {
        let mut x = a.clone();
        x.swap_elem( 0, 3, 0, 0 );
        ( x[(0,0)], x[(1,0)] )
    } ) );
    assert!( result.is_err(), "swap_elem( 0, 3, 0, 0 ) on a 2x3 matrix did not panic; (0,0),(1,0) = {:?}, were (0.0, 10.0)", result.unwrap() );
}
