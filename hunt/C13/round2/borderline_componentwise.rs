// NOT filed as a finding: shows that the "few ulps" clause only holds NORMWISE (error relative to |z*w|),
// not component by component.  Every textbook (ac-bd, ad+bc) product behaves like this.
use ohsl::Cmplx;

#[test]
fn real_part_of_product_cancels_to_zero() {
    let e = f64::EPSILON;                       // 2^-52
    let z = Cmplx::new(1.0 + e, 1.0);
    let w = Cmplx::new(1.0 - e, 1.0);
    // exact: real = (1+e)(1-e) - 1 = -e^2 = -2^-104 (representable), imag = (1+e) + (1-e) = 2
    let p = z * w;
    assert_eq!(p.imag, 2.0);
    assert_eq!(p.real, -(e * e), "real part of ({:?})*({:?}) is {:e}, exact value is -2^-104", z, w, p.real);
}

#[test]
fn real_part_of_square_loses_half_its_digits() {
    let h = 2f64.powi(-27);
    let z = Cmplx::new(1.0 + h, 1.0);
    // exact: real = (1+h)^2 - 1 = 2^-26 + 2^-54 (representable), imag = 2(1+h)
    let p = z * z;
    let exact = 2f64.powi(-26) + 2f64.powi(-54);
    let ulps = ((p.real - exact) / exact).abs() / f64::EPSILON;
    assert!(ulps < 4.0, "real part off by {} ulps componentwise", ulps);
}
