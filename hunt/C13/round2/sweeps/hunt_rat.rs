// exact rational sweep of every Complex<T> operator form
use ohsl::{Complex, Number, Signed, Zero, One};
use std::ops::*;
use std::cmp::Ordering;

fn gcd(a: i128, b: i128) -> i128 { if b == 0 { a.abs() } else { gcd(b, a % b) } }

#[derive(Clone, Copy, Debug)]
struct Q { n: i128, d: i128 }
impl Q {
    fn new(n: i128, d: i128) -> Q {
        assert!(d != 0, "division by zero rational");
        let g = gcd(n, d);
        let (mut n, mut d) = if g == 0 { (0, 1) } else { (n / g, d / g) };
        if d < 0 { n = -n; d = -d; }
        Q { n, d }
    }
}
impl PartialEq for Q { fn eq(&self, o: &Q) -> bool { self.n == o.n && self.d == o.d } }
impl PartialOrd for Q { fn partial_cmp(&self, o: &Q) -> Option<Ordering> { (self.n * o.d).partial_cmp(&(o.n * self.d)) } }
impl Add for Q { type Output = Q; fn add(self, o: Q) -> Q { Q::new(self.n * o.d + o.n * self.d, self.d * o.d) } }
impl Sub for Q { type Output = Q; fn sub(self, o: Q) -> Q { Q::new(self.n * o.d - o.n * self.d, self.d * o.d) } }
impl Mul for Q { type Output = Q; fn mul(self, o: Q) -> Q { Q::new(self.n * o.n, self.d * o.d) } }
impl Div for Q { type Output = Q; fn div(self, o: Q) -> Q { Q::new(self.n * o.d, self.d * o.n) } }
impl Neg for Q { type Output = Q; fn neg(self) -> Q { Q::new(-self.n, self.d) } }
impl AddAssign for Q { fn add_assign(&mut self, o: Q) { *self = *self + o; } }
impl SubAssign for Q { fn sub_assign(&mut self, o: Q) { *self = *self - o; } }
impl MulAssign for Q { fn mul_assign(&mut self, o: Q) { *self = *self * o; } }
impl DivAssign for Q { fn div_assign(&mut self, o: Q) { *self = *self / o; } }
impl Zero for Q { fn zero() -> Q { Q::new(0, 1) } }
impl One for Q { fn one() -> Q { Q::new(1, 1) } }
impl Number for Q {}
impl Signed for Q { fn abs(&self) -> Q { Q::new(self.n.abs(), self.d) } }

type C = Complex<Q>;
fn c(a: Q, b: Q) -> C { Complex::new(a, b) }

// independent reference on raw integer pairs (numerators over a common denominator)
fn refq(n: i128, d: i128) -> Q { Q::new(n, d) }

fn vals() -> Vec<Q> {
    let mut v = vec![];
    for (n, d) in [(0, 1), (1, 1), (-1, 1), (2, 1), (-3, 1), (1, 2), (-1, 2), (2, 3), (-5, 7), (7, 5), (1009, 7), (-1, 1013), (3, 4)] {
        v.push(Q::new(n, d));
    }
    v
}

#[test]
fn all_forms_exact() {
    let v = vals();
    let mut count = 0u64;
    for &a in &v { for &b in &v { for &cc in &v { for &d in &v {
        let z = c(a, b); let w = c(cc, d);
        // reference formulas written on numerators/denominators directly
        let (an, ad, bn, bd, cn, cd, dn, dd) = (a.n, a.d, b.n, b.d, cc.n, cc.d, d.n, d.d);
        // add
        let r = z.clone() + w.clone();
        assert_eq!(r.real, refq(an * cd + cn * ad, ad * cd));
        assert_eq!(r.imag, refq(bn * dd + dn * bd, bd * dd));
        let mut t = z.clone(); t += w.clone(); assert!(t == r);
        // sub
        let r = z.clone() - w.clone();
        assert_eq!(r.real, refq(an * cd - cn * ad, ad * cd));
        assert_eq!(r.imag, refq(bn * dd - dn * bd, bd * dd));
        let mut t = z.clone(); t -= w.clone(); assert!(t == r);
        // mul: (ac - bd) + i(ad + bc)
        let r = z.clone() * w.clone();
        let re = refq(an * cn * bd * dd - bn * dn * ad * cd, ad * cd * bd * dd);
        let im = refq(an * dn * bd * cd + bn * cn * ad * dd, ad * dd * bd * cd);
        assert_eq!(r.real, re, "mul re {:?} {:?}", z, w);
        assert_eq!(r.imag, im, "mul im {:?} {:?}", z, w);
        let mut t = z.clone(); t *= w.clone(); assert!(t == r, "mul_assign {:?} {:?}", z, w);
        // commutativity
        assert!(w.clone() * z.clone() == r);
        // div
        if !(cn == 0 && dn == 0) {
            let r = z.clone() / w.clone();
            // check by multiplying back: r * w == z
            assert!(r.clone() * w.clone() == z, "div {:?} {:?}", z, w);
            let mut t = z.clone(); t /= w.clone(); assert!(t == r, "div_assign {:?} {:?}", z, w);
            // independent formula
            let den = refq(cn * cn * dd * dd + dn * dn * cd * cd, cd * cd * dd * dd);
            let nre = re_num(a, b, cc, d); let nim = im_num(a, b, cc, d);
            assert_eq!(r.real, nre / den); assert_eq!(r.imag, nim / den);
        }
        // neg, conj, abs_sqr
        let n = -z.clone(); assert_eq!(n.real, refq(-an, ad)); assert_eq!(n.imag, refq(-bn, bd));
        let k = z.conj(); assert_eq!(k.real, a); assert_eq!(k.imag, refq(-bn, bd));
        assert_eq!(z.abs_sqr(), refq(an * an * bd * bd + bn * bn * ad * ad, ad * ad * bd * bd));
        let zz = z.clone() * z.conj(); assert_eq!(zz.real, z.abs_sqr()); assert_eq!(zz.imag, Q::zero());
        // mixed with real scalar cc
        let r = z.clone() + cc; assert_eq!(r.real, refq(an * cd + cn * ad, ad * cd)); assert_eq!(r.imag, b);
        let mut t = z.clone(); t += cc; assert!(t == r);
        let r = z.clone() - cc; assert_eq!(r.real, refq(an * cd - cn * ad, ad * cd)); assert_eq!(r.imag, b);
        let mut t = z.clone(); t -= cc; assert!(t == r);
        let r = z.clone() * cc; assert_eq!(r.real, refq(an * cn, ad * cd)); assert_eq!(r.imag, refq(bn * cn, bd * cd));
        let mut t = z.clone(); t *= cc; assert!(t == r);
        assert!(r == z.clone() * c(cc, Q::zero()));
        if cn != 0 {
            let r = z.clone() / cc; assert_eq!(r.real, refq(an * cd, ad * cn)); assert_eq!(r.imag, refq(bn * cd, bd * cn));
            let mut t = z.clone(); t /= cc; assert!(t == r);
            assert!(r == z.clone() / c(cc, Q::zero()));
        }
        // identities
        assert!(z.clone() + C::zero() == z); assert!(C::zero() + z.clone() == z); assert!(z.clone() - C::zero() == z);
        assert!(z.clone() * C::one() == z); assert!(C::one() * z.clone() == z); assert!(z.clone() / C::one() == z);
        let mut t = z.clone(); t += C::zero(); assert!(t == z);
        let mut t = z.clone(); t -= C::zero(); assert!(t == z);
        let mut t = z.clone(); t *= C::one(); assert!(t == z);
        let mut t = z.clone(); t /= C::one(); assert!(t == z);
        let mut t = C::one(); t *= z.clone(); assert!(t == z);
        let mut t = C::zero(); t += z.clone(); assert!(t == z);
        // ordering trichotomy
        let lt = z < w; let eq = z == w; let gt = z > w;
        assert_eq!(lt as u8 + eq as u8 + gt as u8, 1, "trichotomy {:?} {:?}", z, w);
        let expect = if a != cc { a.partial_cmp(&cc) } else { b.partial_cmp(&d) };
        assert_eq!(z.partial_cmp(&w), expect);
        assert_eq!(z <= w, lt || eq); assert_eq!(z >= w, gt || eq); assert_eq!(z != w, !eq);
        assert_eq!(w > z, lt); assert_eq!(w < z, gt);
        count += 1;
    }}}}
    println!("checked {} quadruples", count);
}

fn re_num(a: Q, b: Q, c: Q, d: Q) -> Q { a * c + b * d }
fn im_num(a: Q, b: Q, c: Q, d: Q) -> Q { b * c - a * d }

#[test]
fn transitive_order() {
    let v = vals();
    let mut zs = vec![];
    for &a in v.iter().take(7) { for &b in v.iter().take(7) { zs.push(c(a, b)); } }
    for x in &zs { for y in &zs { for z in &zs {
        if x < y && y < z { assert!(x < z); }
        if x <= y && y <= z { assert!(x <= z); }
        if x == y && y == z { assert!(x == z); }
    }}}
}

// sequences of assignment operations on one object vs binary forms
#[test]
fn sequences() {
    let v = vals();
    for &a in &v { for &b in &v { for &cc in &v { for &d in &v {
        if cc.n == 0 && d.n == 0 { continue; }
        let z = c(a, b); let w = c(cc, d);
        let mut t = z.clone();
        t *= w.clone(); t /= w.clone(); assert!(t == z);
        t /= w.clone(); t *= w.clone(); assert!(t == z);
        t += w.clone(); t *= w.clone(); t -= w.clone() * w.clone(); t /= w.clone(); assert!(t == z);
        // self-aliased
        let mut s = w.clone(); s *= s.clone(); assert!(s == w.clone() * w.clone());
        let mut s = w.clone(); s /= s.clone(); assert!(s == C::one());
        let mut s = w.clone(); s -= s.clone(); assert!(s == C::zero());
    }}}}
}

#[test]
fn triples_field_axioms() {
    let v: Vec<Q> = vals().into_iter().take(9).collect();
    let mut zs = vec![];
    for &a in v.iter().step_by(2) { for &b in v.iter().skip(1).step_by(2) { zs.push(c(a, b)); zs.push(c(b, a)); } }
    zs.push(C::zero()); zs.push(C::one()); zs.push(c(Q::zero(), Q::one()));
    for x in &zs { for y in &zs { for z in &zs {
        let (x, y, z) = (x.clone(), y.clone(), z.clone());
        assert!((x.clone() * y.clone()) * z.clone() == x.clone() * (y.clone() * z.clone()));
        assert!((x.clone() + y.clone()) + z.clone() == x.clone() + (y.clone() + z.clone()));
        assert!(x.clone() * (y.clone() + z.clone()) == x.clone() * y.clone() + x.clone() * z.clone());
        if !(z == C::zero()) {
            assert!((x.clone() + y.clone()) / z.clone() == x.clone() / z.clone() + y.clone() / z.clone());
            if !(y == C::zero()) { assert!(x.clone() / y.clone() / z.clone() == x.clone() / (y.clone() * z.clone())); }
        }
        assert!((x.clone() * y.clone()).conj() == x.conj() * y.conj());
        assert!((x.clone() * y.clone()).abs_sqr() == x.abs_sqr() * y.abs_sqr());
    }}}
}
