use ohsl::{Complex, Cmplx, Zero, One, Signed};

fn bits(z: &Cmplx) -> (u64, u64) { (z.real.to_bits(), z.imag.to_bits()) }

struct Rng(u64);
impl Rng {
    fn next(&mut self) -> u64 { self.0 ^= self.0 << 13; self.0 ^= self.0 >> 7; self.0 ^= self.0 << 17; self.0 }
    fn f(&mut self) -> f64 {
        // log-uniform magnitude in 1e-100..1e100, random sign, sometimes special
        let k = self.next() % 16;
        let s = if self.next() & 1 == 0 { 1.0 } else { -1.0 };
        match k {
            0 => 0.0 * s,
            1 => 1.0e100 * s,
            2 => 1.0e-100 * s,
            3 => s,
            4 => s * f64::from_bits(1.0f64.to_bits() + 1),
            5 => s * f64::from_bits(1.0f64.to_bits() - 1),
            _ => {
                let m = 1.0 + (self.next() >> 12) as f64 / (1u64 << 52) as f64;
                let e = (self.next() % 661) as i32 - 330; // 2^-330..2^330 ~ 1e-99..1e99
                s * m * 2f64.powi(e)
            }
        }
    }
}

fn special() -> Vec<f64> {
    let one_up = f64::from_bits(1.0f64.to_bits() + 1);
    let one_dn = f64::from_bits(1.0f64.to_bits() - 1);
    let mut v = vec![0.0, 1.0, one_up, one_dn, 3.0, 1.0 / 3.0, 0.1, 1e100, 1e-100, 9.999999999999999e99, 1.0000000000000002e-100, 1e50, 1e-50, 7.0, 1.5e77];
    let n = v.len();
    for i in 0..n { let x = v[i]; v.push(-x); }
    v
}

// two_sum / two_prod error-free transformations
fn two_sum(a: f64, b: f64) -> (f64, f64) { let s = a + b; let bb = s - a; (s, (a - (s - bb)) + (b - bb)) }
fn two_prod(a: f64, b: f64) -> (f64, f64) { let p = a * b; (p, a.mul_add(b, -p)) }
// accurate sum of a handful of doubles: returns (hi, lo) with hi+lo ~ exact to ~2^-100 of sum |x_i|
fn dd_sum(xs: &[f64]) -> (f64, f64) {
    // sort by decreasing magnitude then cascade
    let mut v: Vec<f64> = xs.to_vec();
    v.sort_by(|a, b| b.abs().partial_cmp(&a.abs()).unwrap());
    let mut hi = 0.0; let mut lo = 0.0;
    for x in v { let (s, e) = two_sum(hi, x); hi = s; lo += e; }
    let (h, l) = two_sum(hi, lo); (h, l)
}

#[test]
fn assign_forms_bit_identical_and_identities() {
    let sp = special();
    let mut rng = Rng(0x9E3779B97F4A7C15);
    let mut cases: Vec<(f64, f64, f64, f64)> = vec![];
    for &a in &sp { for &b in &sp { for &c in &sp { for &d in &sp { cases.push((a, b, c, d)); } } } }
    for _ in 0..2_000_000 { cases.push((rng.f(), rng.f(), rng.f(), rng.f())); }
    let mut n = 0u64;
    for (a, b, c, d) in cases {
        let z = Cmplx::new(a, b); let w = Cmplx::new(c, d);
        let r = z + w; let mut t = z; t += w; assert_eq!(bits(&r), bits(&t), "add {:?} {:?}", z, w);
        assert_eq!(bits(&r), ((a + c).to_bits(), (b + d).to_bits()));
        let r = z - w; let mut t = z; t -= w; assert_eq!(bits(&r), bits(&t), "sub {:?} {:?}", z, w);
        assert_eq!(bits(&r), ((a - c).to_bits(), (b - d).to_bits()));
        let r = z * w; let mut t = z; t *= w; assert_eq!(bits(&r), bits(&t), "mul {:?} {:?}", z, w);
        let mut t = z; t *= t; assert_eq!(bits(&t), bits(&(z * z)));
        if !(c == 0.0 && d == 0.0) {
            let r = z / w; let mut t = z; t /= w; assert_eq!(bits(&r), bits(&t), "div {:?} {:?}", z, w);
            assert!(!r.real.is_nan() && !r.imag.is_nan(), "nan from {:?}/{:?}", z, w);
            assert!(r.real.is_finite() && r.imag.is_finite(), "inf from {:?}/{:?}", z, w);
            let mut t = w; t /= t; assert_eq!(bits(&t), bits(&(w / w)));
        }
        // mixed
        let r = z + c; let mut t = z; t += c; assert_eq!(bits(&r), bits(&t)); assert_eq!(bits(&r), ((a + c).to_bits(), b.to_bits()));
        let r = z - c; let mut t = z; t -= c; assert_eq!(bits(&r), bits(&t)); assert_eq!(bits(&r), ((a - c).to_bits(), b.to_bits()));
        let r = z * c; let mut t = z; t *= c; assert_eq!(bits(&r), bits(&t)); assert_eq!(bits(&r), ((a * c).to_bits(), (b * c).to_bits()));
        let l = c * z; assert_eq!(bits(&r), bits(&l));
        if c != 0.0 {
            let r = z / c; let mut t = z; t /= c; assert_eq!(bits(&r), bits(&t)); assert_eq!(bits(&r), ((a / c).to_bits(), (b / c).to_bits()));
        }
        // neg / conj / abs_sqr
        let m = -z; assert_eq!(bits(&m), ((-a).to_bits(), (-b).to_bits()));
        let k = z.conj(); assert_eq!(bits(&k), (a.to_bits(), (-b).to_bits()));
        assert_eq!(z.abs_sqr().to_bits(), (a * a + b * b).to_bits());
        // identities (value equality)
        let o = Cmplx::one(); let zr = Cmplx::zero();
        assert!(z + zr == z && zr + z == z && z - zr == z);
        assert!(z * o == z && o * z == z && z / o == z, "one {:?} -> {:?} {:?} {:?}", z, z * o, o * z, z / o);
        let mut t = z; t *= o; assert!(t == z); let mut t = z; t /= o; assert!(t == z);
        let mut t = o; t *= z; assert!(t == z);
        let mut t = z; t += zr; assert!(t == z); let mut t = zr; t += z; assert!(t == z);
        assert!(z * 1.0 == z && z / 1.0 == z && z + 0.0 == z && z - 0.0 == z && 1.0 * z == z);
        // order
        let lt = z < w; let eq = z == w; let gt = z > w;
        assert_eq!(lt as u8 + eq as u8 + gt as u8, 1);
        assert_eq!(z <= w, lt || eq); assert_eq!(z >= w, gt || eq);
        let expect = if a != c { a.partial_cmp(&c) } else { b.partial_cmp(&d) };
        assert_eq!(z.partial_cmp(&w), expect);
        n += 1;
    }
    println!("{} cases", n);
}

#[test]
fn accuracy_normwise() {
    let sp = special();
    let mut rng = Rng(0xD1B54A32D192ED03);
    let mut cases: Vec<(f64, f64, f64, f64)> = vec![];
    for &a in &sp { for &b in &sp { for &c in &sp { for &d in &sp { cases.push((a, b, c, d)); } } } }
    for _ in 0..2_000_000 { cases.push((rng.f(), rng.f(), rng.f(), rng.f())); }
    // near-cancelling: w ~ conj-ish of z scaled
    for _ in 0..500_000 {
        let a = rng.f(); let b = rng.f(); if a == 0.0 || b == 0.0 { continue; }
        // choose c,d so that ac ~ bd : c = b*k, d = a*k(1+tiny)
        let k = rng.f(); if k == 0.0 { continue; }
        let c = b * k; let d = a * k;
        if c.abs() > 1e100 || c.abs() < 1e-100 || d.abs() > 1e100 || d.abs() < 1e-100 { continue; }
        cases.push((a, b, c, d)); cases.push((a, b, d, c)); cases.push((a, b, c, -d)); cases.push((a, b, -d, c));
    }
    let eps = f64::EPSILON; // 2^-52; unit roundoff u = eps/2
    let (mut wm, mut wd, mut wa) = (0.0f64, 0.0f64, 0.0f64);
    let mut wm_in = (0.0, 0.0, 0.0, 0.0); let mut wd_in = wm_in;
    for (a, b, c, d) in cases {
        let z = Cmplx::new(a, b); let w = Cmplx::new(c, d);
        if (a == 0.0 && b == 0.0) || (c == 0.0 && d == 0.0) { continue; }
        // product
        let p = z * w;
        let (ac, ace) = two_prod(a, c); let (bd, bde) = two_prod(b, d);
        let (ad, ade) = two_prod(a, d); let (bc, bce) = two_prod(b, c);
        let (erh, erl) = dd_sum(&[ac, ace, -bd, -bde, -p.real]);
        let (eih, eil) = dd_sum(&[ad, ade, bc, bce, -p.imag]);
        let er = erh + erl; let ei = eih + eil;
        let (trh, _) = dd_sum(&[ac, ace, -bd, -bde]); let (tih, _) = dd_sum(&[ad, ade, bc, bce]);
        let norm = trh.hypot(tih);
        let e = er.hypot(ei) / norm / eps;
        if e > wm { wm = e; wm_in = (a, b, c, d); }
        // quotient q = z / w : residual q*w - z, relative to |z| (exact error = residual / |w|, relative error = |res|/|z|)
        let q = z / w;
        let (x, y) = (q.real, q.imag);
        let (xc, xce) = two_prod(x, c); let (yd, yde) = two_prod(y, d);
        let (xd, xde) = two_prod(x, d); let (yc, yce) = two_prod(y, c);
        let (rrh, rrl) = dd_sum(&[xc, xce, -yd, -yde, -a]);
        let (rih, ril) = dd_sum(&[xd, xde, yc, yce, -b]);
        let e = (rrh + rrl).hypot(rih + ril) / a.hypot(b) / eps;
        if e > wd { wd = e; wd_in = (a, b, c, d); }
        // abs_sqr and abs
        let s = z.abs_sqr();
        let (aa, aae) = two_prod(a, a); let (bb, bbe) = two_prod(b, b);
        let (eh, el) = dd_sum(&[aa, aae, bb, bbe, -s]);
        let e = ((eh + el) / s / eps).abs(); if e > wa { wa = e; }
        let m = Cmplx::abs(&z);
        let h = a.hypot(b);
        assert!(((m - h) / h).abs() <= 2.0 * eps, "abs {:?} {} {}", z, m, h);
        let sg = Signed::abs(&z); assert_eq!(sg.real.to_bits(), m.to_bits()); assert_eq!(sg.imag, 0.0);
    }
    println!("worst mul normwise {} eps at {:?}", wm, wm_in);
    println!("worst div normwise {} eps at {:?}", wd, wd_in);
    println!("worst abs_sqr {} eps", wa);
    assert!(wm < 4.0 && wd < 6.0 && wa < 2.0);
}
