use ohsl::{Complex, Zero, One};

#[test]
fn f32_forms() {
    let one_up = f32::from_bits(1.0f32.to_bits() + 1);
    let mut v = vec![0.0f32, 1.0, one_up, 3.0, 1.0 / 3.0, 0.1, 1e15, 1e-15, 7.5];
    let n = v.len(); for i in 0..n { let x = v[i]; v.push(-x); }
    for &a in &v { for &b in &v { for &c in &v { for &d in &v {
        let z = || Complex::<f32>::new(a, b); let w = || Complex::<f32>::new(c, d);
        let bits = |z: &Complex<f32>| (z.real.to_bits(), z.imag.to_bits());
        let r = z() + w(); let mut t = z(); t += w(); assert_eq!(bits(&r), bits(&t));
        let r = z() - w(); let mut t = z(); t -= w(); assert_eq!(bits(&r), bits(&t));
        let r = z() * w(); let mut t = z(); t *= w(); assert_eq!(bits(&r), bits(&t));
        // reference in f64 (exact products of f32 fit in f64; sum of two has <= 1 rounding at 2^-53)
        let re = (a as f64) * (c as f64) - (b as f64) * (d as f64);
        let im = (a as f64) * (d as f64) + (b as f64) * (c as f64);
        let nrm = re.hypot(im);
        if nrm > 0.0 {
            let e = ((r.real as f64 - re).hypot(r.imag as f64 - im)) / nrm / (f32::EPSILON as f64);
            assert!(e < 3.0, "f32 mul {} {:?} {:?}", e, z(), w());
        }
        if !(c == 0.0 && d == 0.0) {
            let r = z() / w(); let mut t = z(); t /= w(); assert_eq!(bits(&r), bits(&t));
            let den = (c as f64) * (c as f64) + (d as f64) * (d as f64);
            let re = ((a as f64) * (c as f64) + (b as f64) * (d as f64)) / den;
            let im = ((b as f64) * (c as f64) - (a as f64) * (d as f64)) / den;
            let nrm = re.hypot(im);
            if nrm > 0.0 {
                let e = ((r.real as f64 - re).hypot(r.imag as f64 - im)) / nrm / (f32::EPSILON as f64);
                assert!(e < 5.0, "f32 div {} {:?} {:?}", e, z(), w());
            }
        }
        let r = z() * c; let mut t = z(); t *= c; assert_eq!(bits(&r), bits(&t));
        let r = z() + c; let mut t = z(); t += c; assert_eq!(bits(&r), bits(&t));
        let r = z() - c; let mut t = z(); t -= c; assert_eq!(bits(&r), bits(&t));
        if c != 0.0 { let r = z() / c; let mut t = z(); t /= c; assert_eq!(bits(&r), bits(&t)); }
        assert!(z() * Complex::<f32>::one() == z() && z() + Complex::<f32>::zero() == z() && z() / Complex::<f32>::one() == z());
        let lt = z() < w(); let eq = z() == w(); let gt = z() > w();
        assert_eq!(lt as u8 + eq as u8 + gt as u8, 1);
    }}}}
}

#[test]
fn i64_ring_forms() {
    let v: Vec<i64> = vec![0, 1, -1, 2, -3, 5, 7, -11, 1000, -99999];
    for &a in &v { for &b in &v { for &c in &v { for &d in &v {
        let z = || Complex::<i64>::new(a, b); let w = || Complex::<i64>::new(c, d);
        let r = z() * w(); assert_eq!((r.real, r.imag), (a * c - b * d, a * d + b * c));
        let mut t = z(); t *= w(); assert!(t == r);
        let r = z() + w(); let mut t = z(); t += w(); assert!(t == r); assert_eq!((r.real, r.imag), (a + c, b + d));
        let r = z() - w(); let mut t = z(); t -= w(); assert!(t == r); assert_eq!((r.real, r.imag), (a - c, b - d));
        assert_eq!(z().abs_sqr(), a * a + b * b);
        let k = z().conj(); assert_eq!((k.real, k.imag), (a, -b));
        let m = -z(); assert_eq!((m.real, m.imag), (-a, -b));
        if !(c == 0 && d == 0) {
            // exact when divisible: (z*w)/w == z
            let p = z() * w(); let q = p / w(); assert!(q == z(), "{:?} {:?}", z(), w());
            let mut t = z() * w(); t /= w(); assert!(t == z());
        }
        assert!(z() * Complex::<i64>::one() == z() && Complex::<i64>::one() * z() == z() && z() + Complex::<i64>::zero() == z());
        let lt = z() < w(); let eq = z() == w(); let gt = z() > w();
        assert_eq!(lt as u8 + eq as u8 + gt as u8, 1);
    }}}}
}

#[test]
fn f64_transitive() {
    let one_up = f64::from_bits(1.0f64.to_bits() + 1);
    let v = [0.0, -0.0, 1.0, one_up, -1.0, 1e100, -1e100, 1e-100, -1e-100];
    let mut zs = vec![];
    for &a in &v { for &b in &v { zs.push(Complex::<f64>::new(a, b)); } }
    for x in &zs { for y in &zs { for z in &zs {
        if x < y && y < z { assert!(x < z); }
        if x <= y && y <= z { assert!(x <= z); }
        if x == y && y == z { assert!(x == z); }
        if x == y && y < z { assert!(x < z); }
        if x < y && y == z { assert!(x < z); }
    }}}
}
